/-
C04 — the source → sink line: every step of the run loop preserves the invariant.
-/
import SimProc.Proofs.C04SourceSink

set_option linter.unusedSimpArgs false

namespace SimProc
namespace C04
namespace SS
open World

theorem cls_cons_eq {c : Int} {e : Event} (l : List Event) (h : e.asset = c) :
    cls c (e :: l) = key e :: cls c l := by rw [cls_cons, if_pos h]

theorem cls_cons_ne {c : Int} {e : Event} (l : List Event) (h : e.asset ≠ c) :
    cls c (e :: l) = cls c l := by rw [cls_cons, if_neg h]

/-- The terminate event is popped: the run is over, and the next hand-over is after `T`. -/
theorem case_term (P : Par) (T : Int) (s : S) (k : Nat) (sm : SrcMode) (km : SnkMode)
    (h0 : 0 ≤ P.c0) (hn : 0 ≤ P.cn) (inv : RunInv P T s k sm km) (e : Event) (rest : List Event)
    (h : s.evs = e :: rest) (ha : e.asset = -1) :
    ∃ s', (W P s).step = some (e, W P s') ∧ Done P T s' := by
  have hs := inv.core.sorted
  rw [h] at hs
  have kT := inv.kT
  rw [h, cls_cons_eq _ ha] at kT
  obtain ⟨hk, _⟩ := List.cons.inj kT
  obtain ⟨ht, hp, _, hact, hc⟩ := key_fields hk
  have kS := inv.kS
  rw [h, cls_cons_ne _ (by omega)] at kS
  have kK := inv.kK
  rw [h, cls_cons_ne _ (by omega)] at kK
  have hsucc := D0_succ P h0 hn k
  refine ⟨_, step_term P s e rest h hc hact, ⟨rfl, k, inv.core.ent, inv.core.rc, ?_, ?_,
    inv.core.bud, ?_⟩⟩
  · have := inv.core.plen
    show k ≤ s.parts.length
    omega
  · intro i hi
    have := inv.core.dk
    have := inv.nowT
    have := D0_mono P h0 hn (by omega : i + 1 ≤ k)
    omega
  · cases sm with
    | cycling =>
      right
      have := later_of_key hs (c := 1) (t := D0 P k + P.c0) (pr := 32) (a := 1) (act := 2)
        (b := false) (by rw [kS]; exact List.mem_singleton.2 rfl) (by omega)
      omega
    | ready t =>
      right
      have := later_of_key hs (c := 1) (t := t) (pr := 28) (a := 1) (act := 3)
        (b := false) (by rw [kS]; exact List.mem_singleton.2 rfl) (by omega)
      have := inv.src.2.2.2
      omega
    | blocked =>
      right
      have hb : km = .busy := inv.src.2.2.1
      subst hb
      have := later_of_key hs (c := 2) (t := F P k) (pr := 32) (a := 2) (act := 18)
        (b := false) (by rw [kK]; exact List.mem_singleton.2 rfl) (by omega)
      omega
    | exhausted =>
      left
      exact inv.src.2.2

/-- The popped event is not later than the terminate event. -/
theorem head_le_T {P : Par} {T : Int} {s : S} {k : Nat} {sm : SrcMode} {km : SnkMode}
    (inv : RunInv P T s k sm km) {e : Event} {rest : List Event} (h : s.evs = e :: rest)
    (ha : e.asset ≠ -1) : e.time ≤ T := by
  have hs := inv.core.sorted
  rw [h] at hs
  have kT := inv.kT
  rw [h, cls_cons_ne _ ha] at kT
  exact notlater_of_key hs (c := -1) (t := T) (pr := 4) (a := -1) (act := 0) (b := false)
    (by rw [kT]; exact List.mem_singleton.2 rfl)

/-- The source finishes its cycle: the next part is generated and the hand-over is requested. -/
theorem case_F0 (P : Par) (T : Int) (s : S) (k : Nat) (km : SnkMode)
    (inv : RunInv P T s k .cycling km) (e : Event) (rest : List Event)
    (h : s.evs = e :: rest) (ha : e.asset = 1) :
    ∃ s', (W P s).step = some (e, W P s') ∧ RunInv P T s' k (.ready e.time) km := by
  have kS := inv.kS
  rw [h, cls_cons_eq _ ha] at kS
  obtain ⟨hk, kS'⟩ := List.cons.inj kS
  obtain ⟨ht, hp, _, hact, hc⟩ := key_fields hk
  have kT := inv.kT
  rw [h, cls_cons_ne _ (by omega)] at kT
  have kK := inv.kK
  rw [h, cls_cons_ne _ (by omega)] at kK
  have hle : s.now ≤ e.time := inv.core.fut e (by simp [h])
  have cp := inv.core.pop h
  obtain ⟨hout, hwds, hc0⟩ := inv.src
  have hstep := step_live P s e rest h inv.term hc (by omega)
  rw [hact] at hstep
  have hex : (W P (pop s e rest)).exec (Action.ofNat 2) = W P (generated P (pop s e rest)) :=
    W_finishCycle0 P (pop s e rest) cp.now0 hout cp.pok
  rw [hex] at hstep
  refine ⟨_, hstep, ?_⟩
  rw [generated_eq]
  refine { core := (cp.gen hout).push _ _ _ _ (Int.le_refl _) (by omega), nowT := ?_, term := rfl,
           kT := ?_, kS := ?_, kK := ?_, src := ?_, snk := ?_ }
  · exact head_le_T inv h (by omega)
  · show cls (-1) (insort _ rest) = _
    rw [cls_insort_ne _ _ _ (by simp [mkEv]), kT]
  · show cls 1 (insort _ rest) = _
    rw [cls_insort_eq _ _ _ (by simp [mkEv]) kS']
    rfl
  · show cls 2 (insort _ rest) = _
    rw [cls_insort_ne _ _ _ (by simp [mkEv]), kK]
  · exact ⟨⟨_, rfl⟩, rfl, by show D0 P k + P.c0 ≤ e.time; omega, Or.inl ht⟩
  · exact inv.snk.mono rfl rfl hle

/-- The state right after a hand-over, before the source restarts its cycle. -/
structure Mid (P : Par) (T : Int) (X : S) (k : Nat) (km : SnkMode) : Prop where
  core : Core P X k
  nowT : X.now ≤ T
  term : X.term = false
  kT : cls (-1) X.evs = [termKey T]
  kS : cls 1 X.evs = []
  kK : cls 2 X.evs = snkKeys P k km
  out : X.out = none
  wds : X.wds = false
  snk : SnkCond P X k km
  dnow : D0 P k = X.now

/-- The source restarts its cycle after a hand-over. -/
theorem restart (P : Par) (T : Int) (X : S) (k : Nat) (km : SnkMode) (h0 : 0 ≤ P.c0)
    (m : Mid P T X k km) :
    ∃ s' sm', (W P X).scheduleFinish 0 = W P s' ∧ RunInv P T s' k sm' km := by
  by_cases hc : 0 < P.c0
  · refine ⟨_, .cycling, W_scheduleFinish0_pos P X hc, ?_⟩
    show RunInv P T (push P X (X.now + P.c0) 1 (.finishCycle 0) pFinish) k .cycling km
    refine { core := m.core.push _ _ _ _ (by omega) (by omega), nowT := m.nowT, term := m.term,
             kT := ?_, kS := ?_, kK := ?_, src := ⟨m.out, m.wds, hc⟩, snk := m.snk.mono rfl rfl (Int.le_refl _) }
    · show cls (-1) (insort _ X.evs) = _
      rw [cls_insort_ne _ _ _ (by simp [mkEv]), m.kT]
    · show cls 1 (insort _ X.evs) = _
      rw [cls_insort_eq _ _ _ (by simp [mkEv]) m.kS, key_mkEv, srcKeys, m.dnow]
      rfl
    · show cls 2 (insort _ X.evs) = _
      rw [cls_insort_ne _ _ _ (by simp [mkEv]), m.kK]
  · have hz : P.c0 = 0 := by omega
    refine ⟨generated P X, .ready X.now, ?_, ?_⟩
    · rw [W_scheduleFinish0_zero P X hz]
      exact W_finishCycle0 P X m.core.now0 m.out m.core.pok
    · rw [generated_eq]
      refine { core := (m.core.gen m.out).push _ _ _ _ (Int.le_refl _) (by omega), nowT := m.nowT,
               term := m.term, kT := ?_, kS := ?_, kK := ?_, src := ?_,
               snk := m.snk.mono rfl rfl (Int.le_refl _) }
      · show cls (-1) (insort _ X.evs) = _
        rw [cls_insort_ne _ _ _ (by simp [mkEv]), m.kT]
      · show cls 1 (insort _ X.evs) = _
        rw [cls_insort_eq _ _ _ (by simp [mkEv]) m.kS]
        rfl
      · show cls 2 (insort _ X.evs) = _
        rw [cls_insort_ne _ _ _ (by simp [mkEv]), m.kK]
      · have := m.dnow
        exact ⟨⟨_, rfl⟩, rfl, by show D0 P k + P.c0 ≤ X.now; omega,
          Or.inl (by show X.now = D0 P k + P.c0; omega)⟩

/-- The source passes its part to the idle sink. -/
theorem handover (P : Par) (T : Int) (s : S) (k : Nat) (t : Int) (h0 : 0 ≤ P.c0) (hn : 0 ≤ P.cn)
    (inv : RunInv P T s k (.ready t) .idle) (e : Event) (rest : List Event)
    (h : s.evs = e :: rest) (ha : e.asset = 1) (hnb : ∀ B, P.budget = some B → k < B) :
    ∃ X km', (W P (pop s e rest)).passPart 0 = (W P X).scheduleFinish 0 ∧ Mid P T X (k + 1) km' := by
  have kS := inv.kS
  rw [h, cls_cons_eq _ ha] at kS
  obtain ⟨hk, kS'⟩ := List.cons.inj kS
  obtain ⟨ht, _, _, _, _⟩ := key_fields hk
  have kT := inv.kT
  rw [h, cls_cons_ne _ (by omega)] at kT
  have kK := inv.kK
  rw [h, cls_cons_ne _ (by omega)] at kK
  have hle : s.now ≤ e.time := inv.core.fut e (by simp [h])
  have cp := inv.core.pop h
  obtain ⟨⟨p, hout⟩, hwds, hge, hor⟩ := inv.src
  obtain ⟨hfree, hF⟩ := inv.snk
  have hT : e.time ≤ T := head_le_T inv h (by omega)
  have hd : D0 P (k + 1) = (pop s e rest).now := by
    show D0 P (k + 1) = e.time
    rw [D0_succ P h0 hn k]
    omega
  have hB' : ∀ B, P.budget = some B → (pop s e rest).produced < (B : Int) := by
    intro B hB
    show s.produced < (B : Int)
    have := hnb B hB
    rw [inv.core.prod]
    omega
  have cpass := cp.pass p hout hnb hd
  have hFs := F_succ P h0 hn k
  by_cases hcn : 0 < P.cn
  · refine ⟨push P (tweak (passS (pop s e rest) p) s.wds (some p) none) (e.time + P.cn) 2
        (.finishCycle 1) pFinish, .busy, ?_, ?_⟩
    · exact W_passPart0_free P (pop s e rest) _ p hB' hout hfree cp.sout cp.pok
        (W_scheduleFinish1_pos P (accepted (pop s e rest) p) hcn)
    · refine { core := (cpass.tweak _ _ _).push _ _ _ _ (by show e.time ≤ e.time + P.cn; omega)
                 (by omega),
               nowT := hT, term := rfl, kT := ?_, kS := ?_, kK := ?_, out := rfl, wds := hwds,
               snk := ⟨⟨p, rfl⟩, rfl, hcn⟩, dnow := hd }
      · show cls (-1) (insort _ rest) = _
        rw [cls_insort_ne _ _ _ (by simp [mkEv]), kT]
      · show cls 1 (insort _ rest) = _
        rw [cls_insort_ne _ _ _ (by simp [mkEv]), kS']
      · show cls 2 (insort _ rest) = _
        rw [cls_insort_eq _ _ _ (by simp [mkEv]) kK, key_mkEv, snkKeys, hFs, hd]
        rfl
  · have hz : P.cn = 0 := by omega
    refine ⟨tweak (passS (pop s e rest) p) s.wds none (some e.time), .idle, ?_, ?_⟩
    · have hs' : (W P (accepted (pop s e rest) p)).scheduleFinish 1 =
          W P (wake P { accepted (pop s e rest) p with spart := none }) := by
        rw [W_scheduleFinish1_zero _ _ hz]
        exact W_finishCycle1 P (accepted (pop s e rest) p) p cp.now0 rfl rfl cp.sout
      have hw : wake P { accepted (pop s e rest) p with spart := none } =
          { accepted (pop s e rest) p with spart := none, since := some e.time } := by
        unfold wake
        rw [if_neg]
        · rfl
        · show ¬ (s.wds = true)
          rw [hwds]; decide
      rw [hw] at hs'
      exact W_passPart0_free P (pop s e rest) _ p hB' hout hfree cp.sout cp.pok hs'
    · refine { core := cpass.tweak _ _ _, nowT := hT, term := rfl, kT := kT, kS := kS', kK := kK,
               out := rfl, wds := hwds, snk := ⟨rfl, ?_⟩, dnow := hd }
      show F P (k + 1) ≤ e.time
      have : D0 P (k + 1) = e.time := hd
      omega

/-- Termination measure for a source with budget `B`: the events that can still happen before the
budget is used up. -/
def rank : SrcMode → Nat
  | .cycling => 3
  | .ready _ => 2
  | .blocked => 0
  | .exhausted => 0

def phi (B k : Nat) (sm : SrcMode) (km : SnkMode) : Nat :=
  7 * (B - k) + rank sm + (match km with | .busy => 3 | .idle => 0)

/-- The source tries to pass its part on. -/
theorem case_P0 (P : Par) (T : Int) (s : S) (k : Nat) (t : Int) (km : SnkMode) (h0 : 0 ≤ P.c0)
    (hn : 0 ≤ P.cn) (inv : RunInv P T s k (.ready t) km) (e : Event) (rest : List Event)
    (h : s.evs = e :: rest) (ha : e.asset = 1) :
    ∃ s' k' sm' km', (W P s).step = some (e, W P s') ∧ RunInv P T s' k' sm' km' ∧
      ∀ B, P.budget = some B → phi B k' sm' km' < phi B k (.ready t) km := by
  have kS := inv.kS
  rw [h, cls_cons_eq _ ha] at kS
  obtain ⟨hk, kS'⟩ := List.cons.inj kS
  obtain ⟨ht, _, _, hact, hc⟩ := key_fields hk
  have kT := inv.kT
  rw [h, cls_cons_ne _ (by omega)] at kT
  have kK := inv.kK
  rw [h, cls_cons_ne _ (by omega)] at kK
  have hle : s.now ≤ e.time := inv.core.fut e (by simp [h])
  have cp := inv.core.pop h
  have hT : e.time ≤ T := head_le_T inv h (by omega)
  have hstep := step_live P s e rest h inv.term hc (by omega)
  rw [hact] at hstep
  have hsrc := inv.src
  obtain ⟨⟨p, hout⟩, hwds, hge, hor⟩ := hsrc
  by_cases hex : ∃ B, P.budget = some B ∧ B ≤ k
  · -- the budget is used up: nothing happens
    obtain ⟨B, hB, hx⟩ := hex
    have hexec : (W P (pop s e rest)).exec (Action.ofNat 3) = W P (pop s e rest) :=
      W_passPart0_exhausted P (pop s e rest) B hB (by
        show (B : Int) ≤ s.produced
        rw [inv.core.prod]; omega)
    rw [hexec] at hstep
    exact ⟨_, k, .exhausted, km, hstep,
      { core := cp, nowT := hT, term := rfl, kT := kT, kS := kS', kK := kK,
        src := ⟨⟨p, hout⟩, hwds, B, hB, hx⟩, snk := inv.snk.mono rfl rfl hle },
      fun B' _ => by simp only [phi, rank]; omega⟩
  · have hnb : ∀ B, P.budget = some B → k < B := by
      intro B hB
      by_cases hlt : k < B
      · exact hlt
      · exact absurd ⟨B, hB, by omega⟩ hex
    cases km with
    | busy =>
      obtain ⟨⟨q, hq⟩, hsince, hcn⟩ := inv.snk
      have hexec : (W P (pop s e rest)).exec (Action.ofNat 3) =
          W P (tweak (pop s e rest) true s.spart s.since) :=
        W_passPart0_busy P (pop s e rest) p q (by
          intro B hB
          show s.produced < (B : Int)
          have := hnb B hB
          rw [inv.core.prod]; omega) hout hq
      rw [hexec] at hstep
      exact ⟨_, k, .blocked, .busy, hstep,
        { core := cp.tweak _ _ _, nowT := hT, term := rfl, kT := kT, kS := kS', kK := kK,
          src := ⟨⟨p, hout⟩, rfl, rfl, by show D0 P k + P.c0 ≤ e.time; omega⟩,
          snk := ⟨⟨q, hq⟩, hsince, hcn⟩ },
        fun B' _ => by simp only [phi, rank]; omega⟩
    | idle =>
      obtain ⟨X, km', hpass, mid⟩ := handover P T s k t h0 hn inv e rest h ha hnb
      obtain ⟨s', sm', hfin, inv'⟩ := restart P T X (k + 1) km' h0 mid
      have hexec : (W P (pop s e rest)).exec (Action.ofNat 3) = W P s' := by
        show (W P (pop s e rest)).passPart 0 = _
        rw [hpass, hfin]
      rw [hexec] at hstep
      refine ⟨s', k + 1, sm', km', hstep, inv', fun B hB => ?_⟩
      have := hnb B hB
      have h1 : rank sm' ≤ 3 := by cases sm' <;> simp [rank]
      have h2 : (match km' with | .busy => 3 | .idle => 0) ≤ 3 := by cases km' <;> simp
      have h3 : rank (.ready t) = 2 := rfl
      simp only [phi]
      omega

/-- The sink finishes its cycle and frees its slot; a blocked source is woken up. -/
theorem case_F1 (P : Par) (T : Int) (s : S) (k : Nat) (sm : SrcMode)
    (inv : RunInv P T s k sm .busy) (e : Event) (rest : List Event)
    (h : s.evs = e :: rest) (ha : e.asset = 2) :
    ∃ s' sm', (W P s).step = some (e, W P s') ∧ RunInv P T s' k sm' .idle ∧
      ∀ B, phi B k sm' .idle < phi B k sm .busy := by
  have kK := inv.kK
  rw [h, cls_cons_eq _ ha] at kK
  obtain ⟨hk, kK'⟩ := List.cons.inj kK
  obtain ⟨ht, _, _, hact, hc⟩ := key_fields hk
  have kT := inv.kT
  rw [h, cls_cons_ne _ (by omega)] at kT
  have kS := inv.kS
  rw [h, cls_cons_ne _ (by omega)] at kS
  have hle : s.now ≤ e.time := inv.core.fut e (by simp [h])
  have cp := inv.core.pop h
  have hT : e.time ≤ T := head_le_T inv h (by omega)
  have hstep := step_live P s e rest h inv.term hc (by omega)
  rw [hact] at hstep
  obtain ⟨⟨q, hq⟩, hsince, hcn⟩ := inv.snk
  have hexec : (W P (pop s e rest)).exec (Action.ofNat 18) =
      W P (wake P { pop s e rest with spart := none }) :=
    W_finishCycle1 P (pop s e rest) q cp.now0 hsince hq cp.sout
  rw [hexec] at hstep
  have hFk : F P k ≤ e.time := by omega
  by_cases hw : s.wds = true
  · -- the source was blocked: it tries again now
    have hwake : wake P { pop s e rest with spart := none } =
        push P (tweak (pop s e rest) false none (some e.time)) e.time 1 (.passPart 0) pPassPart := by
      unfold wake
      rw [if_pos (by exact hw)]
      rfl
    rw [hwake] at hstep
    cases sm with
    | blocked =>
      obtain ⟨hout, _, _, hge⟩ := inv.src
      refine ⟨_, .ready e.time, hstep,
        { core := (cp.tweak _ _ _).push _ _ _ _ (Int.le_refl _) (by omega), nowT := hT, term := rfl,
          kT := ?_, kS := ?_, kK := ?_,
          src := ⟨hout, rfl, by omega, Or.inr ht⟩, snk := ⟨rfl, hFk⟩ },
        fun B => by simp only [phi, rank]; omega⟩
      · show cls (-1) (insort _ rest) = _
        rw [cls_insort_ne _ _ _ (by simp [mkEv]), kT]
      · show cls 1 (insort _ rest) = _
        rw [cls_insort_eq _ _ _ (by simp [mkEv]) kS]
        rfl
      · show cls 2 (insort _ rest) = _
        rw [cls_insort_ne _ _ _ (by simp [mkEv]), kK']
        rfl
    | cycling => have := inv.src.2.1; rw [hw] at this; exact absurd this (by decide)
    | ready t => have := inv.src.2.1; rw [hw] at this; exact absurd this (by decide)
    | exhausted => have := inv.src.2.1; rw [hw] at this; exact absurd this (by decide)
  · have hwake : wake P { pop s e rest with spart := none } =
        tweak (pop s e rest) s.wds none (some e.time) := by
      unfold wake
      rw [if_neg (by exact hw)]
      rfl
    rw [hwake] at hstep
    refine ⟨_, sm, hstep,
      { core := cp.tweak _ _ _, nowT := hT, term := rfl, kT := kT, kS := kS, kK := kK',
        src := ?_, snk := ⟨rfl, hFk⟩ }, fun B => by simp only [phi]; omega⟩
    cases sm with
    | cycling => exact inv.src
    | ready t => exact inv.src
    | exhausted => exact inv.src
    | blocked => exact absurd inv.src.2.1 hw

/-- One iteration of the run loop. -/
theorem run_step (P : Par) (T : Int) (s : S) (k : Nat) (sm : SrcMode) (km : SnkMode)
    (h0 : 0 ≤ P.c0) (hn : 0 ≤ P.cn) (inv : RunInv P T s k sm km) :
    (W P s).env.running = true ∧
    ∃ e s', (W P s).step = some (e, W P s') ∧
      ((∃ k' sm' km', RunInv P T s' k' sm' km' ∧
          ∀ B, P.budget = some B → phi B k' sm' km' < phi B k sm km) ∨ Done P T s') := by
  obtain ⟨e, rest, h⟩ : ∃ e rest, s.evs = e :: rest := by
    cases hs : s.evs with
    | nil => have := inv.kT; rw [hs] at this; simp [cls] at this
    | cons e rest => exact ⟨e, rest, rfl⟩
  constructor
  · show (!s.evs.isEmpty && !s.term) = true
    rw [h, inv.term]; rfl
  rcases inv.core.cover e (by simp [h]) with ha | ha | ha
  · obtain ⟨s', hs, d⟩ := case_term P T s k sm km h0 hn inv e rest h ha
    exact ⟨e, s', hs, Or.inr d⟩
  · have kS := inv.kS
    rw [h, cls_cons_eq _ ha] at kS
    cases sm with
    | cycling =>
      obtain ⟨s', hs, i⟩ := case_F0 P T s k km inv e rest h ha
      exact ⟨e, s', hs, Or.inl ⟨_, _, _, i, fun B _ => by simp only [phi, rank]; omega⟩⟩
    | ready t =>
      obtain ⟨s', k', sm', km', hs, i, hphi⟩ := case_P0 P T s k t km h0 hn inv e rest h ha
      exact ⟨e, s', hs, Or.inl ⟨_, _, _, i, hphi⟩⟩
    | blocked => simp [srcKeys] at kS
    | exhausted => simp [srcKeys] at kS
  · have kK := inv.kK
    rw [h, cls_cons_eq _ ha] at kK
    cases km with
    | busy =>
      obtain ⟨s', sm', hs, i, hphi⟩ := case_F1 P T s k sm inv e rest h ha
      exact ⟨e, s', hs, Or.inl ⟨_, _, _, i, fun B _ => hphi B⟩⟩
    | idle => simp [snkKeys] at kK

/-- The run loop: if it completes without running out of fuel, it ends in a `Done` world. -/
theorem run_loop (P : Par) (T : Int) (h0 : 0 ≤ P.c0) (hn : 0 ≤ P.cn) (f : Nat) (s : S)
    (hs : (∃ k sm km, RunInv P T s k sm km) ∨ Done P T s)
    (he : (runLoop f (W P s)).error = none) :
    ∃ s', runLoop f (W P s) = W P s' ∧ Done P T s' := by
  induction f generalizing s with
  | zero => simp [runLoop, setErr, W] at he
  | succ f ih =>
    rcases hs with ⟨k, sm, km, inv⟩ | d
    · obtain ⟨hrun, e, s', hstep, hs'⟩ := run_step P T s k sm km h0 hn inv
      have : runLoop (f + 1) (W P s) = runLoop f (W P s') := by
        simp only [runLoop, hrun, if_true, hstep]
      rw [this] at he ⊢
      refine ih s' ?_ he
      rcases hs' with ⟨k', sm', km', i, _⟩ | d
      · exact Or.inl ⟨k', sm', km', i⟩
      · exact Or.inr d
    · have hrun : (W P s).env.running = false := by
        show (!s.evs.isEmpty && !s.term) = false
        rw [d.term]; simp
      have : runLoop (f + 1) (W P s) = W P s := by
        simp [runLoop, hrun]
      rw [this]
      exact ⟨s, rfl, d⟩

/-- With a finite budget `B` the run loop completes: the fuel `phi + 2` suffices. -/
theorem run_total (P : Par) (T : Int) (h0 : 0 ≤ P.c0) (hn : 0 ≤ P.cn) (B : Nat)
    (hB : P.budget = some B) (f : Nat) (s : S) (k : Nat) (sm : SrcMode) (km : SnkMode)
    (inv : RunInv P T s k sm km) (hf : phi B k sm km + 2 ≤ f) :
    (runLoop f (W P s)).error = none := by
  induction f generalizing s k sm km with
  | zero => omega
  | succ f ih =>
    obtain ⟨hrun, e, s', hstep, hs'⟩ := run_step P T s k sm km h0 hn inv
    have : runLoop (f + 1) (W P s) = runLoop f (W P s') := by
      simp only [runLoop, hrun, if_true, hstep]
    rw [this]
    rcases hs' with ⟨k', sm', km', i, hphi⟩ | d
    · have := hphi B hB
      exact ih s' k' sm' km' i (by omega)
    · have hrun' : (W P s').env.running = false := by
        show (!s'.evs.isEmpty && !s'.term) = false
        rw [d.term]; simp
      obtain ⟨f', rfl⟩ : ∃ f', f = f' + 1 := ⟨f - 1, by omega⟩
      have : runLoop (f' + 1) (W P s') = W P s' := by
        simp only [runLoop, hrun', Bool.false_eq_true, if_false]
      rw [this]
      rfl

theorem initS_now (P : Par) : (initS P).now = 0 := by unfold initS; split <;> rfl
theorem initS_term (P : Par) : (initS P).term = true := by unfold initS; split <;> rfl

theorem core_empty (P : Par) : Core P {} 0 :=
  { now0 := Int.le_refl _, sorted := List.Pairwise.nil, fut := by intro e he; simp at he,
    cover := by intro e he; simp at he, pok := PartsOK_nil, sout := rfl, prod := rfl, rc := rfl,
    ent := rfl, dk := by rw [D0_zero]; exact Int.le_refl _, bud := fun B _ => Nat.zero_le B,
    plen := rfl }

/-- The invariant holds when the run begins. -/
theorem init_inv (P : Par) (T : Int) (h0 : 0 ≤ P.c0) (hT : 0 ≤ T) :
    ∃ sm, RunInv P T
      { initS P with term := false,
                     evs := insort (mkEv P (initS P).uid ((initS P).now + T) (-1) .terminate pTerminate)
                              (initS P).evs,
                     uid := (initS P).uid + 1 } 0 sm .idle := by
  have hF : F P 0 ≤ 0 := by rw [F_zero]; exact Int.le_refl _
  unfold initS
  by_cases hc : P.c0 ≤ 0
  · rw [if_pos hc]
    have hz : P.c0 = 0 := by omega
    have c1 : Core P (generated P {}) 0 := by
      rw [generated_eq]
      exact ((core_empty P).gen rfl).push _ _ _ _ (Int.le_refl _) (by omega)
    have c2 := c1.push ((generated P {}).now + T) (-1) .terminate pTerminate
      (by show (0 : Int) ≤ 0 + T; omega) (by omega)
    refine ⟨.ready 0,
      { core := { now0 := c2.now0, sorted := c2.sorted, fut := c2.fut, cover := c2.cover,
                  pok := c2.pok, sout := c2.sout, prod := c2.prod, rc := c2.rc, ent := c2.ent,
                  dk := c2.dk, bud := c2.bud, plen := c2.plen },
        nowT := hT, term := rfl, kT := ?_, kS := ?_, kK := ?_, src := ?_, snk := ⟨rfl, hF⟩ }⟩
    · show cls (-1) (insort _ (insort _ [])) = _
      rw [cls_insort_eq _ _ _ (by simp [mkEv]) (by simp [insort, cls_cons, mkEv, cls])]
      show [((0 : Int) + T, (4 : Int), (-1 : Int), 0, false)] = [(T, 4, -1, 0, false)]
      rw [Int.zero_add]
    · show cls 1 (insort _ (insort _ [])) = _
      rw [cls_insort_ne _ _ _ (by simp [mkEv])]
      rfl
    · show cls 2 (insort _ (insort _ [])) = _
      rw [cls_insort_ne _ _ _ (by simp [mkEv])]
      rfl
    · refine ⟨⟨_, rfl⟩, rfl, ?_, Or.inl ?_⟩
      · rw [D0_zero]; omega
      · rw [D0_zero]; omega
  · rw [if_neg hc]
    have c1 : Core P (push P {} P.c0 1 (.finishCycle 0) pFinish) 0 :=
      (core_empty P).push _ _ _ _ (by show (0 : Int) ≤ P.c0; omega) (by omega)
    have c2 := c1.push ((0 : Int) + T) (-1) .terminate pTerminate
      (by show (0 : Int) ≤ 0 + T; omega) (by omega)
    refine ⟨.cycling,
      { core := { now0 := c2.now0, sorted := c2.sorted, fut := c2.fut, cover := c2.cover,
                  pok := c2.pok, sout := c2.sout, prod := c2.prod, rc := c2.rc, ent := c2.ent,
                  dk := c2.dk, bud := c2.bud, plen := c2.plen },
        nowT := hT, term := rfl, kT := ?_, kS := ?_, kK := ?_, src := ⟨rfl, rfl, by omega⟩,
        snk := ⟨rfl, hF⟩ }⟩
    · show cls (-1) (insort _ [_]) = _
      rw [cls_insort_eq _ _ _ (by simp [mkEv]) (by simp [cls_cons, mkEv, cls])]
      show [((0 : Int) + T, (4 : Int), (-1 : Int), 0, false)] = [(T, 4, -1, 0, false)]
      rw [Int.zero_add]
    · show cls 1 (insort _ [_]) = _
      rw [cls_insort_ne _ _ _ (by simp [mkEv])]
      show [(P.c0, (32 : Int), (1 : Int), 2, false)] = [(D0 P 0 + P.c0, 32, 1, 2, false)]
      rw [D0_zero, Int.zero_add]
    · show cls 2 (insort _ [_]) = _
      rw [cls_insort_ne _ _ _ (by simp [mkEv])]
      rfl

/-- **The run of the source → sink line ends in a `Done` world** (if it completes). -/
theorem run_done (P : Par) (T : Int) (f : Nat) (h0 : 0 ≤ P.c0) (hn : 0 ≤ P.cn)
    (he : (runLine (line P) P.seed P.wmod T f).error = none) :
    ∃ s', runLine (line P) P.seed P.wmod T f = W P s' ∧ Done P T s' := by
  unfold runLine at he ⊢
  rw [W_init P h0] at he ⊢
  by_cases hT : 0 ≤ T
  · rw [W_runBegin_ok P _ T hT] at he ⊢
    obtain ⟨sm, inv⟩ := init_inv P T h0 hT
    exact run_loop P T h0 hn f _ (Or.inl ⟨0, sm, .idle, inv⟩) he
  · rw [W_runBegin_neg P _ T (by omega)] at he ⊢
    refine run_loop P T h0 hn f _ (Or.inr ⟨initS_term P, 0, ?_, ?_, Nat.zero_le _, ?_, ?_, Or.inr ?_⟩) he
    · unfold initS; split <;> rfl
    · unfold initS; split <;> rfl
    · intro i hi; omega
    · intro B _; exact Nat.zero_le B
    · have := D0_nonneg P h0 hn (0 + 1)
      omega

/-- **With a finite budget the run completes**, given `7 * B + 5` units of fuel. -/
theorem run_completes (P : Par) (T : Int) (f : Nat) (h0 : 0 ≤ P.c0) (hn : 0 ≤ P.cn) (B : Nat)
    (hB : P.budget = some B) (hf : 7 * B + 5 ≤ f) :
    (runLine (line P) P.seed P.wmod T f).error = none := by
  unfold runLine
  rw [W_init P h0]
  by_cases hT : 0 ≤ T
  · rw [W_runBegin_ok P _ T hT]
    obtain ⟨sm, inv⟩ := init_inv P T h0 hT
    refine run_total P T h0 hn B hB f _ 0 sm .idle inv ?_
    have h1 : rank sm ≤ 3 := by cases sm <;> simp [rank]
    simp only [phi]
    omega
  · rw [W_runBegin_neg P _ T (by omega)]
    have hrun' : (W P (initS P)).env.running = false := by
      show (!(initS P).evs.isEmpty && !(initS P).term) = false
      rw [initS_term]; simp
    obtain ⟨f', rfl⟩ : ∃ f', f = f' + 1 := ⟨f - 1, by omega⟩
    have : runLoop (f' + 1) (W P (initS P)) = W P (initS P) := by
      simp only [runLoop, hrun', Bool.false_eq_true, if_false]
    rw [this]
    rfl

end SS
end C04
end SimProc
