/-
C08W, part 6: the routing invariant along the event loop of a statically well-formed world.
-/
import SimProc.Proofs.C08WFloor
import SimProc.Proofs.StaticWorld
namespace SimProc
namespace C08W
open World C02V C08L FloorCoreL

/-! ### the parts table is not touched by anything but the factory floor -/

theorem foldl_parts {α} (g : World → α → World) (l : List α) (w : World)
    (h : ∀ w a, (g w a).parts = w.parts) : (l.foldl g w).parts = w.parts :=
  foldl_preserve World.parts g l w h

theorem parts_shutdownDev (w : World) (x : Nat) (f : Bool) (l : Option Nat) :
    (w.shutdownDev x f l).parts = w.parts := by
  unfold World.shutdownDev; dsimp only
  repeat' split
  all_goals simp [foldl_parts]

theorem parts_restoreDev (w : World) (x : Nat) : (w.restoreDev x).parts = w.parts := by
  unfold World.restoreDev; dsimp only
  repeat' split
  all_goals simp [foldl_parts]

theorem parts_releaseIfIdle (w : World) (x : Nat) : (w.releaseIfIdle x).parts = w.parts := by
  unfold World.releaseIfIdle; split <;> simp

theorem parts_procResourceCb (w : World) (x : Nat) : (w.procResourceCb x).parts = w.parts := by
  unfold World.procResourceCb; simp

theorem parts_startOrders (w : World) (m : Nat) (l : List Order) : (w.startOrders m l).parts = w.parts := by
  unfold World.startOrders; simp [foldl_parts]

theorem parts_schedUpdate (w : World) (s : Nat) (b : Bool) : (w.schedUpdate s b).parts = w.parts := by
  unfold World.schedUpdate; dsimp only
  split
  · rfl
  · simp only [schedLib_parts]
    rw [foldl_parts]
    · rfl
    · intro w a; rfl

theorem parts_periodicSense (w : World) (s : Nat) : (w.periodicSense s).parts = w.parts := by
  unfold World.periodicSense; dsimp only
  simp only [schedLib_parts]
  rw [foldl_parts]
  intro w a; rfl

theorem parts_applyOp_static (w : World) (op : Op) (h1 : ∀ d ups, op ≠ .rewire d ups)
    (h2 : ∀ s, op ≠ .create s) : (w.applyOp op).1.parts = w.parts := by
  cases op
  case rewire d ups => exact absurd rfl (h1 d ups)
  case create s => exact absurd rfl (h2 s)
  case workOrder m tgt tag info =>
    unfold World.applyOp; dsimp only
    rw [parts_startOrders]
    split <;> rfl
  all_goals
    unfold World.applyOp
    dsimp only
    repeat' split
    all_goals first
      | rfl
      | simp [parts_shutdownDev, parts_restoreDev, World.setVar]

variable {nb nc : Prop}

/-! ### the frame of everything that is not a factory-floor action -/

structure RF (w w' : World) : Prop where
  sv : sv w' = sv w
  tv : tv w' = tv w
  parts : w'.parts = w.parts
  scr : w'.scripts = w.scripts
  pc : pcv w' = pcv w

theorem RF.refl (w : World) : RF w w := ⟨rfl, rfl, rfl, rfl, rfl⟩
theorem RF.trans {a b c : World} (h1 : RF a b) (h2 : RF b c) : RF a c :=
  ⟨h2.sv.trans h1.sv, h2.tv.trans h1.tv, h2.parts.trans h1.parts, h2.scr.trans h1.scr,
    h2.pc.trans h1.pc⟩

theorem RF.of_st {w w' : World} (h1 : C02V.sv w' = C02V.sv w) (h2 : st w' = st w)
    (h3 : w'.parts = w.parts) (h4 : w'.scripts = w.scripts) (h5 : pcv w' = pcv w) : RF w w' :=
  ⟨h1, tv_of_st h2, h3, h4, h5⟩

theorem RouteN.of_rf {w w' : World} (h : RouteN nb nc w) (r : RF w w') : RouteN nb nc w' :=
  h.of_frame r.sv (topo_of_tv r.tv) r.parts r.pc

theorem NoCb.of_rf {w w' : World} (h : NoCb w) (r : RF w w') : NoCb w' := h.of_pcv r.pc

theorem InvW.of_rf {w w' : World} (h : InvW w) (r : RF w w') : InvW w' := h.of_sv r.sv

theorem scriptsStatic_of_rf {w w' : World} (h : ScriptsStatic w) (r : RF w w') : ScriptsStatic w' := by
  intro l hl op hop
  rw [r.scr] at hl
  exact opStatic_of_tv r.tv op (h l hl op hop)

theorem rf_applyOp (w : World) (op : Op) (h : OpStatic w op) : RF w (w.applyOp op).1 := by
  have h1 : ∀ d ups, op ≠ .rewire d ups := by intro d ups e; subst e; exact h
  have h2 : ∀ s, op ≠ .create s := by intro s e; subst e; exact h
  exact ⟨sv_applyOp_noncreate w op h2, tv_applyOp_static w op h, parts_applyOp_static w op h1 h2,
    scr_applyOp w op, pcv_applyOp_static w op h1 h2⟩

theorem rf_applyOps (ops : List Op) : ∀ (w : World), (∀ op ∈ ops, OpStatic w op) →
    RF w (w.applyOps ops) := by
  induction ops with
  | nil => intro w _; exact RF.refl w
  | cons op ops ih =>
    intro w hok
    unfold World.applyOps
    simp only [List.foldl_cons]
    have r1 : RF w ((w.applyOp op).1.addRes (w.applyOp op).2) :=
      (rf_applyOp w op (hok op (List.mem_cons_self ..))).trans ⟨rfl, rfl, rfl, rfl, rfl⟩
    have := ih ((w.applyOp op).1.addRes (w.applyOp op).2)
      (fun o ho => opStatic_of_tv r1.tv o (hok o (List.mem_cons_of_mem _ ho)))
    unfold World.applyOps at this
    exact r1.trans this

theorem rf_runScript (w : World) (k : Nat) (h : ScriptsStatic w) : RF w (w.runScript k) := by
  unfold World.runScript
  apply rf_applyOps
  intro op hop
  by_cases hk : k < w.scripts.length
  · have : w.scripts.getD k [] = w.scripts[k] := by simp [List.getD_eq_getElem?_getD, hk]
    rw [this] at hop
    exact h _ (List.getElem_mem hk) op hop
  · have : w.scripts.getD k [] = [] := by simp [List.getD_eq_getElem?_getD, Nat.le_of_not_lt hk]
    rw [this] at hop; cases hop

theorem rf_scan (n : Nat) : ∀ (w : World) (i : Nat), ScriptsStatic w →
    RF w (scanWaiting scanOps n w i) := by
  induction n with
  | zero => intro w i _; exact RF.refl w
  | succ n ih =>
    intro w i h
    unfold scanWaiting
    split
    · exact RF.refl w
    · split
      · rename_i req cb _ _
        have r1 : RF w (scanOps.erase (scanOps.call w cb req) i) := by
          cases cb with
          | script k =>
            have r0 : RF w (w.addRes (.cb k)) := ⟨rfl, rfl, rfl, rfl, rfl⟩
            exact (r0.trans (rf_runScript _ k (scriptsStatic_of_rf h r0))).trans ⟨rfl, rfl, rfl, rfl, rfl⟩
          | proc d =>
            exact (RF.of_st (sv_procResourceCb w d) (st_procResourceCb w d) (parts_procResourceCb w d)
              (scr_procResourceCb w d) (pcv_procResourceCb w d)).trans ⟨rfl, rfl, rfl, rfl, rfl⟩
        exact r1.trans (ih _ _ (scriptsStatic_of_rf h r1))
      · exact ih _ _ h

theorem rf_rmCheck (w : World) (h : ScriptsStatic w) : RF w w.rmCheck := rf_scan _ _ _ h

theorem rf_hookStart (w : World) (tgt : Nat) (tag : Int) (h : ScriptsStatic w) :
    RF w (w.hookStart tgt tag) := by
  have r0 : RF w (w.addRes (.hook true tgt tag)) := ⟨rfl, rfl, rfl, rfl, rfl⟩
  unfold World.hookStart
  simp only []
  split
  · exact r0.trans (RF.of_st (sv_shutdownDev ..) (st_shutdownDev ..) (parts_shutdownDev ..)
      (scr_shutdownDev ..) (pcv_shutdownDev ..))
  · split
    · exact r0.trans (rf_runScript _ _ (scriptsStatic_of_rf h r0))
    · exact r0

theorem rf_hookEnd (w : World) (tgt : Nat) (tag : Int) (h : ScriptsStatic w) :
    RF w (w.hookEnd tgt tag) := by
  have r0 : RF w (w.addRes (.hook false tgt tag)) := ⟨rfl, rfl, rfl, rfl, rfl⟩
  unfold World.hookEnd
  simp only []
  split
  · exact r0.trans (RF.of_st (sv_restoreDev ..) (st_restoreDev ..) (parts_restoreDev ..)
      (scr_restoreDev ..) (pcv_restoreDev ..))
  · split
    · exact r0.trans (rf_runScript _ _ (scriptsStatic_of_rf h r0))
    · exact r0

theorem rf_startWork (w : World) (m seq : Nat) (h : ScriptsStatic w) : RF w (w.startWork m seq) := by
  have key : ∀ w' : World, RF w w' → ∀ t g a b d,
      RF w ((w'.hookStart t g).schedLib a b (.finishWork m seq) d) := fun w' r t g a b d =>
    (r.trans (rf_hookStart w' t g (scriptsStatic_of_rf h r))).trans
      (RF.of_st (sv_schedLib ..) (st_schedLib ..) (schedLib_parts ..) (scr_schedLib ..) (pcv_schedLib ..))
  unfold World.startWork
  split
  · exact RF.of_st (sv_setErr ..) (st_setErr ..) (setErr_parts ..) (scr_setErr ..) (pcv_setErr ..)
  · simp only []
    refine key _ ?_ _ _ _ _ _
    exact ⟨rfl, rfl, rfl, rfl, rfl⟩

theorem rf_finishWork (w : World) (m seq : Nat) (h : ScriptsStatic w) : RF w (w.finishWork m seq) := by
  have key : ∀ w' : World, RF w w' → ∀ w'' : World, RF w' w'' → ∀ m l,
      RF w (w''.startOrders m l) := fun w' r w'' r' m l =>
    (r.trans r').trans (RF.of_st (sv_startOrders ..) (st_startOrders ..) (parts_startOrders ..)
      (scr_startOrders ..) (pcv_startOrders ..))
  unfold World.finishWork
  split
  · exact RF.of_st (sv_setErr ..) (st_setErr ..) (setErr_parts ..) (scr_setErr ..) (pcv_setErr ..)
  · simp only []
    rename_i o _
    refine key _ (rf_hookEnd w o.target o.tag h) _ ?_ _ _
    exact ⟨rfl, rfl, rfl, rfl, rfl⟩

/-! ### events -/

/-- Every admissible event action preserves the routing invariant (in a world whose scripts neither
rewire nor create devices). -/
theorem routeN_exec (w : World) (a : Action) (hI : InvW w) (hR : RouteN nb nc w)
    (hnb : nb → NoBatcher w) (hnc : nc → NoBatcher w ∧ NoCb w) (hs : ScriptsStatic w)
    (ha : ActOK w a) : RouteN nb nc (w.exec a) := by
  cases a with
  | terminate => exact hR
  | script k => exact hR.of_rf (rf_runScript w k hs)
  | finishCycle d => exact route_finishCycle w d hI hR hnc
  | passPart d => exact route_passPart w d hI hR hnb hnc ha
  | fail d => exact route_failDev w d hR
  | releaseIfIdle d =>
    exact hR.of_rf (RF.of_st (sv_releaseIfIdle w d) (st_releaseIfIdle w d) (parts_releaseIfIdle w d)
      (scr_releaseIfIdle w d) (pcv_releaseIfIdle w d))
  | rmCheck => exact hR.of_rf (rf_rmCheck w hs)
  | startWork m o => exact hR.of_rf (rf_startWork w m o hs)
  | finishWork m o => exact hR.of_rf (rf_finishWork w m o hs)
  | schedUpdate s =>
    exact hR.of_rf (RF.of_st (sv_schedUpdate w s true) (st_schedUpdate w s true) (parts_schedUpdate w s true)
      (scr_schedUpdate w s true) (pcv_schedUpdate w s true))
  | periodicSense s =>
    exact hR.of_rf (RF.of_st (sv_periodicSense w s) (st_periodicSense w s) (parts_periodicSense w s)
      (scr_periodicSense w s) (pcv_periodicSense w s))
  | unknown n =>
    exact hR.of_rf (RF.of_st (sv_setErr ..) (st_setErr ..) (setErr_parts ..) (scr_setErr ..) (pcv_setErr ..))

/-- The gate predicates and callbacks never change. -/
theorem pcv_exec (w : World) (a : Action) (hs : ScriptsStatic w) : pcv (w.exec a) = pcv w := by
  cases a with
  | terminate => rfl
  | script k => exact (rf_runScript w k hs).pc
  | finishCycle d => exact pcv_finishCycle w d
  | passPart d => exact pcv_passPart w d
  | fail d => exact pcv_failDev w d
  | releaseIfIdle d => exact pcv_releaseIfIdle w d
  | rmCheck => exact (rf_rmCheck w hs).pc
  | startWork m o => exact (rf_startWork w m o hs).pc
  | finishWork m o => exact (rf_finishWork w m o hs).pc
  | schedUpdate s => exact pcv_schedUpdate w s true
  | periodicSense s => exact pcv_periodicSense w s
  | unknown n => exact pcv_setErr ..

/-- One step of the event loop keeps the wiring, the gate predicates and the callbacks. -/
theorem tv_step (w w' : World) (e : Event) (hs : Static w) (hst : w.step = some (e, w')) :
    tv w' = tv w ∧ pcv w' = pcv w := by
  unfold World.step at hst
  split at hst
  · cases hst
  · rename_i e' env' henv
    simp only [Option.some.injEq, Prod.mk.injEq] at hst
    obtain ⟨rfl, rfl⟩ := hst
    have h1 := static_pop w e' env' hs henv
    split
    · exact ⟨(sr_exec (fun d => (({ w with env := env' } : World).dev d).kind = .sink) _ _
        ⟨fun _ => Iff.rfl, h1.1⟩).1, pcv_exec _ _ h1.1⟩
    · exact ⟨rfl, rfl⟩

theorem routeN_step (w w' : World) (e : Event) (hI : InvW w) (hR : RouteN nb nc w)
    (hnb : nb → NoBatcher w) (hnc : nc → NoBatcher w ∧ NoCb w) (hs : Static w)
    (hst : w.step = some (e, w')) :
    InvW w' ∧ RouteN nb nc w' ∧ Static w' ∧ (nb → NoBatcher w') ∧ (nc → NoBatcher w' ∧ NoCb w') := by
  have h0 := static_step w w' e hI hs hst
  have htv := tv_step w w' e hs hst
  refine ⟨h0.1, ?_, h0.2, fun hn => (hnb hn).of_tv htv.1,
    fun hn => ⟨(hnc hn).1.of_tv htv.1, (hnc hn).2.of_pcv htv.2⟩⟩
  unfold World.step at hst
  split at hst
  · cases hst
  · rename_i e' env' henv
    simp only [Option.some.injEq, Prod.mk.injEq] at hst
    obtain ⟨rfl, rfl⟩ := hst
    have h1 := static_pop w e' env' hs henv
    have hR1 : RouteN nb nc ({ w with env := env' } : World) := hR.of_frame rfl rfl rfl rfl
    have hI1 : InvW ({ w with env := env' } : World) := hI.of_sv rfl
    split
    · exact routeN_exec _ _ hI1 hR1 hnb hnc h1.1 (static_actOK w e' env' hs henv)
    · exact hR1

theorem routeN_runLoop (n : Nat) : ∀ (w : World), InvW w → RouteN nb nc w → (nb → NoBatcher w) →
    (nc → NoBatcher w ∧ NoCb w) → Static w →
    InvW (runLoop n w) ∧ RouteN nb nc (runLoop n w) ∧ Static (runLoop n w) ∧
      (nb → NoBatcher (runLoop n w)) ∧ (nc → NoBatcher (runLoop n w) ∧ NoCb (runLoop n w)) := by
  induction n with
  | zero =>
    intro w hI hR hnb hnc hs
    have := static_runLoop 0 w hI hs
    refine ⟨this.1, ?_, this.2, fun hn => (hnb hn).of_st (st_setErr ..),
      fun hn => ⟨(hnc hn).1.of_st (st_setErr ..), (hnc hn).2.of_pcv (pcv_setErr ..)⟩⟩
    exact hR.of_frame_st (sv_setErr ..) (st_setErr ..) (setErr_parts ..) (pcv_setErr ..)
  | succ n ih =>
    intro w hI hR hnb hnc hs
    unfold runLoop
    split
    · split
      · exact ⟨hI, hR, hs, hnb, hnc⟩
      · rename_i e w' hst
        have := routeN_step w w' e hI hR hnb hnc hs hst
        exact ih w' this.1 this.2.1 this.2.2.2.1 this.2.2.2.2 this.2.2.1
    · exact ⟨hI, hR, hs, hnb, hnc⟩

/-- The configured graph never changes along a run. -/
theorem tv_runLoop (n : Nat) : ∀ (w : World), InvW w → Static w → tv (runLoop n w) = tv w := by
  induction n with
  | zero => intro w _ _; exact tv_of_st (st_setErr ..)
  | succ n ih =>
    intro w hI hs
    unfold runLoop
    split
    · split
      · rfl
      · rename_i e w' hst
        have h1 := static_step w w' e hI hs hst
        rw [ih w' h1.1 h1.2, (tv_step w w' e hs hst).1]
    · rfl

/-! ### `Environment.run(d)`: the terminate event -/

theorem static_runBegin (w : World) (d : Int) (hs : Static w) : Static (w.runBegin d).1 := by
  unfold World.runBegin
  dsimp only
  split
  · exact hs
  · rename_i e he
    refine ⟨hs.1, hs.2.1, ?_⟩
    rintro ⟨n, hn, hbad⟩
    apply hs.2.2
    unfold Env.runBegin at he
    have := (acts_schedule he n).1 hn
    rcases this with rfl | hn'
    · obtain ⟨d', hd', _⟩ := hbad
      simp [terminateAct, Action.ofNat] at hd'
    · exact ⟨n, hn', hbad⟩

theorem rf_runBegin (w : World) (d : Int) : RF w (w.runBegin d).1 := by
  unfold World.runBegin
  dsimp only
  split
  · exact RF.refl w
  · exact ⟨rfl, rfl, rfl, rfl, rfl⟩

/-! ### a decidable sufficient condition for the wiring part of `Static` -/

/-- Every configured downstream device and every group input exists. -/
def WiredOK (w : World) : Prop :=
  0 < w.devs.length ∧ (∀ d ∈ w.devs, ∀ y ∈ d.down, y < w.devs.length) ∧
    (∀ g ∈ w.groups, g.input < w.devs.length)

instance (w : World) : Decidable (WiredOK w) := by unfold WiredOK; infer_instance

theorem down_lt_of_wired {w : World} (h : WiredOK w) {x y : Nat} (hy : y ∈ (w.dev x).down) :
    y < w.devs.length := by
  by_cases hx : x < w.devs.length
  · have : w.dev x ∈ w.devs := by
      unfold World.dev
      rw [List.getD_eq_getElem?_getD, List.getElem?_eq_getElem hx]
      exact List.getElem_mem hx
    exact h.2.1 _ this y hy
  · rw [dev_of_ge w x (Nat.le_of_not_lt hx)] at hy; cases hy

theorem reach_lt_of_wired {w : World} (h : WiredOK w) {y z : Nat} (hr : Reach (st w) y z) :
    y < w.devs.length → z < w.devs.length := by
  induction hr with
  | self y _ => exact id
  | gate y z u _ hz _ ih =>
    intro _
    rw [st_down] at hz
    exact ih (down_lt_of_wired h hz)
  | gpath y u _ _ ih =>
    intro _
    apply ih
    rw [st_gin]
    by_cases hg : (st w).group y < w.groups.length
    · have : w.groups.getD ((st w).group y) default ∈ w.groups := by
        rw [List.getD_eq_getElem?_getD, List.getElem?_eq_getElem hg]
        exact List.getElem_mem hg
      exact h.2.2 _ this
    · rw [List.getD_eq_getElem?_getD, List.getElem?_eq_none (Nat.le_of_not_lt hg)]
      exact h.1
  | goutput y g z u _ hz _ ih =>
    intro _
    rw [st_down] at hz
    exact ih (down_lt_of_wired h hz)

theorem topoOK_of_wired {w : World} (h : WiredOK w) : TopoOK w := by
  intro x y hy z hr
  exact reach_lt_of_wired h hr (down_lt_of_wired h hy)

/-- Static well-formedness from decidable conditions: static scripts, existing wiring, no pending
events. -/
theorem static_of_wired {w : World} (h1 : ScriptsStatic w) (h2 : WiredOK w)
    (h3 : w.env.events = [] ∧ w.env.paused = []) : Static w := by
  refine ⟨h1, topoOK_of_wired h2, ?_⟩
  rintro ⟨n, hn, _⟩
  simp [acts, h3.1, h3.2] at hn

/-! ### initialisation -/

theorem parts_initFlag (w : World) (x : Nat) : (initFlag w x).parts = w.parts := rfl

theorem pcv_initFlag (w : World) (x : Nat) : pcv (initFlag w x) = pcv w :=
  pcv_modDev_same _ _ _ (fun _ => rfl)

theorem route_initDev (w : World) (x : Nat) (hI : InvW w) (hR : RouteN nb nc w)
    (hnc : nc → NoBatcher w ∧ NoCb w) : RouteN nb nc (w.initDev x) := by
  have hR0 : RouteN nb nc (initFlag w x) :=
    hR.of_frame_st (sv_initFlag w x) (st_initFlag w x) rfl (pcv_initFlag w x)
  have hI0 : InvW (initFlag w x) := hI.of_sv (sv_initFlag w x)
  rw [initDev_eq]
  split
  · exact hR0
  · exact hR0
  · exact hR0
  · exact hR0
  · refine hR0.of_frame_st ?_ ?_ ?_ ?_
    · rw [sv_modDev_same, sv_setWaiting]; intro _; rfl
    · rw [st_modDev_same, st_setWaiting]; intro _; rfl
    · rw [modDev_parts, setWaiting_parts]
    · rw [pcv_modDev_same, pcv_setWaiting]; intro _; rfl
  · refine route_scheduleFinish _ x (hI0.of_sv (sv_setWaiting ..)) ?_ ?_
    · exact hR0.of_frame_st (sv_setWaiting ..) (st_setWaiting ..) (setWaiting_parts ..) (pcv_setWaiting ..)
    · intro hn
      refine ⟨(hnc hn).1.of_st ?_, (hnc hn).2.of_pcv ?_⟩
      · rw [st_setWaiting, st_initFlag]
      · rw [pcv_setWaiting, pcv_initFlag]
  · exact hR0.of_frame_st (sv_setWaiting ..) (st_setWaiting ..) (setWaiting_parts ..) (pcv_setWaiting ..)

theorem parts_initAsset_nondev (w : World) (a : AssetRef) (h : ∀ d, a ≠ .dev d) :
    (w.initAsset a).parts = w.parts := by
  unfold World.initAsset
  split
  · rename_i d; exact absurd rfl (h d)
  · rfl
  · exact parts_schedUpdate ..
  · dsimp only
    split
    · simp
    · split <;> rfl
  · rfl

theorem route_initAsset (w : World) (a : AssetRef) (hI : InvW w) (hR : RouteN nb nc w)
    (hnc : nc → NoBatcher w ∧ NoCb w) :
    RouteN nb nc (w.initAsset a) := by
  by_cases h : ∃ d, a = .dev d
  · obtain ⟨d, rfl⟩ := h
    exact route_initDev w d hI hR hnc
  · have h' : ∀ d, a ≠ .dev d := fun d e => h ⟨d, e⟩
    exact hR.of_frame_st (sv_initAsset_nondev w a h') (st_initAsset w a) (parts_initAsset_nondev w a h')
      (pcv_initAsset w a)

theorem routeN_simulateInit (w : World) (hI : InvW w) (hR : RouteN nb nc w)
    (hnc : nc → NoBatcher w ∧ NoCb w) :
    InvW w.simulateInit ∧ RouteN nb nc w.simulateInit := by
  refine ⟨pres_simulateInit closed_inv w hI, ?_⟩
  unfold World.simulateInit
  split
  · exact hR
  · simp only []
    have key : ∀ (l : List AssetRef) (w0 : World), InvW w0 → RouteN nb nc w0 →
        (nc → NoBatcher w0 ∧ NoCb w0) →
        InvW (l.foldl (fun w a => w.initAsset a) w0) ∧ RouteN nb nc (l.foldl (fun w a => w.initAsset a) w0) := by
      intro l
      induction l with
      | nil => intro w0 h1 h2 _; exact ⟨h1, h2⟩
      | cons a l ih =>
        intro w0 h1 h2 h3
        exact ih _ (pres_initAsset closed_inv w0 a h1) (route_initAsset w0 a h1 h2 h3)
          (fun hn => ⟨(h3 hn).1.of_st (st_initAsset w0 a), (h3 hn).2.of_pcv (pcv_initAsset w0 a)⟩)
    refine RouteN.of_frame (w := List.foldl _ _ _) ?_ rfl rfl rfl rfl
    refine (key _ _ ?_ ?_ ?_).2
    · apply InvW.of_sv _ (sv_rmEffects ..)
      exact hI.of_sv rfl
    · apply RouteN.of_frame_st _ (sv_rmEffects ..) (st_rmEffects ..) (rmEffects_parts ..) (pcv_rmEffects ..)
      exact hR.of_frame rfl rfl rfl rfl
    · intro hn
      exact ⟨(hnc hn).1.of_st (by rw [st_rmEffects]; rfl), (hnc hn).2.of_pcv (by rw [pcv_rmEffects]; rfl)⟩

theorem pcv_simulateInit (w : World) : pcv w.simulateInit = pcv w := by
  unfold World.simulateInit
  split
  · rfl
  · simp only []
    show pcv (List.foldl _ _ _) = _
    rw [foldl_proj pcv _ _ _ (fun _ _ => pcv_initAsset ..), pcv_rmEffects]; rfl

/-- A world without parts in which no device holds anything satisfies the invariant. -/
theorem route_of_empty (w : World) (hp : w.parts = []) (h : ∀ d ∈ w.devs, (sdev d).held = []) :
    RouteN nb nc w := by
  have key : ∀ (z : Nat) (d : SDev) (q : Nat), (sv w).devs[z]? = some d → q ∈ d.held → False := by
    intro z d q hz hq
    have hm := List.mem_of_getElem? hz
    simp only [sv, List.mem_map] at hm
    obtain ⟨d', hd', rfl⟩ := hm
    rw [h d' hd'] at hq; cases hq
  exact ⟨⟨fun z d q hz hq _ => (key z d q hz hq).elim, fun z d q l hz hq _ => (key z d q hz hq).elim,
    fun z d q l k hz hq _ _ => (key z d q hz hq).elim⟩, fun _ z d q hz hq _ => (key z d q hz hq).elim,
    (fun q hq => by rw [sv_kids_length, hp] at hq; cases hq),
    fun _ z d q hz hq _ => (key z d q hz hq).elim⟩

end C08W
end SimProc
