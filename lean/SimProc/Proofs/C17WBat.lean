/-
C17W machinery, part 1: the per-batcher invariant `BatOK` (no shell in single mode, the batch under
construction is not full, the output has the configured size, the batcher is settled) and the facts
that carry it through one hand-over, one `tryMove`, and the events that do not touch batchers.
-/
import SimProc.Proofs.C05WStep
import SimProc.Props.C17
import SimProc.Props.C02
namespace SimProc
namespace C17W
open World C02V C05W

/-- Every configured batch size is positive. -/
def SizesPos (w : World) : Prop := ∀ d ∈ w.devs, ∀ n, d.bsize = some n → 0 < n

instance (w : World) : Decidable (SizesPos w) := by
  unfold SizesPos
  exact decidable_of_iff (∀ d ∈ w.devs, ∀ n ∈ d.bsize, 0 < n)
    ⟨fun h d hd n hn => h d hd n hn, fun h d hd n hn => h d hd n hn⟩

/-- The invariant of one batcher, without "settled" (holds also between the hand-over of the output
and the following `tryMove`). -/
structure BatPre (w : World) (y : Nat) : Prop where
  /-- the configured size is positive -/
  pos : ∀ n, (w.dev y).bsize = some n → 0 < n
  /-- single mode: no batch under construction -/
  noprog : (w.dev y).bsize = none → (w.dev y).inprog = none
  /-- the batch under construction is not full -/
  prog_lt : ∀ n, (w.dev y).bsize = some n → ∀ b, (w.dev y).inprog = some b →
    ((w.part b).kids.getD []).length < n
  /-- batch mode: the output is a batch of exactly `n` parts -/
  out_batch : ∀ n, (w.dev y).bsize = some n → ∀ o, (w.dev y).output = some o →
    ∃ l, (w.part o).kids = some l ∧ l.length = n
  /-- single mode: the output is a single part -/
  out_single : (w.dev y).bsize = none → ∀ o, (w.dev y).output = some o → (w.part o).kids = none

/-- The invariant of one batcher. -/
structure BatOK (w : World) (y : Nat) : Prop extends BatPre w y where
  /-- an output is waiting to leave, or the input is exhausted -/
  settled : (w.dev y).output.isSome ∨ (w.dev y).part = none

def BatAll (w : World) : Prop := ∀ y, (w.dev y).kind = .batcher → BatOK w y

theorem lt_of_kind_batcher {w : World} {y : Nat} (h : (w.dev y).kind = .batcher) : y < w.devs.length :=
  lt_of_kind (by rw [h]; decide)

/-! ### well-formedness from conservation -/

theorem wf_of_inv {w : World} (hI : InvW w) {y : Nat} (hn : (w.dev y).bsize = none → (w.dev y).inprog = none) :
    C17.Wf w y := by
  by_cases hy : y < w.devs.length
  · have hnd := SVBatchAux.held_nodup hI.1 (List.mem_of_getElem? (sv_get w y hy))
    refine ⟨?_, ?_, hn, ?_⟩
    · intro b hb
      exact held_valid hI hy (by simp only [Option.mem_def] at hb; simp [SDev.held, sdev, hb])
    · intro b hb p hp hbp
      simp only [Option.mem_def] at hb hp
      subst hbp
      simp only [SDev.held, sdev, hb, hp, Option.toList_some] at hnd
      have := List.nodup_append.1 hnd
      exact this.2.2 b (by simp) b (by simp) rfl
    · intro _ p hp l hl k hk
      simp only [Option.mem_def] at hp hl
      have hpv : p < w.parts.length := held_valid hI hy (by simp [SDev.held, sdev, hp])
      have := hI.1.kidsLeaf p l ((C02.kids_getElem w p _).2 ⟨hpv, hl⟩) k hk
      exact ((C02.kids_getElem w k _).1 this).2
  · have hd : w.dev y = default := dev_of_ge w y (Nat.le_of_not_lt hy)
    have e1 : (w.dev y).inprog = none := by rw [hd]; rfl
    have e2 : (w.dev y).part = none := by rw [hd]; rfl
    refine ⟨?_, ?_, hn, ?_⟩
    · intro b hb; rw [e1] at hb; cases hb
    · intro b hb; rw [e1] at hb; cases hb
    · intro _ p hp; rw [e2] at hp; cases hp

theorem BatPre.wf {w : World} {y : Nat} (hI : InvW w) (h : BatPre w y) : C17.Wf w y :=
  wf_of_inv hI h.noprog

/-! ### transport -/

theorem held_part {w : World} {y q : Nat} (h : (w.dev y).part = some q) : q ∈ (sdev (w.dev y)).held := by
  simp [SDev.held, sdev, h]
theorem held_output {w : World} {y q : Nat} (h : (w.dev y).output = some q) : q ∈ (sdev (w.dev y)).held := by
  simp [SDev.held, sdev, h]
theorem held_inprog {w : World} {y q : Nat} (h : (w.dev y).inprog = some q) : q ∈ (sdev (w.dev y)).held := by
  simp [SDev.held, sdev, h]

theorem sdev_fields {d d' : Dev} (h : sdev d' = sdev d) :
    d'.kind = d.kind ∧ d'.part = d.part ∧ d'.output = d.output ∧ d'.inprog = d.inprog :=
  ⟨congrArg SDev.kind h, congrArg SDev.part h, congrArg SDev.output h, congrArg SDev.inprog h⟩

/-- The invariant of batcher `y` only depends on its slots, its size and the `kids` of the parts it
holds. -/
theorem batPre_transport {w w' : World} {y : Nat} (hs : sdev (w'.dev y) = sdev (w.dev y))
    (hb : (w'.dev y).bsize = (w.dev y).bsize)
    (hk : ∀ q ∈ (sdev (w.dev y)).held, (w'.part q).kids = (w.part q).kids)
    (h : BatPre w y) : BatPre w' y := by
  obtain ⟨_, s2, s3, s4⟩ := sdev_fields hs
  refine ⟨?_, ?_, ?_, ?_, ?_⟩
  · rw [hb]; exact h.pos
  · rw [hb, s4]; exact h.noprog
  · intro n hn b hbb
    rw [hb] at hn; rw [s4] at hbb
    rw [hk b (held_inprog hbb)]; exact h.prog_lt n hn b hbb
  · intro n hn o ho
    rw [hb] at hn; rw [s3] at ho
    rw [hk o (held_output ho)]; exact h.out_batch n hn o ho
  · intro hn o ho
    rw [hb] at hn; rw [s3] at ho
    rw [hk o (held_output ho)]; exact h.out_single hn o ho

theorem batOK_transport {w w' : World} {y : Nat} (hs : sdev (w'.dev y) = sdev (w.dev y))
    (hb : (w'.dev y).bsize = (w.dev y).bsize)
    (hk : ∀ q ∈ (sdev (w.dev y)).held, (w'.part q).kids = (w.part q).kids)
    (h : BatOK w y) : BatOK w' y := by
  obtain ⟨_, s2, s3, _⟩ := sdev_fields hs
  exact ⟨batPre_transport hs hb hk h.toBatPre, by rw [s2, s3]; exact h.settled⟩

theorem leavesOf_of_kids {w w' : World} {q : Nat} (h : (w'.part q).kids = (w.part q).kids) :
    w'.leavesOf q = w.leavesOf q := by
  unfold World.leavesOf; rw [h]

/-- … and so does the sequence of parts inside it. -/
theorem seqOf_transport {w w' : World} {y : Nat} (hs : sdev (w'.dev y) = sdev (w.dev y))
    (hk : ∀ q ∈ (sdev (w.dev y)).held, (w'.part q).kids = (w.part q).kids) :
    C17.seqOf w' y = C17.seqOf w y := by
  obtain ⟨_, s2, s3, s4⟩ := sdev_fields hs
  unfold C17.seqOf
  rw [s2, s3, s4]
  congr 1
  · congr 1
    · cases ho : (w.dev y).output with
      | none => rfl
      | some o => exact leavesOf_of_kids (hk o (held_output ho))
    · cases hb : (w.dev y).inprog with
      | none => rfl
      | some b => simp only []; rw [hk b (held_inprog hb)]
  · cases hp : (w.dev y).part with
    | none => rfl
    | some p => exact leavesOf_of_kids (hk p (held_part hp))

theorem batAll_of_frame {w w' : World} (hkind : ∀ y, (w'.dev y).kind = (w.dev y).kind)
    (hsv : sv w' = sv w) (hbv : bv w' = bv w) (h : BatAll w) : BatAll w' := by
  intro y hy
  rw [hkind] at hy
  exact batOK_transport (sdev_of_sv hsv y) (bdev_fields (bdev_of_bv hbv y)).2.2.2.2.1
    (fun q _ => kids_of_sv hsv q) (h y hy)

theorem batAll_of_fr3 {w w' : World} (hf : Fr3 w w') (h : BatAll w) : BatAll w' :=
  batAll_of_frame (kind_of_fr3 hf) hf.sv hf.bv h

/-- Another device `z` moves (slots of the others, auxiliary view of the others unchanged) and the
`kids` of the existing parts are unchanged: the batchers other than `z` keep their invariant. -/
theorem batOK_of_ko {w w' : World} (hI : InvW w) {y : Nat} (hy : y < w.devs.length)
    (hs : sdev (w'.dev y) = sdev (w.dev y)) (hb : bdev (w'.dev y) = bdev (w.dev y)) (hko : KO w w')
    (h : BatOK w y) : BatOK w' y :=
  batOK_transport hs (bdev_fields hb).2.2.2.2.1
    (fun q hq => hko.2 q (held_valid hI hy hq) (fun h => h)) h

/-! ### a batcher accepts a part -/

/-- `acceptPart` on a batcher with an empty output slot is `tryMove` in a world that looks the same
to the batcher as the world with the part in the input slot. -/
theorem acceptPart_batcher_view {w : World} {x p : Nat} (hk : (w.dev x).kind = .batcher)
    (ho : (w.dev x).output = none) :
    ∃ w5, C17.SameView (w.modDev x (fun d => { d with part := some p })) w5 x ∧
      w.acceptPart x p = w5.tryMove x := by
  have hx : x < w.devs.length := lt_of_kind_batcher hk
  have hd1 : (w.modDev x (fun d => { d with part := some p })).dev x = { w.dev x with part := some p } :=
    dev_modDev_same hx
  have hv : C17.SameView (w.modDev x (fun d => { d with part := some p }))
      ((((((w.modDev x (fun d => { d with part := some p })).addHist p x).setWaiting x false false).addRec
        (.received x ((((w.modDev x (fun d => { d with part := some p })).addHist p x).setWaiting x false false).now) p
          (((((w.modDev x (fun d => { d with part := some p })).addHist p x).setWaiting x false false).part p).quality)
          ((((w.modDev x (fun d => { d with part := some p })).addHist p x).setWaiting x false false).partValue p))).dev x).recvCbs.foldl
        (fun w c => w.applyPartCb x p c)
        ((((w.modDev x (fun d => { d with part := some p })).addHist p x).setWaiting x false false).addRec
          (.received x ((((w.modDev x (fun d => { d with part := some p })).addHist p x).setWaiting x false false).now) p
            (((((w.modDev x (fun d => { d with part := some p })).addHist p x).setWaiting x false false).part p).quality)
            ((((w.modDev x (fun d => { d with part := some p })).addHist p x).setWaiting x false false).partValue p)))) x :=
    (((C17.SameView.addHist _ p x x).trans (C17.SameView.of_core (setWaiting_core _ _ _ _) x)).trans
      (C17.SameView.of_core (addRec_core _ _) x)).trans (C17.SameView.foldl_applyPartCb _ _ x p x)
  generalize hw5 : (List.foldl _ _ _ : World) = w5 at hv
  refine ⟨w5, hv, ?_⟩
  have ho5 : (w5.dev x).output = none := by rw [hv.output, hd1]; exact ho
  have hk' : ((w.dev x).kind == Kind.sink) = false := by rw [hk]; rfl
  have hk3 : ((((w.modDev x (fun d => { d with part := some p })).addHist p x).setWaiting x false false).dev x).kind
      = .batcher := by
    rw [core_eq_dev_kind (setWaiting_core _ _ _ _), dev_addHist, hd1]; exact hk
  unfold acceptPart onReceived
  simp only [hk', hk3, Bool.false_eq_true, if_false, hw5, ho5, Option.isNone_none, if_true]

/-- `tryMove` on a batcher that satisfies everything but "settled": afterwards it satisfies all. -/
theorem batOK_tryMove {w : World} {x : Nat} (hI : InvW w) (hk : (w.dev x).kind = .batcher)
    (h : BatPre w x) :
    BatOK (w.tryMove x) x ∧ C17.seqOf (w.tryMove x) x = C17.seqOf w x := by
  have hwf : C17.Wf w x := h.wf hI
  obtain ⟨t1, t2, t3, t4, _⟩ := C17.tryMove_batcher_spec hk hwf
  refine ⟨?_, t2⟩
  cases ho : (w.dev x).output with
  | some o =>
    -- nothing happens
    have e : w.tryMove x = w := by
      rcases C17.tryMove_batcher hk with ⟨e, _⟩ | ⟨p, _, ho', _, _⟩ | ⟨p, _, ho', _, _⟩
      · exact e
      · rw [ho] at ho'; cases ho'
      · rw [ho] at ho'; cases ho'
    rw [e]
    exact ⟨h, Or.inl (by rw [ho]; rfl)⟩
  | none =>
    refine ⟨⟨by rw [t3]; exact h.pos, fun hb => t1.single_noprog hb, ?_, ?_, ?_⟩, t4⟩
    · intro n hn b hb
      rw [t3] at hn
      exact (C17.tryMove_batch_sizes hk hn (h.pos n hn) hwf (fun b hb => h.prog_lt n hn b (by simpa using hb))).1 b
        (by simpa using hb)
    · intro n hn o ho'
      rw [t3] at hn
      exact (C17.tryMove_batch_sizes hk hn (h.pos n hn) hwf (fun b hb => h.prog_lt n hn b (by simpa using hb))).2 ho o
        (by simpa using ho')
    · intro hn o ho'
      rw [t3] at hn
      exact (C17.tryMove_single hk hn hwf).2 ho o (by simpa using ho')

/-- The other batchers are not affected by `tryMove` of `x`. -/
theorem batOK_tryMove_other {w : World} {x y : Nat} (hI : InvW w) (hy : y < w.devs.length) (hyx : y ≠ x)
    (h : BatOK w y) : BatOK (w.tryMove x) y ∧ C17.seqOf (w.tryMove x) y = C17.seqOf w y := by
  have hst := steps_tryMove w x (part_valid hI x)
  have hs : sdev ((w.tryMove x).dev y) = sdev (w.dev y) := by
    have h1 := hst.devs_ne hyx
    have hl : (w.tryMove x).devs.length = w.devs.length := by
      have := hst.length; simpa [sv] using this
    rw [sv_get w y hy, sv_get _ y (by rw [hl]; exact hy)] at h1
    exact Option.some.inj h1
  have hk : ∀ q ∈ (sdev (w.dev y)).held, ((w.tryMove x).part q).kids = (w.part q).kids := by
    intro q hq
    refine (kox_tryMove w x).2 q (held_valid hI hy hq) ?_
    rintro (h' | h')
    · exact hyx (SVBatchAux.held_unique hI.1 (sv_get w y hy) (sv_get w x (lt_of_part h')) hq (held_part h'))
    · have hx : x < w.devs.length := by
        by_cases hx : x < w.devs.length
        · exact hx
        · rw [dev_of_ge w x (Nat.le_of_not_lt hx)] at h'; cases h'
      exact hyx (SVBatchAux.held_unique hI.1 (sv_get w y hy) (sv_get w x hx) hq (held_inprog h'))
  exact ⟨batOK_transport hs (bdev_fields (BO.bdev_eq (bo_tryMove w x) hyx)).2.2.2.2.1 hk h,
    seqOf_transport hs hk⟩

end C17W
end SimProc
