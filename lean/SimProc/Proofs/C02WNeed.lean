/-
C02W machinery, part 4: the least admissible `need`.  `needOf scripts` iterates the requirement
operator from 0 until it is stationary; it is a solution of `ScriptsDyn` whenever there is one, and
then it is the pointwise least.  Hence the class `∃ need, Dyn need w` is decidable
(`Props/C02W.lean`, `dynAuto_iff`).
-/
import SimProc.Proofs.C02WDyn
namespace SimProc
namespace C02W
open World C02V

/-! ### definitions -/

/-- the least device count at which the operation is admissible (as far as counts matter) -/
def opNeed (need : Nat → Nat) : Op → Nat
  | .rewire x _ => x + 1
  | .create (.dev d) => d.down.foldl max 0
  | .create (.group _ devs ins _) => (groupIns devs ins).foldl max 0
  | .sched _ _ k _ => need k
  | .schedRel _ _ k _ => need k
  | .register k _ => need k
  | _ => 0

/-- the least device count at which the operation list is admissible, `c` devices having been
created by the operations before -/
def opsNeed (need : Nat → Nat) : Nat → List Op → Nat
  | _, [] => 0
  | c, op :: ops => max (opNeed need op - c) (opsNeed need (c + created op) ops)

def nd (a : List Nat) (k : Nat) : Nat := a.getD k 0

def needStep (scripts : List (List Op)) (need : List Nat) : List Nat :=
  scripts.map (opsNeed (nd need) 0)

/-- a bound for every requirement that can arise -/
def needBound (scripts : List (List Op)) : Nat :=
  (scripts.map (fun ops => (ops.map (opNeed (fun _ => 0))).foldl max 0)).foldl max 0

/-- iterate from 0 until stationary (at most `length * bound` proper increases) -/
def needOf (scripts : List (List Op)) : List Nat :=
  Nat.repeat (needStep scripts) (scripts.length * needBound scripts + 1) (scripts.map (fun _ => 0))

/-- the part of `OpOK` that is not about counts -/
def HeldOK : Op → Prop
  | .create (.dev d) => C02.held d = []
  | _ => True

/-! ### `OpsOK` in terms of `opsNeed` -/

theorem foldl_max_le (l : List Nat) : ∀ (a n : Nat), l.foldl max a ≤ n ↔ a ≤ n ∧ ∀ y ∈ l, y ≤ n := by
  induction l with
  | nil => intro a n; simp
  | cons x l ih =>
    intro a n
    rw [List.foldl_cons, ih]
    constructor
    · rintro ⟨h1, h2⟩
      refine ⟨by omega, ?_⟩
      intro y hy
      rcases List.mem_cons.1 hy with rfl | hy'
      · omega
      · exact h2 y hy'
    · rintro ⟨h1, h2⟩
      have := h2 x (List.mem_cons_self ..)
      exact ⟨by omega, fun y hy => h2 y (List.mem_cons_of_mem _ hy)⟩

theorem opOK_iff (need : Nat → Nat) (n : Nat) (op : Op) :
    OpOK need n op ↔ HeldOK op ∧ opNeed need op ≤ n := by
  cases op
  case rewire x ups =>
    simp only [OpOK, HeldOK, opNeed, true_and]
    exact Nat.lt_iff_add_one_le
  case create s =>
    cases s with
    | dev d =>
      simp only [OpOK, SpecOKAt, HeldOK, opNeed, foldl_max_le]
      constructor
      · rintro ⟨h1, h2⟩; exact ⟨h1, Nat.zero_le _, h2⟩
      · rintro ⟨h1, _, h2⟩; exact ⟨h1, h2⟩
    | group gid devs ins outs =>
      simp only [OpOK, SpecOKAt, HeldOK, opNeed, foldl_max_le]
      constructor
      · intro h; exact ⟨trivial, Nat.zero_le _, h⟩
      · rintro ⟨_, _, h⟩; exact h
    | _ => simp [OpOK, SpecOKAt, HeldOK, opNeed]
  all_goals simp [OpOK, HeldOK, opNeed]

theorem opsOK_iff (need : Nat → Nat) : ∀ (ops : List Op) (c n : Nat),
    OpsOK need (n + c) ops ↔ (∀ op ∈ ops, HeldOK op) ∧ opsNeed need c ops ≤ n := by
  intro ops
  induction ops with
  | nil => intro c n; simp [OpsOK, opsNeed]
  | cons op ops ih =>
    intro c n
    have := ih (c + created op) n
    rw [← Nat.add_assoc] at this
    simp only [OpsOK, opsNeed, this, opOK_iff, List.mem_cons, forall_eq_or_imp]
    constructor
    · rintro ⟨⟨h1, h2⟩, h3, h4⟩
      exact ⟨⟨h1, h3⟩, by omega⟩
    · rintro ⟨⟨h1, h3⟩, h⟩
      exact ⟨⟨h1, by omega⟩, h3, by omega⟩

/-! ### monotonicity, bounds -/

theorem opNeed_mono {f g : Nat → Nat} (h : ∀ k, f k ≤ g k) (op : Op) : opNeed f op ≤ opNeed g op := by
  cases op
  case create s => cases s <;> exact Nat.le_refl _
  case sched t a k p => exact h k
  case schedRel t a k p => exact h k
  case register k r => exact h k
  all_goals exact Nat.le_refl _

theorem opsNeed_mono {f g : Nat → Nat} (h : ∀ k, f k ≤ g k) : ∀ (ops : List Op) (c : Nat),
    opsNeed f c ops ≤ opsNeed g c ops := by
  intro ops
  induction ops with
  | nil => intro c; exact Nat.le_refl _
  | cons op ops ih =>
    intro c
    have h1 := opNeed_mono h op
    have h2 := ih (c + created op)
    simp only [opsNeed]
    omega

theorem opNeed_le_bound {f : Nat → Nat} {M : Nat} (hf : ∀ k, f k ≤ M) (op : Op)
    (h0 : opNeed (fun _ => 0) op ≤ M) : opNeed f op ≤ M := by
  cases op
  case create s => cases s <;> exact h0
  case sched t a k p => exact hf k
  case schedRel t a k p => exact hf k
  case register k r => exact hf k
  all_goals exact h0

theorem opsNeed_le_bound {f : Nat → Nat} {M : Nat} (hf : ∀ k, f k ≤ M) : ∀ (ops : List Op) (c : Nat),
    (∀ op ∈ ops, opNeed (fun _ => 0) op ≤ M) → opsNeed f c ops ≤ M := by
  intro ops
  induction ops with
  | nil => intro c _; exact Nat.zero_le _
  | cons op ops ih =>
    intro c h
    have h1 := opNeed_le_bound hf op (h op (List.mem_cons_self ..))
    have h2 := ih (c + created op) (fun o ho => h o (List.mem_cons_of_mem _ ho))
    simp only [opsNeed]
    omega

theorem le_foldl_max (l : List Nat) (a : Nat) : a ≤ l.foldl max a ∧ ∀ y ∈ l, y ≤ l.foldl max a := by
  have := (foldl_max_le l a (l.foldl max a)).1 (Nat.le_refl _)
  exact this

theorem opNeed_le_needBound (scripts : List (List Op)) (ops : List Op) (hops : ops ∈ scripts) (op : Op)
    (hop : op ∈ ops) : opNeed (fun _ => 0) op ≤ needBound scripts := by
  unfold needBound
  refine Nat.le_trans ?_ ((le_foldl_max _ 0).2 _ (List.mem_map.2 ⟨ops, hops, rfl⟩))
  exact (le_foldl_max _ 0).2 _ (List.mem_map.2 ⟨op, hop, rfl⟩)

/-! ### the requirement operator on functions -/

/-- one round: what script `k` needs if the scripts it triggers need `need` -/
def G (scripts : List (List Op)) (need : Nat → Nat) : Nat → Nat :=
  fun k => opsNeed need 0 (scripts.getD k [])

def it (scripts : List (List Op)) : Nat → Nat → Nat
  | 0 => fun _ => 0
  | i + 1 => G scripts (it scripts i)

theorem nd_needStep (scripts : List (List Op)) (a : List Nat) : nd (needStep scripts a) = G scripts (nd a) := by
  funext k
  unfold nd needStep G
  simp only [List.getD_eq_getElem?_getD, List.getElem?_map]
  cases scripts[k]? <;> rfl

theorem nd_repeat (scripts : List (List Op)) (i : Nat) :
    nd (Nat.repeat (needStep scripts) i (scripts.map (fun _ => 0))) = it scripts i := by
  induction i with
  | zero =>
    funext k
    simp only [Nat.repeat, nd, it, List.getD_eq_getElem?_getD, List.getElem?_map]
    cases scripts[k]? <;> rfl
  | succ i ih =>
    show nd (needStep scripts _) = _
    rw [nd_needStep, ih]; rfl

theorem G_mono (scripts : List (List Op)) {f g : Nat → Nat} (h : ∀ k, f k ≤ g k) (k : Nat) :
    G scripts f k ≤ G scripts g k := opsNeed_mono h _ _

theorem G_out (scripts : List (List Op)) (f : Nat → Nat) (k : Nat) (hk : scripts.length ≤ k) :
    G scripts f k = 0 := by
  unfold G
  have : scripts.getD k [] = [] := by simp [List.getD_eq_getElem?_getD, hk]
  rw [this]; rfl

theorem it_out (scripts : List (List Op)) (i k : Nat) (hk : scripts.length ≤ k) : it scripts i k = 0 := by
  cases i with
  | zero => rfl
  | succ i => exact G_out scripts _ k hk

theorem it_chain (scripts : List (List Op)) (i : Nat) : ∀ k, it scripts i k ≤ it scripts (i + 1) k := by
  induction i with
  | zero => intro k; exact Nat.zero_le _
  | succ i ih => intro k; exact G_mono scripts ih k

theorem it_bound (scripts : List (List Op)) (i : Nat) : ∀ k, it scripts i k ≤ needBound scripts := by
  induction i with
  | zero => intro k; exact Nat.zero_le _
  | succ i ih =>
    intro k
    show opsNeed _ 0 _ ≤ _
    apply opsNeed_le_bound ih
    intro op hop
    by_cases hk : k < scripts.length
    · have e : scripts.getD k [] = scripts[k] := by simp [List.getD_eq_getElem?_getD, hk]
      rw [e] at hop
      exact opNeed_le_needBound scripts _ (List.getElem_mem hk) op hop
    · have e : scripts.getD k [] = [] := by simp [List.getD_eq_getElem?_getD, Nat.le_of_not_lt hk]
      rw [e] at hop; cases hop

/-- below every solution -/
theorem it_le_solution (scripts : List (List Op)) (need : Nat → Nat) (h : ∀ k, G scripts need k ≤ need k)
    (i : Nat) : ∀ k, it scripts i k ≤ need k := by
  induction i with
  | zero => intro k; exact Nat.zero_le _
  | succ i ih => intro k; exact Nat.le_trans (G_mono scripts ih k) (h k)

/-! ### the iteration becomes stationary -/

def sumTo (g : Nat → Nat) : Nat → Nat
  | 0 => 0
  | n + 1 => sumTo g n + g n

theorem sumTo_le {f g : Nat → Nat} (h : ∀ k, f k ≤ g k) (n : Nat) : sumTo f n ≤ sumTo g n := by
  induction n with
  | zero => exact Nat.le_refl _
  | succ n ih => have := h n; simp only [sumTo]; omega

theorem sumTo_eq {f g : Nat → Nat} (h : ∀ k, f k ≤ g k) (n : Nat) (hs : sumTo g n ≤ sumTo f n) :
    ∀ k, k < n → f k = g k := by
  induction n with
  | zero => intro k hk; omega
  | succ n ih =>
    intro k hk
    have h1 := sumTo_le h n
    have h2 := h n
    simp only [sumTo] at hs
    by_cases hkn : k = n
    · subst hkn; omega
    · exact ih (by omega) k (by omega)

theorem sumTo_bound {f : Nat → Nat} {M : Nat} (h : ∀ k, f k ≤ M) (n : Nat) : sumTo f n ≤ n * M := by
  induction n with
  | zero => simp [sumTo]
  | succ n ih =>
    have := h n
    simp only [sumTo, Nat.succ_mul]
    omega

/-- a stationary point stays -/
theorem it_stay (scripts : List (List Op)) (i : Nat) (h : it scripts (i + 1) = it scripts i) :
    ∀ j, it scripts (i + j) = it scripts i := by
  intro j
  induction j with
  | zero => rfl
  | succ j ih =>
    show G scripts (it scripts (i + j)) = _
    rw [ih]; exact h

theorem it_stationary (scripts : List (List Op)) :
    ∃ i, i ≤ scripts.length * needBound scripts ∧ it scripts (i + 1) = it scripts i := by
  refine Classical.byContradiction fun hne => ?_
  have hne' : ∀ i, i ≤ scripts.length * needBound scripts → it scripts (i + 1) ≠ it scripts i :=
    fun i hi he => hne ⟨i, hi, he⟩
  have grow : ∀ i, i ≤ scripts.length * needBound scripts + 1 → i ≤ sumTo (it scripts i) scripts.length := by
    intro i
    induction i with
    | zero => intro _; exact Nat.zero_le _
    | succ i ih =>
      intro hi
      have h1 := ih (by omega)
      have h2 := sumTo_le (it_chain scripts i) scripts.length
      by_cases hs : sumTo (it scripts (i + 1)) scripts.length ≤ sumTo (it scripts i) scripts.length
      · exfalso
        apply hne' i (by omega)
        funext k
        by_cases hk : k < scripts.length
        · exact (sumTo_eq (it_chain scripts i) _ hs k hk).symm
        · rw [it_out scripts _ k (Nat.le_of_not_lt hk), it_out scripts _ k (Nat.le_of_not_lt hk)]
      · omega
  have h1 := grow (scripts.length * needBound scripts + 1) (Nat.le_refl _)
  have h2 := sumTo_bound (it_bound scripts (scripts.length * needBound scripts + 1)) scripts.length
  omega

/-- the computed requirement is a fixed point of the requirement operator -/
theorem needOf_fix (scripts : List (List Op)) : G scripts (nd (needOf scripts)) = nd (needOf scripts) := by
  unfold needOf
  rw [nd_repeat]
  obtain ⟨i, hi, he⟩ := it_stationary scripts
  have hN : scripts.length * needBound scripts + 1 = i + (scripts.length * needBound scripts + 1 - i) := by omega
  rw [hN, it_stay scripts i he]
  exact he

theorem needOf_least (scripts : List (List Op)) (need : Nat → Nat) (h : ∀ k, G scripts need k ≤ need k) :
    ∀ k, nd (needOf scripts) k ≤ need k := by
  unfold needOf
  rw [nd_repeat]
  exact it_le_solution scripts need h _

/-! ### consequences for `ScriptsDyn` -/

theorem scriptsDyn_iff (need : Nat → Nat) (w : World) : ScriptsDyn need w ↔
    (∀ l ∈ w.scripts, ∀ op ∈ l, HeldOK op) ∧ ∀ k, G w.scripts need k ≤ need k := by
  unfold ScriptsDyn G
  constructor
  · intro h
    refine ⟨?_, fun k => ((opsOK_iff need _ 0 (need k)).1 (h k)).2⟩
    intro l hl op hop
    obtain ⟨k, hk, rfl⟩ := List.getElem_of_mem hl
    have e : w.scripts.getD k [] = w.scripts[k] := by simp [List.getD_eq_getElem?_getD, hk]
    have := ((opsOK_iff need _ 0 (need k)).1 (h k)).1
    rw [e] at this
    exact this op hop
  · rintro ⟨h1, h2⟩ k
    refine (opsOK_iff need _ 0 (need k)).2 ⟨?_, h2 k⟩
    intro op hop
    by_cases hk : k < w.scripts.length
    · have e : w.scripts.getD k [] = w.scripts[k] := by simp [List.getD_eq_getElem?_getD, hk]
      rw [e] at hop
      exact h1 _ (List.getElem_mem hk) op hop
    · have e : w.scripts.getD k [] = [] := by simp [List.getD_eq_getElem?_getD, Nat.le_of_not_lt hk]
      rw [e] at hop; cases hop

/-- If the scripts are admissible for some `need`, they are admissible for the computed one, which
is pointwise below. -/
theorem scriptsDyn_needOf {need : Nat → Nat} {w : World} (h : ScriptsDyn need w) :
    ScriptsDyn (nd (needOf w.scripts)) w ∧ ∀ k, nd (needOf w.scripts) k ≤ need k := by
  have h' := (scriptsDyn_iff need w).1 h
  refine ⟨(scriptsDyn_iff _ w).2 ⟨h'.1, fun k => ?_⟩, needOf_least w.scripts need h'.2⟩
  rw [needOf_fix]
  exact Nat.le_refl _

/-- The other clauses only get weaker when `need` decreases. -/
theorem DynN.anti {need need' : Nat → Nat} {w : World} (h : DynN need w) (hs : ScriptsDyn need' w)
    (hle : ∀ k, need' k ≤ need k) : DynN need' w := by
  refine ⟨hs, h.wired, ⟨?_, ?_, ?_⟩⟩
  · intro n hn
    have := h.tok.ev n hn
    cases ha : Action.ofNat n with
    | fail d => rw [ha] at this; exact this
    | script k => rw [ha] at this; exact Nat.le_trans (hle k) this
    | _ => trivial
  · intro k hk; exact Nat.le_trans (hle k) (h.tok.rm k hk)
  · intro x hx
    have := h.tok.tg x hx
    exact ⟨fun k hk => Nat.le_trans (hle k) (this.1 k hk), fun k hk => Nat.le_trans (hle k) (this.2 k hk)⟩

theorem dynN_needOf {need : Nat → Nat} {w : World} (h : DynN need w) : DynN (nd (needOf w.scripts)) w :=
  h.anti (scriptsDyn_needOf h.scripts).1 (scriptsDyn_needOf h.scripts).2

end C02W
end SimProc
