/-
C20W — machinery, part 7: frames of initialisation and of the constructors (what they leave
alone), the `down` lists after a registration in closed form, and the bookkeeping of a processor
that is constructed while the simulation is running.
-/
import SimProc.Proofs.C20WRegDev
import SimProc.Props.C13

namespace SimProc
namespace C20W
open World FloorCoreL RKey

/-! ### a generic frame of `initDev` / `initAsset` -/

/-- The device updates of initialisation: kind, asset id, shutdown state and wiring are kept and
the "waiting for space downstream" flag is not raised. -/
def NoRaise (f : Dev → Dev) : Prop :=
  ∀ d, ((f d).waitingDS = true → d.waitingDS = true) ∧ (f d).kind = d.kind ∧ (f d).aid = d.aid ∧
    (f d).shutDown = d.shutDown ∧ (f d).up = d.up ∧ (f d).down = d.down

open C02V in
/-- Whatever is kept by updates of device `x` (that raise no flag), by library scheduling, by part
generation and by history updates is kept by the initialisation of device `x`. -/
theorem initDev_rel (R : World → World → Prop) (x : Nat) (hrefl : ∀ w, R w w)
    (htrans : ∀ a b c, R a b → R b c → R a c)
    (hmod : ∀ w f, NoRaise f → R w (w.modDev x f))
    (hsched : ∀ w t a act p, R w (w.schedLib t a act p))
    (hgen : ∀ w, R w (w.genPart x).1)
    (hhist : ∀ w p, R w (w.addHist p x)) (w : World) : R w (w.initDev x) := by
  have hsw : ∀ w a b, R w (w.setWaiting x a b) := by
    intro w a b
    rw [setWaiting_eq]
    refine hmod w _ ?_
    intro d
    unfold swF
    repeat' split
    all_goals exact ⟨id, rfl, rfl, rfl, rfl, rfl⟩
  have hpass : ∀ w o, R w (w.schedulePass x o) := by
    intro w o
    rw [schedulePass_eq]
    split
    · exact hrefl _
    · exact htrans _ _ _ (hmod w (fun d => { d with waitingDS := false })
        (fun d => ⟨fun h => Bool.noConfusion h, rfl, rfl, rfl, rfl, rfl⟩)) (hsched _ _ _ _ _)
  have h0 : R w (initFlag w x) := hmod w _ (fun _ => ⟨id, rfl, rfl, rfl, rfl, rfl⟩)
  rw [initDev_eq]
  split
  · exact h0
  · exact h0
  · exact h0
  · exact h0
  · exact htrans _ _ _ (htrans _ _ _ h0 (hsw _ true true))
      (hmod _ (fun d => { d with lastRestore := some ((initFlag w x).setWaiting x true true).now })
        (fun _ => ⟨id, rfl, rfl, rfl, rfl, rfl⟩))
  · rename_i hk
    refine htrans _ _ _ (htrans _ _ _ h0 (hsw _ true true)) ?_
    generalize hw1 : (initFlag w x).setWaiting x true true = w1
    have hk1 : (w1.dev x).kind = .source := by
      rw [← hw1, setWaiting_eq, modDev_dev_field Dev.kind _ x _ ?_ x]
      · exact hk
      · generalize (initFlag w x).dev x = d
        unfold swF
        simp only [Bool.not_true, Bool.false_eq_true, if_false]
        repeat' split
        all_goals rfl
    have hk' : ((w1.modDev x (fun d => { d with offset := 0 })).dev x).kind = .source := by
      rw [modDev_dev_field Dev.kind _ x _ rfl x]; exact hk1
    have hm0 : R w1 (w1.modDev x (fun d => { d with offset := 0 })) :=
      hmod w1 (fun d => { d with offset := 0 }) (fun _ => ⟨id, rfl, rfl, rfl, rfl, rfl⟩)
    rw [scheduleFinish_eq]
    split
    · refine htrans _ _ _ hm0 ?_
      rw [finishCycle_source _ x hk']
      generalize w1.modDev x (fun d => { d with offset := 0 }) = w2
      refine htrans _ _ _ ?_ (hpass _ _)
      split
      · have g1 : R w2 (w2.genPart x).1 := hgen w2
        have g2 : R (w2.genPart x).1 ((w2.genPart x).1.modDev x
            (fun d => { d with output := some (w2.genPart x).2 })) :=
          hmod _ (fun d => { d with output := some (w2.genPart x).2 }) (fun _ => ⟨id, rfl, rfl, rfl, rfl, rfl⟩)
        exact htrans _ _ _ (htrans _ _ _ g1 g2) (hhist _ _)
      · exact hrefl _
    · exact htrans _ _ _ hm0 (hsched _ _ _ _ _)
  · exact htrans _ _ _ h0 (hsw _ true true)

/-- The projection version. -/
theorem initDev_proj {α} (P : World → α) (x : Nat)
    (hmod : ∀ w f, P (w.modDev x f) = P w)
    (hsched : ∀ w t a act p, P (w.schedLib t a act p) = P w)
    (hgen : ∀ w, P (w.genPart x).1 = P w)
    (hhist : ∀ w p, P (w.addHist p x) = P w) (w : World) : P (w.initDev x) = P w :=
  initDev_rel (fun a b => P b = P a) x (fun _ => rfl) (fun _ _ _ h1 h2 => h2.trans h1)
    (fun w f _ => hmod w f) hsched hgen hhist w

open C02V in
theorem genPart_fields (w : World) (x : Nat) :
    (w.genPart x).1.rm = w.rm ∧ (w.genPart x).1.maints = w.maints ∧ (w.genPart x).1.scheds = w.scheds ∧
    (w.genPart x).1.env = w.env ∧ (w.genPart x).1.targets = w.targets ∧
    (w.genPart x).1.cmsSensors = w.cmsSensors ∧ (w.genPart x).1.groups = w.groups := by
  cases hb : ((w.dev x).genBatch == 0)
  · rw [genPart_batch w x hb]; exact ⟨rfl, rfl, rfl, rfl, rfl, rfl, rfl⟩
  · rw [genPart_leaf w x hb]; exact ⟨rfl, rfl, rfl, rfl, rfl, rfl, rfl⟩

theorem initDev_rm (w : World) (x : Nat) : (w.initDev x).rm = w.rm :=
  initDev_proj World.rm x (fun _ _ => rfl) (fun w t a act p => schedLib_rm w t a act p)
    (fun w => (genPart_fields w x).1) (fun w p => addHist_rm w p x) w
theorem initDev_maints (w : World) (x : Nat) : (w.initDev x).maints = w.maints :=
  initDev_proj World.maints x (fun _ _ => rfl) (fun w t a act p => schedLib_maints w t a act p)
    (fun w => (genPart_fields w x).2.1) (fun w p => addHist_maints w p x) w
theorem initDev_scheds (w : World) (x : Nat) : (w.initDev x).scheds = w.scheds :=
  initDev_proj World.scheds x (fun _ _ => rfl) (fun w t a act p => schedLib_scheds w t a act p)
    (fun w => (genPart_fields w x).2.2.1) (fun w p => addHist_scheds w p x) w
theorem initDev_targets (w : World) (x : Nat) : (w.initDev x).targets = w.targets :=
  initDev_proj World.targets x (fun _ _ => rfl) (fun w t a act p => schedLib_targets w t a act p)
    (fun w => (genPart_fields w x).2.2.2.2.1) (fun w p => addHist_targets w p x) w
theorem initDev_groups (w : World) (x : Nat) : (w.initDev x).groups = w.groups :=
  initDev_proj World.groups x (fun _ _ => rfl) (fun w t a act p => schedLib_groups w t a act p)
    (fun w => (genPart_fields w x).2.2.2.2.2.2) (fun w p => addHist_groups w p x) w

theorem initDev_dev_ne (w : World) (x u : Nat) (h : u ≠ x) : (w.initDev x).dev u = w.dev u :=
  initDev_proj (fun w => w.dev u) x (fun _ _ => dev_modDev_ne (fun e => h e.symm))
    (fun w t a act p => dev_schedLib w t a act p u)
    (fun w => dev_congr (genPart_devs w x) u) (fun w p => dev_addHist w p x u) w

theorem initDev_now (w : World) (x : Nat) : (w.initDev x).now = w.now :=
  initDev_rel (fun a b => b.now = a.now) x (fun _ => rfl) (fun _ _ _ h1 h2 => h2.trans h1)
    (fun _ _ _ => rfl) (fun w t a act p => (C03.mono_schedLib w t a act p).now)
    (fun w => by show (w.genPart x).1.env.now = w.env.now; rw [(genPart_fields w x).2.2.2.1])
    (fun w p => by
      have h2 : (w.addHist p x).env = w.env := (addHist_env w p x)
      exact congrArg Env.now h2) w

/-- Initialisation never raises a "waiting for space downstream" flag, never removes an event. -/
theorem mono_initDev (w : World) (x : Nat) : C03.Mono w (w.initDev x) :=
  initDev_rel C03.Mono x C03.Mono.refl (fun _ _ _ => C03.Mono.trans)
    (fun w f hf => C03.mono_modDev w x f (hf _).1) C03.mono_schedLib
    (fun w => C03.mono_of_env_dev (genPart_fields w x).2.2.2.1 (fun y => dev_congr (genPart_devs w x) y))
    (fun w p => C03.mono_of_env_dev ((addHist_env w p x))
      (fun y => dev_addHist w p x y)) w

/-! ### initialisation wakes nobody -/

/-- Kind and shutdown state of every device are kept, no "waiting for space downstream" flag is
raised. -/
def Calm (w w' : World) : Prop :=
  ∀ u, (w'.dev u).kind = (w.dev u).kind ∧ (w'.dev u).shutDown = (w.dev u).shutDown ∧
    ((w'.dev u).waitingDS = true → (w.dev u).waitingDS = true)

theorem Calm.refl (w : World) : Calm w w := fun _ => ⟨rfl, rfl, id⟩
theorem Calm.trans {a b c : World} (h1 : Calm a b) (h2 : Calm b c) : Calm a c := fun u =>
  ⟨(h2 u).1.trans (h1 u).1, (h2 u).2.1.trans (h1 u).2.1, fun h => (h1 u).2.2 ((h2 u).2.2 h)⟩
theorem Calm.of_dev {w w' : World} (h : ∀ u, w'.dev u = w.dev u) : Calm w w' := fun u => by
  rw [h u]; exact ⟨rfl, rfl, id⟩
theorem Calm.foldl {α} (g : World → α → World) (l : List α) (w : World) (h : ∀ w a, Calm w (g w a)) :
    Calm w (l.foldl g w) := by
  induction l generalizing w with
  | nil => exact Calm.refl w
  | cons a l ih => exact (h w a).trans (ih _)

theorem calm_modDev (w : World) (x : Nat) (f : Dev → Dev) (hf : NoRaise f) : Calm w (w.modDev x f) := by
  intro u
  rw [dev_modDev]
  split
  · rename_i h; rw [← h.1]; exact ⟨(hf _).2.1, (hf _).2.2.2.1, (hf _).1⟩
  · exact ⟨rfl, rfl, id⟩

theorem calm_initDev (w : World) (x : Nat) : Calm w (w.initDev x) :=
  initDev_rel Calm x Calm.refl (fun _ _ _ => Calm.trans) (fun w f hf => calm_modDev w x f hf)
    (fun w t a act p => Calm.of_dev (dev_schedLib w t a act p))
    (fun w => Calm.of_dev (fun u => dev_congr (genPart_devs w x) u))
    (fun w p => Calm.of_dev (dev_addHist w p x)) w

theorem calm_initAsset (w : World) (a : AssetRef) : Calm w (w.initAsset a) := by
  cases a with
  | dev d => exact calm_initDev w d
  | maint m => exact Calm.of_dev (fun _ => rfl)
  | sched s =>
    show Calm w (w.schedUpdate s false)
    rw [schedUpdate_eq]
    split
    · exact Calm.of_dev (fun _ => rfl)
    · refine Calm.of_dev (fun u => ?_)
      rw [dev_schedLib]
      exact congrArg (fun ds : List Dev => ds.getD u default)
        (foldl_preserve World.devs _ _ _ (fun _ _ => rfl))
  | sensor s =>
    rw [initAsset_sensor_eq]
    split
    · exact Calm.of_dev (fun u => by rw [dev_schedLib]; rfl)
    · split
      · exact (Calm.of_dev (fun _ => rfl)).trans
          (calm_modDev _ _ _ (fun _ => ⟨id, rfl, rfl, rfl, rfl, rfl⟩))
      · exact Calm.of_dev (fun _ => rfl)
  | cms c => exact Calm.refl w

theorem calm_simulateInit (w : World) : Calm w w.simulateInit := by
  cases hst : w.started
  · rw [simulateInit_eq w hst]
    have h1 : Calm w (rmStart w) := Calm.of_dev (fun u => by unfold rmStart; rw [dev_rmEffects]; rfl)
    have h2 : Calm (rmStart w) (sweepW (rmStart w) (rmStart w).assets) :=
      Calm.foldl _ _ _ (fun w a => calm_initAsset w a)
    exact (h1.trans h2).trans (Calm.of_dev (fun _ => rfl))
  · unfold simulateInit; rw [if_pos hst]; exact Calm.refl w

/-- A part handler that is not waiting for space downstream before `simulateInit` is quiet
afterwards. -/
theorem quiet_simulateInit (w : World) (u : Nat) (hk : isHandlerLike (w.dev u).kind = true)
    (hw : (w.dev u).waitingDS = false) : QuietD (w.simulateInit.dev u) := by
  obtain ⟨h1, _, h3⟩ := calm_simulateInit w u
  refine Or.inr ⟨by rw [h1]; exact hk, ?_⟩
  cases hq : (w.simulateInit.dev u).waitingDS
  · simp
  · rw [h3 hq] at hw; cases hw

/-! ### frames of `rewire`, `initAsset`, the constructors -/

/-- An observation that does not look at devices, event queue, logs or error flag. -/
structure Blunt {α} (P : World → α) : Prop where
  modDev : ∀ w x f, P (w.modDev x f) = P w
  core : ∀ w w' : World, w'.core = w.core → P w' = P w
  pg : ∀ (w : World) (ps : List PartRec) (g : List Nat), P { w with parts := ps, generated := g } = P w

theorem Blunt.schedLib {α} {P : World → α} (h : Blunt P) (w : World) (t a : Int) (act : Action) (p : Int) :
    P (w.schedLib t a act p) = P w := h.core _ _ (schedLib_core w t a act p)

theorem rewire_proj {α} {P : World → α} (h : Blunt P) (w : World) (x : Nat) (ups : List Nat) :
    P (w.rewire x ups) = P w := by
  have hstep : ∀ w u, P (C03.rewireStep x w u) = P w := by
    intro w u
    unfold C03.rewireStep
    split
    · rfl
    · dsimp only
      split
      · rw [h.core _ _ (spaceAvailable_core _ u), h.modDev]
      · rw [h.modDev]
  rw [C03.rewire_eq, foldl_preserve P _ _ _ hstep]
  unfold C03.rewirePre
  dsimp only
  rw [h.modDev, foldl_preserve P _ _ _ (fun w u => h.modDev w u _)]
  split
  · exact h.core _ _ (setWaiting_core w x true true)
  · rfl

open C02V in
theorem genPart_proj {α} {P : World → α} (h : Blunt P) (w : World) (x : Nat) : P (w.genPart x).1 = P w := by
  cases hb : ((w.dev x).genBatch == 0)
  · rw [genPart_batch w x hb]
    exact h.pg w _ _
  · rw [genPart_leaf w x hb]
    exact h.pg w _ _

theorem addHist_proj {α} {P : World → α} (h : Blunt P) (w : World) (p d : Nat) : P (w.addHist p d) = P w := by
  have hn := addHist_noParts w p d
  have key : ∀ a : World, P a = P a.noParts := by
    intro a
    have ea : a = { a.noParts with parts := a.parts, generated := a.generated } := rfl
    conv => lhs; rw [ea]
    exact h.pg _ _ _
  rw [key, hn, ← key]

theorem initDev_blunt {α} {P : World → α} (h : Blunt P) (w : World) (x : Nat) : P (w.initDev x) = P w :=
  initDev_proj P x (fun w f => h.modDev w x f) h.schedLib (fun w => genPart_proj h w x)
    (fun w p => addHist_proj h w p x) w

theorem blunt_rm : Blunt World.rm := ⟨fun _ _ _ => rfl, fun _ _ h => core_eq_rm h, fun _ _ _ => rfl⟩
theorem blunt_maints : Blunt World.maints :=
  ⟨fun _ _ _ => rfl, fun _ _ h => core_eq_maints h, fun _ _ _ => rfl⟩
theorem blunt_scheds : Blunt World.scheds :=
  ⟨fun _ _ _ => rfl, fun _ _ h => core_eq_scheds h, fun _ _ _ => rfl⟩
theorem blunt_sensors : Blunt World.sensors :=
  ⟨fun _ _ _ => rfl, fun _ _ h => core_eq_sensors h, fun _ _ _ => rfl⟩
theorem blunt_targets : Blunt World.targets :=
  ⟨fun _ _ _ => rfl, fun _ _ h => core_eq_targets h, fun _ _ _ => rfl⟩
theorem blunt_cmsSensors : Blunt World.cmsSensors :=
  ⟨fun _ _ _ => rfl, fun _ _ h => core_eq_cmsSensors h, fun _ _ _ => rfl⟩
theorem blunt_svars : Blunt World.svars :=
  ⟨fun _ _ _ => rfl, fun _ _ h => core_eq_svars h, fun _ _ _ => rfl⟩
theorem blunt_vars : Blunt World.vars :=
  ⟨fun _ _ _ => rfl, fun _ _ h => core_eq_vars h, fun _ _ _ => rfl⟩

/-- A device constructor call leaves the resource manager, the maintainers, the schedulers, the
sensors, the maintenance targets, … alone (an observation that is also blind to the group table). -/
theorem addDev_proj {α} {P : World → α} (h : Blunt P)
    (hg : ∀ (w : World) (g : List Group), P { w with groups := g } = P w)
    (hd : ∀ (w : World) (ds : List Dev) (as : List AssetRef), P { w with devs := ds, assets := as } = P w)
    (w : World) (d : Dev) : P (w.addDev d) = P w := by
  have h1 : P (regDev w d) = P w := by
    unfold regDev C02V.regPath
    split
    · rw [hg, rewire_proj h]; exact hd w _ _
    · rw [rewire_proj h]; exact hd w _ _
  rw [addDev_eq_regDev]
  split
  · exact (initDev_blunt h _ _).trans h1
  · exact h1

theorem addDev_rm (w : World) (d : Dev) : (w.addDev d).rm = w.rm :=
  addDev_proj blunt_rm (fun _ _ => rfl) (fun _ _ _ => rfl) w d
theorem addDev_maints (w : World) (d : Dev) : (w.addDev d).maints = w.maints :=
  addDev_proj blunt_maints (fun _ _ => rfl) (fun _ _ _ => rfl) w d
theorem addDev_scheds (w : World) (d : Dev) : (w.addDev d).scheds = w.scheds :=
  addDev_proj blunt_scheds (fun _ _ => rfl) (fun _ _ _ => rfl) w d
theorem addDev_sensors (w : World) (d : Dev) : (w.addDev d).sensors = w.sensors :=
  addDev_proj blunt_sensors (fun _ _ => rfl) (fun _ _ _ => rfl) w d
theorem addDev_targets (w : World) (d : Dev) : (w.addDev d).targets = w.targets :=
  addDev_proj blunt_targets (fun _ _ => rfl) (fun _ _ _ => rfl) w d
theorem addDev_cmsSensors (w : World) (d : Dev) : (w.addDev d).cmsSensors = w.cmsSensors :=
  addDev_proj blunt_cmsSensors (fun _ _ => rfl) (fun _ _ _ => rfl) w d

/-- The resource manager is not touched by any constructor call. -/
theorem addAsset_rm (w : World) (spec : AssetSpec) : (w.addAsset spec).rm = w.rm := by
  cases spec with
  | dev d => exact addDev_rm w d
  | group gid devs ins outs =>
    unfold addAsset
    dsimp only
    rw [rewire_proj blunt_rm, addDev_rm, foldl_preserve World.rm _ _ _ (fun w u => rewire_proj blunt_rm w u _),
      addDev_rm]
  | maint cap v =>
    unfold addAsset; dsimp only
    split <;> rfl
  | sched tt cyc =>
    unfold addAsset; dsimp only
    split
    · show (World.schedUpdate _ _ _).rm = _
      rw [schedUpdate_eq]
      split
      · rfl
      · rw [schedLib_rm]
        exact foldl_preserve World.rm _ _ _ (fun _ _ => rfl)
    · rfl
  | sensor sw =>
    unfold addAsset; dsimp only
    split
    · rw [initAsset_sensor_eq]
      split
      · rw [schedLib_rm]; rfl
      · split
        · rw [modDev_rm]; rfl
        · rfl
    · rfl
  | cms => rfl

/-! ### existing devices: everything but wiring and flow flags is kept -/

open C02V in
theorem keeps_regDev (w : World) (d : Dev) (u : Nat) :
    C03.stat ((regDev w d).dev u) = C03.stat ((addDev1 w d).dev u) ∧ (regDev w d).now = w.now := by
  have hk : C03.Keeps u (addDev1 w d) ((addDev1 w d).rewire w.devs.length d.up) := by
    rw [C03.rewire_eq]
    exact (C03.rewirePre_keeps _ _ _ u).1.trans
      (C03.Keeps.foldl u _ (fun w a => C03.keeps_rewireStep u _ w a) _ _)
  have hdev : ∀ w' : World, (regPath w' d w.devs.length).dev u = w'.dev u := by
    intro w'; unfold regPath; split <;> rfl
  have hnow : ∀ w' : World, (regPath w' d w.devs.length).now = w'.now := by
    intro w'; unfold regPath; split <;> rfl
  unfold regDev
  rw [hdev, hnow]
  exact ⟨hk.stat, hk.mono.now⟩

open C02V in
/-- **Frame of a device constructor call, any world**: an existing device keeps everything except
its wiring (`up`/`down`) and its two flow flags (`since`, `waitingDS`). -/
theorem addDev_stat (w : World) (d : Dev) (u : Nat) (hu : u < w.devs.length) :
    C03.stat ((w.addDev d).dev u) = C03.stat (w.dev u) := by
  have h1 : C03.stat ((regDev w d).dev u) = C03.stat (w.dev u) := by
    rw [(keeps_regDev w d u).1]
    congr 1
    unfold addDev1 World.dev
    exact getD_append_left _ _ _ _ hu
  rw [addDev_eq_regDev]
  split
  · show C03.stat (((regDev w d).initDev w.devs.length).dev u) = _
    rw [initDev_dev_ne _ _ _ (Nat.ne_of_lt hu)]; exact h1
  · exact h1

/-! ### a processor constructed while the simulation is running -/

theorem stat_field {α} (g : Dev → α) (hg : ∀ d, g (C03.stat d) = g d) {d d' : Dev}
    (h : C03.stat d' = C03.stat d) : g d' = g d := by
  rw [← hg d', ← hg d, h]

theorem upInv_of_stat {d d' : Dev} (h : C03.stat d' = C03.stat d) : d'.UpInv ↔ d.UpInv := by
  have h1 : d'.lastRestore = d.lastRestore := stat_field Dev.lastRestore (fun _ => rfl) h
  have h2 : d'.shutDown = d.shutDown := stat_field Dev.shutDown (fun _ => rfl) h
  have h3 : d'.lastUseStart = d.lastUseStart := stat_field Dev.lastUseStart (fun _ => rfl) h
  have h4 : d'.part = d.part := stat_field Dev.part (fun _ => rfl) h
  constructor
  · intro hi; exact ⟨by rw [← h1, ← h2]; exact hi.restore, by rw [← h3, ← h4, ← h2]; exact hi.use⟩
  · intro hi; exact ⟨by rw [h1, h2]; exact hi.restore, by rw [h3, h4, h2]; exact hi.use⟩

open C02V in
/-- **Late creation of a processor**: the bookkeeping invariant holds for the new machine, its
uptime clock starts at the creation time (`lastRestore = now`), its public `uptime` is the
constructor's value (0 for a fresh machine) and its utilisation is untouched. -/
theorem late_processor (w : World) (d : Dev) (hst : w.started = true) (hk : d.kind = .processor)
    (hs : d.shutDown = false) (hu : d.UpInv) :
    C13.UpInv (w.addDev d) w.devs.length ∧
    C13.uptimeAt (w.addDev d) w.devs.length = d.uptime ∧
    C13.utilAt (w.addDev d) w.devs.length = d.utilAt w.now ∧
    (w.addDev d).now = w.now ∧
    ((w.addDev d).dev w.devs.length).lastRestore = some w.now ∧
    ((w.addDev d).dev w.devs.length).shutDown = false ∧
    ((w.addDev d).dev w.devs.length).kind = .processor := by
  have hs1 : (regDev w d).started = true := by
    have := congrArg RKey.started (RK_regDev w d); exact this.trans hst
  have hnew : (addDev1 w d).dev w.devs.length = { d with aid := (w.assets.length : Int) + 1, up := [] } := by
    unfold addDev1 World.dev
    exact getD_append_singleton _ _ _
  obtain ⟨hstat, hnow⟩ := keeps_regDev w d w.devs.length
  rw [hnew] at hstat
  have hk' : ((regDev w d).dev w.devs.length).kind = .processor :=
    (stat_field Dev.kind (fun _ => rfl) hstat).trans hk
  have hs' : ((regDev w d).dev w.devs.length).shutDown = false :=
    (stat_field Dev.shutDown (fun _ => rfl) hstat).trans hs
  have hu' : C13.UpInv (regDev w d) w.devs.length :=
    (upInv_of_stat hstat).2 ⟨hu.restore, hu.use⟩
  have e : w.addDev d = (regDev w d).initDev w.devs.length := by
    rw [addDev_eq_regDev, hs1]; rfl
  rw [e]
  obtain ⟨i1, i2⟩ := C13.init_starts_uptime (regDev w d) hk'
  have hx := World.lt_of_processor hk'
  have hcore := World.quiet_eq_dev (World.initDev_proc_quiet (regDev w d) hk') w.devs.length
  rw [dev_setDev_same hx] at hcore
  refine ⟨C13.upInv_init _ hk' hs' hu', ?_, ?_, ?_, ?_, ?_, ?_⟩
  · have h7 := stat_field Dev.uptime (fun _ => rfl) hstat
    rw [i1]; exact h7
  · have h8 := stat_field Dev.timeInUse (fun _ => rfl) hstat
    have h9 := stat_field Dev.lastUseStart (fun _ => rfl) hstat
    rw [i2]
    unfold C13.utilAt Dev.utilAt
    rw [hnow, h8, h9]
  · rw [initDev_now, hnow]
  · have := congrArg Dev.lastRestore hcore
    rw [← hnow]; exact this
  · have := congrArg Dev.shutDown hcore
    exact this.trans hs'
  · have := congrArg Dev.kind hcore
    exact this.trans hk'

theorem addDev_now (w : World) (d : Dev) : (w.addDev d).now = w.now := by
  rw [addDev_eq_regDev]
  split
  · show ((regDev w d).initDev w.devs.length).now = _
    rw [initDev_now, (keeps_regDev w d 0).2]
  · exact (keeps_regDev w d 0).2

/-- The bookkeeping of the EXISTING processors is not disturbed by a device constructor call. -/
theorem addDev_upInv_old (w : World) (d : Dev) (x : Nat) (hx : x < w.devs.length) :
    (C13.UpInv (w.addDev d) x ↔ C13.UpInv w x) ∧
    C13.uptimeAt (w.addDev d) x = C13.uptimeAt w x ∧ C13.utilAt (w.addDev d) x = C13.utilAt w x := by
  have hs := addDev_stat w d x hx
  refine ⟨upInv_of_stat hs, ?_, ?_⟩
  · unfold C13.uptimeAt Dev.uptimeAt
    rw [addDev_now, stat_field Dev.uptime (fun _ => rfl) hs, stat_field Dev.lastRestore (fun _ => rfl) hs]
  · unfold C13.utilAt Dev.utilAt
    rw [addDev_now, stat_field Dev.timeInUse (fun _ => rfl) hs, stat_field Dev.lastUseStart (fun _ => rfl) hs]

/-! ### the `down` lists after a registration, device by device -/

/-- `c` appended to the `down` list. -/
def addDown (c : Nat) (d : Dev) : Dev := { d with down := d.down ++ [c] }

theorem linkL_getD (c : Nat) (l : List Dev) (u j : Nat) :
    (linkL c l u).getD j default =
      if u = j ∧ j < l.length ∧ c ∉ (l.getD j default).down then addDown c (l.getD j default)
      else l.getD j default := by
  unfold linkL
  by_cases hc : (l.getD u default).down.contains c = true
  · rw [if_pos hc]
    have hc' : c ∈ (l.getD u default).down := by simpa using hc
    split
    · rename_i h; rw [h.1] at hc'; exact absurd hc' h.2.2
    · rfl
  · rw [if_neg hc]
    have hc' : c ∉ (l.getD u default).down := by simpa using hc
    rw [getD_set']
    by_cases huj : u = j
    · subst huj
      by_cases hlt : u < l.length
      · rw [if_pos ⟨rfl, hlt⟩, if_pos ⟨rfl, hlt, hc'⟩]; rfl
      · rw [if_neg (fun h => hlt h.2), if_neg (fun h => hlt h.2.1)]
    · rw [if_neg (fun h => huj h.1), if_neg (fun h => huj h.1)]

theorem links_getD (c : Nat) (ups : List Nat) : ∀ (l : List Dev) (j : Nat),
    (ups.foldl (linkL c) l).getD j default =
      if j ∈ ups ∧ j < l.length ∧ c ∉ (l.getD j default).down then addDown c (l.getD j default)
      else l.getD j default := by
  induction ups with
  | nil => intro l j; simp
  | cons u ups ih =>
    intro l j
    rw [List.foldl_cons, ih, linkL_getD, linkL_length]
    generalize l.getD j default = D
    by_cases huj : u = j
    · subst huj
      by_cases hlt : u < l.length
      · by_cases hc : c ∈ D.down
        · simp [hlt, hc]
        · simp [hlt, hc, addDown]
      · simp [hlt]
    · have hju : ¬ j = u := fun e => huj e.symm
      simp [huj, hju]

end C20W
end SimProc
