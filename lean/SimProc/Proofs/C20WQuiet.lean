/-
C20W — machinery, part 9: when does `space_available_downstream` change nothing?

`quietSA f w x` / `quietNU f w x` are decidable mirrors of `spaceAvail f w x` / `notifyUp f w x`:
they follow the same recursion through gates, group controllers and `up` lists and check that no
part handler on the way is waiting for space downstream, that no waiting-time stamp would be set,
and that the recursion budget suffices.  If they hold the notification returns the world unchanged
(`spaceAvail_quiet`).  They never read a `down` list (`quiet_congr`), so they can be evaluated on
the world with the new device already wired in.  This extends the closed form of a device
registration (`regDev_eq'`) and the commutation theorem (`commute_dev'`) to upstream flow
controllers.
-/
import SimProc.Proofs.C20WFrame

namespace SimProc
namespace C20W
open World FloorCoreL RKey

/-- `_set_waiting_for_part(True, False)` changes nothing. -/
def swNoop (d : Dev) : Bool := d.since.isSome || !d.inited

mutual
def quietNU : Nat → World → Nat → Bool
  | 0, _, _ => false
  | f + 1, w, x =>
    match (w.dev x).kind with
    | .buffer =>
      if (match (w.dev x).cap with | none => true | some c => decide ((w.dev x).level < c)) then
        swNoop (w.dev x) && (w.dev x).up.all (fun u => quietSA f w u)
      else true
    | .source | .handler | .processor | .batcher | .sink =>
      -- the stamp is attempted only when both slots are free (fix of finding F13)
      (!((w.dev x).part.isNone && (w.dev x).output.isNone) || swNoop (w.dev x)) &&
        (w.dev x).up.all (fun u => quietSA f w u)
    | .ginput => ((w.groups.getD (w.dev x).group default).paths).all (fun gp => quietNU f w gp)
    | .gate | .gpath | .goutput => (w.dev x).up.all (fun u => quietSA f w u)

def quietSA : Nat → World → Nat → Bool
  | 0, _, _ => false
  | f + 1, w, x =>
    match (w.dev x).kind with
    | .gate => quietNU f w x
    | .source | .handler | .processor | .buffer | .batcher | .sink =>
      !(w.operational x && (w.dev x).waitingDS)
    | .ginput | .goutput => quietNU f w x
    | .gpath => quietSA f w (w.groups.getD (w.dev x).group default).output
end

theorem foldl_fix {α} (g : World → α → World) (l : List α) (w : World) (h : ∀ a ∈ l, g w a = w) :
    l.foldl g w = w := by
  induction l with
  | nil => rfl
  | cons a l ih =>
    rw [List.foldl_cons, h a List.mem_cons_self]
    exact ih (fun b hb => h b (List.mem_cons_of_mem _ hb))

theorem setWaiting_noop (w : World) (x : Nat) (h : swNoop (w.dev x) = true) :
    w.setWaiting x true false = w := by
  rw [setWaiting_eq]
  apply modDev_of_fix
  unfold swF swNoop at *
  simp only [Bool.not_true, Bool.false_eq_true, if_false, Bool.not_false, Bool.and_true]
  cases hs : (w.dev x).since.isSome
  · simp only [hs, Bool.false_or, Bool.not_eq_true'] at h
    simp [h]
  · simp

/-- If the mirror holds, the notification changes nothing. -/
theorem quiet_noop (f : Nat) : ∀ (w : World) (x : Nat),
    (quietNU f w x = true → notifyUp f w x = w) ∧ (quietSA f w x = true → spaceAvail f w x = w) := by
  induction f with
  | zero => intro w x; constructor <;> (intro h; simp [quietNU, quietSA] at h)
  | succ f ih =>
    intro w x
    have hN : ∀ x, quietNU f w x = true → notifyUp f w x = w := fun x => (ih w x).1
    have hS : ∀ x, quietSA f w x = true → spaceAvail f w x = w := fun x => (ih w x).2
    have hfoldS : ∀ l : List Nat, l.all (fun u => quietSA f w u) = true →
        l.foldl (fun w u => spaceAvail f w u) w = w := by
      intro l hl
      exact foldl_fix _ _ _ (fun a ha => hS a (List.all_eq_true.1 hl a ha))
    have hfoldN : ∀ l : List Nat, l.all (fun u => quietNU f w u) = true →
        l.foldl (fun w u => notifyUp f w u) w = w := by
      intro l hl
      exact foldl_fix _ _ _ (fun a ha => hN a (List.all_eq_true.1 hl a ha))
    constructor
    · intro h
      rw [quietNU] at h
      rw [notifyUp]
      cases hk : (w.dev x).kind <;> simp only [hk] at h ⊢
      case buffer =>
        cases hcap : (w.dev x).cap with
        | none =>
          simp only [hcap, if_true] at h ⊢
          simp only [Bool.and_eq_true] at h
          rw [setWaiting_noop w x h.1]
          exact hfoldS _ h.2
        | some c =>
          simp only [hcap] at h ⊢
          by_cases hc : decide ((w.dev x).level < c) = true
          · rw [if_pos hc] at h ⊢
            simp only [Bool.and_eq_true] at h
            rw [setWaiting_noop w x h.1]
            exact hfoldS _ h.2
          · rw [if_neg hc]
      case ginput => exact hfoldN _ h
      case gate => exact hfoldS _ h
      case gpath => exact hfoldS _ h
      case goutput => exact hfoldS _ h
      all_goals
        simp only [Bool.and_eq_true] at h
        by_cases hfree : ((w.dev x).part.isNone && (w.dev x).output.isNone) = true
        · simp only [hfree, if_true]
          have hsw : swNoop (w.dev x) = true := by
            have := h.1
            simp only [hfree, Bool.not_true, Bool.false_or] at this
            exact this
          rw [setWaiting_noop w x hsw]
          exact hfoldS _ h.2
        · simp only [hfree]
          exact hfoldS _ h.2
    · intro h
      rw [quietSA] at h
      rw [spaceAvail]
      cases hk : (w.dev x).kind <;> simp only [hk] at h ⊢
      case gate => exact hN x h
      case ginput => exact hN x h
      case goutput => exact hN x h
      case gpath => exact hS _ h
      all_goals
        have h' : (w.operational x && (w.dev x).waitingDS) = false := by
          cases hab : (w.operational x && (w.dev x).waitingDS)
          · rfl
          · rw [hab] at h; cases h
        rw [h']; rfl

theorem spaceAvail_quiet (f : Nat) (w : World) (x : Nat) (h : quietSA f w x = true) :
    spaceAvail f w x = w := (quiet_noop f w x).2 h

/-! ### the mirrors do not read `down` lists -/

/-- The two worlds agree on everything a notification reads: all device fields except `down`, and
the group table. -/
def UpEq (w w' : World) : Prop :=
  (∀ u, ({ w'.dev u with down := [] } : Dev) = { w.dev u with down := [] }) ∧ w'.groups = w.groups

theorem UpEq.refl (w : World) : UpEq w w := ⟨fun _ => rfl, rfl⟩
theorem UpEq.trans {a b c : World} (h1 : UpEq a b) (h2 : UpEq b c) : UpEq a c :=
  ⟨fun u => (h2.1 u).trans (h1.1 u), h2.2.trans h1.2⟩
theorem UpEq.symm {a b : World} (h : UpEq a b) : UpEq b a := ⟨fun u => (h.1 u).symm, h.2.symm⟩

theorem UpEq.field {α} (g : Dev → α) (hg : ∀ d l, g { d with down := l } = g d) {w w' : World}
    (h : UpEq w w') (u : Nat) : g (w'.dev u) = g (w.dev u) := by
  rw [← hg (w'.dev u) [], ← hg (w.dev u) [], h.1 u]

theorem quiet_congr (f : Nat) : ∀ (w w' : World), UpEq w w' → ∀ x,
    quietNU f w' x = quietNU f w x ∧ quietSA f w' x = quietSA f w x := by
  induction f with
  | zero => intro w w' _ x; exact ⟨rfl, rfl⟩
  | succ f ih =>
    intro w w' h x
    have hk : (w'.dev x).kind = (w.dev x).kind := h.field Dev.kind (fun _ _ => rfl) x
    have hcap : (w'.dev x).cap = (w.dev x).cap := h.field Dev.cap (fun _ _ => rfl) x
    have hlev : (w'.dev x).level = (w.dev x).level := h.field Dev.level (fun _ _ => rfl) x
    have hup : (w'.dev x).up = (w.dev x).up := h.field Dev.up (fun _ _ => rfl) x
    have hgrp : (w'.dev x).group = (w.dev x).group := h.field Dev.group (fun _ _ => rfl) x
    have hsw : swNoop (w'.dev x) = swNoop (w.dev x) := h.field swNoop (fun _ _ => rfl) x
    have hwd : (w'.dev x).waitingDS = (w.dev x).waitingDS := h.field Dev.waitingDS (fun _ _ => rfl) x
    have hpt : (w'.dev x).part = (w.dev x).part := h.field Dev.part (fun _ _ => rfl) x
    have hot : (w'.dev x).output = (w.dev x).output := h.field Dev.output (fun _ _ => rfl) x
    have hop : w'.operational x = w.operational x := by
      unfold operational
      rw [hk, h.field Dev.shutDown (fun _ _ => rfl) x]
    have hS : (fun u => quietSA f w' u) = (fun u => quietSA f w u) := funext (fun u => (ih w w' h u).2)
    have hN : (fun u => quietNU f w' u) = (fun u => quietNU f w u) := funext (fun u => (ih w w' h u).1)
    constructor
    · rw [quietNU, quietNU, hk, hcap, hlev, hup, hgrp, hsw, hpt, hot, hS, hN, h.2]
    · rw [quietSA, quietSA, hk, hgrp, hwd, hop, h.2, (ih w w' h x).1, (ih w w' h _).2]

/-! ### the generalised "wakes nobody" condition -/

/-- Connecting a new downstream neighbour to device `u` of world `w` wakes nobody: `u` is not
initialised yet, or the notification `space_available_downstream` from `u` changes nothing. -/
def QuietU (w : World) (u : Nat) : Prop :=
  (w.dev u).inited = false ∨ quietSA w.fuel w u = true

instance (w : World) (u : Nat) : Decidable (QuietU w u) := by unfold QuietU; infer_instance

theorem quietU_congr {w w' : World} (h : UpEq w w') (hl : w'.devs.length = w.devs.length) (u : Nat) :
    QuietU w' u ↔ QuietU w u := by
  unfold QuietU
  have hf : w'.fuel = w.fuel := by unfold World.fuel; rw [hl]
  rw [h.field Dev.inited (fun _ _ => rfl) u, hf, (quiet_congr w.fuel w w' h u).2]

theorem upEq_modDev_down (w : World) (u : Nat) (g : List Nat → List Nat) :
    UpEq w (w.modDev u (fun du => { du with down := g du.down })) := by
  refine ⟨fun y => ?_, rfl⟩
  rw [dev_modDev]
  split
  · rename_i hc; rw [hc.1]
  · rfl

theorem upEq_linkW (x : Nat) (w : World) (u : Nat) : UpEq w (linkW x w u) := by
  unfold linkW
  split
  · exact UpEq.refl w
  · exact upEq_modDev_down w u (fun l => l ++ [x])

theorem linkW_length (x : Nat) (w : World) (u : Nat) : (linkW x w u).devs.length = w.devs.length := by
  unfold linkW; split <;> simp

theorem rewireStep_quiet' (x : Nat) (w : World) (u : Nat) (h : QuietU w u) :
    C03.rewireStep x w u = linkW x w u := by
  unfold C03.rewireStep linkW
  split
  · rfl
  · dsimp only
    have hup := upEq_modDev_down w u (fun l => l ++ [x])
    have hq := (quietU_congr hup (by simp) u).2 h
    split
    · rename_i hin
      rcases hq with hq | hq
      · rw [hq] at hin; cases hin
      · exact spaceAvail_quiet _ _ _ hq
    · rfl

theorem fold_rewireStep_quiet' (x : Nat) (ups : List Nat) :
    ∀ w : World, (∀ u ∈ ups, QuietU w u) →
      ups.foldl (C03.rewireStep x) w = ups.foldl (linkW x) w := by
  induction ups with
  | nil => intro w _; rfl
  | cons a ups ih =>
    intro w h
    rw [List.foldl_cons, List.foldl_cons, rewireStep_quiet' x w a (h a List.mem_cons_self)]
    exact ih _ (fun u hu => (quietU_congr (upEq_linkW x w a) (linkW_length x w a) u).2
      (h u (List.mem_cons_of_mem _ hu)))

open C02V in
/-- The world with the new device appended and its `up` list set, before any `down` list is
extended (the notifications never read `down` lists, so this is the world to check them on). -/
def appendedW (w : World) (d : Dev) : World :=
  (addDev1 w d).modDev w.devs.length (fun x => { x with up := d.up })

open C02V in
/-- **Registration in closed form, general "wakes nobody" condition.** -/
theorem regDev_eq' (w : World) (d : Dev) (hd : d.inited = false)
    (hq : ∀ u ∈ d.up, QuietU (appendedW w d) u) :
    regDev w d = (regT w.devs.length ((w.assets.length : Int) + 1) d).app w := by
  have hnew : (addDev1 w d).dev w.devs.length = { d with aid := (w.assets.length : Int) + 1, up := [] } := by
    unfold addDev1 World.dev
    exact getD_append_singleton _ _ _
  have hpre : C03.rewirePre (addDev1 w d) w.devs.length d.up = appendedW w d := by
    unfold C03.rewirePre appendedW
    simp only [hnew, hd, Bool.and_false, Bool.false_eq_true, if_false, List.foldl_nil]
  unfold regDev
  rw [C03.rewire_eq, hpre, fold_rewireStep_quiet' _ _ _ hq, fold_linkW_eq]
  unfold appendedW regPath regT Tr.app regF regG setUpL addDev1 modDev setDev World.dev
  simp only [List.append_nil, id]
  split <;> rfl

/-- The old condition is a special case. -/
theorem quietU_of_quietD (w : World) (u : Nat) (h : QuietD (w.dev u)) : QuietU w u := by
  rcases h with h | ⟨hk, hq⟩
  · exact Or.inl h
  · refine Or.inr ?_
    have hf : w.fuel = (2 * w.devs.length + 2) + 1 := rfl
    rw [hf, quietSA]
    cases hkk : (w.dev u).kind <;> rw [hkk] at hk <;> first
      | (exact absurd hk (by decide))
      | (simp only []; rw [operational_eq, hq]; rfl)

/-- **Devices, general condition**: after `simulateInit`, with the new device appended, the
notification from every named upstream device changes nothing. -/
theorem commute_dev' (w : World) (d : Dev) (hst : w.started = false) (hr : Reg w) (hs : SensorsWired w)
    (hd : d.inited = false)
    (hq : ∀ u ∈ d.up, QuietU (appendedW w.simulateInit d) u) :
    w.simulateInit.addAsset (.dev d) = (w.addAsset (.dev d)).simulateInit :=
  commute_dev_core w d hst hr hs hd (regDev_eq' w.simulateInit d hd hq)

end C20W
end SimProc
