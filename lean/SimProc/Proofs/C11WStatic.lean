/-
Machinery for `Props/C11W.lean`, part 8: the class `S` is preserved by every event of a world of
the class, unconditionally (no invariant needed): nothing but `rewire` / `create` ever changes the
kind, the asset id or the declared requirement of a device, or the scripts.
-/
import SimProc.Proofs.C11WBase
import SimProc.Proofs.StaticWorld

namespace SimProc
namespace C02V
open World C11W

/-- the static data of the devices -/
def sd (w : World) : List (Kind × Int × Option Req) := w.devs.map statD

section prim
variable (w : World)

theorem sd_setErr (m : String) : sd (w.setErr m) = sd w := by
  unfold World.setErr; split <;> rfl
theorem sd_addRec (r : Rec) : sd (w.addRec r) = sd w := rfl
theorem sd_addRes (r : Res) : sd (w.addRes r) = sd w := rfl
theorem sd_sched (t a : Int) (act : Action) (p : Int) : sd (w.sched t a act p).1 = sd w := by
  unfold World.sched; simp only []; split <;> rfl
theorem sd_schedLib (t a : Int) (act : Action) (p : Int) : sd (w.schedLib t a act p) = sd w := by
  have := sd_sched w t a act p
  unfold World.schedLib; split <;> simp_all [sd_setErr]
theorem sd_envOp (op : EnvOp) : sd (w.envOp op) = sd w := rfl
theorem sd_rmEffects (recs : List ResRec) (c : Bool) : sd (w.rmEffects recs c) = sd w := by
  unfold World.rmEffects
  have h : sd (recs.foldl (fun w r => w.addRec (.resUpdate r.res w.now r.inUse r.cap)) w) = sd w :=
    foldl_proj sd _ _ _ (fun _ _ => rfl)
  simp only []; split <;> simp [h, sd_schedLib]
theorem sd_setDev_same (x : Nat) (d : Dev) (h : statD d = statD (w.dev x)) : sd (w.setDev x d) = sd w := by
  simp only [sd, World.setDev]
  rw [map_set_getD_self statD w.devs x default d h]
theorem sd_modDev_same (x : Nat) (f : Dev → Dev) (h : ∀ d, statD (f d) = statD d) :
    sd (w.modDev x f) = sd w := sd_setDev_same w x _ (h _)
theorem sd_modPart (p : Nat) (f : PartRec → PartRec) : sd (w.modPart p f) = sd w := rfl
theorem sd_newPart (r : PartRec) : sd (w.newPart r).1 = sd w := rfl

end prim

macro_rules | `(tactic| fr_step) => `(tactic| first
  | rw [sd_setErr] | rw [sd_addRec] | rw [sd_addRes] | rw [sd_schedLib] | rw [sd_sched]
  | rw [sd_envOp] | rw [sd_rmEffects] | rw [sd_setDev_same] | rw [sd_modDev_same] | rw [sd_modPart]
  | rw [sd_newPart] | rw [foldl_proj sd])

section
variable (w : World)

theorem sd_setWaiting (x : Nat) (a b : Bool) : sd (w.setWaiting x a b) = sd w := by
  unfold World.setWaiting; frame
frame_lemma1 sd_setWaiting
theorem sd_schedulePass (x : Nat) (o : Int) : sd (w.schedulePass x o) = sd w := by
  unfold World.schedulePass; frame
frame_lemma1 sd_schedulePass
theorem sd_notify (x : Nat) : sd (w.notify x) = sd w :=
  (notify_proj _ sd_setWaiting sd_schedulePass sd_setErr _ w x).1
theorem sd_spaceAvailable (x : Nat) : sd (w.spaceAvailable x) = sd w :=
  (notify_proj _ sd_setWaiting sd_schedulePass sd_setErr _ w x).2
frame_lemma1 sd_notify
frame_lemma1 sd_spaceAvailable
theorem sd_releaseReserved (x : Nat) : sd (w.releaseReserved x) = sd w := by
  unfold World.releaseReserved; frame
frame_lemma1 sd_releaseReserved
theorem sd_procAcquire (x : Nat) : sd (w.procAcquire x).1 = sd w := by
  unfold World.procAcquire; frame
frame_lemma1 sd_procAcquire
theorem sd_applyPartCb (x p : Nat) (c : PartCb) : sd (w.applyPartCb x p c) = sd w := by
  unfold World.applyPartCb; frame
frame_lemma1 sd_applyPartCb
theorem sd_senseOutput (s p : Nat) : sd (w.senseOutput s p) = sd w := by
  unfold World.senseOutput; frame
frame_lemma1 sd_senseOutput
theorem sd_addHist (p d : Nat) : sd (w.addHist p d) = sd w := by
  unfold World.addHist; frame
frame_lemma1 sd_addHist
theorem sd_dropHist (p : Nat) : sd (w.dropHist p) = sd w := by
  unfold World.dropHist; frame
frame_lemma1 sd_dropHist
theorem sd_shutdownDev (x : Nat) (f : Bool) (l : Option Nat) : sd (w.shutdownDev x f l) = sd w := by
  unfold World.shutdownDev; frame
frame_lemma1 sd_shutdownDev
theorem sd_restoreDev (x : Nat) : sd (w.restoreDev x) = sd w := by
  unfold World.restoreDev; frame
frame_lemma1 sd_restoreDev
theorem sd_releaseIfIdle (x : Nat) : sd (w.releaseIfIdle x) = sd w := by
  unfold World.releaseIfIdle; frame
frame_lemma1 sd_releaseIfIdle
theorem sd_procResourceCb (x : Nat) : sd (w.procResourceCb x) = sd w := by
  unfold World.procResourceCb; frame
frame_lemma1 sd_procResourceCb
theorem sd_setBlock (x : Nat) (b : Bool) : sd (w.setBlock x b) = sd w := by
  unfold World.setBlock; frame
frame_lemma1 sd_setBlock
theorem sd_adjustParts (x : Nat) (v : Int) : sd (w.adjustParts x v) = sd w := by
  unfold World.adjustParts; frame
frame_lemma1 sd_adjustParts
theorem sd_finishCycleHandler (x : Nat) : sd (w.finishCycleHandler x) = sd w := by
  unfold World.finishCycleHandler; frame
frame_lemma1 sd_finishCycleHandler
theorem sd_genPart (x : Nat) : sd (w.genPart x).1 = sd w := by
  cases h : ((w.dev x).genBatch == 0)
  · rw [genPart_batch w x h]; rfl
  · rw [genPart_leaf w x h]; rfl
frame_lemma1 sd_genPart
theorem sd_finishCycle (x : Nat) : sd (w.finishCycle x) = sd w := by
  unfold World.finishCycle; frame
frame_lemma1 sd_finishCycle
theorem sd_scheduleFinish (x : Nat) : sd (w.scheduleFinish x) = sd w := by
  unfold World.scheduleFinish; frame
frame_lemma1 sd_scheduleFinish
theorem sd_batchGet (x p : Nat) : sd (batchGet w x p).1 = sd w := by
  unfold batchGet; frame
frame_lemma1 sd_batchGet
theorem sd_batchShell (x : Nat) : sd (batchShell w x).1 = sd w := by
  unfold batchShell; frame
frame_lemma1 sd_batchShell
theorem sd_batchAdd (x t : Nat) : sd (batchAdd w x t) = sd w := by
  unfold batchAdd; frame
frame_lemma1 sd_batchAdd

end

theorem sd_batcherLoop (f : Nat) : ∀ (w : World) (x : Nat), sd (batcherLoop f w x) = sd w := by
  induction f with
  | zero => intro w x; rfl
  | succ f ih =>
    intro w x; rw [batcherLoop_succ]
    split
    · rw [ih]; frame
    · rfl
frame_lemma1 sd_batcherLoop

section
variable (w : World)

theorem sd_tryMove (x : Nat) : sd (w.tryMove x) = sd w := by
  unfold World.tryMove; frame
frame_lemma1 sd_tryMove
theorem sd_onReceived (x p : Nat) : sd (w.onReceived x p) = sd w := by
  unfold World.onReceived; frame
frame_lemma1 sd_onReceived
theorem sd_acceptPart (x p : Nat) : sd (w.acceptPart x p) = sd w := by
  unfold World.acceptPart; frame
frame_lemma1 sd_acceptPart

theorem sd_give (f : Nat) (x p : Nat) : sd (give f w x p).1 = sd w :=
  give_proj _ sd_acceptPart sd_procAcquire sd_setErr sd_addHist sd_dropHist (fun _ _ _ => rfl) f w x p
theorem sd_tryGive (l : List Nat) (p : Nat) : sd (tryList givePart w l p).1 = sd w :=
  tryList_proj _ _ (fun w y p => sd_give w _ y p) l w p
theorem sd_passHandler (x : Nat) : sd (w.passHandler x) = sd w :=
  passHandler_proj _ sd_tryGive (fun w x => sd_modDev_same w x _ (fun _ => rfl))
    (fun w x => sd_modDev_same w x _ (fun _ => rfl)) sd_notify w x
theorem sd_bufferLoop (f : Nat) (x : Nat) : sd (bufferLoop f w x) = sd w :=
  bufferLoop_proj _ sd_tryGive (fun w x _ => sd_modDev_same w x _ (fun _ => rfl)) (fun _ _ => rfl) f w x
frame_lemma1 sd_passHandler
frame_lemma1 sd_bufferLoop

theorem sd_passPart (x : Nat) : sd (w.passPart x) = sd w := by
  unfold World.passPart; frame
theorem sd_failDev (x : Nat) : sd (w.failDev x) = sd w := by
  unfold World.failDev; frame
theorem sd_initDev (x : Nat) : sd (w.initDev x) = sd w := by
  unfold World.initDev; frame
frame_lemma1 sd_initDev

theorem sd_startOrders (m : Nat) (l : List Order) : sd (w.startOrders m l) = sd w := by
  unfold World.startOrders; frame
frame_lemma1 sd_startOrders
theorem sd_schedUpdate (s : Nat) (b : Bool) : sd (w.schedUpdate s b) = sd w := by
  unfold World.schedUpdate; frame
frame_lemma1 sd_schedUpdate
theorem sd_periodicSense (s : Nat) : sd (w.periodicSense s) = sd w := by
  unfold World.periodicSense; frame
theorem sd_modMaint (m : Nat) (f : Maint → Maint) : sd (w.modMaint m f) = sd w := rfl
frame_lemma1 sd_modMaint
theorem sd_setVar (h : Nat) (v : Option Nat) : sd (w.setVar h v) = sd w := rfl
frame_lemma1 sd_setVar
theorem sd_initAsset (a : AssetRef) : sd (w.initAsset a) = sd w := by
  unfold World.initAsset; frame

end

/-- Operations other than `rewire` and `create` keep the static data. -/
theorem sd_applyOp (w : World) (op : Op) (h1 : ∀ d ups, op ≠ .rewire d ups) (h2 : ∀ s, op ≠ .create s) :
    sd (w.applyOp op).1 = sd w := by
  cases op
  case rewire d ups => exact absurd rfl (h1 d ups)
  case create s => exact absurd rfl (h2 s)
  all_goals (unfold World.applyOp; frame')

/-- the scripts of the class -/
def ScrOK (w : World) : Prop := ∀ l ∈ w.scripts, ∀ op ∈ l, opOK (w.devs.map (·.aid)) op = true

/-- static data and scripts are unchanged -/
def SS (w w' : World) : Prop := sd w' = sd w ∧ w'.scripts = w.scripts

theorem SS.refl (w : World) : SS w w := ⟨rfl, rfl⟩
theorem SS.trans {a b c : World} (h1 : SS a b) (h2 : SS b c) : SS a c :=
  ⟨h2.1.trans h1.1, h2.2.trans h1.2⟩

theorem aids_of_sd {w w' : World} (h : sd w' = sd w) : w'.devs.map (·.aid) = w.devs.map (·.aid) := by
  have := congrArg (List.map (fun a : Kind × Int × Option Req => a.2.1)) h
  simpa [sd, statD, List.map_map, Function.comp_def] using this

theorem ScrOK.of_ss {w w' : World} (h : ScrOK w) (r : SS w w') : ScrOK w' := by
  intro l hl op hop
  rw [r.2] at hl
  rw [aids_of_sd r.1]
  exact h l hl op hop

theorem opOK_not_rewire {aids : List Int} {op : Op} (h : opOK aids op = true) :
    (∀ d ups, op ≠ .rewire d ups) ∧ (∀ s, op ≠ .create s) := by
  constructor
  · intro d ups e; subst e; simp [opOK] at h
  · intro s e; subst e; simp [opOK] at h

theorem ss_applyOps (ops : List Op) : ∀ (w : World), ScrOK w →
    (∀ op ∈ ops, ∃ l ∈ w.scripts, op ∈ l) → SS w (w.applyOps ops) := by
  induction ops with
  | nil => intro w _ _; exact SS.refl w
  | cons op ops ih =>
    intro w h hsub
    unfold World.applyOps
    simp only [List.foldl_cons]
    obtain ⟨l, hl, hop⟩ := hsub op (List.mem_cons_self ..)
    have hn := opOK_not_rewire (h l hl op hop)
    have r1 : SS w ((w.applyOp op).1.addRes (w.applyOp op).2) :=
      ⟨sd_applyOp w op hn.1 hn.2, scr_applyOp w op⟩
    have := ih _ (h.of_ss r1) (fun o ho => by
      rw [r1.2]; exact hsub o (List.mem_cons_of_mem _ ho))
    unfold World.applyOps at this
    exact r1.trans this

theorem ss_runScript (w : World) (k : Nat) (h : ScrOK w) : SS w (w.runScript k) := by
  unfold World.runScript
  apply ss_applyOps _ w h
  intro op hop
  by_cases hk : k < w.scripts.length
  · have : w.scripts.getD k [] = w.scripts[k] := by simp [List.getD_eq_getElem?_getD, hk]
    rw [this] at hop
    exact ⟨_, List.getElem_mem hk, hop⟩
  · have : w.scripts.getD k [] = [] := by simp [List.getD_eq_getElem?_getD, Nat.le_of_not_lt hk]
    rw [this] at hop; cases hop

theorem ss_scan (n : Nat) : ∀ (w : World) (i : Nat), ScrOK w → SS w (scanWaiting scanOps n w i) := by
  induction n with
  | zero => intro w i _; exact SS.refl w
  | succ n ih =>
    intro w i h
    unfold scanWaiting
    split
    · exact SS.refl w
    · split
      · rename_i req cb _ _
        have r1 : SS w (scanOps.erase (scanOps.call w cb req) i) := by
          cases cb with
          | script k =>
            have r0 : SS w (w.addRes (.cb k)) := ⟨rfl, rfl⟩
            exact (r0.trans (ss_runScript _ k (h.of_ss r0))).trans ⟨rfl, rfl⟩
          | proc d => exact ⟨sd_procResourceCb w d, scr_procResourceCb w d⟩
        exact r1.trans (ih _ _ (h.of_ss r1))
      · exact ih _ _ h

theorem ss_hookStart (w : World) (tgt : Nat) (tag : Int) (h : ScrOK w) : SS w (w.hookStart tgt tag) := by
  have r0 : SS w (w.addRes (.hook true tgt tag)) := ⟨rfl, rfl⟩
  unfold World.hookStart
  simp only []
  split
  · exact r0.trans ⟨sd_shutdownDev .., scr_shutdownDev ..⟩
  · split
    · exact r0.trans (ss_runScript _ _ (h.of_ss r0))
    · exact r0

theorem ss_hookEnd (w : World) (tgt : Nat) (tag : Int) (h : ScrOK w) : SS w (w.hookEnd tgt tag) := by
  have r0 : SS w (w.addRes (.hook false tgt tag)) := ⟨rfl, rfl⟩
  unfold World.hookEnd
  simp only []
  split
  · exact r0.trans ⟨sd_restoreDev .., scr_restoreDev ..⟩
  · split
    · exact r0.trans (ss_runScript _ _ (h.of_ss r0))
    · exact r0

theorem ss_startWork (w : World) (m seq : Nat) (h : ScrOK w) : SS w (w.startWork m seq) := by
  have key : ∀ w' : World, SS w w' → ∀ t g a b c d,
      SS w ((w'.hookStart t g).schedLib a b c d) := fun w' r t g a b c d =>
    (r.trans (ss_hookStart w' t g (h.of_ss r))).trans ⟨sd_schedLib .., scr_schedLib ..⟩
  unfold World.startWork
  split
  · exact ⟨sd_setErr .., scr_setErr ..⟩
  · simp only []
    refine key _ ?_ _ _ _ _ _ _
    exact ⟨rfl, rfl⟩

theorem ss_finishWork (w : World) (m seq : Nat) (h : ScrOK w) : SS w (w.finishWork m seq) := by
  have key : ∀ w' : World, SS w w' → ∀ w'' : World, SS w' w'' → ∀ m l,
      SS w (w''.startOrders m l) := fun w' r w'' r' m l =>
    (r.trans r').trans ⟨sd_startOrders .., scr_startOrders ..⟩
  unfold World.finishWork
  split
  · exact ⟨sd_setErr .., scr_setErr ..⟩
  · simp only []
    rename_i o _
    refine key _ (ss_hookEnd w o.target o.tag h) _ ?_ _ _
    exact ⟨rfl, rfl⟩

theorem ss_exec (w : World) (a : Action) (h : ScrOK w) : SS w (w.exec a) := by
  cases a with
  | terminate => exact SS.refl w
  | script k => exact ss_runScript w k h
  | finishCycle d => exact ⟨sd_finishCycle w d, scr_finishCycle w d⟩
  | passPart d => exact ⟨sd_passPart w d, scr_passPart w d⟩
  | fail d => exact ⟨sd_failDev w d, scr_failDev w d⟩
  | releaseIfIdle d => exact ⟨sd_releaseIfIdle w d, scr_releaseIfIdle w d⟩
  | rmCheck => exact ss_scan _ _ _ h
  | startWork m o => exact ss_startWork w m o h
  | finishWork m o => exact ss_finishWork w m o h
  | schedUpdate s => exact ⟨sd_schedUpdate w s true, scr_schedUpdate w s true⟩
  | periodicSense s => exact ⟨sd_periodicSense w s, scr_periodicSense w s⟩
  | unknown n => exact ⟨sd_setErr .., scr_setErr ..⟩

theorem ss_step (w w' : World) (e : Event) (h : ScrOK w) (hst : w.step = some (e, w')) : SS w w' := by
  unfold World.step at hst
  split at hst
  · cases hst
  · rename_i e' env' henv
    simp only [Option.some.injEq, Prod.mk.injEq] at hst
    obtain ⟨rfl, rfl⟩ := hst
    split
    · exact (show SS w { w with env := env' } from ⟨rfl, rfl⟩).trans (ss_exec _ _ h)
    · exact ⟨rfl, rfl⟩

theorem ss_simulateInit (w : World) : SS w w.simulateInit := by
  unfold World.simulateInit
  split
  · exact SS.refl w
  · simp only []
    constructor
    · show sd (List.foldl _ _ _) = _
      rw [foldl_proj sd _ _ _ (fun _ _ => sd_initAsset ..), sd_rmEffects]; rfl
    · show World.scripts (List.foldl _ _ _) = _
      rw [foldl_proj World.scripts _ _ _ (fun _ _ => scr_initAsset ..), scr_rmEffects]

end C02V

namespace C11W
open World C02V

theorem S.scrOK {w : World} (h : S w) : ScrOK w := h.scripts

theorem S.of_ss {w w' : World} (h : S w) (r : SS w w') : S w' := h.of_eq r.2 r.1

/-- **The class `S` is preserved by every event** (no invariant needed). -/
theorem S_step_uncond (w w' : World) (e : Event) (h : S w) (hst : w.step = some (e, w')) : S w' :=
  h.of_ss (ss_step w w' e h.scrOK hst)

theorem S_runLoop_uncond (n : Nat) : ∀ (w : World), S w → S (runLoop n w) := by
  induction n with
  | zero => intro w h; exact h.of_ss ⟨sd_setErr .., scr_setErr ..⟩
  | succ n ih =>
    intro w h
    unfold runLoop
    split
    · split
      · exact h
      · rename_i e w' hst
        exact ih w' (S_step_uncond w w' e h hst)
    · exact h

theorem S_simulateInit_uncond (w : World) (h : S w) : S w.simulateInit :=
  h.of_ss (ss_simulateInit w)

end C11W
end SimProc
