/-
C15D — machinery, part 5: the per-sink invariants for ONE sink, with an offset.

Without closed wiring a sink created late may find `received_part` records under its index
(`C15D.received_per_sink_dangling_false`).  What remains true in every world: from the moment a sink
exists, its counter / collected value and the number / sum of its records move in step — the
difference is constant.  (For the sinks of the fresh world the difference is 0.)
-/
import SimProc.Proofs.C15DReach

namespace SimProc
namespace C15D
open World FloorCoreL C15 C15W RM
set_option linter.unusedSimpArgs false

variable {ph : Phase}

/-- The value collected by sink `y` is the sum of the values in its records plus `c`. -/
def RecvValAt (y : Nat) (c : Int) (k : WKey) : Prop :=
  (k.dev y).kind = .sink → (k.dev y).recvValue = recvSum k.recs y + c

theorem RecvValAt.step {y : Nat} {c : Int} {k k' : WKey} (h : KStep ph k k') (hi : RecvValAt y c k) :
    RecvValAt y c k' := by
  induction h with
  | refl k => exact hi
  | trans _ _ ih1 ih2 => exact ih2 (ih1 hi)
  | plain k r hp ht =>
    have := hi
    simp only [RecvValAt, WKey.dev, WKey.addRecs, recvSum_append, recvSum_plain hp] at this ⊢
    simpa using this
  | recvSink k x p q v lv hph hx hk =>
    have := hi
    simp only [RecvValAt, WKey.dev, C15W.getD_set, recvSum_append] at this hk ⊢
    by_cases hxy : x = y
    · subst hxy
      rw [if_pos ⟨rfl, hx⟩]
      intro _
      have e : recvSum [Rec.received x k.now p q v] x = v := by simp [recvSum]
      rw [e]
      have := this hk
      dsimp only
      omega
    · rw [if_neg (fun h => hxy h.1)]
      have e : recvSum [Rec.received x k.now p q v] y = 0 := by simp [recvSum, hxy]
      rw [e]
      intro hs
      have := this hs
      omega
  | recvBuf k x p n q v hph hx hk =>
    have := hi
    simp only [RecvValAt, WKey.dev, C15W.getD_set, recvSum_append] at this hk ⊢
    by_cases hxy : x = y
    · subst hxy
      rw [if_pos ⟨rfl, hx⟩]
      intro hs
      rw [hk] at hs; cases hs
    · rw [if_neg (fun h => hxy h.1)]
      have e : recvSum [Rec.level x k.now ((k.devs.getD x default).level + n), Rec.received x k.now p q v] y = 0 := by
        simp [recvSum, hxy]
      rw [e]
      intro hs
      have := this hs
      omega
  | recvOther k x p q v hph hk1 hk2 =>
    have := hi
    simp only [RecvValAt, WKey.dev, WKey.addRecs, recvSum_append] at this hk1 ⊢
    intro hs
    have hxy : x ≠ y := by intro e; subst e; exact hk1 hs
    have e : recvSum [Rec.received x k.now p q v] y = 0 := by simp [recvSum, hxy]
    rw [e]
    have := this hs
    omega
  | _ =>
    have := hi
    simp only [RecvValAt, WKey.dev, WKey.addRecs, C15W.getD_set, recvSum_append, recvSum_stamp] at this ⊢
    try split
    all_goals simp_all [recvSum]

/-- The counter of sink `y` is the number of its records plus `c`. -/
def CountAt (y : Nat) (c : Int) (k : WKey) : Prop :=
  (k.dev y).kind = .sink → (k.dev y).recvCount = countRecv k.recs y + c

theorem CountAt.step {y : Nat} {c : Int} {k k' : WKey} (h : KStep ph k k') (hl : LeafInv k)
    (hi : CountAt y c k) : CountAt y c k' := by
  induction h with
  | refl k => exact hi
  | trans h1 _ ih1 ih2 => exact ih2 (LeafInv.step h1 hl) (ih1 hl hi)
  | plain k r hp ht =>
    have := hi
    simp only [CountAt, WKey.dev, WKey.addRecs, countRecv_append, countRecv_plain hp] at this ⊢
    simpa using this
  | recvSink k x p q v lv hph hx hk hlv =>
    have := hi
    have h1 := hlv hl.2
    simp only [CountAt, WKey.dev, C15W.getD_set, countRecv_append] at this hk ⊢
    by_cases hxy : x = y
    · subst hxy
      rw [if_pos ⟨rfl, hx⟩]
      intro _
      have e : countRecv [Rec.received x k.now p q v] x = 1 := by simp [countRecv, isReceivedBy]
      rw [e, h1]
      have := this hk
      dsimp only
      omega
    · rw [if_neg (fun h => hxy h.1)]
      have e : countRecv [Rec.received x k.now p q v] y = 0 := by simp [countRecv, isReceivedBy, hxy]
      rw [e]
      intro hs
      have := this hs
      omega
  | recvBuf k x p n q v hph hx hk =>
    have := hi
    simp only [CountAt, WKey.dev, C15W.getD_set, countRecv_append] at this hk ⊢
    by_cases hxy : x = y
    · subst hxy
      rw [if_pos ⟨rfl, hx⟩]
      intro hs
      rw [hk] at hs; cases hs
    · rw [if_neg (fun h => hxy h.1)]
      have e : countRecv [Rec.level x k.now ((k.devs.getD x default).level + n),
          Rec.received x k.now p q v] y = 0 := by
        simp [countRecv, isReceivedBy, hxy]
      rw [e]
      intro hs
      have := this hs
      omega
  | recvOther k x p q v hph hk1 hk2 =>
    have := hi
    simp only [CountAt, WKey.dev, WKey.addRecs, countRecv_append] at this hk1 ⊢
    intro hs
    have hxy : x ≠ y := by intro e; subst e; exact hk1 hs
    have e : countRecv [Rec.received x k.now p q v] y = 0 := by simp [countRecv, isReceivedBy, hxy]
    rw [e]
    have := this hs
    omega
  | _ =>
    have := hi
    simp only [CountAt, WKey.dev, WKey.addRecs, C15W.getD_set, countRecv_append, countRecv_stamp] at this ⊢
    try split
    all_goals simp_all [countRecv, isReceivedBy]

/-! ### lifted to worlds that create assets: the sink must exist -/

variable {P : WKey → DKey → Prop}

theorem RecvValAt.dstep {y : Nat} {c : Int} {k k' : WKey} (h : DStep P ph k k')
    (hi : y < k.devs.length ∧ RecvValAt y c k) : y < k'.devs.length ∧ RecvValAt y c k' := by
  refine h.lift (I := fun k => y < k.devs.length ∧ RecvValAt y c k)
    (fun h hi => ⟨by rw [(KStep.static h).1]; exact hi.1, RecvValAt.step h hi.2⟩) ?_
    (fun _ _ _ hi => hi) hi
  intro k d _ hi
  refine ⟨by simp; omega, ?_⟩
  unfold RecvValAt
  rw [dev_newDev, if_neg (Nat.ne_of_lt hi.1)]
  exact hi.2

theorem CountAt.dstep (hP : ∀ k d, P k d → d.genBatch = 0 ∧ d.bsize = none) {y : Nat} {c : Int}
    {k k' : WKey} (h : DStep P ph k k')
    (hi : LeafInv k ∧ y < k.devs.length ∧ CountAt y c k) :
    LeafInv k' ∧ y < k'.devs.length ∧ CountAt y c k' := by
  refine h.lift (I := fun k => LeafInv k ∧ y < k.devs.length ∧ CountAt y c k)
    (fun h hi => ⟨LeafInv.step h hi.1, by rw [(KStep.static h).1]; exact hi.2.1,
      CountAt.step h hi.1 hi.2.2⟩) ?_ (fun _ _ _ hi => hi) hi
  intro k d hp hi
  refine ⟨LeafInv.dstep hP (DStep.newDev (ph := ph) k d hp) hi.1, by simp; omega, ?_⟩
  unfold CountAt
  rw [dev_newDev, if_neg (Nat.ne_of_lt hi.2.1)]
  exact hi.2.2

end C15D
end SimProc
