/-
C04 (general serial line) — layer 2: the PASS event of a buffer (loop of hand-overs) and the
terminate event.
-/
import SimProc.Proofs.C04WRun

set_option linter.unusedSimpArgs false
set_option linter.unusedVariables false

namespace SimProc
namespace C04W
open World C04
open SS (Key key cls)


/-! ### the loop of a buffer's hand-over -/

/-- State of the loop: buffer `j` has released the parts up to `xj`; station `j+1` satisfies its
invariant. -/
structure BL (P : Par) (s : S) (j xp xj x1 x2 : Nat) (m1 : Mode) : Prop where
  good : Good P s
  d1 : DI P s (j + 1) xj x1 x2 m1
  slots : Slots P.L j (dyn (dv s j)) xp xj .idle
  wds : (dv s j).waitingDS = false
  past : dI P.L j xj ≤ s.now
  le : xj ≤ xp
  lb : xj < xp → s.now ≤ dI P.L j (xj + 1)
  ent : rtj j s.recs = (List.range xp).map (fun k => dI P.L (j - 1) (k + 1))
  keys : cls ((j : Int) + 1) s.evs = []

theorem buf_nil_of_slots {L : Line} {j : Nat} (hk : kindOf L j = .buffer) {d : Dev} {xp xj : Nat} {m : Mode}
    (h : Slots L j (dyn d) xp xj m) (hx : xp = xj) : d.buf = [] := by
  have := ((Slots_buffer hk _ _ _ _).1 h).2.2.2
  simp only [dyn] at this
  subst hx
  simpa using this

theorem buf_cons_of_slots {L : Line} {j : Nat} (hk : kindOf L j = .buffer) {d : Dev} {xp xj : Nat} {m : Mode}
    (h : Slots L j (dyn d) xp xj m) (hx : xj < xp) :
    ∃ p rest, d.buf = (eI L j (xj + 1), p) :: rest := by
  have := ((Slots_buffer hk _ _ _ _).1 h).2.2.2
  simp only [dyn] at this
  obtain ⟨k, hk'⟩ : ∃ k, xp - xj = k + 1 := ⟨xp - xj - 1, by omega⟩
  rw [hk', List.range_succ_eq_map] at this
  cases hb : d.buf with
  | nil => rw [hb] at this; simp at this
  | cons tp rest =>
    obtain ⟨t, p⟩ := tp
    rw [hb] at this
    simp only [List.map_cons, Nat.add_zero] at this
    obtain ⟨h1, _⟩ := List.cons.inj this
    exact ⟨p, rest, by rw [h1]⟩

theorem slots_drop {L : Line} {j : Nat} (hk : kindOf L j = .buffer) {d : Dyn} {xp xj : Nat} {m m' : Mode}
    (h : Slots L j d xp xj m) (hx : xj < xp) :
    Slots L j { d with level := d.level - 1, buf := d.buf.drop 1 } xp (xj + 1) m' := by
  obtain ⟨h1, h2, h3, h4⟩ := (Slots_buffer hk _ _ _ _).1 h
  refine (Slots_buffer hk _ _ _ _).2 ⟨h1, h2, ?_, ?_⟩
  · show d.level - 1 = xp - (xj + 1)
    rw [h3]; omega
  · show (d.buf.drop 1).map (·.1) = _
    obtain ⟨k, hk'⟩ : ∃ k, xp - xj = k + 1 := ⟨xp - xj - 1, by omega⟩
    have hk2 : xp - (xj + 1) = k := by omega
    rw [List.map_drop, h4, hk', hk2, List.range_succ_eq_map]
    simp only [List.map_cons, List.drop_one, List.tail_cons, List.map_map]
    apply List.map_congr_left
    intro i _
    show eI L j (xj + 1 + (i + 1)) = eI L j (xj + 1 + 1 + i)
    congr 1
    omega

/-- How the loop ended. -/
def LoopExit (P : Par) (s' : S) (j xp xj' : Nat) (now : Int) : Prop :=
  xj' = xp ∨
  (xj' < xp ∧ now < eI P.L j (xj' + 1) + (stn P.L j).c) ∨
  (xj' < xp ∧ eI P.L j (xj' + 1) + (stn P.L j).c ≤ now ∧ canAcc (dv s' (j + 1)) = false)

theorem bufLoop_spec {P : Par} (hL : P.L.WF) {j : Nat} (hj : j < P.L.n) (hk : kindOf P.L j = .buffer)
    (f : Nat) {s : S} {xp xj x1 x2 : Nat} {m1 : Mode} (h : BL P s j xp xj x1 x2 m1) (hf : xp - xj < f) :
    ∃ xj' x1' m1', BL P (bufLoopS P f s j) j xp xj' x1' x2 m1' ∧
      Foot P.L [j, j + 1] s (bufLoopS P f s j) ∧ xj ≤ xj' ∧
      (xj < xj' → dI P.L j (xj + 1) = s.now) ∧
      LoopExit P (bufLoopS P f s j) j xp xj' s.now ∧
      (j + 1 < P.L.n → x1' = x1) ∧ (xj' = xj → x1' = x1 ∧ m1' = m1) ∧ x1 ≤ x1' := by
  induction f generalizing s xj x1 m1 with
  | zero => omega
  | succ f ih =>
    have hle := Nat.le_of_lt hj
    have hbuf : isBuf P.L j = true := by unfold isBuf; rw [hk]; rfl
    have hdel := h.good.delay_eq hle hbuf
    unfold bufLoopS
    by_cases hx : xj = xp
    · rw [buf_nil_of_slots hk h.slots hx.symm]
      exact ⟨xj, x1, m1, h, Foot.refl _ _ _, Nat.le_refl _, fun h' => absurd h' (Nat.lt_irrefl _),
        Or.inl hx, fun _ => rfl, fun _ => ⟨rfl, rfl⟩, Nat.le_refl _⟩
    · have hlt : xj < xp := by have := h.le; omega
      obtain ⟨p, rest, hb⟩ := buf_cons_of_slots hk h.slots hlt
      rw [hb]
      simp only [hdel]
      by_cases hd : (stn P.L j).c - (s.now - eI P.L j (xj + 1)) > 0
      · rw [if_pos hd]
        exact ⟨xj, x1, m1, h, Foot.refl _ _ _, Nat.le_refl _, fun h' => absurd h' (Nat.lt_irrefl _),
          Or.inr (Or.inl ⟨hlt, by omega⟩), fun _ => rfl, fun _ => ⟨rfl, rfl⟩, Nat.le_refl _⟩
      · rw [if_neg hd]
        by_cases hc : canAcc (dv s (j + 1)) = true
        · obtain ⟨hE, da, Fa⟩ := transfer_spec h.good hL hj p h.d1 h.wds hc (by omega) h.past (h.lb hlt)
          have hg : giveS P s (j + 1) p = (acceptS P s (j + 1) p, true) := by
            unfold giveS; rw [if_pos hc]
          simp only [hg, if_true]
          obtain ⟨s1, hs1⟩ : ∃ s1, s1 = acceptS P s (j + 1) p := ⟨_, rfl⟩
          rw [← hs1] at da Fa ⊢
          have hG1 : Good P s1 := by rw [hs1]; exact h.good.acceptS _ _
          have hlt1 : j < s1.ds.length := hG1.stat.lt hle
          have hd1 : dv s1 j = dv s j := Fa.dvj j (by simp)
          have hn1 : s1.now = s.now := Fa.now
          obtain ⟨s2, hs2⟩ : ∃ s2, s2 = addR (setD s1 j { dv s1 j with level := (dv s1 j).level - 1, buf := (dv s1 j).buf.drop 1 }) (.level j s.now ((dv s1 j).level - 1)) := ⟨_, rfl⟩
          rw [← hs2]
          have F2 : Foot P.L [j] s1 s2 := by
            rw [hs2]
            exact (Foot.setD P.L _ _ _).trans (Foot.addR _ _ _ (.level j s.now _) trivial)
          have hn2 : s2.now = s.now := by rw [F2.now, hn1]
          have hdv2 : dyn (dv s2 j) = { dyn (dv s j) with level := (dyn (dv s j)).level - 1,
                                                          buf := (dyn (dv s j)).buf.drop 1 } := by
            rw [hs2, dv_addR, dv_setD_same _ _ _ hlt1, hd1]; rfl
          have h2 : BL P s2 j xp (xj + 1) (accX P.L (j + 1) x1) x2 (accM P.L (j + 1) s.now m1) := by
            refine ⟨by rw [hs2]; exact (hG1.setD (by rfl)).addR _, da.frame F2 (by simp), ?_, ?_, ?_, hlt, ?_, ?_,
              by rw [hs2, addR_evs, setD_evs, Fa.kj j (by simp)]; exact h.keys⟩
            · rw [hdv2]; exact slots_drop hk h.slots hlt
            · have : (dyn (dv s2 j)).wds = false := by rw [hdv2]; exact h.wds
              exact this
            · rw [hn2, hE]; exact Int.le_refl _
            · intro _
              rw [hn2, ← hE]
              exact dI_mono P.L hL j (xj + 1)
            · rw [hs2, addR_recs, setD_recs, rtj_level, Fa.rt j (by simp)]
              exact h.ent
          obtain ⟨xj', x1', m1', hb', F', hle', hfirst, hexit, hx1, _, hge⟩ := ih h2 (by omega)
          rw [hn2] at hexit
          refine ⟨xj', x1', m1', hb', ((Fa.mono (by simp)).trans (F2.mono (by simp))).trans F',
            by omega, fun _ => hE, hexit, fun hn => ?_, fun he => by omega,
            Nat.le_trans (accX_ge P.L (j + 1) x1) hge⟩
          rw [hx1 hn]
          unfold accX
          rw [if_neg (by omega)]
        · have hc' : canAcc (dv s (j + 1)) = false := by simpa using hc
          have hg : giveS P s (j + 1) p = (s, false) := by
            unfold giveS; rw [if_neg hc]
          simp only [hg, Bool.false_eq_true, if_false]
          exact ⟨xj, x1, m1, h, Foot.refl _ _ _, Nat.le_refl _, fun h' => absurd h' (Nat.lt_irrefl _),
            Or.inr (Or.inr ⟨hlt, by omega, hc'⟩), fun _ => rfl, fun _ => ⟨rfl, rfl⟩, Nat.le_refl _⟩


/-- Buffer slots do not depend on the mode. -/
theorem Slots.buffer_mode {L : Line} {j : Nat} (hk : kindOf L j = .buffer) {d d' : Dyn} {xp xj : Nat}
    {m m' : Mode} (h : Slots L j d xp xj m) (h1 : d'.part = d.part) (h2 : d'.output = d.output)
    (h3 : d'.buf = d.buf) (h4 : d'.level = d.level) : Slots L j d' xp xj m' := by
  obtain ⟨a, b, c, e⟩ := (Slots_buffer hk _ _ _ _).1 h
  exact (Slots_buffer hk _ _ _ _).2 ⟨by rw [h1]; exact a, by rw [h2]; exact b, by rw [h4]; exact c,
    by rw [h3]; exact e⟩

/-- After the loop: the buffer is empty, waits for its head to become ready, or is blocked. -/
theorem buf_settle {P : Par} (hL : P.L.WF) {j : Nat} (hj1 : 1 ≤ j) (hj : j < P.L.n)
    (hk : kindOf P.L j = .buffer) {s1 : S} {xp xj' x1' x2 : Nat} {m1' : Mode}
    (hb : BL P s1 j xp xj' x1' x2 m1') (hexit : LoopExit P s1 j xp xj' s1.now)
    (hcap : ∀ K, (stn P.L j).effCap = some K → xp ≤ xj' + K) (now : Int) (hnow : now = s1.now) :
    ∃ mj',
      let s2 := match (dv s1 j).buf with
        | [] => s1
        | (t, _) :: _ =>
          if (dv s1 j).delay - (now - t) > 0 then passS P s1 j ((dv s1 j).delay - (now - t))
          else setD s1 j { dv s1 j with waitingDS := true }
      Good P s2 ∧ Foot P.L [j] s1 s2 ∧ cls ((j : Int) + 1) s2.evs = keysOf P.L j xj' mj' ∧
      PD P.L s1.now j (dyn (dv s2 j)) xp xj' x1' mj' ∧ s2.recs = s1.recs ∧ s2.parts = s1.parts ∧
      ((mj' = .idle ∧ xj' = xp) ∨ (rank mj' = 1 ∧ s1.now < eI P.L j (xj' + 1) + (stn P.L j).c) ∨
        mj' = .blocked) := by
  subst hnow
  have hle := Nat.le_of_lt hj
  have hlt := hb.good.stat.lt hle
  have hbuf : isBuf P.L j = true := by unfold isBuf; rw [hk]; rfl
  have hdel := hb.good.delay_eq hle hbuf
  have hwf : (dyn (dv s1 j)).wds = false := hb.wds
  rcases hexit with hx | ⟨hlt', hnr⟩ | ⟨hlt', hr, hc⟩
  · -- empty
    rw [buf_nil_of_slots hk hb.slots hx.symm]
    refine ⟨.idle, hb.good, Foot.refl _ _ _, hb.keys, ?_, rfl, rfl, Or.inl ⟨rfl, hx⟩⟩
    exact { past := hb.past, le := fun _ => hb.le, cap := fun _ => hcap,
            idle := fun _ => ⟨hj1, hx.symm⟩, nonidle := fun _ h => absurd rfl h,
            procm := (by intro h; cases h), readym := (by intro t h; cases h),
            blockedm := (by intro h; cases h), exhm := (by intro h; cases h),
            wds := (by rw [hwf]; simp), slots := hb.slots }
  · -- the head is not ready yet
    obtain ⟨p, rest, hbf⟩ := buf_cons_of_slots hk hb.slots hlt'
    rw [hbf]
    have hd : (dv s1 j).delay - (s1.now - eI P.L j (xj' + 1)) > 0 := by rw [hdel]; omega
    simp only [hd, if_true]
    refine ⟨.ready (eI P.L j (xj' + 1) + (stn P.L j).c), hb.good.passS _ _,
      Foot.passS hb.good hle _ (by omega), ?_, ?_, rfl, rfl, Or.inr (Or.inl ⟨rfl, hnr⟩)⟩
    · rw [cls_passS_same hb.good hle _ hb.keys, hdel]
      simp only [keysOf]
      congr 2
      omega
    · rw [dyn_passS_same _ _ _ _ hlt]
      have := dI_ge_ec P.L hL hle xj'
      exact { past := hb.past, le := fun _ => hb.le, cap := fun _ => hcap,
              idle := (by intro h; cases h), nonidle := fun _ _ => hlt',
              procm := (by intro h; cases h),
              readym := (by
                intro t h; cases h
                exact ⟨hj, Int.le_refl _, this⟩),
              blockedm := (by intro h; cases h), exhm := (by intro h; cases h),
              wds := (by simp), slots := hb.slots.buffer_mode hk rfl rfl rfl rfl }
  · -- refused
    obtain ⟨p, rest, hbf⟩ := buf_cons_of_slots hk hb.slots hlt'
    rw [hbf]
    have hd : ¬ (dv s1 j).delay - (s1.now - eI P.L j (xj' + 1)) > 0 := by rw [hdel]; omega
    simp only [hd, if_false]
    obtain ⟨K, hK, hxK⟩ := full_of_not_room hb.good.stat (by omega) (by omega : j + 1 ≤ P.L.n) hb.d1.pd hc
    refine ⟨.blocked, hb.good.setD (by rfl), Foot.setD P.L _ _ _, hb.keys, ?_, rfl, rfl, Or.inr (Or.inr rfl)⟩
    rw [dv_setD_same _ _ _ hlt]
    show PD P.L s1.now j { dyn (dv s1 j) with wds := true } _ _ _ _
    exact { past := hb.past, le := fun _ => hb.le, cap := fun _ => hcap,
            idle := (by intro h; cases h), nonidle := fun _ _ => hlt',
            procm := (by intro h; cases h), readym := (by intro t h; cases h),
            blockedm := fun _ => ⟨hj, hr, K, hK, hxK⟩, exhm := (by intro h; cases h),
            wds := (by simp), slots := hb.slots.buffer_mode hk rfl rfl rfl rfl }

theorem bufRoom_iff {P : Par} {s : S} (hG : Good P s) {j : Nat} (hj : j ≤ P.L.n)
    (hk : kindOf P.L j = .buffer) {xp xj : Nat} {m : Mode} (hsl : Slots P.L j (dyn (dv s j)) xp xj m) :
    bufRoom (dv s j) = true ↔ ∀ K, (stn P.L j).effCap = some K → xp - xj < K := by
  have hbuf : isBuf P.L j = true := by unfold isBuf; rw [hk]; rfl
  have hf := hG.stat.facts hj
  have hl := ((Slots_buffer hk _ _ _ _).1 hsl).2.2.1
  simp only [dyn] at hl
  unfold bufRoom
  rw [hf.cap, hbuf, effCap_buf P.L hj hbuf, hl]
  simp only [if_true]
  cases (stn P.L j).cap with
  | none => simp
  | some c => simp

/-! ### PASS of a buffer -/

theorem case_pass_buf {P : Par} {T : Int} {s : S} {x : Nat → Nat} {m : Nat → Mode} (hL : P.L.WF)
    (inv : Inv P T s x m) {e : Event} {rest : List Event} (hs : s.evs = e :: rest) {j : Nat}
    (ha : e.asset = (j : Int) + 1) (hj : j < P.L.n) (hk : kindOf P.L j = .buffer) {t : Int}
    (hm : m j = .ready t) :
    ∃ s' x' m', (W P s).step = some (e, W P s') ∧ Inv P T s' x' m' ∧ Decr P x m x' m' := by
  have hle := Nat.le_of_lt hj
  obtain ⟨ih, hT, ht, hact, hcan, hk0, hpd⟩ := head_ready inv hs ha hle hm
  have hG0 := ih.good
  have hkind := (hG0.stat.facts hle).kind
  have hj1 : 1 ≤ j := by
    rcases Nat.eq_zero_or_pos j with h | h
    · subst h; rw [kindOf_zero] at hk; cases hk
    · exact h
  have hj1' : j - 1 + 1 = j := by omega
  have hbuf : isBuf P.L j = true := by unfold isBuf; rw [hk]; rfl
  have hw : (dv s j).waitingDS = false := by
    have := hpd.wds; simp [dyn] at this; exact this
  obtain ⟨_, hlo, hup⟩ := hpd.readym t rfl
  have hstep := step_live P s e rest hs inv.term hcan (by omega)
  rw [hact, ofNat_pass] at hstep
  have hex : (W P (pop s e rest)).exec (.passPart j) = W P (passBufS P (pop s e rest) j) := by
    show (W P (pop s e rest)).passPart j = _
    refine W_passPart_buffer P _ j hL hG0 hj ?_
    rw [dv_pop, ← dv_pop s e rest, hkind]; exact hk
  rw [hex] at hstep
  have hnow0 : (pop s e rest).now = e.time := rfl
  have d1 := ih.di (j + 1) (by omega) (by simp)
  rw [xin_succ] at d1
  have dj := inv.di j hle
  have hxle := hpd.le hj1
  -- the loop
  have hb0 : BL P (pop s e rest) j (xin x j) (x j) (x (j + 1)) (x (j + 2)) (m (j + 1)) :=
    ⟨hG0, d1, hpd.slots.buffer_mode hk rfl rfl rfl rfl, hw, hpd.past, hxle,
      fun _ => by rw [hnow0, ht]; exact hup, by
        have := dj.ent hj1
        unfold xin; rw [if_neg (by omega)]
        unfold xin at this; rw [if_neg (by omega)] at this
        exact this, hk0⟩
  have hlen : (dv (pop s e rest) j).buf.length = xin x j - x j := by
    have := ((Slots_buffer hk _ _ _ _).1 hpd.slots).2.2.2
    simp only [dyn] at this
    have h2 := congrArg List.length this
    simp at h2
    exact h2
  obtain ⟨xj', x1', m1', hb1, F1, hle', hfirst, hexit, hx1, hsame, hx1ge⟩ :=
    bufLoop_spec hL hj hk ((dv (pop s e rest) j).buf.length + 1) hb0 (by rw [hlen]; omega)
  obtain ⟨s1, hs1⟩ : ∃ s1, s1 = bufLoopS P ((dv (pop s e rest) j).buf.length + 1) (pop s e rest) j := ⟨_, rfl⟩
  rw [← hs1] at hb1 F1 hexit
  have hn1 : s1.now = e.time := by rw [F1.now]; rfl
  have hcap' : ∀ K, (stn P.L j).effCap = some K → xin x j ≤ xj' + K := fun K hK => by
    have := hpd.cap hj1 K hK; omega
  rw [hnow0, ← hn1] at hexit
  obtain ⟨mj', hset⟩ := buf_settle hL hj1 hj hk hb1 hexit hcap' e.time hn1.symm
  obtain ⟨s2, hs2⟩ : ∃ s2, s2 = (match (dv s1 j).buf with
      | [] => s1
      | (t, _) :: _ =>
        if (dv s1 j).delay - (e.time - t) > 0 then passS P s1 j ((dv s1 j).delay - (e.time - t))
        else setD s1 j { dv s1 j with waitingDS := true }) := ⟨_, rfl⟩
  rw [← hs2] at hset
  obtain ⟨hG2, F2, hk2, hpd2, hr2, hp2, hmj⟩ := hset
  have hpassB : passBufS P (pop s e rest) j = notifyS P s2 j := by
    unfold passBufS
    simp only [← hs1, hnow0]
    rw [hs2]
    rfl
  rw [hpassB] at hstep
  have hn2 : s2.now = e.time := by rw [F2.now, hn1]
  rw [hn1] at hpd2
  -- the notifying buffer itself
  obtain ⟨n1, n2, n3, n4⟩ := notifyS_self hG2 hle
  have djF : DI P (notifyS P s2 j) j (xin x j) xj' x1' mj' := by
    refine ⟨by rw [n2]; exact hk2, by rw [notifyS_now, hn2, n1]; exact hpd2, fun _ => ?_, fun h0 => by omega⟩
    rw [n3, hr2]
    exact hb1.ent
  have F02 : Foot P.L [j, j + 1] (pop s e rest) s2 := F1.trans (F2.mono (by simp))
  have Fn : Foot P.L [j - 1, j] s2 (notifyS P s2 j) := Foot.notifyS hG2 hle
  have F : Foot P.L [j - 1, j, j + 1] (pop s e rest) (notifyS P s2 j) :=
    (F02.mono (by simp)).trans (Fn.mono (by simp))
  -- the downstream station
  have dn : DI P (notifyS P s2 j) (j + 1) xj' x1' (x (j + 2)) m1' :=
    (hb1.d1.frame F2 (by simp)).frame Fn (by simp; omega)
  -- the upstream station
  have hu : j - 1 < P.L.n := by omega
  have du0 := (ih.di (j - 1) (by omega) (by simp; omega)).frame F02 (by simp; omega)
  rw [hj1'] at du0
  have hxinj : xin x j = x (j - 1) := by unfold xin; rw [if_neg (by omega)]
  have hsl2 : Slots P.L j (dyn (dv s2 j)) (xin x j) xj' mj' := hpd2.slots
  have hroom := bufRoom_iff hG2 hle hk hsl2
  have hk2' : (dv s2 j).kind = .buffer := by rw [(hG2.stat.facts hle).kind]; exact hk
  have duF : ∃ mu', DI P (notifyS P s2 j) (j - 1) (xin x (j - 1)) (x (j - 1)) xj' mu' ∧
      rank mu' ≤ rank (m (j - 1)) + 1 ∧ (xj' = x j → mu' = m (j - 1)) := by
    by_cases hr : bufRoom (dv s2 j) = true
    · -- the upstream station is notified
      have hnw : notifyS P s2 j = wakeS P (waitS s2 j) (j - 1) :=
        notifyS_wake P s2 (by omega) (fun h => by rw [hr] at h; exact absurd h.2 (by simp))
      have du1 := du0.frame (Foot.waitS P.L s2 j) (by simp; omega)
      have hlb : m (j - 1) = .blocked → (waitS s2 j).now ≤ dI P.L (j - 1) (x (j - 1) + 1) := by
        intro hbk
        obtain ⟨_, _, K, hK, hxK⟩ := du1.pd.blockedm hbk
        rw [hj1'] at hK
        have hlt' := (hroom.1 hr) K hK
        rw [hxinj] at hlt'
        have hgt : x j < xj' := by omega
        have := dI_ge_block P.L hL hu (x (j - 1)) K (by rw [hj1']; exact hK)
        rw [hj1'] at this
        have h3 : x (j - 1) + 1 - K = x j + 1 := by omega
        rw [h3, hfirst hgt, hnow0] at this
        rw [waitS_now, hn2]
        exact this
      refine ⟨wakeMode (waitS s2 j).now (m (j - 1)), ?_, rank_wakeMode _ _, ?_⟩
      · rw [hnw]
        exact du1.wake (hG2.waitS j) hu hlb xj'
      · intro hxx
        refine rank_wakeMode_of_ne _ ?_
        intro hbk
        obtain ⟨_, _, K, hK, hxK⟩ := du1.pd.blockedm hbk
        rw [hj1'] at hK
        have hlt' := (hroom.1 hr) K hK
        rw [hxinj] at hlt'
        omega
    · -- no room: nothing has been released, nobody is notified
      have hr' : bufRoom (dv s2 j) = false := by simpa using hr
      have hnn : notifyS P s2 j = s2 := notifyS_none P s2 ⟨hk2', hr'⟩
      have hxx : xj' = x j := by
        have hnr : ¬ ∀ K, (stn P.L j).effCap = some K → xin x j - xj' < K := fun h => hr (hroom.2 h)
        cases hK : (stn P.L j).effCap with
        | none => exact absurd (fun K h => by rw [hK] at h; cases h) hnr
        | some K =>
          have h1 := hpd.cap hj1 K hK
          have hK1 := effCap_pos hL hle hK
          by_cases hlt' : xin x j - xj' < K
          · exact absurd (fun K' h => by rw [hK] at h; cases h; exact hlt') hnr
          · omega
      refine ⟨m (j - 1), ?_, by omega, fun _ => rfl⟩
      rw [hnn, hxx]
      exact du0
  obtain ⟨mu', duF, hmu1, hmu2⟩ := duF
  have hxB : ∀ B, P.L.budget = some B → xin x j ≤ B := by
    intro B hB
    have h1 := inv.x_le (j := j - 1) (by omega)
    have h2 := inv.bud B hB
    omega
  have hrj : rank mj' ≤ 1 := by
    rcases hmj with ⟨h, _⟩ | ⟨h, _⟩ | h
    · rw [h]; simp [rank]
    · omega
    · rw [h]; simp [rank]
  have hxjp : xj' ≤ xin x j := hb1.le
  refine ⟨_, upd (upd x (j + 1) x1') j xj', upd (upd (upd m (j + 1) m1') j mj') (j - 1) mu', hstep, ?_,
    decr3 (a := j - 1) (b := j) (c := j + 1) (by omega) hle (by omega) (by omega) (by omega) (by omega)
      (fun i _ h1 h2 h3 => ⟨by rw [upd_ne _ _ h2, upd_ne _ _ h3],
        by rw [upd_ne _ _ h1, upd_ne _ _ h2, upd_ne _ _ h3]⟩)
      (fun B hB => by
        have hr2 := rank_le m1'
        have hB' := hxB B hB
        unfold wt
        rw [upd_ne _ _ (by omega : j - 1 ≠ j), upd_ne _ _ (by omega : j - 1 ≠ j + 1), upd_same,
          upd_same, upd_ne _ _ (by omega : j ≠ j - 1), upd_same,
          upd_ne _ _ (by omega : j + 1 ≠ j), upd_same,
          upd_ne _ _ (by omega : j + 1 ≠ j - 1), upd_ne _ _ (by omega : j + 1 ≠ j), upd_same, hm]
        have r2 : rank (Mode.ready t) = 1 := rfl
        rw [r2]
        by_cases hxx : xj' = x j
        · -- nothing was released: the buffer is blocked now
          obtain ⟨e1, e2⟩ := hsame hxx
          have e3 := hmu2 hxx
          have hrj0 : rank mj' = 0 := by
            rcases hmj with ⟨_, h⟩ | ⟨_, h⟩ | h
            · have := hpd.nonidle hj1 (by simp); omega
            · rw [hn1, hxx] at h; omega
            · rw [h]; rfl
          rw [hxx, e1, e2, e3, hrj0]
          omega
        · have : x j < xj' := by omega
          omega)⟩
  refine (ih.widen (H' := [j - 1, j, j + 1]) (by simp)).close F (hG2.notifyS j) ?_ ?_ ?_
  · intro i hi him
    have hcases : i = j - 1 ∨ i = j ∨ i = j + 1 := by simpa using him
    rcases hcases with h | h | h
    · subst h
      have e1 : xin (upd (upd x (j + 1) x1') j xj') (j - 1) = xin x (j - 1) := by
        rw [xin_upd_ne _ _ (by omega), xin_upd_ne _ _ (by omega)]
      have e2 : upd (upd x (j + 1) x1') j xj' (j - 1) = x (j - 1) := by
        rw [upd_ne _ _ (by omega), upd_ne _ _ (by omega)]
      have e3 : upd (upd x (j + 1) x1') j xj' (j - 1 + 1) = xj' := by
        rw [hj1', upd_same]
      rw [e1, e2, e3, upd_same]
      exact duF
    · subst h
      have e1 : xin (upd (upd x (i + 1) x1') i xj') i = xin x i := by
        rw [xin_upd_ne _ _ (by omega), xin_upd_ne _ _ (by omega)]
      have e2 : upd (upd x (i + 1) x1') i xj' i = xj' := upd_same _ _ _
      have e3 : upd (upd x (i + 1) x1') i xj' (i + 1) = x1' := by
        rw [upd_ne _ _ (by omega), upd_same]
      have e4 : upd (upd (upd m (i + 1) m1') i mj') (i - 1) mu' i = mj' := by
        rw [upd_ne _ _ (by omega), upd_same]
      rw [e1, e2, e3, e4]
      exact djF
    · subst h
      have e1 : xin (upd (upd x (j + 1) x1') j xj') (j + 1) = xj' := by
        rw [xin_succ, upd_same]
      have e2 : upd (upd x (j + 1) x1') j xj' (j + 1) = x1' := by
        rw [upd_ne _ _ (by omega), upd_same]
      have e3 : upd (upd x (j + 1) x1') j xj' (j + 1 + 1) = x (j + 2) := by
        rw [upd_ne _ _ (by omega), upd_ne _ _ (by omega)]
      have e4 : upd (upd (upd m (j + 1) m1') j mj') (j - 1) mu' (j + 1) = m1' := by
        rw [upd_ne _ _ (by omega), upd_ne _ _ (by omega), upd_same]
      rw [e1, e2, e3, e4]
      exact dn
  · intro i hi hni
    have hne : i ≠ j - 1 ∧ i ≠ j ∧ i ≠ j + 1 := by simpa using hni
    refine ⟨?_, ?_, ?_, ?_⟩
    · by_cases h2 : i = j + 2
      · subst h2
        rw [xin_succ, xin_succ, upd_ne _ _ (by omega), upd_same]
        exact hx1 (by omega)
      · rw [xin_upd_ne _ _ (by omega), xin_upd_ne _ _ (by omega)]
    · rw [upd_ne _ _ (by omega), upd_ne _ _ (by omega)]
    · rw [upd_ne _ _ (by omega), upd_ne _ _ (by omega)]
    · rw [upd_ne _ _ hne.1, upd_ne _ _ hne.2.1, upd_ne _ _ hne.2.2]
  · intro B hB
    rw [upd_ne _ _ (by omega), upd_ne _ _ (by omega)]
    exact inv.bud B hB

end C04W
end SimProc
