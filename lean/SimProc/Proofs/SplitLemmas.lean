/-
Helper lemmas for `SimProc/Props/C14Split.lean` (a run can be split).

Part 1: the event queue up to uids and without terminate events (`strip`) and how the queue
operations act on it.  Part 2: the simulation between the split execution and the single execution
(`SimProc/Proofs/SplitSim.lean`).
-/
import SimProc.Proofs.EnvLemmas
import SimProc.Props.C01

namespace SimProc
namespace Split

open C01

/-- An event up to its internal numbering (mirror of `C14.noUid`). -/
def nu (e : Event) : Event := { e with uid := 0 }

/-- Not a terminate event. -/
def nt (e : Event) : Bool := !(e.act == terminateAct)

/-- The queue without terminate events, up to uids. -/
def strip (l : List Event) : List Event := (l.filter nt).map nu

@[simp] theorem nu_time (e : Event) : (nu e).time = e.time := rfl
@[simp] theorem nu_prio (e : Event) : (nu e).prio = e.prio := rfl
@[simp] theorem nu_weight (e : Event) : (nu e).weight = e.weight := rfl
@[simp] theorem nu_asset (e : Event) : (nu e).asset = e.asset := rfl
@[simp] theorem nu_act (e : Event) : (nu e).act = e.act := rfl
@[simp] theorem nu_pausedAt (e : Event) : (nu e).pausedAt = e.pausedAt := rfl
@[simp] theorem nu_cancelled (e : Event) : (nu e).cancelled = e.cancelled := rfl
@[simp] theorem nu_nu (e : Event) : nu (nu e) = nu e := rfl
@[simp] theorem nt_nu (e : Event) : nt (nu e) = nt e := rfl

theorem nu_lt (a b : Event) : (nu a).lt (nu b) = a.lt b :=
  Event.lt_congr ⟨rfl, rfl, rfl, rfl⟩ ⟨rfl, rfl, rfl, rfl⟩

theorem nt_false_iff {e : Event} : nt e = false ↔ e.act = terminateAct := by
  simp [nt]

theorem nt_true_iff {e : Event} : nt e = true ↔ e.act ≠ terminateAct := by
  simp [nt]

@[simp] theorem strip_nil : strip [] = [] := rfl

theorem strip_cons_pos {e : Event} (l : List Event) (h : nt e = true) :
    strip (e :: l) = nu e :: strip l := by
  simp [strip, h]

theorem strip_cons_neg {e : Event} (l : List Event) (h : nt e = false) :
    strip (e :: l) = strip l := by
  simp [strip, h]

theorem mem_strip {z : Event} {l : List Event} : z ∈ strip l ↔ ∃ e ∈ l, nt e = true ∧ nu e = z := by
  simp [strip, List.mem_map, List.mem_filter, and_assoc]

theorem strip_eq_map {l : List Event} (h : ∀ e ∈ l, nt e = true) : strip l = l.map nu := by
  unfold strip
  rw [List.filter_eq_self.mpr h]

/-! ### `insort` and `filter` / `map nu` -/

theorem insort_of_forall_lt {x : Event} {l : List Event} (h : ∀ z ∈ l, x.lt z = true) :
    insort x l = x :: l := by
  cases l with
  | nil => rfl
  | cons z zs => simp [insort, h z (by simp)]

/-- Removing elements commutes with sorted insertion of an element that is kept. -/
theorem insort_filter_pos (p : Event → Bool) {x : Event} {l : List Event} (hs : SortedEv l)
    (hp : p x = true) : (insort x l).filter p = insort x (l.filter p) := by
  induction l with
  | nil => simp [insort, hp]
  | cons e es ih =>
    have hs' := List.pairwise_cons.mp hs
    simp only [insort]
    split
    · rename_i hlt
      rw [List.filter_cons_of_pos hp]
      symm
      apply insort_of_forall_lt
      intro z hz
      have hz' := (List.mem_filter.mp hz).1
      rcases List.mem_cons.mp hz' with rfl | hz'
      · exact hlt
      · have h1 := hs'.1 z hz'
        cases hq : x.lt z with
        | true => rfl
        | false =>
          have := Event.nlt_trans h1 hq
          simp [hlt] at this
    · rename_i hlt
      by_cases hpe : p e = true
      · simp [hpe, insort, hlt, ih hs'.2]
      · simp [hpe, ih hs'.2]

theorem insort_filter_neg (p : Event → Bool) {x : Event} (l : List Event) (hp : p x = false) :
    (insort x l).filter p = l.filter p := by
  induction l with
  | nil => simp [insort, hp]
  | cons e es ih =>
    simp only [insort]
    split
    · simp [List.filter_cons, hp]
    · simp [List.filter_cons, ih]

theorem insort_map_nu (x : Event) (l : List Event) :
    (insort x l).map nu = insort (nu x) (l.map nu) := by
  induction l with
  | nil => rfl
  | cons e es ih =>
    simp only [insort, List.map_cons, nu_lt]
    split
    · rfl
    · simp [ih]

theorem strip_insort {x : Event} {l : List Event} (hs : SortedEv l) (hx : nt x = true) :
    strip (insort x l) = insort (nu x) (strip l) := by
  unfold strip
  rw [insort_filter_pos nt hs hx, insort_map_nu]

theorem strip_insort_term {x : Event} (l : List Event) (hx : nt x = false) :
    strip (insort x l) = strip l := by
  unfold strip
  rw [insort_filter_neg nt l hx]

/-! ### `pause`, `cancel`, `unpause` on stripped queues -/

theorem strip_filter (q : Event → Bool) (hq : ∀ e, q (nu e) = q e) (l : List Event) :
    strip (l.filter q) = (strip l).filter q := by
  induction l with
  | nil => rfl
  | cons e es ih =>
    by_cases h1 : q e = true <;> by_cases h2 : nt e = true <;>
      simp_all [strip]

theorem map_nu_filter (q : Event → Bool) (hq : ∀ e, q (nu e) = q e) (l : List Event) :
    (l.filter q).map nu = (l.map nu).filter q := by
  induction l with
  | nil => rfl
  | cons e es ih =>
    by_cases h1 : q e = true <;> simp_all

/-- The events moved to the paused list by `pause a`, up to uids, when no terminate event is
selected. -/
theorem pause_moved (q : Event → Bool) (g : Event → Event) (hq : ∀ e, q (nu e) = q e)
    (hg : ∀ e, nu (g e) = g (nu e)) {l : List Event} (h : ∀ e ∈ l, nt e = false → q e = false) :
    ((l.filter q).map g).map nu = ((strip l).filter q).map g := by
  induction l with
  | nil => rfl
  | cons e es ih =>
    have ih' := ih (fun e he => h e (List.mem_cons_of_mem _ he))
    by_cases h2 : nt e = true
    · rw [strip_cons_pos _ h2]
      by_cases h1 : q e = true
      · rw [List.filter_cons_of_pos h1, List.filter_cons_of_pos (by rw [hq]; exact h1),
          List.map_cons, List.map_cons, List.map_cons, ih', hg]
      · rw [List.filter_cons_of_neg h1, List.filter_cons_of_neg (by rw [hq]; exact h1), ih']
    · have h2' : nt e = false := by simpa using h2
      rw [strip_cons_neg _ h2']
      have h1 : ¬ q e = true := by simp [h e (by simp) h2']
      rw [List.filter_cons_of_neg h1, ih']

theorem nu_cancelIf (a : Int) (e : Event) : nu (e.cancelIf a) = (nu e).cancelIf a := by
  unfold Event.cancelIf
  by_cases h : (e.asset == a) = true
  · simp only [nu_asset, h, if_true]; rfl
  · simp only [nu_asset, h]; rfl

theorem nt_cancelIf (a : Int) (e : Event) : nt (e.cancelIf a) = nt e := by
  simp [nt]

theorem strip_cancel (a : Int) (l : List Event) :
    strip (l.map (Event.cancelIf a)) = (strip l).map (Event.cancelIf a) := by
  induction l with
  | nil => rfl
  | cons e es ih =>
    by_cases h2 : nt e = true
    · rw [List.map_cons, strip_cons_pos _ (by rw [nt_cancelIf]; exact h2), strip_cons_pos _ h2, ih,
        nu_cancelIf]
      rfl
    · have h2' : nt e = false := by simpa using h2
      rw [List.map_cons, strip_cons_neg _ (by rw [nt_cancelIf]; exact h2'), strip_cons_neg _ h2', ih]

theorem map_nu_cancel (a : Int) (l : List Event) :
    (l.map (Event.cancelIf a)).map nu = (l.map nu).map (Event.cancelIf a) := by
  simp [List.map_map, Function.comp_def, nu_cancelIf]

/-- The time shift `unpause` applies to a resumed event. -/
def sh (ar : Arith) (now : Int) (e : Event) : Event :=
  { e with time := shiftTime ar now e.time (e.pausedAt.getD now) }

theorem nu_sh (ar : Arith) (now : Int) (e : Event) : nu (sh ar now e) = sh ar now (nu e) := rfl

theorem nt_sh (ar : Arith) (now : Int) (e : Event) : nt (sh ar now e) = nt e := rfl

/-- Re-inserting the same (up to uids) non-terminate events into queues that agree after
stripping gives queues that agree after stripping. -/
theorem strip_foldl_insort (ar : Arith) (now : Int) :
    ∀ (px py qx qy : List Event), px.map nu = py.map nu → (∀ e ∈ px, nt e = true) →
      SortedEv qx → SortedEv qy → strip qx = strip qy →
      strip (px.foldl (fun q e => insort (sh ar now e) q) qx)
        = strip (py.foldl (fun q e => insort (sh ar now e) q) qy) := by
  intro px
  induction px with
  | nil =>
    intro py qx qy hp _ _ _ hq
    cases py with
    | nil => simpa using hq
    | cons _ _ => simp at hp
  | cons e es ih =>
    intro py qx qy hp hnt hsx hsy hq
    cases py with
    | nil => simp at hp
    | cons e' es' =>
      simp only [List.map_cons, List.cons.injEq] at hp
      simp only [List.foldl_cons]
      have hnte : nt e = true := hnt e (by simp)
      have hnte' : nt e' = true := by rw [← nt_nu, ← hp.1, nt_nu]; exact hnte
      refine ih es' _ _ hp.2 (fun z hz => hnt z (List.mem_cons_of_mem _ hz))
        (insort_sorted hsx) (insort_sorted hsy) ?_
      rw [strip_insort hsx (by rw [nt_sh]; exact hnte),
        strip_insort hsy (by rw [nt_sh]; exact hnte'), nu_sh, nu_sh, hp.1, hq]

end Split
end SimProc
