/-
C01W — the closed world touches its event queue only through the environment's API.

Base machinery: operation lists compose, "library operations" (`LibOp`), the refinement relation
`Refines` on environments, the closed-world invariant `Good` (asset ids of devices are ≥ 1, scripts
issue only user operations), the relation `Via w w'` ("`w'.env` is `w.env` after a list of library
operations, and `Good` is kept"), the primitives of `WorldDef`, and a small peeling tactic
(`via_step` / `via_auto`) in the style of `C15Lemmas`.
-/
import SimProc.Model.World
import SimProc.Proofs.FloorCore2
import SimProc.Props.C01
import SimProc.Props.C07
import Lean

namespace SimProc
namespace C01W
open World FloorCoreL
open Lean Elab Tactic Meta

/-! ### operation lists compose -/

theorem applyAll_append (ar : Arith) (s : Env) (l1 l2 : List EnvOp) :
    s.applyAll ar (l1 ++ l2) =
      (((s.applyAll ar l1).1.applyAll ar l2).1,
        (s.applyAll ar l1).2 ++ ((s.applyAll ar l1).1.applyAll ar l2).2) := by
  induction l1 generalizing s with
  | nil => simp [Env.applyAll]
  | cons op l1 ih => simp only [List.cons_append, Env.applyAll, ih, List.cons_append]

theorem applyAll_append_fst (ar : Arith) (s : Env) (l1 l2 : List EnvOp) :
    (s.applyAll ar (l1 ++ l2)).1 = ((s.applyAll ar l1).1.applyAll ar l2).1 := by
  rw [applyAll_append]

theorem applyAll_append_snd (ar : Arith) (s : Env) (l1 l2 : List EnvOp) :
    (s.applyAll ar (l1 ++ l2)).2 =
      (s.applyAll ar l1).2 ++ ((s.applyAll ar l1).1.applyAll ar l2).2 := by
  rw [applyAll_append]

theorem applyAll_cons_fst (ar : Arith) (s : Env) (op : EnvOp) (l : List EnvOp) :
    (s.applyAll ar (op :: l)).1 = ((s.apply ar op).1.applyAll ar l).1 := rfl

theorem applyAll_cons_snd (ar : Arith) (s : Env) (op : EnvOp) (l : List EnvOp) :
    (s.applyAll ar (op :: l)).2 = (s.apply ar op).2 :: ((s.apply ar op).1.applyAll ar l).2 := rfl

theorem applyAll_one (ar : Arith) (s : Env) (op : EnvOp) :
    (s.applyAll ar [op]).1 = (s.apply ar op).1 := rfl

/-! ### library operations -/

/-- The operations the library (and well-behaved scripts) issue from inside an event action or a
scripted operation: scheduling anything but the environment's private terminate action with a
priority above `TERMINATE`; pausing / resuming / cancelling an asset other than the environment's
internal id −1.  Never `step`, never `runBegin`. -/
def LibOp : EnvOp → Prop
  | .sched _ _ act p _ => act ≠ terminateAct ∧ prioTerminate < p
  | .pause a => a ≠ -1
  | .unpause a => a ≠ -1
  | .cancel a => a ≠ -1
  | .step => False
  | .runBegin _ _ => False

instance : DecidablePred LibOp := fun op => by
  cases op <;> unfold LibOp <;> infer_instance

theorem LibOp.userOp {op : EnvOp} (h : LibOp op) : C01.UserOp op := by
  cases op <;> first | exact h | exact False.elim h

theorem LibOp.ne_step {op : EnvOp} (h : LibOp op) : op ≠ .step := by
  intro e; subst e; exact h

theorem libOp_iff (op : EnvOp) : LibOp op ↔ C01.UserOp op ∧ op ≠ .step := by
  constructor
  · exact fun h => ⟨h.userOp, h.ne_step⟩
  · rintro ⟨h, hne⟩
    cases op <;> first | exact h | exact absurd rfl hne

/-- `s'` is `s` after a list of library operations. -/
def Refines (s s' : Env) : Prop :=
  ∃ ops : List EnvOp, (∀ op ∈ ops, LibOp op) ∧ s' = (s.applyAll Arith.exact ops).1

theorem Refines.refl (s : Env) : Refines s s := ⟨[], by simp, rfl⟩

theorem Refines.trans {a b c : Env} (h1 : Refines a b) (h2 : Refines b c) : Refines a c := by
  obtain ⟨l1, g1, rfl⟩ := h1
  obtain ⟨l2, g2, rfl⟩ := h2
  refine ⟨l1 ++ l2, ?_, (applyAll_append_fst _ _ _ _).symm⟩
  intro op hop
  rcases List.mem_append.1 hop with h | h
  · exact g1 op h
  · exact g2 op h

theorem Refines.one (s : Env) {op : EnvOp} (h : LibOp op) :
    Refines s (s.apply Arith.exact op).1 :=
  ⟨[op], by simpa using h, rfl⟩

theorem Refines.of_eq {s s' : Env} (h : s' = s) : Refines s s' := h ▸ Refines.refl s

/-! ### the closed-world invariant -/

/-- A scripted operation that is a user operation on the environment: a scripted `sched` has a
priority above `TERMINATE`; scripted pause / unpause / cancel do not name the internal id −1. -/
def opUser : Op → Bool
  | .sched _ _ _ p => decide (pTerminate < p)
  | .schedRel _ _ _ p => decide (pTerminate < p)
  | .pause a => decide (a ≠ -1)
  | .unpause a => decide (a ≠ -1)
  | .cancel a => decide (a ≠ -1)
  | _ => true

/-- Every scripted operation is a user operation. -/
def ScriptsUser (w : World) : Prop := ∀ l ∈ w.scripts, ∀ op ∈ l, opUser op = true

/-- Device asset ids are ≥ 1 (`addDev` assigns registration index + 1). -/
def AidOK (w : World) : Prop := ∀ a ∈ w.devs.map (·.aid), (1 : Int) ≤ a

structure Good (w : World) : Prop where
  aid : AidOK w
  scr : ScriptsUser w

instance (w : World) : Decidable (ScriptsUser w) := by unfold ScriptsUser; infer_instance
instance (w : World) : Decidable (AidOK w) := by unfold AidOK; infer_instance
instance (w : World) : Decidable (Good w) :=
  decidable_of_iff (AidOK w ∧ ScriptsUser w) ⟨fun h => ⟨h.1, h.2⟩, fun h => ⟨h.1, h.2⟩⟩

/-- No device (existing or not: the default device has id 0) carries the internal id −1. -/
theorem AidOK.ne (h : AidOK w) (x : Nat) : (w.dev x).aid ≠ -1 := by
  unfold World.dev
  rw [List.getD_eq_getElem?_getD]
  cases hx : w.devs[x]? with
  | none => simp only [Option.getD_none]; decide
  | some d =>
    simp only [Option.getD_some]
    have := h d.aid (List.mem_map.2 ⟨d, List.mem_of_getElem? hx, rfl⟩)
    omega

theorem Good.ne (h : Good w) (x : Nat) : (w.dev x).aid ≠ -1 := h.aid.ne x

/-- What the closed-world argument observes of a world: the environment, the devices' asset ids and
the scripts. -/
def EK (w : World) : Env × List Int × List (List Op) := (w.env, w.devs.map (·.aid), w.scripts)

theorem EK_env {w w' : World} (h : EK w' = EK w) : w'.env = w.env := congrArg Prod.fst h
theorem EK_aids {w w' : World} (h : EK w' = EK w) : w'.devs.map (·.aid) = w.devs.map (·.aid) :=
  congrArg (fun q => q.2.1) h
theorem EK_scr {w w' : World} (h : EK w' = EK w) : w'.scripts = w.scripts :=
  congrArg (fun q => q.2.2) h

theorem Good.of_EK {w w' : World} (h : EK w' = EK w) (g : Good w) : Good w' := by
  refine ⟨?_, ?_⟩
  · unfold AidOK; rw [EK_aids h]; exact g.aid
  · unfold ScriptsUser; rw [EK_scr h]; exact g.scr

/-- **The relation.**  Under the invariant `Good w`: `w'` satisfies the invariant again and its
environment is the environment of `w` after a list of library operations. -/
def Via (w w' : World) : Prop := Good w → Good w' ∧ Refines w.env w'.env

theorem Via.refl (w : World) : Via w w := fun g => ⟨g, Refines.refl _⟩

theorem Via.trans {a b c : World} (h1 : Via a b) (h2 : Via b c) : Via a c := fun g =>
  have g1 := h1 g
  have g2 := h2 g1.1
  ⟨g2.1, g1.2.trans g2.2⟩

theorem Via.of_EK {w w' : World} (h : EK w' = EK w) : Via w w' := fun g =>
  ⟨g.of_EK h, Refines.of_eq (EK_env h)⟩

theorem Via.of_EK_trans {a b c : World} (h : EK b = EK a) (h2 : Via b c) : Via a c :=
  (Via.of_EK h).trans h2

theorem Via.trans_EK {a b c : World} (h1 : Via a b) (h : EK c = EK b) : Via a c :=
  h1.trans (Via.of_EK h)

/-- Use the invariant of the start state while proving `Via`. -/
theorem Via.with_good {w w' : World} (h : Good w → Via w w') : Via w w' := fun g => h g g

theorem Via.foldl {α} (g : World → α → World) (l : List α) (w : World)
    (h : ∀ w a, Via w (g w a)) : Via w (l.foldl g w) := by
  induction l generalizing w with
  | nil => exact Via.refl w
  | cons a l ih => exact (h w a).trans (ih _)

theorem EK_foldl {α} (g : World → α → World) (l : List α) (w : World)
    (h : ∀ w a, EK (g w a) = EK w) : EK (l.foldl g w) = EK w :=
  foldl_preserve EK g l w h

theorem Via.of_fst_eq {α} {w w' : World} {e : World × α} {b : α} (he : Via w e.1)
    (h : e = (w', b)) : Via w w' := by
  subst h; exact he

/-! ### primitives of `WorldDef` -/

@[simp] theorem EK_setErr (w : World) (m : String) : EK (w.setErr m) = EK w := by
  unfold setErr; split <;> rfl

@[simp] theorem EK_addRes (w : World) (r : Res) : EK (w.addRes r) = EK w := rfl
@[simp] theorem EK_addRec (w : World) (r : Rec) : EK (w.addRec r) = EK w := rfl
@[simp] theorem EK_modPart (w : World) (p : Nat) (f : PartRec → PartRec) :
    EK (w.modPart p f) = EK w := rfl
@[simp] theorem EK_newPart (w : World) (r : PartRec) : EK (w.newPart r).1 = EK w := rfl

theorem EK_setDev (w : World) (x : Nat) (d : Dev) (h : d.aid = (w.dev x).aid) :
    EK (w.setDev x d) = EK w := by
  unfold EK World.setDev
  simp only
  rw [map_set_of_eq Dev.aid w.devs x d default h]

theorem EK_modDev (w : World) (x : Nat) (f : Dev → Dev) (h : (f (w.dev x)).aid = (w.dev x).aid) :
    EK (w.modDev x f) = EK w := EK_setDev w x _ h

theorem Via_setDev (w : World) (x : Nat) (d : Dev) (h : d.aid = (w.dev x).aid) :
    Via w (w.setDev x d) := Via.of_EK (EK_setDev w x d h)

theorem Via_modDev (w : World) (x : Nat) (f : Dev → Dev)
    (h : (f (w.dev x)).aid = (w.dev x).aid) : Via w (w.modDev x f) :=
  Via.of_EK (EK_modDev w x f h)

/-- `World.sched` is exactly one `.sched` operation of the environment (accepted or rejected). -/
theorem sched_env (w : World) (t a : Int) (act : Action) (p : Int) :
    (w.sched t a act p).1.env =
      (w.env.apply Arith.exact
        (.sched t a act.toNat p (weightOf w.seed w.wmod t a act.toNat p))).1 := by
  unfold World.sched
  simp only [Env.apply]
  cases w.env.schedule t a act.toNat p (weightOf w.seed w.wmod t a act.toNat p) <;> rfl

theorem sched_devs (w : World) (t a : Int) (act : Action) (p : Int) :
    (w.sched t a act p).1.devs = w.devs := by
  unfold World.sched
  simp only [Env.apply]
  cases w.env.schedule t a act.toNat p (weightOf w.seed w.wmod t a act.toNat p) <;> rfl

theorem sched_scripts (w : World) (t a : Int) (act : Action) (p : Int) :
    (w.sched t a act p).1.scripts = w.scripts := by
  unfold World.sched
  simp only [Env.apply]
  cases w.env.schedule t a act.toNat p (weightOf w.seed w.wmod t a act.toNat p) <;> rfl

theorem toNat_ne_terminate {act : Action} (h : act ≠ .terminate) : act.toNat ≠ terminateAct := by
  cases act <;> simp [Action.toNat, terminateAct] at h ⊢ <;> omega

theorem Via_sched (w : World) (t a : Int) (act : Action) (p : Int)
    (ha : act ≠ .terminate) (hp : prioTerminate < p) : Via w (w.sched t a act p).1 := by
  intro g
  refine ⟨⟨?_, ?_⟩, ?_⟩
  · unfold AidOK; rw [sched_devs]; exact g.aid
  · unfold ScriptsUser; rw [sched_scripts]; exact g.scr
  · rw [sched_env]
    exact Refines.one _ ⟨toNat_ne_terminate ha, hp⟩

theorem schedLib_EK (w : World) (t a : Int) (act : Action) (p : Int) :
    EK (w.schedLib t a act p) = EK (w.sched t a act p).1 := by
  unfold schedLib
  generalize w.sched t a act p = s
  obtain ⟨w', r⟩ := s
  cases r <;> simp

theorem Via_schedLib (w : World) (t a : Int) (act : Action) (p : Int)
    (ha : act ≠ .terminate) (hp : prioTerminate < p) : Via w (w.schedLib t a act p) :=
  (Via_sched w t a act p ha hp).trans_EK (schedLib_EK w t a act p)

theorem schedLib_env (w : World) (t a : Int) (act : Action) (p : Int) :
    (w.schedLib t a act p).env =
      (w.env.apply Arith.exact
        (.sched t a act.toNat p (weightOf w.seed w.wmod t a act.toNat p))).1 := by
  rw [EK_env (schedLib_EK w t a act p), sched_env]

theorem Via_envOp (w : World) (op : EnvOp) (h : LibOp op) : Via w (w.envOp op) := fun g =>
  ⟨⟨g.aid, g.scr⟩, Refines.one _ h⟩

theorem Via_rmEffects (w : World) (recs : List ResRec) (chk : Bool) :
    Via w (w.rmEffects recs chk) := by
  unfold rmEffects
  dsimp only
  have h : EK (recs.foldl (fun w r => w.addRec (.resUpdate r.res w.now r.inUse r.cap)) w) = EK w :=
    EK_foldl _ _ _ (fun _ _ => rfl)
  split
  · exact Via.of_EK_trans h (Via_schedLib _ _ _ _ _ (by intro h; cases h) (by decide))
  · exact Via.of_EK h

/-! ### the peeling tactic -/

/-- Peel a structure update `{ w with f := v, … }` that leaves `env`, `devs` and `scripts` alone. -/
elab "via_struct" : tactic => do
  let g ← getMainGoal
  g.withContext do
    let t ← instantiateMVars (← g.getType)
    let_expr Via a b := t.consumeMData | throwError "via_struct: not a Via goal"
    let b := b.consumeMData
    unless b.isAppOfArity ``World.mk 23 do throwError "via_struct: not a structure instance"
    let r := b.getArg! 0
    let w0 ← match r with
      | .proj _ _ w0 => pure w0
      | _ =>
        if r.isAppOfArity ``World.env 1 then pure (r.getArg! 0)
        else throwError "via_struct: the environment is changed"
    let newGoal ← mkFreshExprSyntheticOpaqueMVar (← mkAppM ``Via #[a, w0])
    let eq ← mkEq (← mkAppM ``EK #[b]) (← mkAppM ``EK #[w0])
    let pf ← mkFreshExprMVar eq
    pf.mvarId!.refl
    g.assign (mkApp5 (mkConst ``Via.trans_EK) a w0 b newGoal pf)
    replaceMainGoal [newGoal.mvarId!]

/-- One step: close the goal, or peel the outermost function application. -/
syntax "via_step" : tactic

/-- Peel / split until nothing is left. -/
macro "via_auto" : tactic => `(tactic| repeat' first | via_step | split)

/-- Side goals of the peeling steps. -/
macro "via_side" : tactic =>
  `(tactic| first
    | exact rfl
    | assumption
    | decide
    | (intro h; cases h))

macro_rules | `(tactic| via_step) => `(tactic| via_struct)
macro_rules | `(tactic| via_step) => `(tactic|
  ((with_reducible apply Via.trans (h2 := Via.foldl _ _ _ ?hs)); case hs => (intro _ _; via_auto; done)))
macro_rules | `(tactic| via_step) => `(tactic| with_reducible apply Via.trans (h2 := Via_rmEffects _ _ _))
macro_rules | `(tactic| via_step) => `(tactic|
  ((with_reducible apply Via.trans (h2 := Via_envOp _ _ ?hop)); case hop => via_side))
macro_rules | `(tactic| via_step) => `(tactic|
  ((with_reducible apply Via.trans (h2 := Via_schedLib _ _ _ _ _ ?ha ?hp));
   case ha => via_side
   case hp => via_side))
macro_rules | `(tactic| via_step) => `(tactic| with_reducible apply Via.trans_EK (h := EK_setErr _ _))
macro_rules | `(tactic| via_step) => `(tactic| with_reducible apply Via.trans_EK (h := EK_addRes _ _))
macro_rules | `(tactic| via_step) => `(tactic| with_reducible apply Via.trans_EK (h := EK_addRec _ _))
macro_rules | `(tactic| via_step) => `(tactic| with_reducible apply Via.trans_EK (h := EK_modPart _ _ _))
macro_rules | `(tactic| via_step) => `(tactic| with_reducible apply Via.trans_EK (h := EK_newPart _ _))
macro_rules | `(tactic| via_step) => `(tactic|
  ((with_reducible apply Via.trans (h2 := Via_modDev _ _ _ ?hp)); case hp => exact rfl))
macro_rules | `(tactic| via_step) => `(tactic|
  ((with_reducible apply Via.trans (h2 := Via_setDev _ _ _ ?hp)); case hp => exact rfl))
macro_rules | `(tactic| via_step) => `(tactic| with_reducible exact Via.refl _)

/-- After a `split` on a pair-valued call: use the fact `t` about the call. -/
macro "via_heq " t:term : tactic =>
  `(tactic| (rename_i heq; with_reducible apply Via.trans (h2 := Via.of_fst_eq $t heq)))

end C01W
end SimProc
