/-
C09W — the pool invariant of the resource manager (`C09.Inv`) at world level, for a class that
allows operations issued from outside and scripted operations on the manager.

Base machinery: the static clause `ReqWF` (requests of scripted `reserve` / partial `release`
operations and of declared or constructed processors are dictionaries: distinct keys), the
closed-world invariant `Q` (`C09.Inv w.rm` and `ReqWF w`), the conditional relation
`R w w' := Q w → Q w'`, a decidable form `InvD` of `C09.Inv`, and a peeling tactic
(`r_step` / `r_auto`) in the style of `C10WCBase`.
-/
import SimProc.Proofs.C10WInv
import SimProc.Props.C09

namespace SimProc
namespace C09W
open World FloorCoreL
open Lean Elab Tactic Meta

/-! ### a decidable form of `C09.Inv` -/

instance (q : Req) : Decidable (C09.NodupKeys q) := by unfold C09.NodupKeys; infer_instance

/-- `C09.Inv` with every quantifier bounded (decidable). -/
structure InvD (rm : RM) : Prop where
  poolKeys : (rm.pools.map (·.1)).Nodup
  resvIds : ∀ i : Fin rm.resv.length, (rm.resv[i]).1 = i.val
  heldKeys : ∀ p ∈ rm.resv, C09.NodupKeys p.2
  heldPos : ∀ p ∈ rm.resv, ∀ e ∈ p.2, 0 < e.2
  heldKnown : ∀ p ∈ rm.resv, ∀ e ∈ p.2, (rm.lookup e.1).isSome
  usageEq : ∀ p ∈ rm.pools, rm.usage p.1 = C09.heldSum rm p.1
  capNonneg : ∀ p ∈ rm.pools, 0 ≤ p.2.2

instance (rm : RM) : Decidable (InvD rm) :=
  decidable_of_iff
    ((rm.pools.map (·.1)).Nodup ∧ (∀ i : Fin rm.resv.length, (rm.resv[i]).1 = i.val) ∧
      (∀ p ∈ rm.resv, C09.NodupKeys p.2) ∧ (∀ p ∈ rm.resv, ∀ e ∈ p.2, 0 < e.2) ∧
      (∀ p ∈ rm.resv, ∀ e ∈ p.2, (rm.lookup e.1).isSome) ∧
      (∀ p ∈ rm.pools, rm.usage p.1 = C09.heldSum rm p.1) ∧ (∀ p ∈ rm.pools, 0 ≤ p.2.2))
    ⟨fun ⟨a, b, c, d, e, f, g⟩ => ⟨a, b, c, d, e, f, g⟩,
     fun h => ⟨h.poolKeys, h.resvIds, h.heldKeys, h.heldPos, h.heldKnown, h.usageEq, h.capNonneg⟩⟩

theorem isum_zero (l : List Int) (h : ∀ x ∈ l, x = 0) : isum l = 0 := by
  induction l with
  | nil => rfl
  | cons a l ih =>
    rw [isum_cons, ih (fun x hx => h x (List.mem_cons_of_mem _ hx)), h a List.mem_cons_self]
    rfl

theorem invD_iff (rm : RM) : InvD rm ↔ C09.Inv rm := by
  constructor
  · intro h
    refine ⟨h.poolKeys, fun i hi => h.resvIds ⟨i, hi⟩, h.heldKeys, h.heldPos, h.heldKnown, ?_,
      h.capNonneg⟩
    intro r
    cases hl : rm.lookup r with
    | some v =>
      have hm : (r, v) ∈ rm.pools := mem_of_alookup _ _ _ hl
      exact h.usageEq _ hm
    | none =>
      have hu : rm.usage r = 0 := by simp [RM.usage, hl]
      rw [hu, C09.heldSum_eq]
      symm
      apply isum_zero
      intro x hx
      obtain ⟨p, hp, rfl⟩ := List.mem_map.1 hx
      apply RM.amtOf_of_not_mem
      intro hm
      obtain ⟨e, he, he1⟩ := List.mem_map.1 hm
      have := h.heldKnown p hp e he
      rw [he1, hl] at this
      cases this
  · intro h
    exact ⟨h.poolKeys, fun i => h.resvIds i.val i.isLt, h.heldKeys, h.heldPos, h.heldKnown,
      fun p _ => h.usageEq p.1, h.capNonneg⟩

instance (rm : RM) : Decidable (C09.Inv rm) := decidable_of_iff _ (invD_iff rm)

/-- The pool invariant only reads the pools and the reservations. -/
theorem inv_congr {rm rm' : RM} (h : C09.Inv rm) (hp : rm'.pools = rm.pools)
    (hr : rm'.resv = rm.resv) : C09.Inv rm' := by
  obtain ⟨p, r, wt, ini⟩ := rm
  obtain ⟨p', r', wt', ini'⟩ := rm'
  simp only at hp hr
  subst hp hr
  exact ⟨h.poolKeys, h.resvIds, h.heldKeys, h.heldPos, h.heldKnown, h.usageEq, h.capNonneg⟩

/-! ### the static clause -/

/-- A declared request is a dictionary. -/
def reqOK (o : Option Req) : Prop := ∀ q, o = some q → C09.NodupKeys q

instance (o : Option Req) : Decidable (reqOK o) :=
  match o with
  | none => isTrue (fun _ h => by cases h)
  | some q => decidable_of_iff (C09.NodupKeys q)
      ⟨fun h _ e => by cases e; exact h, fun h => h q rfl⟩

/-- A constructor call declares a dictionary. -/
def specWF : AssetSpec → Prop
  | .dev d => reqOK d.resReq
  | _ => True

instance (s : AssetSpec) : Decidable (specWF s) := by
  cases s <;> unfold specWF <;> infer_instance

/-- **Well-formed operations**: the request of a `reserve`, the part named by a partial
`release` and the request declared by a constructed processor have distinct keys (they are Python
`dict`s).  Nothing is asked of the AMOUNTS (zero, negative, unknown resources are allowed), nothing
of `register` (the request of a waiting script is only tested for feasibility), `merge`,
`addRes`. -/
def opWF : Op → Prop
  | .reserve _ req => C09.NodupKeys req
  | .release _ (some rel) => C09.NodupKeys rel
  | .create s => specWF s
  | _ => True

instance (o : Op) : Decidable (opWF o) := by
  cases o with
  | release h part => cases part <;> unfold opWF <;> infer_instance
  | _ => unfold opWF <;> infer_instance

def ScriptsWF (w : World) : Prop := ∀ l ∈ w.scripts, ∀ op ∈ l, opWF op
def DevsWF (w : World) : Prop := ∀ d ∈ w.devs, reqOK d.resReq

instance (w : World) : Decidable (ScriptsWF w) := by unfold ScriptsWF; infer_instance
instance (w : World) : Decidable (DevsWF w) := by unfold DevsWF; infer_instance

/-- **The static clause `ReqWF`**: every scripted operation is well-formed (`opWF`) and every
declared processor request is a dictionary. -/
def ReqWF (w : World) : Prop := ScriptsWF w ∧ DevsWF w

instance (w : World) : Decidable (ReqWF w) := by unfold ReqWF; infer_instance

/-! ### the invariant and the relation -/

/-- **The closed-world invariant of C09W.** -/
structure Q (w : World) : Prop where
  inv : C09.Inv w.rm
  scr : ScriptsWF w
  dev : DevsWF w

/-- **The conditional relation.** -/
def R (w w' : World) : Prop := Q w → Q w'

theorem R.refl (w : World) : R w w := id
theorem R.trans {a b c : World} (h1 : R a b) (h2 : R b c) : R a c := fun h => h2 (h1 h)
theorem R.with_Q {w w' : World} (h : Q w → R w w') : R w w' := fun hq => h hq hq

/-- What `R` observes of a world. -/
def KR (w : World) : RM × List (List Op) × List (Option Req) :=
  (w.rm, w.scripts, w.devs.map (·.resReq))

theorem KR_rm {w w' : World} (h : KR w' = KR w) : w'.rm = w.rm := congrArg Prod.fst h
theorem KR_scr {w w' : World} (h : KR w' = KR w) : w'.scripts = w.scripts :=
  congrArg (fun q => q.2.1) h
theorem KR_devs {w w' : World} (h : KR w' = KR w) :
    w'.devs.map (·.resReq) = w.devs.map (·.resReq) := congrArg (fun q => q.2.2) h

theorem devsWF_iff (w : World) : DevsWF w ↔ ∀ o ∈ w.devs.map (·.resReq), reqOK o := by
  unfold DevsWF
  simp only [List.mem_map, forall_exists_index, and_imp, forall_apply_eq_imp_iff₂]

theorem DevsWF.of_map {w w' : World} (h : DevsWF w)
    (hd : w'.devs.map (·.resReq) = w.devs.map (·.resReq)) : DevsWF w' := by
  rw [devsWF_iff] at h ⊢
  rw [hd]; exact h

theorem Q.of_KR {w w' : World} (h : Q w) (hk : KR w' = KR w) : Q w' := by
  refine ⟨by rw [KR_rm hk]; exact h.inv, ?_, h.dev.of_map (KR_devs hk)⟩
  unfold ScriptsWF; rw [KR_scr hk]; exact h.scr

theorem R.of_KR {w w' : World} (h : KR w' = KR w) : R w w' := fun hq => hq.of_KR h

theorem R.trans_KR {a b c : World} (h1 : R a b) (h : KR c = KR b) : R a c :=
  h1.trans (R.of_KR h)

theorem R.foldl {α} (g : World → α → World) (l : List α) (w : World)
    (h : ∀ w a, R w (g w a)) : R w (l.foldl g w) := by
  induction l generalizing w with
  | nil => exact R.refl w
  | cons a l ih => exact (h w a).trans (ih _)

theorem KR_foldl {α} (g : World → α → World) (l : List α) (w : World)
    (h : ∀ w a, KR (g w a) = KR w) : KR (l.foldl g w) = KR w :=
  foldl_preserve KR g l w h

theorem R.of_fst_eq {α} {w w' : World} {e : World × α} {b : α} (he : R w e.1)
    (h : e = (w', b)) : R w w' := by
  subst h; exact he

/-- The declared request of a device of a well-formed world is a dictionary. -/
theorem DevsWF.dev {w : World} (h : DevsWF w) {x : Nat} {req : Req}
    (hreq : (w.dev x).resReq = some req) : C09.NodupKeys req := by
  have hx : x < w.devs.length := C10W.lt_of_resReq hreq
  exact h _ (C11W.mem_devs_of_lt hx) req hreq

/-! ### primitives -/

@[simp] theorem KR_setErr (w : World) (m : String) : KR (w.setErr m) = KR w := by
  unfold setErr; split <;> rfl
@[simp] theorem KR_addRes (w : World) (r : Res) : KR (w.addRes r) = KR w := rfl
@[simp] theorem KR_addRec (w : World) (r : Rec) : KR (w.addRec r) = KR w := rfl
@[simp] theorem KR_modPart (w : World) (p : Nat) (f : PartRec → PartRec) :
    KR (w.modPart p f) = KR w := rfl
@[simp] theorem KR_newPart (w : World) (r : PartRec) : KR (w.newPart r).1 = KR w := rfl
@[simp] theorem KR_envOp (w : World) (op : EnvOp) : KR (w.envOp op) = KR w := rfl

theorem KR_setDev (w : World) (x : Nat) (d : Dev) (h : d.resReq = (w.dev x).resReq) :
    KR (w.setDev x d) = KR w := by
  unfold KR World.setDev
  simp only
  rw [map_set_of_eq (·.resReq) w.devs x d default h]

theorem KR_modDev (w : World) (x : Nat) (f : Dev → Dev)
    (h : (f (w.dev x)).resReq = (w.dev x).resReq) : KR (w.modDev x f) = KR w :=
  KR_setDev w x _ h

theorem R_setDev (w : World) (x : Nat) (d : Dev) (h : d.resReq = (w.dev x).resReq) :
    R w (w.setDev x d) := R.of_KR (KR_setDev w x d h)

theorem R_modDev (w : World) (x : Nat) (f : Dev → Dev)
    (h : (f (w.dev x)).resReq = (w.dev x).resReq) : R w (w.modDev x f) :=
  R.of_KR (KR_modDev w x f h)

theorem KR_sched (w : World) (t a : Int) (act : Action) (p : Int) :
    KR (w.sched t a act p).1 = KR w := by
  unfold World.sched
  simp only [Env.apply]
  cases w.env.schedule t a act.toNat p (weightOf w.seed w.wmod t a act.toNat p) <;> rfl

theorem KR_schedLib (w : World) (t a : Int) (act : Action) (p : Int) :
    KR (w.schedLib t a act p) = KR w := by
  unfold schedLib
  have h := KR_sched w t a act p
  generalize w.sched t a act p = s at h ⊢
  obtain ⟨w', r⟩ := s
  cases r <;> simp only [] <;> first | exact h | (rw [KR_setErr]; exact h)

theorem KR_rmEffects (w : World) (recs : List ResRec) (chk : Bool) :
    KR (w.rmEffects recs chk) = KR w := by
  unfold rmEffects
  dsimp only
  have h : KR (recs.foldl (fun w r => w.addRec (.resUpdate r.res w.now r.inUse r.cap)) w) = KR w :=
    KR_foldl _ _ _ (fun _ _ => rfl)
  split
  · rw [KR_schedLib, h]
  · exact h

/-! ### operations of the manager -/

/-- One operation of the manager that keeps the pool invariant, together with its effects. -/
theorem R_rmStep (w : World) (rm' : RM) (recs : List ResRec) (chk : Bool)
    (h : C09.Inv w.rm → C09.Inv rm') : R w (({ w with rm := rm' } : World).rmEffects recs chk) := by
  intro hq
  have hk := KR_rmEffects ({ w with rm := rm' } : World) recs chk
  refine ⟨?_, ?_, ?_⟩
  · rw [KR_rm hk]; exact h hq.inv
  · unfold ScriptsWF; rw [KR_scr hk]; exact hq.scr
  · exact hq.dev.of_map (KR_devs (w := ({ w with rm := rm' } : World)) hk)

theorem R_rmSet (w : World) (rm' : RM) (h : C09.Inv w.rm → C09.Inv rm') :
    R w ({ w with rm := rm' } : World) :=
  fun hq => ⟨h hq.inv, hq.scr, hq.dev⟩

/-! ### the peeling tactic -/

/-- Peel a structure update `{ w with f := v, … }` that leaves `rm`, `scripts` and `devs`
alone. -/
elab "r_struct" : tactic => do
  let g ← getMainGoal
  g.withContext do
    let t ← instantiateMVars (← g.getType)
    let_expr R a b := t.consumeMData | throwError "r_struct: not an R goal"
    let b := b.consumeMData
    unless b.isAppOfArity ``World.mk 23 do throwError "r_struct: not a structure instance"
    let r := b.getArg! 1
    let w0 ← match r with
      | .proj _ _ w0 => pure w0
      | _ =>
        if r.isAppOfArity ``World.seed 1 then pure (r.getArg! 0)
        else throwError "r_struct: the seed is changed"
    let newGoal ← mkFreshExprSyntheticOpaqueMVar (← mkAppM ``R #[a, w0])
    let eq ← mkEq (← mkAppM ``KR #[b]) (← mkAppM ``KR #[w0])
    let pf ← mkFreshExprMVar eq
    pf.mvarId!.refl
    g.assign (mkApp5 (mkConst ``R.trans_KR) a w0 b newGoal pf)
    replaceMainGoal [newGoal.mvarId!]

syntax "r_step" : tactic

macro "r_auto" : tactic => `(tactic| repeat' first | r_step | split)

macro_rules | `(tactic| r_step) => `(tactic| r_struct)
macro_rules | `(tactic| r_step) => `(tactic|
  ((with_reducible apply R.trans (h2 := R.foldl _ _ _ ?hs)); case hs => (intro _ _; r_auto; done)))
macro_rules | `(tactic| r_step) => `(tactic| with_reducible apply R.trans_KR (h := KR_rmEffects _ _ _))
macro_rules | `(tactic| r_step) => `(tactic| with_reducible apply R.trans_KR (h := KR_envOp _ _))
macro_rules | `(tactic| r_step) => `(tactic| with_reducible apply R.trans_KR (h := KR_schedLib _ _ _ _ _))
macro_rules | `(tactic| r_step) => `(tactic| with_reducible apply R.trans_KR (h := KR_sched _ _ _ _ _))
macro_rules | `(tactic| r_step) => `(tactic| with_reducible apply R.trans_KR (h := KR_setErr _ _))
macro_rules | `(tactic| r_step) => `(tactic| with_reducible apply R.trans_KR (h := KR_addRes _ _))
macro_rules | `(tactic| r_step) => `(tactic| with_reducible apply R.trans_KR (h := KR_addRec _ _))
macro_rules | `(tactic| r_step) => `(tactic| with_reducible apply R.trans_KR (h := KR_modPart _ _ _))
macro_rules | `(tactic| r_step) => `(tactic| with_reducible apply R.trans_KR (h := KR_newPart _ _))
macro_rules | `(tactic| r_step) => `(tactic|
  ((with_reducible apply R.trans (h2 := R_modDev _ _ _ ?hp)); case hp => exact rfl))
macro_rules | `(tactic| r_step) => `(tactic|
  ((with_reducible apply R.trans (h2 := R_setDev _ _ _ ?hp)); case hp => exact rfl))
macro_rules | `(tactic| r_step) => `(tactic| with_reducible exact R.refl _)

macro "r_heq " t:term : tactic =>
  `(tactic| (rename_i heq; with_reducible apply R.trans (h2 := R.of_fst_eq $t heq)))

end C09W
end SimProc
