/-
Frame lemmas for `Model/Floor.lean`: the functions that change neither the slot view `sv`, nor
the static view `st`, nor the scripts.
-/
import SimProc.Proofs.Views
namespace SimProc
namespace C02V
open World

/-- declare the three frame lemmas of a function as rewrite steps of `frame` -/
macro "frame_lemmas" a:ident b:ident c:ident : command =>
  `(macro_rules | `(tactic| fr_step) => `(tactic| first | rw [$a:ident] | rw [$b:ident] | rw [$c:ident]))

section
variable (w : World)

theorem sv_setWaiting (x : Nat) (a b : Bool) : sv (w.setWaiting x a b) = sv w := by
  unfold World.setWaiting; frame
theorem st_setWaiting (x : Nat) (a b : Bool) : st (w.setWaiting x a b) = st w := by
  unfold World.setWaiting; frame
theorem scr_setWaiting (x : Nat) (a b : Bool) : (w.setWaiting x a b).scripts = w.scripts := by
  unfold World.setWaiting; frame
frame_lemmas sv_setWaiting st_setWaiting scr_setWaiting

theorem sv_schedulePass (x : Nat) (o : Int) : sv (w.schedulePass x o) = sv w := by
  unfold World.schedulePass; frame
theorem st_schedulePass (x : Nat) (o : Int) : st (w.schedulePass x o) = st w := by
  unfold World.schedulePass; frame
theorem scr_schedulePass (x : Nat) (o : Int) : (w.schedulePass x o).scripts = w.scripts := by
  unfold World.schedulePass; frame
frame_lemmas sv_schedulePass st_schedulePass scr_schedulePass

end

/-- All three views at once (for the recursive functions). -/
def Fr (w w' : World) : Prop := sv w' = sv w ∧ st w' = st w ∧ w'.scripts = w.scripts

theorem Fr.refl (w : World) : Fr w w := ⟨rfl, rfl, rfl⟩
theorem Fr.trans {a b c : World} (h1 : Fr a b) (h2 : Fr b c) : Fr a c :=
  ⟨h2.1.trans h1.1, h2.2.1.trans h1.2.1, h2.2.2.trans h1.2.2⟩

theorem Fr.foldl {α : Type} (f : World → α → World) (l : List α) (w : World)
    (h : ∀ w a, Fr w (f w a)) : Fr w (l.foldl f w) :=
  foldl_inv (fun w' => Fr w w') f l w (Fr.refl w) (fun _ a hb => hb.trans (h _ a))

theorem fr_setWaiting (w : World) (x : Nat) (a b : Bool) : Fr w (w.setWaiting x a b) :=
  ⟨sv_setWaiting .., st_setWaiting .., scr_setWaiting ..⟩
theorem fr_schedulePass (w : World) (x : Nat) (o : Int) : Fr w (w.schedulePass x o) :=
  ⟨sv_schedulePass .., st_schedulePass .., scr_schedulePass ..⟩
theorem fr_setErr (w : World) (m : String) : Fr w (w.setErr m) := ⟨sv_setErr .., st_setErr .., scr_setErr ..⟩

theorem fr_notify_aux (f : Nat) : ∀ (w : World) (x : Nat), Fr w (notifyUp f w x) ∧ Fr w (spaceAvail f w x) := by
  induction f with
  | zero => intro w x; exact ⟨by unfold notifyUp; exact fr_setErr .., by unfold spaceAvail; exact fr_setErr ..⟩
  | succ f ih =>
    intro w x
    have hup : ∀ (w : World) (l : List Nat), Fr w (l.foldl (fun w u => spaceAvail f w u) w) :=
      fun w l => Fr.foldl _ l w (fun w a => (ih w a).2)
    have hnu : ∀ (w : World) (l : List Nat), Fr w (l.foldl (fun w u => notifyUp f w u) w) :=
      fun w l => Fr.foldl _ l w (fun w a => (ih w a).1)
    have h1 : Fr w (notifyUp (f + 1) w x) := by
      unfold notifyUp
      simp only []
      repeat' split
      all_goals first | exact Fr.refl _ | exact (fr_setWaiting ..).trans (hup ..) | exact hnu .. | exact hup ..
    refine ⟨h1, ?_⟩
    unfold spaceAvail
    simp only []
    repeat' split
    all_goals first | exact Fr.refl _ | exact (ih w x).1 | exact (ih _ _).2 | exact fr_schedulePass ..

theorem fr_notifyUp (f : Nat) (w : World) (x : Nat) : Fr w (notifyUp f w x) := (fr_notify_aux f w x).1
theorem fr_spaceAvail (f : Nat) (w : World) (x : Nat) : Fr w (spaceAvail f w x) := (fr_notify_aux f w x).2

section
variable (w : World)

theorem sv_notify (x : Nat) : sv (w.notify x) = sv w := (fr_notifyUp ..).1
theorem st_notify (x : Nat) : st (w.notify x) = st w := (fr_notifyUp ..).2.1
theorem scr_notify (x : Nat) : (w.notify x).scripts = w.scripts := (fr_notifyUp ..).2.2
frame_lemmas sv_notify st_notify scr_notify

theorem sv_spaceAvailable (x : Nat) : sv (w.spaceAvailable x) = sv w := (fr_spaceAvail ..).1
theorem st_spaceAvailable (x : Nat) : st (w.spaceAvailable x) = st w := (fr_spaceAvail ..).2.1
theorem scr_spaceAvailable (x : Nat) : (w.spaceAvailable x).scripts = w.scripts := (fr_spaceAvail ..).2.2
frame_lemmas sv_spaceAvailable st_spaceAvailable scr_spaceAvailable


macro_rules | `(tactic| fr_step) => `(tactic| first
  | rw [foldl_proj sv] | rw [foldl_proj st] | rw [foldl_proj World.scripts] | intro _ | simp only [])

theorem sv_releaseReserved (x : Nat) : sv (w.releaseReserved x) = sv w := by
  unfold World.releaseReserved; frame
theorem st_releaseReserved (x : Nat) : st (w.releaseReserved x) = st w := by
  unfold World.releaseReserved; frame
theorem scr_releaseReserved (x : Nat) : (w.releaseReserved x).scripts = w.scripts := by
  unfold World.releaseReserved; frame
frame_lemmas sv_releaseReserved st_releaseReserved scr_releaseReserved

theorem sv_procAcquire (x : Nat) : sv (w.procAcquire x).1 = sv w := by
  unfold World.procAcquire; frame
theorem st_procAcquire (x : Nat) : st (w.procAcquire x).1 = st w := by
  unfold World.procAcquire; frame
theorem scr_procAcquire (x : Nat) : (w.procAcquire x).1.scripts = w.scripts := by
  unfold World.procAcquire; frame
frame_lemmas sv_procAcquire st_procAcquire scr_procAcquire

theorem sv_applyPartCb (x p : Nat) (c : PartCb) : sv (w.applyPartCb x p c) = sv w := by
  unfold World.applyPartCb; frame
theorem st_applyPartCb (x p : Nat) (c : PartCb) : st (w.applyPartCb x p c) = st w := by
  unfold World.applyPartCb; frame
theorem scr_applyPartCb (x p : Nat) (c : PartCb) : (w.applyPartCb x p c).scripts = w.scripts := by
  unfold World.applyPartCb; frame
frame_lemmas sv_applyPartCb st_applyPartCb scr_applyPartCb

theorem sv_senseOutput (s p : Nat) : sv (w.senseOutput s p) = sv w := by
  unfold World.senseOutput; frame
theorem st_senseOutput (s p : Nat) : st (w.senseOutput s p) = st w := by
  unfold World.senseOutput; frame
theorem scr_senseOutput (s p : Nat) : (w.senseOutput s p).scripts = w.scripts := by
  unfold World.senseOutput; frame
frame_lemmas sv_senseOutput st_senseOutput scr_senseOutput

theorem sv_addHist (p d : Nat) : sv (w.addHist p d) = sv w := by
  unfold World.addHist; frame
theorem st_addHist (p d : Nat) : st (w.addHist p d) = st w := by
  unfold World.addHist; frame
theorem scr_addHist (p d : Nat) : (w.addHist p d).scripts = w.scripts := by
  unfold World.addHist; frame
frame_lemmas sv_addHist st_addHist scr_addHist

theorem sv_dropHist (p : Nat) : sv (w.dropHist p) = sv w := by
  unfold World.dropHist; frame
theorem st_dropHist (p : Nat) : st (w.dropHist p) = st w := by
  unfold World.dropHist; frame
theorem scr_dropHist (p : Nat) : (w.dropHist p).scripts = w.scripts := by
  unfold World.dropHist; frame
frame_lemmas sv_dropHist st_dropHist scr_dropHist

theorem sv_shutdownDev (x : Nat) (f : Bool) (l : Option Nat) : sv (w.shutdownDev x f l) = sv w := by
  unfold World.shutdownDev; frame
theorem st_shutdownDev (x : Nat) (f : Bool) (l : Option Nat) : st (w.shutdownDev x f l) = st w := by
  unfold World.shutdownDev; frame
theorem scr_shutdownDev (x : Nat) (f : Bool) (l : Option Nat) : (w.shutdownDev x f l).scripts = w.scripts := by
  unfold World.shutdownDev; frame
frame_lemmas sv_shutdownDev st_shutdownDev scr_shutdownDev

theorem sv_restoreDev (x : Nat) : sv (w.restoreDev x) = sv w := by
  unfold World.restoreDev; frame
theorem st_restoreDev (x : Nat) : st (w.restoreDev x) = st w := by
  unfold World.restoreDev; frame
theorem scr_restoreDev (x : Nat) : (w.restoreDev x).scripts = w.scripts := by
  unfold World.restoreDev; frame
frame_lemmas sv_restoreDev st_restoreDev scr_restoreDev

theorem sv_releaseIfIdle (x : Nat) : sv (w.releaseIfIdle x) = sv w := by
  unfold World.releaseIfIdle; frame
theorem st_releaseIfIdle (x : Nat) : st (w.releaseIfIdle x) = st w := by
  unfold World.releaseIfIdle; frame
theorem scr_releaseIfIdle (x : Nat) : (w.releaseIfIdle x).scripts = w.scripts := by
  unfold World.releaseIfIdle; frame
frame_lemmas sv_releaseIfIdle st_releaseIfIdle scr_releaseIfIdle

theorem sv_procResourceCb (x : Nat) : sv (w.procResourceCb x) = sv w := by
  unfold World.procResourceCb; frame
theorem st_procResourceCb (x : Nat) : st (w.procResourceCb x) = st w := by
  unfold World.procResourceCb; frame
theorem scr_procResourceCb (x : Nat) : (w.procResourceCb x).scripts = w.scripts := by
  unfold World.procResourceCb; frame
frame_lemmas sv_procResourceCb st_procResourceCb scr_procResourceCb

theorem sv_setBlock (x : Nat) (b : Bool) : sv (w.setBlock x b) = sv w := by
  unfold World.setBlock; frame
theorem st_setBlock (x : Nat) (b : Bool) : st (w.setBlock x b) = st w := by
  unfold World.setBlock; frame
theorem scr_setBlock (x : Nat) (b : Bool) : (w.setBlock x b).scripts = w.scripts := by
  unfold World.setBlock; frame
frame_lemmas sv_setBlock st_setBlock scr_setBlock


theorem sv_adjustParts (x : Nat) (v : Int) : sv (w.adjustParts x v) = sv w := by
  unfold World.adjustParts; frame
theorem scr_adjustParts (x : Nat) (v : Int) : (w.adjustParts x v).scripts = w.scripts := by
  unfold World.adjustParts; frame

end

/-- like `frame`, but also splits inside fold bodies -/
macro "frame'" : tactic => `(tactic| ((try simp only []); repeat' (first | fr_step | split)))

theorem sv_rewire (w : World) (x : Nat) (ups : List Nat) : sv (w.rewire x ups) = sv w := by
  unfold World.rewire; frame'
theorem scr_rewire (w : World) (x : Nat) (ups : List Nat) : (w.rewire x ups).scripts = w.scripts := by
  unfold World.rewire; frame'

frame_lemmas sv_rewire sv_adjustParts scr_rewire
macro_rules | `(tactic| fr_step) => `(tactic| rw [scr_adjustParts])

end C02V
end SimProc
