/-
C12W, part 7: transitions between event boundaries (`Tr`): a step of the event loop, a run of the
loop, the beginning of a run, initialisation, scripted operations issued from outside.  Every
transition keeps the class and the invariant, the correspondence between hook results and
start / finish records (`HookLog`), and the life of every work order in progress (`Life`).
-/
import SimProc.Proofs.C12WWorld

namespace SimProc
namespace C12W
open World FloorCoreL

/-! ### hook results and start / finish records correspond -/

def hkey : Res → Bool × Nat × Int
  | .hook b tgt tag => (b, tgt, tag)
  | _ => (false, 0, 0)

def rkey : Rec → Bool × Nat × Int
  | .workOrder k _ _ tgt tag _ => (k == 1, tgt, tag)
  | _ => (false, 0, 0)

/-- The hook results, in order, are the start / finish records, in order: `start_work(tag)` of a
target for a START record, `end_work(tag)` for a FINISH record. -/
def HookLog (w : World) : Prop :=
  (w.results.filter isHook).map hkey = (w.recs.filter isSF).map rkey

/-! ### transitions -/

structure Tr (w w' : World) : Prop where
  s : S w'
  g : G [] [] w'
  aids : aids w' = aids w
  scr : w'.scripts = w.scripts
  life : ∀ m o T, Life m o T w → Life m o T w'
  hl : HookLog w → HookLog w'
  sfm : ∃ l, w'.recs.filter isSF = w.recs.filter isSF ++ l
  now : w.now ≤ w'.now

theorem Tr.refl {w : World} (hS : S w) (g : G [] [] w) : Tr w w :=
  ⟨hS, g, rfl, rfl, fun _ _ _ h => h, id, ⟨[], by simp⟩, Int.le_refl _⟩

theorem Tr.trans {a b c : World} (h1 : Tr a b) (h2 : Tr b c) : Tr a c := by
  obtain ⟨l1, e1⟩ := h1.sfm
  obtain ⟨l2, e2⟩ := h2.sfm
  exact ⟨h2.s, h2.g, h2.aids.trans h1.aids, h2.scr.trans h1.scr,
    fun m o T h => h2.life m o T (h1.life m o T h), fun h => h2.hl (h1.hl h),
    ⟨l1 ++ l2, by rw [e2, e1, List.append_assoc]⟩, Int.le_trans h1.now h2.now⟩

theorem Tr.of_sc {w w' : World} (p : ScP [] w w') (g : G [] [] w) : Tr w w' := by
  refine ⟨p.s, p.g _ _ g, p.aids, p.scr, fun m o T h => Life.of_sc p g h, ?_, ⟨[], by rw [p.sf]; simp⟩,
    Int.le_of_eq p.now.symm⟩
  intro h
  unfold HookLog at h ⊢
  rw [p.hooks, p.sf, List.append_nil]
  exact h

/-! ### popping -/

theorem actKey_start {a : Action} {m s : Nat} (h : actKey a = some (false, m, s)) :
    a = .startWork m s := by
  cases a <;> simp [actKey] at h
  obtain ⟨rfl, rfl⟩ := h; rfl

theorem actKey_finish {a : Action} {m s : Nat} (h : actKey a = some (true, m, s)) :
    a = .finishWork m s := by
  cases a <;> simp [actKey] at h
  obtain ⟨rfl, rfl⟩ := h; rfl

/-- The life of an order when the head `e` of the queue is popped: it goes on, or `e` is its FINISH
event. -/
theorem life_pop {w w1 : World} {e : Event} (hev : w.env.events = e :: w1.env.events)
    (hm : ∀ m, w1.maint m = w.maint m) (hrec : w1.recs = w.recs) {m : Nat} {o : Order} {T : Int}
    (h : Life m o T w) :
    Life m o T w1 ∨ (ekey e = some (true, m, o.seq) ∧ o ∈ (w.maint m).active ∧ T = e.time) := by
  rcases h with ⟨ho, e0, he0, hk0, ht0⟩ | hr
  · rw [hev] at he0
    rcases List.mem_cons.1 he0 with rfl | he0
    · exact Or.inr ⟨hk0, ho, ht0.symm⟩
    · exact Or.inl (Or.inl ⟨by rw [hm]; exact ho, e0, he0, hk0, ht0⟩)
  · exact Or.inl (Or.inr (by rw [hrec]; exact hr))

theorem hookLog_append {w w' : World} {r : Res} {x : Rec}
    (h1 : w'.results.filter isHook = w.results.filter isHook ++ [r])
    (h2 : w'.recs.filter isSF = w.recs.filter isSF ++ [x]) (hk : hkey r = rkey x) (h : HookLog w) :
    HookLog w' := by
  unfold HookLog at h ⊢
  rw [h1, h2, List.map_append, List.map_append, h, List.map_singleton, List.map_singleton, hk]

theorem mem_recs_of_sf {w w' : World} {x : Rec} {l : List Rec}
    (h : w'.recs.filter isSF = w.recs.filter isSF ++ l) (hx : isSF x = true)
    (hm : x ∈ w.recs ∨ x ∈ l) : x ∈ w'.recs := by
  have : x ∈ w'.recs.filter isSF := by
    rw [h]
    rcases hm with hm | hm
    · exact List.mem_append_left _ (List.mem_filter.2 ⟨hm, hx⟩)
    · exact List.mem_append_right _ hm
  exact (List.mem_filter.1 this).1

/-- **A step of the event loop** (`Environment.step`). -/
theorem tr_step {w w' : World} {e : Event} (hS : S w) (g : G [] [] w) (h : w.step = some (e, w')) :
    Tr w w' := by
  unfold World.step at h
  cases hs : w.env.step with
  | none => rw [hs] at h; cases h
  | some q =>
    obtain ⟨e0, env'⟩ := q
    rw [hs] at h
    simp only [Option.some.injEq, Prod.mk.injEq] at h
    obtain ⟨rfl, hw'⟩ := h
    generalize hw1 : ({ w with env := env' } : World) = w1 at hw'
    have g1 : G (flightX e0) (flightR e0) w1 := hw1 ▸ g.pop hs
    have hS1 : S w1 := by subst hw1; exact hS.of_eq rfl rfl rfl rfl
    obtain ⟨es, heq, henv'⟩ := Env.step_some.mp hs
    have h1ev : w.env.events = e0 :: w1.env.events := by subst hw1 henv'; exact heq
    have h1m : ∀ m, w1.maint m = w.maint m := by subst hw1; intro m; rfl
    have h1rec : w1.recs = w.recs := by subst hw1; rfl
    have h1res : w1.results = w.results := by subst hw1; rfl
    have h1aids : aids w1 = aids w := by subst hw1; rfl
    have h1scr : w1.scripts = w.scripts := by subst hw1; rfl
    have h1now : w1.now = e0.time := by subst hw1 henv'; rfl
    have hnow : w.now ≤ w1.now := by
      rw [h1now]; exact g.g0.env.future e0 (by rw [heq]; exact List.mem_cons_self)
    have hmem : e0 ∈ w.env.events := by rw [heq]; exact List.mem_cons_self
    cases hk : ekey e0 with
    | none =>
      have g1' : G [] [] w1 := by
        have := g1; unfold flightX flightR at this; rw [hk] at this; exact this
      have p : ScP [] w1 w' := by
        rw [← hw']
        split
        · exact Sc_exec w1 _ hk hS1
        · exact ScP.refl hS1
      have t := Tr.of_sc p g1'
      obtain ⟨l, hl⟩ := t.sfm
      refine ⟨t.s, t.g, t.aids.trans h1aids, t.scr.trans h1scr, ?_, ?_, ⟨l, by rw [hl, h1rec]⟩,
        Int.le_trans hnow t.now⟩
      · intro m o T hlife
        rcases life_pop h1ev h1m h1rec hlife with h | ⟨hk', _, _⟩
        · exact t.life m o T h
        · rw [hk] at hk'; cases hk'
      · intro hh
        apply t.hl
        unfold HookLog at hh ⊢
        rw [h1res, h1rec]; exact hh
    | some k =>
      obtain ⟨f, m, s⟩ := k
      have hlive : e0.live = true := by
        have := (g.g0.ev e0 hmem f m s hk).1
        simp [Event.live, this]
      rw [hlive] at hw'
      simp only [if_true] at hw'
      cases f with
      | false =>
        have ha := actKey_start hk
        rw [ha] at hw'
        have g1' : G [(m, s)] [] w1 := by
          have := g1; unfold flightX flightR at this; rw [hk] at this; exact this
        obtain ⟨o, sp⟩ := startWork_spec hS1 g1'
        have hw'' : w1.startWork m s = w' := hw'
        rw [hw''] at sp
        refine ⟨sp.s', sp.g, sp.aids.trans h1aids, sp.scr.trans h1scr, ?_, ?_,
          ⟨[.workOrder 1 m w1.now o.target o.tag o.info], by rw [sp.sf, h1rec]⟩,
          Int.le_trans hnow (Int.le_of_eq sp.now.symm)⟩
        · intro m' o' T hlife
          rcases life_pop h1ev h1m h1rec hlife with h | ⟨hk', _, _⟩
          · rcases h with ⟨ho, e1, he1, hk1, ht1⟩ | hr
            · left
              obtain ⟨l, hl⟩ := sp.grow m'
              exact ⟨by rw [hl]; exact List.mem_append_left _ ho, e1,
                sp.keep e1 he1 ((isM_true_iff e1).2 ⟨_, hk1⟩), hk1, ht1⟩
            · right
              exact mem_recs_of_sf sp.sf rfl (Or.inl hr)
          · rw [hk] at hk'; cases hk'
        · intro hh
          refine hookLog_append sp.hooks sp.sf rfl ?_
          unfold HookLog at hh ⊢
          rw [h1res, h1rec]; exact hh
      | true =>
        have ha := actKey_finish hk
        rw [ha] at hw'
        have g1' : G [] [(m, s)] w1 := by
          have := g1; unfold flightX flightR at this; rw [hk] at this; exact this
        obtain ⟨o, sp⟩ := finishWork_spec hS1 g1'
        have hw'' : w1.finishWork m s = w' := hw'
        rw [hw''] at sp
        refine ⟨sp.s', sp.g, sp.aids.trans h1aids, sp.scr.trans h1scr, ?_, ?_,
          ⟨[.workOrder 2 m w1.now o.target o.tag o.info], by rw [sp.sf, h1rec]⟩,
          Int.le_trans hnow (Int.le_of_eq sp.now.symm)⟩
        · intro m' o' T hlife
          rcases life_pop h1ev h1m h1rec hlife with h | ⟨hk', ho', hT⟩
          · rcases h with ⟨ho, e1, he1, hk1, ht1⟩ | hr
            · left
              refine ⟨sp.stay m' o' ho ?_, e1, sp.keep e1 he1 ((isM_true_iff e1).2 ⟨_, hk1⟩), hk1, ht1⟩
              -- the order being finished has no event left in the queue
              intro hmm hss
              subst hmm
              subst hss
              have hnd := g1'.g0.nodup_lhs m'
              rw [proj_cons_same] at hnd
              have h1 : o'.seq ∈ skeys m' w1.env.events := mem_skeys.2 ⟨e1, he1, true, hk1⟩
              have hc : 2 ≤ List.count o'.seq
                  (skeys m' w1.env.events ++ proj m' [] ++ o'.seq :: proj m' []) := by
                have := List.count_pos_iff.2 h1
                simp only [List.count_append, List.count_cons, beq_self_eq_true, if_true,
                  proj_nil, List.count_nil]
                omega
              have := List.nodup_iff_count.1 hnd o'.seq
              omega
            · right
              exact mem_recs_of_sf sp.sf rfl (Or.inl hr)
          · right
            rw [hk] at hk'
            simp only [Option.some.injEq, Prod.mk.injEq, true_and] at hk'
            obtain ⟨rfl, hss⟩ := hk'
            have hoo : o = o' := by
              have h1 := sp.mem
              rw [h1m] at h1
              exact C12L.eq_of_nodup_map (·.seq) _ (g.g0.nodup m) o o' h1 ho' (by rw [sp.seq, hss])
            subst hoo
            refine mem_recs_of_sf sp.sf rfl (Or.inr ?_)
            rw [hT, h1now]; exact List.mem_singleton.2 rfl
        · intro hh
          refine hookLog_append sp.hooks sp.sf rfl ?_
          unfold HookLog at hh ⊢
          rw [h1res, h1rec]; exact hh

/-! ### what a step does, case by case -/

/-- A step: pop, then run the action of the live event. -/
theorem step_open {w w' : World} {e : Event} (hS : S w) (g : G [] [] w) (h : w.step = some (e, w')) :
    ∃ env', w.env.step = some (e, env') ∧ S { w with env := env' } ∧
      G (flightX e) (flightR e) { w with env := env' } ∧ e ∈ w.env.events ∧
      env'.now = e.time ∧ w.now ≤ e.time ∧
      w' = if e.live then ({ w with env := env' } : World).exec (Action.ofNat e.act)
           else { w with env := env' } := by
  unfold World.step at h
  cases hs : w.env.step with
  | none => rw [hs] at h; cases h
  | some q =>
    obtain ⟨e0, env'⟩ := q
    rw [hs] at h
    simp only [Option.some.injEq, Prod.mk.injEq] at h
    obtain ⟨rfl, hw'⟩ := h
    obtain ⟨es, heq, henv'⟩ := Env.step_some.mp hs
    have hmem : e0 ∈ w.env.events := by rw [heq]; exact List.mem_cons_self
    exact ⟨env', rfl, hS.of_eq rfl rfl rfl rfl, g.pop hs, hmem, by rw [henv'],
      g.g0.env.future e0 hmem, hw'.symm⟩

/-- The step that executes a START event. -/
theorem step_start {w w' : World} {e : Event} {m s : Nat} (hS : S w) (g : G [] [] w)
    (h : w.step = some (e, w')) (hk : ekey e = some (false, m, s)) :
    ∃ env', w.env.step = some (e, env') ∧ env'.now = e.time ∧ e.time = w.now ∧
      w' = ({ w with env := env' } : World).startWork m s ∧
      ∃ o, StartSpec { w with env := env' } w' m s o := by
  obtain ⟨env', hs, hS1, g1, hmem, hnow, _, hw'⟩ := step_open hS g h
  have hev := g.g0.ev e hmem false m s hk
  have hlive : e.live = true := by simp [Event.live, hev.1]
  rw [hlive, if_pos rfl, actKey_start hk] at hw'
  have g1' : G [(m, s)] [] { w with env := env' } := by
    have := g1; unfold flightX flightR at this; rw [hk] at this; exact this
  obtain ⟨o, sp⟩ := startWork_spec hS1 g1'
  refine ⟨env', hs, hnow, (hev.2.2.1 rfl).1, hw', o, ?_⟩
  rw [hw']; exact sp

/-- The step that executes a FINISH event. -/
theorem step_finish {w w' : World} {e : Event} {m s : Nat} (hS : S w) (g : G [] [] w)
    (h : w.step = some (e, w')) (hk : ekey e = some (true, m, s)) :
    ∃ env', w.env.step = some (e, env') ∧ env'.now = e.time ∧
      w' = ({ w with env := env' } : World).finishWork m s ∧
      ∃ o, FinishSpec { w with env := env' } w' m s o := by
  obtain ⟨env', hs, hS1, g1, hmem, hnow, _, hw'⟩ := step_open hS g h
  have hev := g.g0.ev e hmem true m s hk
  have hlive : e.live = true := by simp [Event.live, hev.1]
  rw [hlive, if_pos rfl, actKey_finish hk] at hw'
  have g1' : G [] [(m, s)] { w with env := env' } := by
    have := g1; unfold flightX flightR at this; rw [hk] at this; exact this
  obtain ⟨o, sp⟩ := finishWork_spec hS1 g1'
  refine ⟨env', hs, hnow, hw', o, ?_⟩
  rw [hw']; exact sp

/-- Any other step. -/
theorem step_other {w w' : World} {e : Event} (hS : S w) (g : G [] [] w)
    (h : w.step = some (e, w')) (hk : ekey e = none) :
    ∃ env', w.env.step = some (e, env') ∧ ScP [] { w with env := env' } w' := by
  obtain ⟨env', hs, hS1, _, _, _, _, hw'⟩ := step_open hS g h
  refine ⟨env', hs, ?_⟩
  rw [hw']
  split
  · exact Sc_exec _ _ hk hS1
  · exact ScP.refl hS1

/-! ### the other transitions -/

theorem tr_simulateInit {w : World} (hS : S w) (g : G [] [] w) : Tr w w.simulateInit :=
  Tr.of_sc (Sc_simulateInit w hS) g

theorem tr_applyOp {w : World} (hS : S w) (g : G [] [] w) (op : Op)
    (h : opOK (aids w) w.maints.length op = true) : Tr w (w.applyOp op).1 :=
  Tr.of_sc (Sc_applyOp w op h hS) g

theorem tr_applyOps {w : World} (hS : S w) (g : G [] [] w) (ops : List Op)
    (h : ∀ op ∈ ops, opOK (aids w) w.maints.length op = true) : Tr w (w.applyOps ops) :=
  Tr.of_sc (Sc_applyOps w ops h hS) g

theorem ScP_runBegin {w : World} (hS : S w) (d : Int) : ScP [] w (w.runBegin d).1 := by
  unfold World.runBegin
  dsimp only
  split
  · exact ScP.refl hS
  · rename_i e he
    have hinv : C01.Inv w.env → C01.Inv e := fun hi => C01.inv_runBegin _ hi he
    unfold Env.runBegin at he
    obtain ⟨_, rfl⟩ := Env.schedule_some.mp he
    have hne : isM (({ w.env with terminated := false } : Env).newEvent (Arith.exact.add w.env.now d) (-1)
        terminateAct prioTerminate
        (weightOf w.seed w.wmod (w.env.now + d) (-1) terminateAct pTerminate)) = false := by
      rw [isM_false_iff, ekey_newEvent]; decide
    refine ⟨hS.of_eq rfl rfl rfl rfl, ?_, Grow.of_mcore (fun _ => rfl), by simp, rfl, rfl, rfl, rfl, ?_⟩
    · intro X R g
      refine g.congr (fun _ => rfl) (fun _ => rfl) rfl ?_ g.g0.paused (hinv g.g0.env) rfl
      exact filter_insort_of_false isM _ _ hne
    · intro X R g e' he' _
      exact insort_mem.2 (Or.inr he')

theorem tr_runBegin {w : World} (hS : S w) (g : G [] [] w) (d : Int) : Tr w (w.runBegin d).1 :=
  Tr.of_sc (ScP_runBegin hS d) g

theorem tr_runLoop (n : Nat) {w : World} (hS : S w) (g : G [] [] w) : Tr w (runLoop n w) := by
  induction n generalizing w with
  | zero => exact Tr.of_sc ((Fr_setErr w "fuel").sc hS) g
  | succ n ih =>
    rw [runLoop]
    split
    · split
      · exact Tr.refl hS g
      · rename_i e w' hst
        have t := tr_step hS g hst
        exact t.trans (ih t.s t.g)
    · exact Tr.refl hS g

end C12W
end SimProc
