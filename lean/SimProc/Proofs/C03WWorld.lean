/-
C03W — scripted operations, events, `step`, `simulateInit`, `runLoop`.
-/
import SimProc.Proofs.C03WOps
import SimProc.Proofs.WorldPres
import SimProc.Proofs.C11WStatic
import SimProc.Proofs.C03YRewire
import SimProc.Proofs.C03YIni
import SimProc.Proofs.C03YSwrW
namespace SimProc
namespace C03W
open World FloorCoreL C03

theorem G.schedG {E N A : List Nat} {w : World} (h : G E N A w) (t asset : Int) (a : Action)
    (prio : Int) (ha : ∀ d, a = .fail d → (w.dev d).kind = .processor) :
    G E N A (w.sched t asset a prio).1 := by
  by_cases hle : w.now ≤ t
  · have := h.schedLib t asset a prio ha
    rw [schedLib_of_le w t asset a prio hle] at this
    rw [sched_of_le w t asset a prio hle]
    exact this
  · rw [sched_of_lt w t asset a prio (Int.not_le.mp hle)]
    exact h

theorem G.startOrdersG {E N A : List Nat} {w : World} (h : G E N A w) (m : Nat) (st : List Order) :
    G E N A (w.startOrders m st) := by
  unfold World.startOrders
  exact G.foldl _ (fun w o hw => hw.schedLib _ _ (Action.startWork m o.seq) _
    (fun d hd => Action.noConfusion hd)) _ h

theorem G.withMaints {E N A : List Nat} {w : World} (h : G E N A w) (l : List MaintW) :
    G E N A { w with maints := l } :=
  h.of_eq rfl rfl rfl rfl rfl

theorem G.modMaintG {E N A : List Nat} {w : World} (h : G E N A w) (m : Nat) (f : Maint → Maint) :
    G E N A (w.modMaint m f) := by
  unfold World.modMaint
  exact h.withMaints _

theorem G.withScheds {E N A : List Nat} {w : World} (h : G E N A w) (l : List SchedW) :
    G E N A { w with scheds := l } :=
  h.of_eq rfl rfl rfl rfl rfl

theorem G.schedUpdateG {E N A : List Nat} {w : World} (h : G E N A w) (s : Nat) (b : Bool) :
    G E N A (w.schedUpdate s b) := by
  unfold World.schedUpdate
  dsimp only
  generalize (w.scheds.getD s default).s.update b = r
  obtain ⟨s', r⟩ := r
  dsimp only
  have h1 := h.withScheds (w.scheds.set s { w.scheds.getD s default with s := s' })
  split
  · exact h1
  · next st objs dur =>
    refine G.schedLib ?_ _ _ (Action.schedUpdate s) _ (fun d hd => Action.noConfusion hd)
    refine G.foldl _ (fun w o hw => ?_) _ (h1.addRec _)
    obtain ⟨o1, o2⟩ := o
    exact hw.addRes _

theorem G.periodicSenseG {E N A : List Nat} {w : World} (h : G E N A w) (s : Nat) :
    G E N A (w.periodicSense s) := by
  unfold World.periodicSense
  dsimp only
  refine G.schedLib ?_ _ _ (Action.periodicSense s) _ (fun d hd => Action.noConfusion hd)
  exact G.foldl _ (fun w c hw => hw.addRes _) _ (h.withSensors _)

theorem G.initAssetG {E N A : List Nat} {w : World} (h : G E N A w) (a : AssetRef) :
    G E N A (w.initAsset a) := by
  cases a with
  | dev d => exact h.initDevG d
  | maint m => exact h.withMaints _
  | sched s => exact h.schedUpdateG s false
  | sensor s =>
    unfold World.initAsset
    dsimp only
    have h1 := h.withSensors (w.sensors.set s
      { w.sensors.getD s default with s := (w.sensors.getD s default).s.reset, registered := true })
    split
    · exact h1.schedLib _ _ (Action.periodicSense s) _ (fun d hd => Action.noConfusion hd)
    · split
      · exact h1.modDev_irrel _ _ rfl rfl (fun _ => rfl) rfl (fun _ => rfl) rfl
      · exact h1
  | cms c => exact h

theorem G.withVars {E N A : List Nat} {w : World} (h : G E N A w) (l : List (Option Nat)) :
    G E N A { w with vars := l } :=
  h.of_eq rfl rfl rfl rfl rfl

theorem G.setVarG {E N A : List Nat} {w : World} (h : G E N A w) (k : Nat) (v : Option Nat) :
    G E N A (w.setVar k v) := by
  unfold World.setVar
  exact h.withVars _

theorem targets_set_dev (l : List Target) (i : Nat) (ps : List (Int × Int × Int × Int)) :
    (l.set i { l.getD i default with params := ps }).map (fun t => ({ dev := t.dev } : Target)) =
      l.map (fun t => ({ dev := t.dev } : Target)) :=
  map_set_of_eq _ l i _ default rfl

theorem G.applyOpG {E N : List Nat} {w : World} (h : G E N [] w) (op : Op) (hop : OpSC w op)
    (hi : IOK w) (hm : ∃ l ∈ w.scripts, op ∈ l) :
    G E N [] (w.applyOp op).1 := by
  have hnoaid : ∀ a : Int, (∀ d ∈ w.devs, d.aid ≠ a) →
      ∀ d p, holdsD (w.dev d) = some p → d ∉ E → (w.dev d).aid ≠ a :=
    fun a ha d p hd _ => ha _ (dev_mem (holdsD_lt hd))
  cases op with
  | sched t a k p => exact h.schedG t a (.script k) p (fun d hd => Action.noConfusion hd)
  | schedRel dt a k p => exact h.schedG _ a (.script k) p (fun d hd => Action.noConfusion hd)
  | pause a => exact h.pause a (hnoaid a hop)
  | unpause a => exact h.unpause a
  | cancel a => exact h.cancel a (hnoaid a hop)
  | addRes r amt =>
    simp only [World.applyOp]
    have hw := add_waiting w.rm r amt
    generalize w.rm.add r amt = q at hw
    obtain ⟨rm, res, recs, chk⟩ := q
    exact (h.withRm rm hw).rmEffects recs chk
  | reserve hh req =>
    simp only [World.applyOp]
    have hw := (C10.reserve_spec w.rm req).1
    generalize w.rm.reserve req = q at hw
    obtain ⟨rm, res, id, recs⟩ := q
    dsimp only
    split
    · exact h
    · exact ((h.withRm rm hw).rmEffects recs false).setVarG hh id
  | release hh part =>
    simp only [World.applyOp]
    split
    · exact h
    · next id _ =>
      have hw := release_waiting w.rm id part
      generalize w.rm.release id part = q at hw
      obtain ⟨rm, res, recs, chk⟩ := q
      exact (h.withRm rm hw).rmEffects recs chk
  | merge h1 h2 =>
    simp only [World.applyOp]
    split
    · exact h
    · split
      · exact h
      · exact h.withRm _ (C10.merge_spec w.rm _ _).1
  | register k req =>
    simp only [World.applyOp]
    have hn : hasRes w = false := hop
    generalize w.rm.register req (.script k) = q
    obtain ⟨rm, chk⟩ := q
    exact (h.withRmWR rm (Or.inl hn)).rmEffects [] chk
  | schedFail d t =>
    simp only [World.applyOp]
    split
    · exact h
    · next hk =>
      refine h.schedG t _ (.fail d) pFail (fun d' hd' => ?_)
      cases hd'
      simpa using hk
  | schedFailRel d dt =>
    simp only [World.applyOp]
    split
    · exact h
    · next hk =>
      refine h.schedG _ _ (.fail d) pFail (fun d' hd' => ?_)
      cases hd'
      simpa using hk
  | shutdown d =>
    simp only [World.applyOp]
    split
    · exact h
    · next hk => exact h.shutdownDevG d (by simpa using hk) false none
  | restore d =>
    simp only [World.applyOp]
    split
    · exact h
    · next hk => exact h.restoreDevG d (by simpa using hk)
  | block d b => exact h.setBlockG d b (by simp)
  | adjust d n => exact h.adjustPartsG d n
  | setCycle d c =>
    simp only [World.applyOp]
    split
    · exact h
    · exact h.modDev_irrel d (fun x => { x with cycle := c }) rfl rfl (fun _ => rfl) rfl (fun _ => rfl) rfl
  | offsetNext d o =>
    exact h.modDev_irrel d (fun x => { x with offset := x.offset + o }) rfl rfl (fun _ => rfl) rfl (fun _ => rfl) rfl
  | rewire d ups => exact h.rewireG d ups hop hm (fun z hz => hi.inited hm hz)
  | workOrder m tgt tag info =>
    simp only [World.applyOp]
    generalize w.targetParams tgt tag = tp
    obtain ⟨tp1, need, tp3⟩ := tp
    dsimp only
    generalize (w.maint m).create tgt tag need info = q
    obtain ⟨m', ret, o, st⟩ := q
    dsimp only
    apply G.startOrdersG
    split
    · exact (h.modMaintG m _).addRec _
    · exact h.modMaintG m _
  | setParams tgt tag dur need cost =>
    simp only [World.applyOp]
    exact h.of_eq rfl rfl rfl rfl (targets_set_dev _ _ _)
  | regObj s obj ovr =>
    simp only [World.applyOp]
    generalize (w.scheds.getD s default).s.register obj ovr = q
    obtain ⟨s', r⟩ := q
    exact h.withScheds _
  | unregObj s obj =>
    simp only [World.applyOp]
    generalize (w.scheds.getD s default).s.unregister obj = q
    obtain ⟨s', r⟩ := q
    exact h.withScheds _
  | setVar k v =>
    simp only [World.applyOp]
    exact h.of_eq rfl rfl rfl rfl rfl
  | addSensor c s =>
    simp only [World.applyOp]
    split
    · exact h
    · exact h.of_eq rfl rfl rfl rfl rfl
  | create spec => exact absurd hop id

theorem SC.scriptOp {w : World} (h : SC w) {l : List Op} (hl : l ∈ w.scripts) {op : Op} (hop : op ∈ l) :
    OpSC w op :=
  opSC_of_sw w op (h.s.scripts l hl op hop)

theorem opSC_not_create {w : World} {op : Op} (h : OpSC w op) : ∀ sp, op ≠ .create sp := by
  cases op <;> first
    | exact absurd h id
    | exact fun _ hh => Op.noConfusion hh

theorem G.applyOpsG {E N : List Nat} : ∀ (ops : List Op) {w : World}, G E N [] w → IOK w →
    (∀ op ∈ ops, ∃ l ∈ w.scripts, op ∈ l) → G E N [] (w.applyOps ops) := by
  intro ops
  induction ops with
  | nil => intro w h _ _; exact h
  | cons op ops ih =>
    intro w h hi hops
    unfold World.applyOps
    simp only [List.foldl_cons]
    obtain ⟨l, hl, hop⟩ := hops op (List.mem_cons_self ..)
    have hsc := h.sc.scriptOp hl hop
    have h1 := (h.applyOpG op hsc hi ⟨l, hl, hop⟩).addRes (w.applyOp op).2
    have hscr : ((w.applyOp op).1.addRes (w.applyOp op).2).scripts = w.scripts :=
      C02V.scr_applyOp w op
    have := ih h1 (hi.step (istep_applyOp w op (opSC_not_create hsc)))
      (fun o ho => by rw [hscr]; exact hops o (List.mem_cons_of_mem _ ho))
    unfold World.applyOps at this
    exact this

theorem G.runScriptG {E N : List Nat} {w : World} (h : G E N [] w) (hi : IOK w) (k : Nat) :
    G E N [] (w.runScript k) := by
  unfold World.runScript
  refine G.applyOpsG _ h hi (fun op hop => ?_)
  by_cases hk : k < w.scripts.length
  · have e : w.scripts.getD k [] = w.scripts[k] := by simp [List.getD_eq_getElem?_getD, hk]
    rw [e] at hop
    exact ⟨_, List.getElem_mem hk, hop⟩
  · have e : w.scripts.getD k [] = [] := by
      simp [List.getD_eq_getElem?_getD, Nat.le_of_not_lt hk]
    rw [e] at hop; cases hop

theorem mem_eraseIdx_of_ne {α} {l : List α} {i : Nat} {a b : α} (ha : a ∈ l) (hb : l[i]? = some b)
    (hne : a ≠ b) : a ∈ l.eraseIdx i := by
  induction l generalizing i with
  | nil => cases ha
  | cons c l ih =>
    cases i with
    | zero =>
      simp only [List.getElem?_cons_zero, Option.some.injEq] at hb
      subst hb
      rcases List.mem_cons.mp ha with rfl | ha
      · exact absurd rfl hne
      · simpa using ha
    | succ i =>
      simp only [List.getElem?_cons_succ] at hb
      rw [List.eraseIdx_cons_succ]
      rcases List.mem_cons.mp ha with rfl | ha
      · exact List.mem_cons_self ..
      · exact List.mem_cons_of_mem _ (ih ha hb)

theorem hasRes_of_sd {w w' : World} (h : C02V.sd w' = C02V.sd w) : hasRes w' = hasRes w := by
  have key : ∀ v : World, hasRes v = (C02V.sd v).any (fun t => t.2.2.isSome) := by
    intro v
    unfold hasRes C02V.sd
    rw [List.any_map]
    rfl
  rw [key, key, h]

theorem SC.nc {w : World} (h : SC w) : NC w :=
  fun l hl op hop => opSC_not_create (h.scriptOp hl hop)

theorem hasRes_runScript_SC {w : World} (hs : SC w) (k : Nat) :
    hasRes (w.runScript k) = hasRes w :=
  hasRes_of_swr (swrw_runScript w k hs.nc).1

/-- one served request of the availability check: call back, then remove the entry -/
theorem G.scanStepG {E N : List Nat} {w : World} (h : G E N [] w) (hio : IOK w) {i : Nat} {req : Req}
    {cb : Cb} (hi : w.rm.waiting[i]? = some (req, cb)) :
    G E N [] (scanOps.erase (scanOps.call w cb req) i) := by
  rcases h.wr with hn | hreg
  · -- no requirement anywhere: the waiting list is irrelevant
    have h1 : G E N [] (scanOps.call w cb req) := by
      cases cb with
      | script k => exact (h.addRes (.cb k)).runScriptG (hio.step (istep_addRes w _)) k
      | proc d => exact h.procResourceCbG d
    refine h1.withRmWR _ (Or.inl ?_)
    show hasRes (scanOps.call w cb req) = false
    rw [← hn]
    cases cb with
    | script k => exact hasRes_runScript_SC (w := w.addRes (.cb k)) (h.addRes (.cb k)).sc k
    | proc d => exact hasRes_of_sd (C02V.sd_procResourceCb w d)
  · obtain ⟨x, hx⟩ := hreg.1 (req, cb) (List.mem_of_getElem? hi)
    dsimp only at hx
    subst hx
    have h1 : G E N [] (w.procResourceCb x) := h.procResourceCbG x
    have hrm : (w.procResourceCb x).rm = w.rm := by
      unfold World.procResourceCb
      rw [core_eq_rm (notify_core _ _)]; rfl
    have hflx : ((w.procResourceCb x).dev x).waitingRes = false ∨ w.devs.length ≤ x := by
      by_cases hxl : x < w.devs.length
      · left
        unfold World.procResourceCb
        rw [core_eq_dev_waitingRes (notify_core _ _), dev_modDev_same hxl]
      · exact Or.inr (Nat.le_of_not_lt hxl)
    refine h1.withRmWR _ ?_
    rcases h1.wr with hn | hreg1
    · exact Or.inl hn
    · right
      refine ⟨fun e he => hreg1.1 e (List.mem_of_mem_eraseIdx he), fun y hy => ?_⟩
      obtain ⟨r, hr, hm⟩ := hreg1.2 y hy
      refine ⟨r, hr, ?_⟩
      show (r, Cb.proc y) ∈ (w.procResourceCb x).rm.waiting.eraseIdx i
      rw [hrm] at hm ⊢
      refine mem_eraseIdx_of_ne hm hi ?_
      intro he
      have hyx : y = x := by
        have := congrArg Prod.snd he
        simpa using this
      subst hyx
      rcases hflx with hf | hf
      · have hy' : ((w.procResourceCb y).dev y).waitingRes = true := hy
        rw [hf] at hy'; cases hy'
      · have hl : (w.procResourceCb y).devs.length = w.devs.length := by
          have := congrArg List.length (C02V.sd_procResourceCb w y)
          simpa [C02V.sd] using this
        have hy' : ((w.procResourceCb y).dev y).waitingRes = true := hy
        rw [dev_of_length_le (by rw [hl]; exact hf)] at hy'
        cases hy'

theorem G.scanG {E N : List Nat} (n : Nat) : ∀ {w : World} (i : Nat), G E N [] w → IOK w →
    G E N [] (scanWaiting scanOps n w i) := by
  induction n with
  | zero => intro w i h _; exact h
  | succ n ih =>
    intro w i h hio
    unfold scanWaiting
    split
    · exact h
    · split
      · next req cb hi _ => exact ih i (h.scanStepG hio hi) (hio.step (istep_scanStep w cb req i))
      · exact ih _ h hio

theorem G.rmCheckG {E N : List Nat} {w : World} (h : G E N [] w) (hio : IOK w) : G E N [] w.rmCheck :=
  G.scanG _ _ h hio

theorem target_dev_proc {w : World} (hs : SC w) (tgt d : Nat)
    (hd : (w.targets.getD tgt default).dev = some d) : (w.dev d).kind = .processor := by
  by_cases ht : tgt < w.targets.length
  · have e : w.targets.getD tgt default = w.targets[tgt] := by
      simp [List.getD_eq_getElem?_getD, ht]
    rw [e] at hd
    exact hs.target (List.getElem_mem ht) hd
  · have e : w.targets.getD tgt default = default := by
      simp [List.getD_eq_getElem?_getD, Nat.le_of_not_lt ht]
    rw [e] at hd; cases hd

theorem G.hookStartG {E N : List Nat} {w : World} (h : G E N [] w) (hio : IOK w) (tgt : Nat)
    (tag : Int) : G E N [] (w.hookStart tgt tag) := by
  unfold World.hookStart
  dsimp only
  split
  · next d hd => exact (h.addRes _).shutdownDevG d (target_dev_proc h.sc tgt d hd) false none
  · split
    · exact (h.addRes _).runScriptG (hio.step (istep_addRes w _)) _
    · exact h.addRes _

theorem G.hookEndG {E N : List Nat} {w : World} (h : G E N [] w) (hio : IOK w) (tgt : Nat)
    (tag : Int) : G E N [] (w.hookEnd tgt tag) := by
  unfold World.hookEnd
  dsimp only
  split
  · next d hd => exact (h.addRes _).restoreDevG d (target_dev_proc h.sc tgt d hd)
  · split
    · exact (h.addRes _).runScriptG (hio.step (istep_addRes w _)) _
    · exact h.addRes _

theorem G.startWorkG {E N : List Nat} {w : World} (h : G E N [] w) (hio : IOK w) (m seq : Nat) :
    G E N [] (w.startWork m seq) := by
  unfold World.startWork
  split
  · exact h.setErr _
  · next o _ =>
    generalize w.targetParams o.target o.tag = tp
    obtain ⟨dur, t2, t3⟩ := tp
    dsimp only
    generalize (w.addRec (.workOrder 1 m w.now o.target o.tag o.info)).targetParams o.target o.tag = tp2
    obtain ⟨u1, u2, cost⟩ := tp2
    dsimp only
    refine G.schedLib ?_ _ _ (Action.finishWork m seq) _ (fun d hd => Action.noConfusion hd)
    refine G.hookStartG ?_ ?_ _ _
    · apply G.modMaintG
      exact h.addRec _
    · exact (hio.step (istep_addRec w _)).step (istep_modMaint _ _ _)

theorem G.finishWorkG {E N : List Nat} {w : World} (h : G E N [] w) (hio : IOK w) (m seq : Nat) :
    G E N [] (w.finishWork m seq) := by
  unfold World.finishWork
  split
  · exact h.setErr _
  · next o _ =>
    dsimp only
    have h1 := h.hookEndG hio o.target o.tag
    generalize w.hookEnd o.target o.tag = w1 at h1 ⊢
    apply G.startOrdersG
    apply G.modMaintG
    apply G.addRec
    apply G.modMaintG
    exact h1

/-- the device exempted while action `a` runs: its own attempt has just been popped -/
def exemptA : Action → List Nat
  | .passPart d => [d]
  | _ => []

theorem exemptOf_live {e : Event} (h : e.live = true) : exemptOf e = exemptA (Action.ofNat e.act) := by
  unfold exemptOf exemptA
  rw [if_pos h]
  cases Action.ofNat e.act <;> rfl

theorem exemptOf_dead {e : Event} (h : e.live = false) : exemptOf e = [] := by
  unfold exemptOf
  rw [if_neg (by simp [h])]

/-- **Every event action preserves the invariant** (a failure must target a processor; if batchers
or batches exist, the conservation invariant of C02 holds and the batchers are settled). -/
theorem G.execG {w : World} (a : Action) (h : G (exemptA a) [] [] w)
    (ha : ∀ d, a = .fail d → (w.dev d).kind = .processor) (hI : InvB w) (hset : Settled w)
    (hio : IOK w) (hgc : C03Z.GC w) : G [] [] [] (w.exec a) := by
  cases a with
  | terminate => exact h
  | script k => exact h.runScriptG hio k
  | finishCycle d => exact h.finishCycle d
  | passPart d => exact h.passPartG hI hset hgc
  | fail d => exact h.failDevG d (ha d rfl)
  | releaseIfIdle d => exact h.releaseIfIdleG d
  | rmCheck => exact h.rmCheckG hio
  | startWork m o => exact h.startWorkG hio m o
  | finishWork m o => exact h.finishWorkG hio m o
  | schedUpdate s => exact h.schedUpdateG s true
  | periodicSense s => exact h.periodicSenseG s
  | unknown n => exact h.setErr _

theorem invB_env {w : World} (h : InvB w) (env' : Env) : InvB { w with env := env' } :=
  fun hnb => (h hnb).of_sv rfl

theorem settled_env {w : World} (h : Settled w) (env' : Env) : Settled { w with env := env' } := h

/-- **One step of the event loop preserves the invariant.** -/
theorem G.stepG {w w' : World} {e : Event} (h : G [] [] [] w) (hI : InvB w) (hset : Settled w)
    (hio : IOK w) (hgc : C03Z.GC w) (hst : w.step = some (e, w')) : G [] [] [] w' := by
  unfold World.step at hst
  split at hst
  · cases hst
  · next e0 env' henv =>
    simp only [Option.some.injEq, Prod.mk.injEq] at hst
    obtain ⟨rfl, rfl⟩ := hst
    have hpop := h.pop henv
    have hmem : e0 ∈ w.env.events := (C01.step_min h.inv henv).1
    split
    · next hl =>
      rw [exemptOf_live hl] at hpop
      refine hpop.execG _ (fun d hd => ?_) (invB_env hI env') (settled_env hset env')
        (hio.step (istep_env w env')) (hgc.frame rfl rfl rfl)
      exact h.ev e0.act ((C02V.mem_acts _ _).mpr ⟨e0, Or.inl hmem, rfl⟩) d hd
    · next hl =>
      rw [exemptOf_dead (by simpa using hl)] at hpop
      exact hpop

theorem G.withStarted {E N A : List Nat} {w : World} (h : G E N A w) (b : Bool) :
    G E N A { w with started := b } :=
  h.of_eq rfl rfl rfl rfl rfl

theorem G.simulateInitG {E N A : List Nat} {w : World} (h : G E N A w) : G E N A w.simulateInit := by
  unfold World.simulateInit
  split
  · exact h
  · have hw : w.rm.init.1.waiting = w.rm.waiting := rfl
    generalize w.rm.init = q at hw
    obtain ⟨rm, recs, chk⟩ := q
    dsimp only
    apply G.withStarted
    exact G.foldl _ (fun w a hw => hw.initAssetG a) _ ((h.withRm rm hw).rmEffects recs chk)

theorem G.runBeginG {E N A : List Nat} {w : World} (h : G E N A w) (d : Int) : G E N A (w.runBegin d).1 := by
  unfold World.runBegin
  dsimp only
  split
  · exact h
  · next env' he =>
    dsimp only
    have hinv := C01.inv_runBegin Arith.exact h.inv he
    unfold Env.runBegin at he
    obtain ⟨hge, rfl⟩ := Env.schedule_some.mp he
    refine h.transfer rfl h.pl hinv rfl ?_ h.valid h.kv h.stk (h.wr.same rfl rfl (fun _ hy => hy))
      h.aok (fun n y hy hacc => ⟨hy, hacc⟩) ?_
    · refine evOK_of h.ev (fun _ => rfl) (fun n hn => ?_)
      rw [C02V.mem_acts] at hn
      obtain ⟨e, he, rfl⟩ := hn
      simp only [insort_mem] at he
      rcases he with (rfl | he) | he
      · right; intro d' hd'; simp [Env.newEvent, terminateAct, Action.ofNat] at hd'
      · left; exact (C02V.mem_acts _ _).mpr ⟨e, Or.inl he, rfl⟩
      · left; exact (C02V.mem_acts _ _).mpr ⟨e, Or.inr he, rfl⟩
    · intro d' p hdp hdE
      refine Or.inr ⟨hdp, hdE, rfl, ?_, fun hf => Or.inl hf⟩
      rintro ⟨e, he, h1, h2, h3, h4⟩
      exact ⟨e, insort_mem.mpr (Or.inr he), h1, h2, h3, h4⟩
end C03W
end SimProc
