/-
C20W — machinery, part 8: the ghost initialisation counter.

`GW` is a world together with one counter per registration entry.  The functions of
`Model/World.lean` that can reach `initAsset` (the constructors, scripted operations, scripts, the
resource check with its script callbacks, the maintenance hooks, `exec`, `step`, `simulateInit`,
`runLoop`) are mirrored on `GW`; the ONLY place where a counter is changed is `GW.initAsset`
(the counter of the initialised asset is incremented) and the only place where one is created is
a registration (a new counter 0).  `…_w` theorems: forgetting the counters gives exactly the
model's functions.
-/
import SimProc.Proofs.C20WCommute

namespace SimProc
namespace C20W
open World FloorCoreL RKey

structure GW where
  w : World
  cnt : List Nat

namespace GW

/-- **The instrumentation point**: every call of `initAsset` increments the counter of the asset
(the counter at its registration index). -/
def initAsset (g : GW) (a : AssetRef) : GW :=
  ⟨g.w.initAsset a, g.cnt.modify (g.w.assets.idxOf a) (· + 1)⟩

/-- A function that neither registers nor initialises. -/
def lift (g : GW) (f : World → World) : GW := ⟨f g.w, g.cnt⟩

/-- A registration: the world after the registration half of the constructor, a new counter 0;
initialised at once when the system has started. -/
def register (g : GW) (w' : World) (a : AssetRef) : GW :=
  let r : GW := ⟨w', g.cnt ++ [0]⟩
  if w'.started then r.initAsset a else r

def addDev (g : GW) (d : Dev) : GW := g.register (regDev g.w d) (.dev g.w.devs.length)

def addAsset (g : GW) : AssetSpec → GW
  | .dev d => g.addDev d
  | .group gid dvs ins outs =>
    let ins := if ins.isEmpty then dvs.take 1 else ins
    let outs := if outs.isEmpty then dvs.getLast?.toList else outs
    let gi := g.w.devs.length
    let groups := if g.w.groups.length ≤ gid then g.w.groups ++ List.replicate (gid + 1 - g.w.groups.length) {} else g.w.groups
    let g := g.lift (fun w => { w with groups := groups.set gid { paths := [], input := gi, output := gi + 1 } })
    let g := g.addDev { kind := .ginput, group := gid }
    let g := g.lift (fun w => ins.foldl (fun w d => w.rewire d [gi]) w)
    let g := g.addDev { kind := .goutput, group := gid }
    g.lift (fun w => w.rewire (gi + 1) outs)
  | .maint cap v =>
    g.register { g.w with maints := g.w.maints ++ [({ m := { cap := cap, val := { init := v, value := v } }, aid := g.w.assets.length + 1 } : MaintW)], assets := g.w.assets ++ [AssetRef.maint g.w.maints.length] } (.maint g.w.maints.length)
  | .sched tt cyc =>
    g.register { g.w with scheds := g.w.scheds ++ [({ s := { tt := tt, cyc := cyc }, aid := g.w.assets.length + 1 } : SchedW)], assets := g.w.assets ++ [AssetRef.sched g.w.scheds.length] } (.sched g.w.scheds.length)
  | .sensor sw =>
    g.register { g.w with sensors := g.w.sensors ++ [{ sw with aid := g.w.assets.length + 1 }], assets := g.w.assets ++ [AssetRef.sensor g.w.sensors.length] } (.sensor g.w.sensors.length)
  | .cms =>
    -- `World.addAsset .cms` leaves the call `initAsset (.cms c)` out because it is the identity;
    -- the ghost counts it
    g.register { g.w with assets := g.w.assets ++ [AssetRef.cms g.w.cmsSensors.length], cmsSensors := g.w.cmsSensors ++ [[]] } (.cms g.w.cmsSensors.length)

def applyOp (g : GW) : Op → GW × Res
  | .create spec => (g.addAsset spec, .ok)
  | op => (⟨(g.w.applyOp op).1, g.cnt⟩, (g.w.applyOp op).2)

def applyOps (g : GW) (ops : List Op) : GW :=
  ops.foldl (fun g op => let (g', r) := g.applyOp op; g'.lift (·.addRes r)) g

def runScript (g : GW) (k : Nat) : GW := g.applyOps (g.w.scripts.getD k [])

def scanOps : ScanOps GW where
  rm := fun g => g.w.rm
  call := fun g cb _ =>
    match cb with
    | .script k => (g.lift (·.addRes (.cb k))).runScript k
    | .proc d => g.lift (·.procResourceCb d)
  erase := fun g i => g.lift (fun w => { w with rm := { w.rm with waiting := w.rm.waiting.eraseIdx i } })

def rmCheck (g : GW) : GW := scanWaiting scanOps 10000 g 0

def hookStart (g : GW) (tgt : Nat) (tag : Int) : GW :=
  let t := g.w.targets.getD tgt default
  let g := g.lift (·.addRes (.hook true tgt tag))
  match t.dev with
  | some d => g.lift (·.shutdownDev d false none)
  | none => match t.startScript with
    | some k => g.runScript k
    | none => g

def hookEnd (g : GW) (tgt : Nat) (tag : Int) : GW :=
  let t := g.w.targets.getD tgt default
  let g := g.lift (·.addRes (.hook false tgt tag))
  match t.dev with
  | some d => g.lift (·.restoreDev d)
  | none => match t.endScript with
    | some k => g.runScript k
    | none => g

def startWork (g : GW) (m seq : Nat) : GW :=
  match (g.w.maint m).findActive seq with
  | none => g.lift (·.setErr "start-unknown-order")
  | some o =>
    let (dur, _, _) := g.w.targetParams o.target o.tag
    let g := g.lift (fun w => w.addRec (.workOrder 1 m w.now o.target o.tag o.info))
    let (_, _, cost) := g.w.targetParams o.target o.tag
    let g := g.lift (fun w => w.modMaint m (fun mm => mm.startCost w.now cost))
    let g := g.hookStart o.target o.tag
    g.lift (fun w => w.schedLib (w.now + dur) (w.maints.getD m default).aid (.finishWork m seq) pFinishWork)

def finishWork (g : GW) (m seq : Nat) : GW :=
  match (g.w.maint m).findActive seq with
  | none => g.lift (·.setErr "finish-unknown-order")
  | some o =>
    let g := g.hookEnd o.target o.tag
    g.lift (fun w =>
      let mm := w.maint m
      let mm := { mm with util := mm.util - o.needed, active := mm.active.erase o }
      let w := w.modMaint m (fun _ => mm)
      let w := w.addRec (.workOrder 2 m w.now o.target o.tag o.info)
      let (m', st) := (w.maint m).tryWork
      let w := w.modMaint m (fun _ => m')
      w.startOrders m st)

def exec (g : GW) (a : Action) : GW :=
  match a with
  | .script k => g.runScript k
  | .rmCheck => g.rmCheck
  | .startWork m o => g.startWork m o
  | .finishWork m o => g.finishWork m o
  | a => g.lift (·.exec a)

def step (g : GW) : Option (Event × GW) :=
  match g.w.env.step with
  | none => none
  | some (e, env') =>
    let g1 : GW := g.lift (fun w => { w with env := env' })
    some (e, if e.live then g1.exec (Action.ofNat e.act) else g1)

def simulateInit (g : GW) : GW :=
  if g.w.started then g
  else
    let g := g.lift rmStart
    let g := g.w.assets.foldl (fun g a => g.initAsset a) g
    g.lift (fun w => { w with started := true })

def runBegin (g : GW) (d : Int) : GW × Res := (⟨(g.w.runBegin d).1, g.cnt⟩, (g.w.runBegin d).2)

def runLoop : Nat → GW → GW
  | 0, g => g.lift (·.setErr "fuel")
  | f + 1, g =>
    if g.w.env.running then
      match g.step with
      | none => g
      | some (_, g') => runLoop f g'
    else g

/-! ### forgetting the counters gives the model -/

@[simp] theorem lift_w (g : GW) (f : World → World) : (g.lift f).w = f g.w := rfl
@[simp] theorem lift_cnt (g : GW) (f : World → World) : (g.lift f).cnt = g.cnt := rfl
@[simp] theorem initAsset_w (g : GW) (a : AssetRef) : (g.initAsset a).w = g.w.initAsset a := rfl

theorem register_w (g : GW) (w' : World) (a : AssetRef) :
    (g.register w' a).w = if w'.started then w'.initAsset a else w' := by
  unfold register
  dsimp only
  split <;> rfl

theorem addDev_w (g : GW) (d : Dev) : (g.addDev d).w = g.w.addDev d := by
  unfold addDev
  rw [register_w, addDev_eq_regDev]

theorem addAsset_w (g : GW) (spec : AssetSpec) : (g.addAsset spec).w = g.w.addAsset spec := by
  cases spec with
  | dev d => exact addDev_w g d
  | group gid dvs ins outs =>
    unfold addAsset World.addAsset
    simp only [lift_w, addDev_w]
  | maint cap v => unfold addAsset World.addAsset; rw [register_w]
  | sched tt cyc => unfold addAsset World.addAsset; rw [register_w]
  | sensor sw => unfold addAsset World.addAsset; rw [register_w]
  | cms => unfold addAsset World.addAsset; rw [register_w]; split <;> rfl

theorem applyOp_w (g : GW) (op : Op) : (g.applyOp op).1.w = (g.w.applyOp op).1 ∧
    (g.applyOp op).2 = (g.w.applyOp op).2 := by
  cases op
  case create spec => exact ⟨addAsset_w g spec, rfl⟩
  all_goals exact ⟨rfl, rfl⟩

theorem applyOps_w (ops : List Op) : ∀ g : GW, (g.applyOps ops).w = g.w.applyOps ops := by
  induction ops with
  | nil => intro g; rfl
  | cons op ops ih =>
    intro g
    unfold applyOps World.applyOps at *
    rw [List.foldl_cons, List.foldl_cons, ih]
    congr 1
    show ((g.applyOp op).1.w).addRes (g.applyOp op).2 = _
    rw [(applyOp_w g op).1, (applyOp_w g op).2]

theorem runScript_w (g : GW) (k : Nat) : (g.runScript k).w = g.w.runScript k := applyOps_w _ g

theorem call_w (g : GW) (cb : Cb) (req : Req) :
    (scanOps.call g cb req).w = World.scanOps.call g.w cb req := by
  cases cb with
  | script k => exact runScript_w _ k
  | proc d => rfl

theorem erase_w (g : GW) (i : Nat) : (scanOps.erase g i).w = World.scanOps.erase g.w i := rfl

theorem scanWaiting_w (n : Nat) : ∀ (g : GW) (i : Nat),
    (scanWaiting scanOps n g i).w = scanWaiting World.scanOps n g.w i := by
  induction n with
  | zero => intro g i; rfl
  | succ n ih =>
    intro g i
    rw [scanWaiting, scanWaiting]
    have e1 : scanOps.rm g = g.w.rm := rfl
    have e2 : World.scanOps.rm g.w = g.w.rm := rfl
    rw [e1, e2]
    cases hq : g.w.rm.waiting[i]? with
    | none => rfl
    | some q =>
      obtain ⟨req, cb⟩ := q
      simp only
      by_cases hc : g.w.rm.canFulfill req = true
      · rw [if_pos hc, if_pos hc, ih, erase_w, call_w]
      · rw [if_neg hc, if_neg hc]
        exact ih _ _

theorem rmCheck_w (g : GW) : g.rmCheck.w = g.w.rmCheck := scanWaiting_w _ _ _

theorem hookStart_w (g : GW) (tgt : Nat) (tag : Int) : (g.hookStart tgt tag).w = g.w.hookStart tgt tag := by
  unfold hookStart World.hookStart
  dsimp only [lift_w]
  cases (g.w.targets.getD tgt default).dev with
  | some d => rfl
  | none =>
    cases (g.w.targets.getD tgt default).startScript with
    | some k => exact runScript_w _ k
    | none => rfl

theorem hookEnd_w (g : GW) (tgt : Nat) (tag : Int) : (g.hookEnd tgt tag).w = g.w.hookEnd tgt tag := by
  unfold hookEnd World.hookEnd
  dsimp only [lift_w]
  cases (g.w.targets.getD tgt default).dev with
  | some d => rfl
  | none =>
    cases (g.w.targets.getD tgt default).endScript with
    | some k => exact runScript_w _ k
    | none => rfl

theorem startWork_w (g : GW) (m seq : Nat) : (g.startWork m seq).w = g.w.startWork m seq := by
  unfold startWork World.startWork
  cases (g.w.maint m).findActive seq with
  | none => rfl
  | some o =>
    dsimp only [lift_w]
    rw [hookStart_w]
    rfl

theorem finishWork_w (g : GW) (m seq : Nat) : (g.finishWork m seq).w = g.w.finishWork m seq := by
  unfold finishWork World.finishWork
  cases (g.w.maint m).findActive seq with
  | none => rfl
  | some o =>
    dsimp only [lift_w]
    rw [hookEnd_w]

theorem exec_w (g : GW) (a : Action) : (g.exec a).w = g.w.exec a := by
  cases a
  case script k => exact runScript_w g k
  case rmCheck => exact rmCheck_w g
  case startWork m o => exact startWork_w g m o
  case finishWork m o => exact finishWork_w g m o
  all_goals rfl

theorem step_w (g : GW) : g.step.map (fun p => (p.1, p.2.w)) = g.w.step := by
  unfold step World.step
  cases g.w.env.step with
  | none => rfl
  | some q =>
    obtain ⟨e, env'⟩ := q
    simp only [Option.map_some]
    congr 2
    split
    · rw [exec_w]; rfl
    · rfl

theorem sweep_w (l : List AssetRef) : ∀ g : GW,
    (l.foldl (fun g a => g.initAsset a) g).w = sweepW g.w l := by
  induction l with
  | nil => intro g; rfl
  | cons a l ih => intro g; rw [List.foldl_cons, ih]; rfl

theorem simulateInit_w (g : GW) : g.simulateInit.w = g.w.simulateInit := by
  unfold simulateInit
  split
  · rename_i h
    unfold World.simulateInit
    rw [if_pos h]
  · rename_i h
    rw [simulateInit_eq g.w (by simpa using h)]
    dsimp only [lift_w]
    rw [sweep_w]
    rfl

theorem runLoop_w (n : Nat) : ∀ g : GW, (runLoop n g).w = World.runLoop n g.w := by
  induction n with
  | zero => intro g; rfl
  | succ n ih =>
    intro g
    rw [runLoop, World.runLoop]
    split
    · have hs := step_w g
      cases hg : g.step with
      | none =>
        rw [hg] at hs
        simp only [Option.map_none] at hs
        rw [← hs]
      | some q =>
        obtain ⟨e, g'⟩ := q
        rw [hg] at hs
        simp only [Option.map_some] at hs
        rw [← hs]
        exact ih g'
    · rfl

/-! ### the counter invariant -/

/-- Every counter is 1 if the system has started and 0 otherwise: every registered asset has been
initialised exactly once, or not at all. -/
def CntOK (g : GW) : Prop :=
  g.cnt = List.replicate g.w.assets.length (if g.w.started then 1 else 0)

def GInv (g : GW) : Prop := Reg g.w ∧ CntOK g

/-- `g'` keeps the invariant of `g`. -/
def GPv (g g' : GW) : Prop := GInv g → GInv g'

theorem GPv.refl (g : GW) : GPv g g := id
theorem GPv.trans {a b c : GW} (h1 : GPv a b) (h2 : GPv b c) : GPv a c := fun h => h2 (h1 h)

/-- A step that keeps the registration invariant, the registration list, `started` and the counters. -/
theorem GPv.of_frame {g g' : GW} (hpv : Pv g.w g'.w) (hc : g'.cnt = g.cnt)
    (ha : g'.w.assets = g.w.assets) (hs : g'.w.started = g.w.started) : GPv g g' := by
  intro h
  refine ⟨(hpv h.1).1, ?_⟩
  unfold CntOK
  rw [hc, ha, hs]; exact h.2

theorem GPv.lift {g : GW} {f : World → World} (h : Same g.w (f g.w)) : GPv g (g.lift f) :=
  GPv.of_frame (Pv.of_same h) rfl h.assets h.started

theorem GPv.foldl {α} (f : GW → α → GW) (l : List α) (g : GW) (h : ∀ g a, GPv g (f g a)) :
    GPv g (l.foldl f g) := by
  induction l generalizing g with
  | nil => exact GPv.refl g
  | cons a l ih => exact (h g a).trans (ih _)

theorem modify_replicate_append (n : Nat) (t : List Nat) :
    (List.replicate n 1 ++ 0 :: t).modify n (· + 1) = List.replicate (n + 1) 1 ++ t := by
  induction n with
  | zero => simp
  | succ n ih =>
    rw [List.replicate_succ, List.cons_append, List.modify_succ_cons, ih]
    simp [List.replicate_succ]

/-- A registration keeps the invariant. -/
theorem GPv_register (g : GW) (w' : World) (a : AssetRef) (hass : w'.assets = g.w.assets ++ [a])
    (hst : w'.started = g.w.started) (hnew : Reg g.w → a ∉ g.w.assets)
    (hreg : Reg g.w → Reg (if w'.started then w'.initAsset a else w')) : GPv g (g.register w' a) := by
  intro h
  refine ⟨by rw [register_w]; exact hreg h.1, ?_⟩
  have hc := h.2
  unfold CntOK at hc ⊢
  unfold register
  dsimp only
  cases hs : w'.started
  · simp only [Bool.false_eq_true, if_false]
    have hgs : g.w.started = false := by rw [← hst]; exact hs
    rw [hass, hc, hgs]
    simp [List.replicate_succ', hs]
  · simp only [if_true]
    have hgs : g.w.started = true := by rw [← hst]; exact hs
    show ((g.cnt ++ [0]).modify (w'.assets.idxOf a) (· + 1)) =
      List.replicate (w'.initAsset a).assets.length (if (w'.initAsset a).started = true then 1 else 0)
    rw [(initAsset_lengths w' a).2.2.2.1, (initAsset_lengths w' a).2.2.2.2, hs, hass, hc, hgs]
    have hi : (g.w.assets ++ [a]).idxOf a = g.w.assets.length := by
      simp [List.idxOf_append, hnew h.1]
    rw [hi]
    simp only [if_true, List.length_append, List.length_singleton]
    have := modify_replicate_append g.w.assets.length []
    simpa using this

theorem not_mem_of_invalid {w : World} (h : Reg w) {a : AssetRef} (hv : (RK w).valid a = false) :
    a ∉ w.assets := mem_valid_ne h hv

theorem GPv_addDev (g : GW) (d : Dev) (hd : d.inited = false) : GPv g (g.addDev d) := by
  unfold addDev
  have hrk := RK_regDev g.w d
  refine GPv_register g _ _ ?_ ?_ ?_ ?_
  · have := congrArg RKey.assets hrk
    simpa [RK, pushDev] using this
  · have := congrArg RKey.started hrk; exact this
  · intro r; exact not_mem_of_invalid r (by simp [valid, RK])
  · intro r
    rw [← addDev_eq_regDev]
    exact (Pv_addDev g.w d hd r).1

/-- The initialisation sweep increments every counter exactly once. -/
theorem sweep_cnt (as : List AssetRef) (hnd : as.Nodup) : ∀ (l pre : List AssetRef) (g : GW),
    as = pre ++ l → g.w.assets = as →
    g.cnt = List.replicate pre.length 1 ++ List.replicate l.length 0 →
    (l.foldl (fun g a => g.initAsset a) g).cnt = List.replicate as.length 1 := by
  intro l
  induction l with
  | nil =>
    intro pre g has _ hc
    simp at has
    subst has
    simpa using hc
  | cons a l ih =>
    intro pre g has hga hc
    rw [List.foldl_cons]
    refine ih (pre ++ [a]) (g.initAsset a) (by simp [has]) ?_ ?_
    · show (g.w.initAsset a).assets = as
      rw [(initAsset_lengths g.w a).2.2.2.1, hga]
    · show g.cnt.modify (g.w.assets.idxOf a) (· + 1) = _
      have hnp : a ∉ pre := by
        rw [has] at hnd
        have := (List.nodup_append.1 hnd).2.2
        intro hm
        exact this a hm a List.mem_cons_self rfl
      have hi : g.w.assets.idxOf a = pre.length := by
        rw [hga, has, List.idxOf_append, if_neg hnp, List.idxOf_cons_self]; simp
      rw [hi, hc]
      have := modify_replicate_append pre.length (List.replicate l.length 0)
      simpa [List.replicate_succ] using this

theorem GPv_simulateInit (g : GW) : GPv g g.simulateInit := by
  intro h
  refine ⟨by rw [simulateInit_w]; exact reg_simulateInit g.w h.1, ?_⟩
  have hc := h.2
  unfold CntOK at hc ⊢
  unfold simulateInit
  cases hs : g.w.started
  · simp only [Bool.false_eq_true, if_false]
    simp only [hs, Bool.false_eq_true, if_false] at hc
    have ha : (g.lift rmStart).w.assets = g.w.assets := (Same_rmStart g.w).assets
    have hnd : g.w.assets.Nodup := h.1.nodup
    have key := sweep_cnt g.w.assets hnd g.w.assets [] (g.lift rmStart) (by simp) ha (by simpa using hc)
    rw [ha]
    generalize hG : List.foldl (fun g a => GW.initAsset g a) (g.lift rmStart) g.w.assets = G at key
    have hGw : G.w.assets = g.w.assets := by
      rw [← hG, sweep_w, (sweepW_assets _ _).1, ha]
    show G.cnt = List.replicate G.w.assets.length 1
    rw [key, hGw]
  · simp only [if_true]
    rw [hs]
    simp only [hs, if_true] at hc
    exact hc

theorem GPv_addAsset (g : GW) (spec : AssetSpec) (hs : specFresh spec = true) : GPv g (g.addAsset spec) := by
  cases spec with
  | dev d => exact GPv_addDev g d (by simpa [specFresh] using hs)
  | group gid dvs ins outs =>
    unfold addAsset
    dsimp only
    refine GPv.trans ?_ (GPv.lift (Same_rewire _ _ _))
    refine GPv.trans ?_ (GPv_addDev _ _ rfl)
    refine GPv.trans ?_ (GPv.lift (Same.foldl _ _ _ (fun _ _ => Same_rewire _ _ _)))
    refine GPv.trans ?_ (GPv_addDev _ _ rfl)
    exact GPv.lift (Same.of_eq rfl)
  | maint cap v =>
    unfold addAsset
    refine GPv_register g _ _ rfl rfl (fun r => not_mem_of_invalid r (by simp [valid, RK])) ?_
    intro r; exact (Pv_addAsset g.w (.maint cap v) hs r).1
  | sched tt cyc =>
    unfold addAsset
    refine GPv_register g _ _ rfl rfl (fun r => not_mem_of_invalid r (by simp [valid, RK])) ?_
    intro r; exact (Pv_addAsset g.w (.sched tt cyc) hs r).1
  | sensor sw =>
    unfold addAsset
    refine GPv_register g _ _ rfl rfl (fun r => not_mem_of_invalid r (by simp [valid, RK])) ?_
    intro r; exact (Pv_addAsset g.w (.sensor sw) hs r).1
  | cms =>
    unfold addAsset
    refine GPv_register g _ _ rfl rfl (fun r => not_mem_of_invalid r (by simp [valid, RK])) ?_
    intro r
    have := (Pv_addAsset g.w .cms hs r).1
    split <;> exact this

theorem GPv_applyOp (g : GW) (op : Op) (h : opFresh op = true) : GPv g (g.applyOp op).1 := by
  by_cases hc : ∃ s, op = .create s
  · obtain ⟨s, rfl⟩ := hc
    exact GPv_addAsset g s h
  · have hc' : ∀ s, op ≠ .create s := fun s e => hc ⟨s, e⟩
    have e : (g.applyOp op).1 = ⟨(g.w.applyOp op).1, g.cnt⟩ := by
      cases op
      case create s => exact absurd rfl (hc' s)
      all_goals rfl
    rw [e]
    exact GPv.of_frame (Pv_applyOp g.w op h) rfl (applyOp_assets g.w op hc').1 (applyOp_assets g.w op hc').2

theorem GPv_applyOps (ops : List Op) : ∀ g : GW, (∀ op ∈ ops, opFresh op = true) → GPv g (g.applyOps ops) := by
  induction ops with
  | nil => intro g _; exact GPv.refl g
  | cons op ops ih =>
    intro g h
    unfold applyOps at *
    rw [List.foldl_cons]
    refine GPv.trans ?_ (ih _ (fun o ho => h o (List.mem_cons_of_mem _ ho)))
    exact (GPv_applyOp g op (h op List.mem_cons_self)).trans (GPv.lift (Same.of_eq (RK_addRes _ _)))

theorem GPv_runScript (g : GW) (k : Nat) : GPv g (g.runScript k) := by
  intro h
  refine GPv_applyOps _ g ?_ h
  intro op hop
  obtain ⟨s, hs, hm⟩ := mem_getD_nil hop
  exact h.1.scripts s hs op hm

theorem GPv_scanWaiting (n : Nat) : ∀ (g : GW) (i : Nat), GPv g (scanWaiting scanOps n g i) := by
  induction n with
  | zero => intro g i; exact GPv.refl g
  | succ n ih =>
    intro g i
    rw [scanWaiting]
    split
    · exact GPv.refl g
    · split
      · refine GPv.trans ?_ (ih _ _)
        rename_i req cb _ _
        refine GPv.trans ?_ (GPv.lift (Same.of_eq rfl))
        cases cb with
        | script k => exact (GPv.lift (Same.of_eq (RK_addRes _ _))).trans (GPv_runScript _ k)
        | proc d => exact GPv.lift (Same_procResourceCb _ d)
      · exact ih _ _

theorem GPv_rmCheck (g : GW) : GPv g g.rmCheck := GPv_scanWaiting _ _ _

theorem GPv_hookStart (g : GW) (tgt : Nat) (tag : Int) : GPv g (g.hookStart tgt tag) := by
  unfold hookStart
  dsimp only
  have h0 : GPv g (g.lift (·.addRes (.hook true tgt tag))) := GPv.lift (Same.of_eq (RK_addRes _ _))
  split
  · exact h0.trans (GPv.lift (Same_shutdownDev _ _ _ _))
  · split
    · exact h0.trans (GPv_runScript _ _)
    · exact h0

theorem GPv_hookEnd (g : GW) (tgt : Nat) (tag : Int) : GPv g (g.hookEnd tgt tag) := by
  unfold hookEnd
  dsimp only
  have h0 : GPv g (g.lift (·.addRes (.hook false tgt tag))) := GPv.lift (Same.of_eq (RK_addRes _ _))
  split
  · exact h0.trans (GPv.lift (Same_restoreDev _ _))
  · split
    · exact h0.trans (GPv_runScript _ _)
    · exact h0

theorem GPv_startWork (g : GW) (m seq : Nat) : GPv g (g.startWork m seq) := by
  unfold startWork
  split
  · exact GPv.lift (Same.of_eq (RK_setErr _ _))
  · dsimp only
    refine GPv.trans ?_ (GPv.lift (Same.of_eq (RK_schedLib _ _ _ _ _)))
    refine GPv.trans ?_ (GPv_hookStart _ _ _)
    refine GPv.trans ?_ (GPv.lift (Same.of_eq (RK_modMaint _ _ _)))
    exact GPv.lift (Same.of_eq (RK_addRec _ _))

theorem GPv_finishWork (g : GW) (m seq : Nat) : GPv g (g.finishWork m seq) := by
  unfold finishWork
  split
  · exact GPv.lift (Same.of_eq (RK_setErr _ _))
  · dsimp only
    refine GPv.trans (GPv_hookEnd _ _ _) (GPv.lift ?_)
    rk_auto

theorem GPv_exec (g : GW) (a : Action) : GPv g (g.exec a) := by
  cases a
  case script k => exact GPv_runScript g k
  case rmCheck => exact GPv_rmCheck g
  case startWork m o => exact GPv_startWork g m o
  case finishWork m o => exact GPv_finishWork g m o
  case terminate => exact GPv.lift (Same.refl _)
  case finishCycle d => exact GPv.lift (Same_finishCycle _ d)
  case passPart d => exact GPv.lift (Same_passPart _ d)
  case fail d => exact GPv.lift (Same_failDev _ d)
  case releaseIfIdle d => exact GPv.lift (Same_releaseIfIdle _ d)
  case schedUpdate s => exact GPv.lift (Same_schedUpdate _ s true)
  case periodicSense s => exact GPv.lift (Same_periodicSense _ s)
  case unknown n => exact GPv.lift (Same.of_eq (RK_setErr _ _))

theorem GPv_step {g g' : GW} {e : Event} (h : g.step = some (e, g')) : GPv g g' := by
  unfold step at h
  split at h
  · cases h
  · rename_i e0 env' hs
    cases h
    have h0 : GPv g (g.lift (fun w => { w with env := env' })) := GPv.lift (Same.of_eq rfl)
    split
    · exact h0.trans (GPv_exec _ _)
    · exact h0

theorem GPv_runBegin (g : GW) (d : Int) : GPv g (g.runBegin d).1 :=
  GPv.of_frame (Pv.of_same (Same_runBegin g.w d)) rfl (Same_runBegin g.w d).assets (Same_runBegin g.w d).started

theorem GPv_runLoop (n : Nat) : ∀ g : GW, GPv g (runLoop n g) := by
  induction n with
  | zero => intro g; exact GPv.lift (Same.of_eq (RK_setErr _ _))
  | succ n ih =>
    intro g
    rw [runLoop]
    split
    · split
      · exact GPv.refl g
      · rename_i hs
        exact (GPv_step hs).trans (ih _)
    · exact GPv.refl g

end GW

end C20W
end SimProc
