/-
C13W (shutdown / failure / restore in the closed world), part 1: the MACHINE VIEW of a device `x`
(`pvw x w`: slots, reservation, shutdown flag, the four accounting fields, the numbers of callbacks
— together with the clock, the ghost log of lost parts and the failure records of the data log) and
the frame lemmas of the primitives and of the floor functions: everything that does not act on `x`
itself leaves the view of `x` alone.
-/
import SimProc.Proofs.C13Lemmas
import SimProc.Proofs.FloorSt
namespace SimProc
namespace C13W
open World FloorCoreL

/-! ### the view -/

/-- The machine-relevant part of a device record. -/
structure PV where
  kind : Kind
  aid : Int
  part : Option Nat
  output : Option Nat
  reserved : Option Nat
  shutDown : Bool
  uptime : Int
  lastRestore : Option Int
  timeInUse : Int
  lastUseStart : Option Int
  nShutCbs : Nat
  nRestCbs : Nat
deriving DecidableEq

def pvd (d : Dev) : PV :=
  ⟨d.kind, d.aid, d.part, d.output, d.reserved, d.shutDown, d.uptime, d.lastRestore, d.timeInUse,
    d.lastUseStart, d.nShutCbs, d.nRestCbs⟩

/-- `device_failure` records -/
def isFailRec : Rec → Bool
  | .failure .. => true
  | _ => false

/-- The view of device `x` in a world: the machine part of its record, the clock, the ghost log of
lost parts, the failure records of the data log. -/
structure WV where
  d : PV
  now : Int
  lost : List Nat
  frecs : List Rec

def pvw (x : Nat) (w : World) : WV := ⟨pvd (w.dev x), w.now, w.lost, w.recs.filter isFailRec⟩

theorem pvw_of_fields {x : Nat} {w w' : World} (hd : w'.dev x = w.dev x) (hn : w'.now = w.now)
    (hl : w'.lost = w.lost) (hr : w'.recs = w.recs) : pvw x w' = pvw x w := by
  unfold pvw; rw [hd, hn, hl, hr]

section fields
variable {x : Nat} {w w' : World} (h : pvw x w' = pvw x w)
include h
theorem pv_dev : pvd (w'.dev x) = pvd (w.dev x) := congrArg WV.d h
theorem pv_now : w'.now = w.now := congrArg WV.now h
theorem pv_lost : w'.lost = w.lost := congrArg WV.lost h
theorem pv_frecs : w'.recs.filter isFailRec = w.recs.filter isFailRec := congrArg WV.frecs h
theorem pv_kind : (w'.dev x).kind = (w.dev x).kind := congrArg PV.kind (pv_dev h)
theorem pv_aid : (w'.dev x).aid = (w.dev x).aid := congrArg PV.aid (pv_dev h)
theorem pv_part : (w'.dev x).part = (w.dev x).part := congrArg PV.part (pv_dev h)
theorem pv_output : (w'.dev x).output = (w.dev x).output := congrArg PV.output (pv_dev h)
theorem pv_reserved : (w'.dev x).reserved = (w.dev x).reserved := congrArg PV.reserved (pv_dev h)
theorem pv_shutDown : (w'.dev x).shutDown = (w.dev x).shutDown := congrArg PV.shutDown (pv_dev h)
theorem pv_uptime : (w'.dev x).uptime = (w.dev x).uptime := congrArg PV.uptime (pv_dev h)
theorem pv_lastRestore : (w'.dev x).lastRestore = (w.dev x).lastRestore :=
  congrArg PV.lastRestore (pv_dev h)
theorem pv_timeInUse : (w'.dev x).timeInUse = (w.dev x).timeInUse := congrArg PV.timeInUse (pv_dev h)
theorem pv_lastUseStart : (w'.dev x).lastUseStart = (w.dev x).lastUseStart :=
  congrArg PV.lastUseStart (pv_dev h)
theorem pv_operational : w'.operational x = w.operational x := by
  unfold World.operational; rw [pv_kind h, pv_shutDown h]
end fields

/-! ### primitives -/

section prim
variable (x : Nat) (w : World)

theorem pv_setErr (m : String) : pvw x (w.setErr m) = pvw x w := by
  unfold World.setErr; split <;> rfl

theorem pv_addRec (r : Rec) (hr : isFailRec r = false) : pvw x (w.addRec r) = pvw x w := by
  unfold pvw World.addRec
  simp only [List.filter_append, List.filter_cons, hr, Bool.false_eq_true, if_false, List.filter_nil,
    List.append_nil]
  rfl

theorem pv_addRes (r : Res) : pvw x (w.addRes r) = pvw x w := rfl

theorem sched_fst_now (t a : Int) (act : Action) (p : Int) : (w.sched t a act p).1.now = w.now := by
  unfold World.sched
  dsimp only
  simp only [Env.apply]
  cases hs : w.env.schedule t a act.toNat p (weightOf w.seed w.wmod t a act.toNat p) with
  | none => rfl
  | some s' =>
    obtain ⟨_, rfl⟩ := Env.schedule_some.mp hs
    rfl

theorem pv_sched (t a : Int) (act : Action) (p : Int) : pvw x (w.sched t a act p).1 = pvw x w := by
  have hn := sched_fst_now w t a act p
  unfold pvw
  rw [hn]
  unfold World.sched
  dsimp only
  split <;> rfl

theorem pv_schedLib (t a : Int) (act : Action) (p : Int) : pvw x (w.schedLib t a act p) = pvw x w := by
  have h := pv_sched x w t a act p
  unfold World.schedLib
  generalize w.sched t a act p = s at h ⊢
  obtain ⟨w', r⟩ := s
  cases r
  case ok => exact h
  all_goals exact (pv_setErr x _ _).trans h

theorem pv_pause (a : Int) : pvw x (w.envOp (.pause a)) = pvw x w := rfl
theorem pv_unpause (a : Int) : pvw x (w.envOp (.unpause a)) = pvw x w := rfl
theorem pv_cancel (a : Int) : pvw x (w.envOp (.cancel a)) = pvw x w := rfl

theorem pv_foldl {α : Type} (f : World → α → World) (l : List α) (w : World)
    (h : ∀ w a, pvw x (f w a) = pvw x w) : pvw x (l.foldl f w) = pvw x w :=
  C02V.foldl_proj (pvw x) f l w h

theorem pv_rmEffects (recs : List ResRec) (c : Bool) : pvw x (w.rmEffects recs c) = pvw x w := by
  have h : pvw x (recs.foldl (fun w r => w.addRec (.resUpdate r.res w.now r.inUse r.cap)) w) = pvw x w :=
    pv_foldl x _ _ _ (fun w r => pv_addRec x w _ rfl)
  unfold World.rmEffects
  dsimp only
  split
  · rw [pv_schedLib]; exact h
  · exact h

/-- Overwriting device `y`: no change of the view of `x` if `y` is another device, or if the new
record has the same machine part. -/
theorem pv_setDev (y : Nat) (d : Dev) (h : y ≠ x ∨ pvd d = pvd (w.dev y)) :
    pvw x (w.setDev y d) = pvw x w := by
  unfold pvw
  have hn : (w.setDev y d).now = w.now := rfl
  have hl : (w.setDev y d).lost = w.lost := rfl
  have hr : (w.setDev y d).recs = w.recs := rfl
  rw [hn, hl, hr]
  congr 1
  by_cases hxy : y = x
  · subst hxy
    rcases h with h | h
    · exact absurd rfl h
    · by_cases hy : y < w.devs.length
      · rw [dev_setDev_same hy]; exact h
      · rw [dev_setDev_out_of_range (Nat.le_of_not_lt hy)]
  · rw [dev_setDev_ne hxy]

theorem pv_modDev (y : Nat) (f : Dev → Dev) (h : y ≠ x ∨ pvd (f (w.dev y)) = pvd (w.dev y)) :
    pvw x (w.modDev y f) = pvw x w := pv_setDev x w y _ h

theorem pv_modPart (p : Nat) (g : PartRec → PartRec) : pvw x (w.modPart p g) = pvw x w := rfl
theorem pv_newPart (r : PartRec) : pvw x (w.newPart r).1 = pvw x w := rfl

end prim

/-! ### the chaining tactic -/

/-- close a side goal `y ≠ x ∨ pvd d' = pvd d` -/
syntax "pv_side" : tactic
macro_rules | `(tactic| pv_side) => `(tactic| first
  | exact Or.inr rfl
  | (apply Or.inl; assumption)
  | (apply Or.inl; apply Ne.symm; assumption))

/-- one rewriting step -/
syntax "pv_step" : tactic
macro_rules | `(tactic| pv_step) => `(tactic| first
  | rfl
  | rw [pv_setErr]
  | rw [pv_schedLib]
  | rw [pv_rmEffects]
  | rw [pv_addRes]
  | (rw [pv_addRec _ _ _ rfl])
  | rw [pv_modPart]
  | rw [pv_pause] | rw [pv_unpause] | rw [pv_cancel]
  | (rw [pv_setDev _ _ _ _ (by pv_side)])
  | (rw [pv_modDev _ _ _ _ (by pv_side)]))

/-- split all `if`/`match`, then rewrite every branch -/
macro "pv_auto" : tactic => `(tactic| ((try dsimp only) <;> repeat' split) <;> (repeat' pv_step))

macro "pv_lemma" a:ident : command =>
  `(macro_rules | `(tactic| pv_step) => `(tactic| rw [$a:ident]))

/-! ### floor functions that never change the view -/

section floor
variable (x : Nat) (w : World)

theorem pv_setWaiting (y : Nat) (a b : Bool) : pvw x (w.setWaiting y a b) = pvw x w := by
  unfold World.setWaiting; pv_auto
pv_lemma pv_setWaiting

theorem pv_schedulePass (y : Nat) (o : Int) : pvw x (w.schedulePass y o) = pvw x w := by
  unfold World.schedulePass; pv_auto
pv_lemma pv_schedulePass

theorem pv_notify_aux (f : Nat) :
    ∀ (w : World) (y : Nat), pvw x (notifyUp f w y) = pvw x w ∧ pvw x (spaceAvail f w y) = pvw x w := by
  induction f with
  | zero =>
    intro w y
    exact ⟨by unfold notifyUp; exact pv_setErr .., by unfold spaceAvail; exact pv_setErr ..⟩
  | succ f ih =>
    intro w y
    have hup : ∀ (w : World) (l : List Nat), pvw x (l.foldl (fun w u => spaceAvail f w u) w) = pvw x w :=
      fun w l => pv_foldl x _ l w (fun w a => (ih w a).2)
    have hnu : ∀ (w : World) (l : List Nat), pvw x (l.foldl (fun w u => notifyUp f w u) w) = pvw x w :=
      fun w l => pv_foldl x _ l w (fun w a => (ih w a).1)
    have h1 : pvw x (notifyUp (f + 1) w y) = pvw x w := by
      unfold notifyUp
      simp only []
      repeat' split
      all_goals first
        | rfl | (rw [hup, pv_setWaiting]) | exact hnu .. | exact hup ..
    refine ⟨h1, ?_⟩
    unfold spaceAvail
    simp only []
    repeat' split
    all_goals first
      | rfl | exact (ih w y).1 | exact (ih _ _).2 | exact pv_schedulePass ..

theorem pv_notify (y : Nat) : pvw x (w.notify y) = pvw x w := (pv_notify_aux x _ w y).1
theorem pv_spaceAvailable (y : Nat) : pvw x (w.spaceAvailable y) = pvw x w := (pv_notify_aux x _ w y).2
pv_lemma pv_notify
pv_lemma pv_spaceAvailable

theorem pv_applyPartCb (y p : Nat) (c : PartCb) : pvw x (w.applyPartCb y p c) = pvw x w := by
  unfold World.applyPartCb; pv_auto
pv_lemma pv_applyPartCb

theorem pv_foldl_applyPartCb (cbs : List PartCb) (y p : Nat) :
    pvw x (cbs.foldl (fun w c => w.applyPartCb y p c) w) = pvw x w :=
  pv_foldl x _ _ _ (fun w c => pv_applyPartCb x w y p c)
pv_lemma pv_foldl_applyPartCb

theorem pv_senseOutput (s p : Nat) : pvw x (w.senseOutput s p) = pvw x w := by
  unfold World.senseOutput
  dsimp only
  split
  · rw [pv_foldl x _ _ _ (fun w c => pv_addRes x w _)]; rfl
  · rfl
pv_lemma pv_senseOutput

theorem pv_foldl_senseOutput (l : List Nat) (p : Nat) :
    pvw x (l.foldl (fun w s => w.senseOutput s p) w) = pvw x w :=
  pv_foldl x _ _ _ (fun w s => pv_senseOutput x w s p)
pv_lemma pv_foldl_senseOutput

theorem pv_addHist (p d : Nat) : pvw x (w.addHist p d) = pvw x w := by
  unfold World.addHist
  dsimp only
  split
  · rw [pv_foldl x _ _ _ (fun w k => pv_modPart x w _ _)]; rfl
  · rfl
pv_lemma pv_addHist

theorem pv_dropHist (p : Nat) : pvw x (w.dropHist p) = pvw x w := by
  unfold World.dropHist
  dsimp only
  split
  · rw [pv_foldl x _ _ _ (fun w k => pv_modPart x w _ _)]; rfl
  · rfl
pv_lemma pv_dropHist

theorem pv_genPart (y : Nat) : pvw x (w.genPart y).1 = pvw x w := by
  cases h : ((w.dev y).genBatch == 0)
  · rw [C02V.genPart_batch w y h]; rfl
  · rw [C02V.genPart_leaf w y h]; rfl

theorem pv_setBlock (y : Nat) (b : Bool) : pvw x (w.setBlock y b) = pvw x w := by
  unfold World.setBlock; pv_auto
pv_lemma pv_setBlock

theorem pv_adjustParts (y : Nat) (v : Int) : pvw x (w.adjustParts y v) = pvw x w := by
  unfold World.adjustParts; pv_auto
pv_lemma pv_adjustParts

theorem pv_procResourceCb (y : Nat) : pvw x (w.procResourceCb y) = pvw x w := by
  unfold World.procResourceCb; pv_auto
pv_lemma pv_procResourceCb

end floor

end C13W
end SimProc
