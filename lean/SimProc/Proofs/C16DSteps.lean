/-
C16D — machinery: frames (who may change what) in worlds that create assets: a step without the
permission to charge a maintainer leaves the values of the EXISTING maintainers alone, a step
without the permissions to move parts and to supply leaves the keys of the EXISTING devices alone.
-/
import SimProc.Proofs.C15DReach

namespace SimProc
namespace C15D
open World FloorCoreL C15 C15W RM

variable {P : WKey → DKey → Prop} {ph : Phase}

theorem DStep.frame_maint {k k' : WKey} (h : DStep P ph k k') (hc : ph.cst = false) (hi : ph.ini = false) :
    ∀ m, m < k.mvals.length → k'.mval m = k.mval m := by
  induction h with
  | refl k => intro _ _; rfl
  | trans h1 _ ih1 ih2 =>
    intro m hm
    rw [ih2 m (Nat.lt_of_lt_of_le hm h1.grows.2.1), ih1 m hm]
  | ks h =>
    intro m _
    unfold WKey.mval
    rw [KStep.frame_maint h hc hi]
  | newDev k d h => intro _ _; rfl
  | newMaint k v h =>
    intro m hm
    rw [mval_newMaint, if_neg (Nat.ne_of_lt hm)]

theorem DStep.frame_quiet {k k' : WKey} (h : DStep P ph k k') (hm : ph.mv = false) (hs : ph.sup = false)
    (hi : ph.ini = false) :
    (∀ x, x < k.devs.length → k'.dev x = k.dev x) ∧ k'.delivered = k.delivered := by
  induction h with
  | refl k => exact ⟨fun _ _ => rfl, rfl⟩
  | trans h1 _ ih1 ih2 =>
    refine ⟨fun x hx => ?_, ih2.2.trans ih1.2⟩
    rw [ih2.1 x (Nat.lt_of_lt_of_le hx h1.grows.1), ih1.1 x hx]
  | ks h =>
    have := KStep.frame_quiet h hm hs hi
    refine ⟨fun x _ => ?_, this.2⟩
    unfold WKey.dev
    rw [this.1]
  | newDev k d h =>
    refine ⟨fun x hx => ?_, rfl⟩
    rw [dev_newDev, if_neg (Nat.ne_of_lt hx)]
  | newMaint k v h => exact ⟨fun _ _ => rfl, rfl⟩

theorem DS.maint_val {w w' : World} (h : DS P ph w w') (hc : ph.cst = false) (hi : ph.ini = false)
    (m : Nat) (hm : m < w.maints.length) : (w'.maint m).val = (w.maint m).val := by
  rw [← key_mval, ← key_mval]
  exact DStep.frame_maint h hc hi m (by simpa [key] using hm)

theorem DS.quiet_dev {w w' : World} (h : DS P ph w w') (hm : ph.mv = false) (hs : ph.sup = false)
    (hi : ph.ini = false) (x : Nat) (hx : x < w.devs.length) : dkey (w'.dev x) = dkey (w.dev x) := by
  rw [← key_dev, ← key_dev]
  exact (DStep.frame_quiet h hm hs hi).1 x (by simpa using hx)

/-! ### who changes what, at the level of events (every world, arbitrary payloads) -/

/-- Only `pass_part` events change the observable fields of an existing device. -/
theorem exec_dev_frame_dyn (w : World) (a : Action) (ha : ∀ d, a ≠ .passPart d) (x : Nat)
    (hx : x < w.devs.length) : dkey ((w.exec a).dev x) = dkey (w.dev x) :=
  (DS_exec (ph := ⟨false, false, true, false⟩) ctxAny w a (scriptsS_any w) trivial (Or.inr trivial)
    (fun d e => absurd e (ha d)) (fun _ _ _ => rfl)).quiet_dev rfl rfl rfl x hx

/-- Only `start_work` events change the value of an existing maintainer. -/
theorem exec_maint_frame_dyn (w : World) (a : Action) (ha : ∀ m o, a ≠ .startWork m o)
    (m : Nat) (hm : m < w.maints.length) : ((w.exec a).maint m).val = (w.maint m).val :=
  (DS_exec (ph := ⟨true, true, false, false⟩) ctxAny w a (scriptsS_any w) trivial (Or.inr trivial)
    (fun _ _ => ⟨rfl, fun _ => rfl⟩) (fun m o e => absurd e (ha m o))).maint_val rfl rfl m hm

/-- `_start_work_order`: the maintainer is charged the order's cost as the target reports it at
that moment, whatever the target's hook does afterwards (it may run a script that constructs
assets). -/
theorem startWork_val_dyn (w : World) (m seq : Nat) (o : Order)
    (h : (w.maint m).findActive seq = some o) (hm : m < w.maints.length) :
    ((w.startWork m seq).maint m).val =
      (w.maint m).val.addCost lblWorkOrder w.now (w.targetParams o.target o.tag).2.2 := by
  have hs : ∀ (v : World) (t a : Int) (act : Action) (p : Int),
      ((v.schedLib t a act p).maint m).val = (v.maint m).val :=
    fun v t a act p => (KS_schedLib (ph := .quiet) v t a act p).maint_val rfl rfl m
  have hh : ∀ (v : World) (t : Nat) (g : Int), m < v.maints.length →
      ((v.hookStart t g).maint m).val = (v.maint m).val :=
    fun v t g hv => (DS_hookStart (ph := .quiet) ctxAny v t g (scriptsS_any v) trivial
      (Or.inr trivial)).maint_val rfl rfl m hv
  unfold startWork
  simp only [h]
  rw [hs, hh, maint_modMaint_same (w.addRec _) m _ hm]
  · rfl
  · show m < (w.maints.set m _).length
    simpa using hm

end C15D
end SimProc
