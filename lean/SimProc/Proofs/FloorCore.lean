/-
Frame library for the factory-floor model, parts 1 and 2.

* Part 1: accessor lemmas (`dev`/`setDev`/`modDev`, `part`/`modPart`/`newPart`) and the field
  projections of the primitives that only touch the event queue, the logs and the error flag.
* Part 2: the projections `World.noFlow` (world without event queue, logs and error) and
  `World.core` (additionally without the devices' flow flags `since` / `waitingDS`), and the theorem
  `(f w …).core = w.core` for every flow-only primitive `f`, together with the consumer lemmas
  (`core_eq_dev`, `core_eq_part`, …) that turn `w'.core = w.core` into equalities of fields.

The effect lemmas for the remaining small primitives are in `FloorCore2.lean`.
-/
import SimProc.Model.World

namespace SimProc

/-! ### list helpers -/

namespace FloorCoreL

theorem getD_set_same {α} (l : List α) (i : Nat) (a d : α) (h : i < l.length) :
    (l.set i a).getD i d = a := by
  simp [List.getD_eq_getElem?_getD, h]

theorem getD_set_ne {α} (l : List α) (i j : Nat) (a d : α) (h : i ≠ j) :
    (l.set i a).getD j d = l.getD j d := by
  simp [List.getD_eq_getElem?_getD, h]

theorem set_of_length_le {α} (l : List α) (i : Nat) (a : α) (h : l.length ≤ i) :
    l.set i a = l := by
  apply List.ext_getElem?
  intro j
  rw [List.getElem?_set]
  split
  · next hij => subst hij; simp [Nat.not_lt.2 h]
  · rfl

/-- Overwriting position `i` with something that has the same image under `f` as the old
element (the default element if `i` is out of range) does not change the image of the list. -/
theorem map_set_of_eq {α β} (f : α → β) (l : List α) (i : Nat) (a d : α)
    (h : f a = f (l.getD i d)) : (l.set i a).map f = l.map f := by
  apply List.ext_getElem?
  intro j
  simp only [List.getElem?_map, List.getElem?_set]
  split
  · next hij =>
    subst hij
    split
    · next hlt => simp [List.getD_eq_getElem?_getD, hlt] at h; simp [hlt, h]
    · next hge => simp [List.getElem?_eq_none (Nat.not_lt.1 hge)]
  · rfl

theorem getD_map {α β} (f : α → β) (l : List α) (i : Nat) (d : α) :
    (l.map f).getD i (f d) = f (l.getD i d) := by
  simp only [List.getD_eq_getElem?_getD, List.getElem?_map]
  cases l[i]? <;> rfl

theorem getD_append_left {α} (l l' : List α) (i : Nat) (d : α) (h : i < l.length) :
    (l ++ l').getD i d = l.getD i d := by
  simp [List.getD_eq_getElem?_getD, List.getElem?_append_left h]

theorem getD_append_singleton {α} (l : List α) (a d : α) :
    (l ++ [a]).getD l.length d = a := by
  simp [List.getD_eq_getElem?_getD]

/-- A fold preserves every observation its step function preserves. -/
theorem foldl_preserve {σ α β} (P : σ → β) (g : σ → α → σ) (l : List α) (s : σ)
    (h : ∀ s a, P (g s a) = P s) : P (l.foldl g s) = P s := by
  induction l generalizing s with
  | nil => rfl
  | cons a l ih => rw [List.foldl_cons, ih, h]

/-- `proj_lemmas [f₁ f₂ …] n binders : lhs ⟹ rhs := pf` generates, for every listed field `f`
of `World`, the simp lemma `n_f binders : lhs.f = rhs.f := congrArg World.f pf`; `pf` is an
equation between projections of `lhs` and `rhs` under which the fields are definitionally
visible. -/
scoped syntax "proj_lemmas " "[" ident* "] " ident bracketedBinder* " : " term " ⟹ " term " := " term :
  command

open Lean in
macro_rules
  | `(proj_lemmas [$flds*] $n $bs* : $l ⟹ $r := $pf) => do
    let cmds ← flds.mapM fun fld => do
      let thm := mkIdent (n.getId.appendAfter ("_" ++ fld.getId.eraseMacroScopes.toString))
      let proj := mkIdent (`SimProc.World ++ fld.getId.eraseMacroScopes)
      `(@[simp] theorem $thm $bs* : $proj ($l) = $proj ($r) := by
        have h := congrArg $proj ($pf); exact h)
    return mkNullNode cmds

/-- The same for the standard list of fields that are visible through `noFlow`. -/
scoped syntax "noFlow_lemmas " ident bracketedBinder* " : " term " ⟹ " term " := " term : command

macro_rules
  | `(noFlow_lemmas $n $bs* : $l ⟹ $r := $pf) =>
    `(proj_lemmas [devs parts rm scripts generated delivered lost groups maints targets scheds
        sensors cmsSensors svars vars assets started seed wmod] $n $bs* : $l ⟹ $r := $pf)

/-- The same for every field except `devs`: for equations between `core`s. -/
scoped syntax "core_lemmas " ident bracketedBinder* " : " term " ⟹ " term " := " term : command

macro_rules
  | `(core_lemmas $n $bs* : $l ⟹ $r := $pf) =>
    `(proj_lemmas [parts rm scripts generated delivered lost groups maints targets scheds
        sensors cmsSensors svars vars assets started seed wmod] $n $bs* : $l ⟹ $r := $pf)

end FloorCoreL

open FloorCoreL

namespace World

/-! ## Part 1: accessors -/

section accessors
variable {w : World} {d e p q : Nat} {x : Dev} {f : Dev → Dev} {r : PartRec} {g : PartRec → PartRec}

@[simp] theorem setDev_devs_length : (w.setDev d x).devs.length = w.devs.length := by
  simp [setDev]

theorem dev_setDev_same (h : d < w.devs.length) : (w.setDev d x).dev d = x :=
  getD_set_same _ _ _ _ h

theorem dev_setDev_ne (h : d ≠ e) : (w.setDev d x).dev e = w.dev e :=
  getD_set_ne _ _ _ _ _ h

/-- `List.set` out of range is a no-op. -/
theorem dev_setDev_out_of_range (h : w.devs.length ≤ d) : w.setDev d x = w := by
  unfold setDev; rw [set_of_length_le _ _ _ h]

/-- A device index that is out of range reads the default device. -/
theorem dev_of_length_le (h : w.devs.length ≤ d) : w.dev d = default := by
  simp [dev, List.getD_eq_getElem?_getD, List.getElem?_eq_none h]

/-- Both cases of `dev_setDev_same` / `dev_setDev_out_of_range` in one equation. -/
theorem dev_setDev (w : World) (d e : Nat) (x : Dev) :
    (w.setDev d x).dev e = if d = e ∧ d < w.devs.length then x else w.dev e := by
  by_cases hde : d = e
  · subst hde
    by_cases hlt : d < w.devs.length
    · simp [hlt, dev_setDev_same hlt]
    · simp [hlt, dev_setDev_out_of_range (Nat.not_lt.1 hlt)]
  · simp [hde, dev_setDev_ne hde]

/-- Writing back what is there changes nothing. -/
@[simp] theorem setDev_dev_self (w : World) (d : Nat) : w.setDev d (w.dev d) = w := by
  by_cases hlt : d < w.devs.length
  · unfold setDev dev
    have : w.devs.set d (w.devs.getD d default) = w.devs := by
      apply List.ext_getElem?
      intro j
      rw [List.getElem?_set]
      split
      · next hij => subst hij; simp [hlt, List.getD_eq_getElem?_getD]
      · rfl
    rw [this]
  · exact dev_setDev_out_of_range (Nat.not_lt.1 hlt)

@[simp] theorem modDev_devs_length : (w.modDev d f).devs.length = w.devs.length := by
  simp [modDev]

theorem dev_modDev_same (h : d < w.devs.length) : (w.modDev d f).dev d = f (w.dev d) :=
  dev_setDev_same h

theorem dev_modDev_ne (h : d ≠ e) : (w.modDev d f).dev e = w.dev e :=
  dev_setDev_ne h

theorem modDev_out_of_range (h : w.devs.length ≤ d) : w.modDev d f = w :=
  dev_setDev_out_of_range h

theorem dev_modDev (w : World) (d e : Nat) (f : Dev → Dev) :
    (w.modDev d f).dev e = if d = e ∧ d < w.devs.length then f (w.dev d) else w.dev e :=
  dev_setDev _ _ _ _

/-- `modDev` with a function that fixes the current device is a no-op. -/
theorem modDev_of_fix (h : f (w.dev d) = w.dev d) : w.modDev d f = w := by
  unfold modDev; rw [h, setDev_dev_self]

/-! #### parts -/

@[simp] theorem modPart_parts_length : (w.modPart p g).parts.length = w.parts.length := by
  simp [modPart]

theorem part_modPart_same (h : p < w.parts.length) : (w.modPart p g).part p = g (w.part p) :=
  getD_set_same _ _ _ _ h

theorem part_modPart_ne (h : p ≠ q) : (w.modPart p g).part q = w.part q :=
  getD_set_ne _ _ _ _ _ h

theorem modPart_out_of_range (h : w.parts.length ≤ p) : w.modPart p g = w := by
  unfold modPart; rw [set_of_length_le _ _ _ h]

theorem part_of_length_le (h : w.parts.length ≤ p) : w.part p = default := by
  simp [part, List.getD_eq_getElem?_getD, List.getElem?_eq_none h]

theorem part_modPart (w : World) (p q : Nat) (g : PartRec → PartRec) :
    (w.modPart p g).part q = if p = q ∧ p < w.parts.length then g (w.part p) else w.part q := by
  by_cases hpq : p = q
  · subst hpq
    by_cases hlt : p < w.parts.length
    · simp [hlt, part_modPart_same hlt]
    · simp [hlt, modPart_out_of_range (Nat.not_lt.1 hlt)]
  · simp [hpq, part_modPart_ne hpq]

@[simp] theorem newPart_snd : (w.newPart r).2 = w.parts.length := rfl

@[simp] theorem newPart_parts : (w.newPart r).1.parts = w.parts ++ [r] := rfl

@[simp] theorem newPart_parts_length : (w.newPart r).1.parts.length = w.parts.length + 1 := by
  simp [newPart]

theorem part_newPart_old (h : p < w.parts.length) : (w.newPart r).1.part p = w.part p :=
  getD_append_left _ _ _ _ h

@[simp] theorem part_newPart_new : (w.newPart r).1.part w.parts.length = r :=
  getD_append_singleton _ _ _

/-- `dev` only looks at `devs`, `part` only at `parts`. -/
theorem dev_congr {w w' : World} (h : w'.devs = w.devs) (d : Nat) : w'.dev d = w.dev d := by
  unfold dev; rw [h]

theorem part_congr {w w' : World} (h : w'.parts = w.parts) (p : Nat) : w'.part p = w.part p := by
  unfold part; rw [h]

end accessors

/-! ### the world without event queue, logs and error -/

/-- A world without its event queue, logs and error flag.  The primitives `setErr`, `addRec`,
`addRes`, `sched`, `schedLib`, `envOp`, `rmEffects` change nothing else. -/
def noFlow (w : World) : World :=
  { w with env := {}, results := [], recs := [], error := none }

theorem setErr_noFlow (w : World) (m : String) : (w.setErr m).noFlow = w.noFlow := by
  unfold setErr; split <;> rfl

theorem addRec_noFlow (w : World) (r : Rec) : (w.addRec r).noFlow = w.noFlow := rfl

theorem addRes_noFlow (w : World) (r : Res) : (w.addRes r).noFlow = w.noFlow := rfl

theorem envOp_noFlow (w : World) (op : EnvOp) : (w.envOp op).noFlow = w.noFlow := rfl

theorem sched_fst_noFlow (w : World) (t a : Int) (act : Action) (p : Int) :
    (w.sched t a act p).1.noFlow = w.noFlow := by
  unfold sched; dsimp only; split <;> rfl

theorem schedLib_noFlow (w : World) (t a : Int) (act : Action) (p : Int) :
    (w.schedLib t a act p).noFlow = w.noFlow := by
  have h := sched_fst_noFlow w t a act p
  unfold schedLib
  generalize w.sched t a act p = s at h ⊢
  obtain ⟨w', r⟩ := s
  cases r <;> simp_all [setErr_noFlow]

theorem foldl_noFlow {α} (g : World → α → World) (l : List α) (w : World)
    (h : ∀ w a, (g w a).noFlow = w.noFlow) : (l.foldl g w).noFlow = w.noFlow :=
  foldl_preserve noFlow g l w h

theorem rmEffects_noFlow (w : World) (recs : List ResRec) (check : Bool) :
    (w.rmEffects recs check).noFlow = w.noFlow := by
  unfold rmEffects
  split
  · rw [schedLib_noFlow, foldl_noFlow]; intro w r; rfl
  · rw [foldl_noFlow]; intro w r; rfl

noFlow_lemmas setErr (w : World) (m : String) : w.setErr m ⟹ w := setErr_noFlow w m
noFlow_lemmas addRec (w : World) (r : Rec) : w.addRec r ⟹ w := addRec_noFlow w r
noFlow_lemmas addRes (w : World) (r : Res) : w.addRes r ⟹ w := addRes_noFlow w r
noFlow_lemmas envOp (w : World) (op : EnvOp) : w.envOp op ⟹ w := envOp_noFlow w op
noFlow_lemmas sched_fst (w : World) (t a : Int) (act : Action) (p : Int) :
  (w.sched t a act p).1 ⟹ w := sched_fst_noFlow w t a act p
noFlow_lemmas schedLib (w : World) (t a : Int) (act : Action) (p : Int) :
  w.schedLib t a act p ⟹ w := schedLib_noFlow w t a act p
noFlow_lemmas rmEffects (w : World) (recs : List ResRec) (check : Bool) :
  w.rmEffects recs check ⟹ w := rmEffects_noFlow w recs check

/-- Devices and parts of flow-equal worlds. -/
theorem noFlow_eq_dev {w w' : World} (h : w'.noFlow = w.noFlow) (d : Nat) : w'.dev d = w.dev d :=
  dev_congr (congrArg World.devs h) d

theorem noFlow_eq_part {w w' : World} (h : w'.noFlow = w.noFlow) (p : Nat) :
    w'.part p = w.part p :=
  part_congr (congrArg World.parts h) p

@[simp] theorem dev_setErr (w : World) (m : String) (d : Nat) : (w.setErr m).dev d = w.dev d :=
  noFlow_eq_dev (setErr_noFlow w m) d
@[simp] theorem dev_addRec (w : World) (r : Rec) (d : Nat) : (w.addRec r).dev d = w.dev d := rfl
@[simp] theorem dev_addRes (w : World) (r : Res) (d : Nat) : (w.addRes r).dev d = w.dev d := rfl
@[simp] theorem dev_envOp (w : World) (op : EnvOp) (d : Nat) : (w.envOp op).dev d = w.dev d := rfl
@[simp] theorem dev_sched_fst (w : World) (t a : Int) (act : Action) (p : Int) (d : Nat) :
    (w.sched t a act p).1.dev d = w.dev d := noFlow_eq_dev (sched_fst_noFlow w t a act p) d
@[simp] theorem dev_schedLib (w : World) (t a : Int) (act : Action) (p : Int) (d : Nat) :
    (w.schedLib t a act p).dev d = w.dev d := noFlow_eq_dev (schedLib_noFlow w t a act p) d
@[simp] theorem dev_rmEffects (w : World) (recs : List ResRec) (check : Bool) (d : Nat) :
    (w.rmEffects recs check).dev d = w.dev d := noFlow_eq_dev (rmEffects_noFlow w recs check) d

@[simp] theorem part_setErr (w : World) (m : String) (p : Nat) : (w.setErr m).part p = w.part p :=
  noFlow_eq_part (setErr_noFlow w m) p
@[simp] theorem part_addRec (w : World) (r : Rec) (p : Nat) : (w.addRec r).part p = w.part p := rfl
@[simp] theorem part_addRes (w : World) (r : Res) (p : Nat) : (w.addRes r).part p = w.part p := rfl
@[simp] theorem part_envOp (w : World) (op : EnvOp) (p : Nat) : (w.envOp op).part p = w.part p :=
  rfl
@[simp] theorem part_sched_fst (w : World) (t a : Int) (act : Action) (pr : Int) (p : Nat) :
    (w.sched t a act pr).1.part p = w.part p := noFlow_eq_part (sched_fst_noFlow w t a act pr) p
@[simp] theorem part_schedLib (w : World) (t a : Int) (act : Action) (pr : Int) (p : Nat) :
    (w.schedLib t a act pr).part p = w.part p := noFlow_eq_part (schedLib_noFlow w t a act pr) p
@[simp] theorem part_rmEffects (w : World) (recs : List ResRec) (check : Bool) (p : Nat) :
    (w.rmEffects recs check).part p = w.part p :=
  noFlow_eq_part (rmEffects_noFlow w recs check) p

/-- `setDev`/`modDev`/`modPart`/`newPart` on the other components. -/
@[simp] theorem dev_modPart (w : World) (p : Nat) (g : PartRec → PartRec) (d : Nat) :
    (w.modPart p g).dev d = w.dev d := rfl
@[simp] theorem dev_newPart (w : World) (r : PartRec) (d : Nat) :
    (w.newPart r).1.dev d = w.dev d := rfl
@[simp] theorem part_setDev (w : World) (d : Nat) (x : Dev) (p : Nat) :
    (w.setDev d x).part p = w.part p := rfl
@[simp] theorem part_modDev (w : World) (d : Nat) (f : Dev → Dev) (p : Nat) :
    (w.modDev d f).part p = w.part p := rfl

proj_lemmas [env results recs error parts rm scripts generated delivered lost groups maints targets
  scheds sensors cmsSensors svars vars assets started seed wmod] setDev (w : World) (d : Nat)
  (x : Dev) : w.setDev d x ⟹ w :=
  (rfl : ({ w.setDev d x with devs := [] } : World) = { w with devs := [] })

proj_lemmas [env results recs error parts rm scripts generated delivered lost groups maints targets
  scheds sensors cmsSensors svars vars assets started seed wmod] modDev (w : World) (d : Nat)
  (f : Dev → Dev) : w.modDev d f ⟹ w :=
  (rfl : ({ w.modDev d f with devs := [] } : World) = { w with devs := [] })

proj_lemmas [env results recs error devs rm scripts generated delivered lost groups maints targets
  scheds sensors cmsSensors svars vars assets started seed wmod] modPart (w : World) (p : Nat)
  (g : PartRec → PartRec) : w.modPart p g ⟹ w :=
  (rfl : ({ w.modPart p g with parts := [] } : World) = { w with parts := [] })

proj_lemmas [env results recs error devs rm scripts generated delivered lost groups maints targets
  scheds sensors cmsSensors svars vars assets started seed wmod] newPart_fst (w : World)
  (r : PartRec) : (w.newPart r).1 ⟹ w :=
  (rfl : ({ (w.newPart r).1 with parts := [] } : World) = { w with parts := [] })

/-- Two modifications of the same device (part) compose. -/
theorem modDev_modDev (w : World) (x : Nat) (f g : Dev → Dev) :
    (w.modDev x f).modDev x g = w.modDev x (fun d => g (f d)) := by
  by_cases h : x < w.devs.length
  · unfold modDev
    rw [dev_setDev_same h]
    simp [setDev]
  · have h' := Nat.not_lt.1 h
    rw [modDev_out_of_range h', modDev_out_of_range h', modDev_out_of_range h']

theorem modPart_modPart (w : World) (p : Nat) (f g : PartRec → PartRec) :
    (w.modPart p f).modPart p g = w.modPart p (fun r => g (f r)) := by
  by_cases h : p < w.parts.length
  · have := part_modPart_same (g := f) h
    unfold modPart at this ⊢
    simp only [this]
    simp
  · have h' := Nat.not_lt.1 h
    rw [modPart_out_of_range h', modPart_out_of_range h', modPart_out_of_range h']

/-- `modPart` with a function that fixes the current record is a no-op. -/
theorem modPart_of_fix {w : World} {p : Nat} {g : PartRec → PartRec} (h : g (w.part p) = w.part p) :
    w.modPart p g = w := by
  by_cases hlt : p < w.parts.length
  · unfold modPart
    rw [h]
    have : w.parts.set p (w.part p) = w.parts := by
      apply List.ext_getElem?
      intro j
      rw [List.getElem?_set]
      split
      · next hij => subst hij; simp [hlt, part, List.getD_eq_getElem?_getD]
      · rfl
    rw [this]
  · exact modPart_out_of_range (Nat.not_lt.1 hlt)

/-- An observation of a device (part) that the modification does not change. -/
theorem modDev_dev_field {α} (g : Dev → α) (w : World) (x : Nat) (f : Dev → Dev)
    (hg : g (f (w.dev x)) = g (w.dev x)) (y : Nat) : g ((w.modDev x f).dev y) = g (w.dev y) := by
  rw [dev_modDev]; split
  · next h => rw [hg, h.1]
  · rfl

theorem modPart_part_field {α} (g : PartRec → α) (w : World) (p : Nat) (f : PartRec → PartRec)
    (hg : g (f (w.part p)) = g (w.part p)) (q : Nat) :
    g ((w.modPart p f).part q) = g (w.part q) := by
  rw [part_modPart]; split
  · next h => rw [hg, h.1]
  · rfl

/-! ## Part 2: the core projection -/

/-- A device without its two flow flags. -/
def _root_.SimProc.Dev.core (d : Dev) : Dev := { d with since := none, waitingDS := false }

/-- A world without its flow state: event queue, logs, error, and the devices' flow flags. -/
def core (w : World) : World :=
  { w with env := {}, results := [], recs := [], error := none, devs := w.devs.map Dev.core }

@[simp] theorem _root_.SimProc.Dev.core_core (d : Dev) : d.core.core = d.core := rfl

@[simp] theorem _root_.SimProc.Dev.core_default : (default : Dev).core = default := rfl

/-- Changing only the flow flags does not change the core. -/
@[simp] theorem _root_.SimProc.Dev.core_with_since (d : Dev) (s : Option Int) :
    ({ d with since := s } : Dev).core = d.core := rfl

@[simp] theorem _root_.SimProc.Dev.core_with_waitingDS (d : Dev) (b : Bool) :
    ({ d with waitingDS := b } : Dev).core = d.core := rfl

/-! ### `core` and the accessors -/

theorem core_eq_noFlow (w : World) : w.core = { w.noFlow with devs := w.devs.map Dev.core } := rfl

/-- `core` factors through `noFlow`. -/
theorem core_of_noFlow_eq {w w' : World} (h : w'.noFlow = w.noFlow) : w'.core = w.core := by
  show ({ w'.noFlow with devs := w'.noFlow.devs.map Dev.core } : World) =
    { w.noFlow with devs := w.noFlow.devs.map Dev.core }
  rw [h]

@[simp] theorem core_core (w : World) : w.core.core = w.core := by
  simp [core, Function.comp_def]

@[simp] theorem core_devs (w : World) : w.core.devs = w.devs.map Dev.core := rfl
@[simp] theorem core_devs_length (w : World) : w.core.devs.length = w.devs.length := by simp [core]
@[simp] theorem core_env (w : World) : w.core.env = {} := rfl
@[simp] theorem core_results (w : World) : w.core.results = [] := rfl
@[simp] theorem core_recs (w : World) : w.core.recs = [] := rfl
@[simp] theorem core_error (w : World) : w.core.error = none := rfl

proj_lemmas [parts rm scripts generated delivered lost groups maints targets scheds sensors
  cmsSensors svars vars assets started seed wmod] core (w : World) : w.core ⟹ w := (rfl : w.core = w.core)

@[simp] theorem core_dev (w : World) (x : Nat) : w.core.dev x = (w.dev x).core := by
  unfold dev
  rw [core_devs, ← Dev.core_default, getD_map, Dev.core_default]

@[simp] theorem core_part (w : World) (p : Nat) : w.core.part p = w.part p := rfl

theorem core_setDev (w : World) (x : Nat) (d : Dev) :
    (w.setDev x d).core = w.core.setDev x d.core := by
  simp [core, setDev, List.map_set]

theorem core_modPart (w : World) (p : Nat) (g : PartRec → PartRec) :
    (w.modPart p g).core = w.core.modPart p g := rfl

theorem core_newPart (w : World) (r : PartRec) : (w.newPart r).1.core = (w.core.newPart r).1 := rfl

/-- Overwriting a device with one that has the same core keeps the core. -/
theorem setDev_core_of_core_eq {w : World} {x : Nat} {d : Dev} (h : d.core = (w.dev x).core) :
    (w.setDev x d).core = w.core := by
  have := map_set_of_eq Dev.core w.devs x d default h
  simp only [core, setDev, this]

theorem modDev_core_of_core_eq {w : World} {x : Nat} {f : Dev → Dev}
    (h : (f (w.dev x)).core = (w.dev x).core) : (w.modDev x f).core = w.core :=
  setDev_core_of_core_eq h

/-- `setDev`, `modDev` respect core equality of the world … -/
theorem setDev_core_congr {w w' : World} (h : w'.core = w.core) (x : Nat) (d : Dev) :
    (w'.setDev x d).core = (w.setDev x d).core := by
  rw [core_setDev, core_setDev, h]

/-- … and core equality of the new device. -/
theorem setDev_core_congr_dev (w : World) (x : Nat) {d d' : Dev} (h : d'.core = d.core) :
    (w.setDev x d').core = (w.setDev x d).core := by
  rw [core_setDev, core_setDev, h]

theorem modPart_core_congr {w w' : World} (h : w'.core = w.core) (p : Nat)
    (g : PartRec → PartRec) : (w'.modPart p g).core = (w.modPart p g).core := by
  rw [core_modPart, core_modPart, h]

/-! ### consumers: from `w'.core = w.core` to fields -/

section consumers
variable {w w' : World}

theorem core_eq_dev (h : w'.core = w.core) (x : Nat) : (w'.dev x).core = (w.dev x).core := by
  rw [← core_dev, ← core_dev, h]

/-- Every observation of a device that does not depend on the flow flags agrees. -/
theorem core_eq_field {α} (g : Dev → α) (hg : ∀ d, g d.core = g d) (h : w'.core = w.core)
    (x : Nat) : g (w'.dev x) = g (w.dev x) := by
  rw [← hg (w'.dev x), ← hg (w.dev x), core_eq_dev h]

theorem core_eq_devs_length (h : w'.core = w.core) : w'.devs.length = w.devs.length := by
  rw [← core_devs_length, ← core_devs_length w, h]

theorem core_eq_part (h : w'.core = w.core) (p : Nat) : w'.part p = w.part p :=
  part_congr (congrArg World.parts h) p

/-- `core_eq_fields f₁ f₂ …` generates `core_eq_dev_f (h : w'.core = w.core) (x) :
(w'.dev x).f = (w.dev x).f` for the listed device fields. -/
local syntax "core_eq_dev_fields " ident* : command

open Lean in
macro_rules
  | `(core_eq_dev_fields $flds*) => do
    let cmds ← flds.mapM fun fld => do
      let thm := mkIdent (Name.mkSimple ("core_eq_dev_" ++ fld.getId.eraseMacroScopes.toString))
      let proj := mkIdent (`SimProc.Dev ++ fld.getId.eraseMacroScopes)
      `(theorem $thm {w w' : World} (h : w'.core = w.core) (x : Nat) :
          $proj (w'.dev x) = $proj (w.dev x) := core_eq_field $proj (fun _ => rfl) h x)
    return mkNullNode cmds

core_eq_dev_fields kind aid up down blockInput inited val cycle offset part output recvCbs
  shutDown resReq reserved waitingRes uptime lastRestore timeInUse lastUseStart finCbs finSensors
  nShutCbs nRestCbs maxParts produced costProduced genValue genQuality genBatch collect collected
  recvCount recvValue delay cap buf level bsize inprog pred group

/-- `core_eq_world_fields f₁ f₂ …` generates `core_eq_f (h : w'.core = w.core) : w'.f = w.f`. -/
local syntax "core_eq_world_fields " ident* : command

open Lean in
macro_rules
  | `(core_eq_world_fields $flds*) => do
    let cmds ← flds.mapM fun fld => do
      let thm := mkIdent (Name.mkSimple ("core_eq_" ++ fld.getId.eraseMacroScopes.toString))
      let proj := mkIdent (`SimProc.World ++ fld.getId.eraseMacroScopes)
      `(theorem $thm {w w' : World} (h : w'.core = w.core) : $proj w' = $proj w := by
        have h := congrArg $proj h; exact h)
    return mkNullNode cmds

core_eq_world_fields parts rm scripts generated delivered lost groups maints targets scheds sensors
  cmsSensors svars vars assets started seed wmod

/-- The derived observations of the floor that do not read flow state. -/
theorem core_eq_operational (h : w'.core = w.core) (x : Nat) :
    w'.operational x = w.operational x := by
  unfold operational; rw [core_eq_dev_kind h, core_eq_dev_shutDown h]

theorem core_eq_cycleTime (h : w'.core = w.core) (x : Nat) : w'.cycleTime x = w.cycleTime x := by
  unfold cycleTime; rw [core_eq_dev_kind h, core_eq_dev_cycle h]

theorem core_eq_isBatch (h : w'.core = w.core) (p : Nat) : w'.isBatch p = w.isBatch p := by
  unfold isBatch; rw [core_eq_part h]

theorem core_eq_leavesOf (h : w'.core = w.core) (p : Nat) : w'.leavesOf p = w.leavesOf p := by
  unfold leavesOf; rw [core_eq_part h]

theorem core_eq_leafCount (h : w'.core = w.core) (p : Nat) : w'.leafCount p = w.leafCount p := by
  unfold leafCount; rw [core_eq_part h]

theorem core_eq_partValue (h : w'.core = w.core) (p : Nat) : w'.partValue p = w.partValue p := by
  unfold partValue; simp only [core_eq_part h]

theorem core_eq_canAcceptBasic (h : w'.core = w.core) (x p : Nat) :
    w'.canAcceptBasic x p = w.canAcceptBasic x p := by
  unfold canAcceptBasic
  simp only [core_eq_dev_kind h, core_eq_dev_cap h, core_eq_dev_level h, core_eq_leafCount h,
    core_eq_operational h, core_eq_dev_blockInput h, core_eq_dev_part h, core_eq_dev_output h]

end consumers

/-! ### the flow-only primitives preserve the core -/

theorem foldl_core {α} (g : World → α → World) (l : List α) (w : World)
    (h : ∀ w a, (g w a).core = w.core) : (l.foldl g w).core = w.core :=
  foldl_preserve core g l w h

@[simp] theorem setErr_core (w : World) (m : String) : (w.setErr m).core = w.core :=
  core_of_noFlow_eq (setErr_noFlow w m)

@[simp] theorem addRec_core (w : World) (r : Rec) : (w.addRec r).core = w.core := rfl

@[simp] theorem addRes_core (w : World) (r : Res) : (w.addRes r).core = w.core := rfl

@[simp] theorem envOp_core (w : World) (op : EnvOp) : (w.envOp op).core = w.core := rfl

@[simp] theorem sched_fst_core (w : World) (t a : Int) (act : Action) (p : Int) :
    (w.sched t a act p).1.core = w.core :=
  core_of_noFlow_eq (sched_fst_noFlow w t a act p)

@[simp] theorem schedLib_core (w : World) (t a : Int) (act : Action) (p : Int) :
    (w.schedLib t a act p).core = w.core :=
  core_of_noFlow_eq (schedLib_noFlow w t a act p)

@[simp] theorem rmEffects_core (w : World) (recs : List ResRec) (check : Bool) :
    (w.rmEffects recs check).core = w.core :=
  core_of_noFlow_eq (rmEffects_noFlow w recs check)

@[simp] theorem setWaiting_core (w : World) (x : Nat) (isWaiting reset : Bool) :
    (w.setWaiting x isWaiting reset).core = w.core := by
  unfold setWaiting
  dsimp only
  repeat' split
  all_goals first | rfl | exact setDev_core_of_core_eq rfl

@[simp] theorem schedulePass_core (w : World) (x : Nat) (offset : Int) :
    (w.schedulePass x offset).core = w.core := by
  unfold schedulePass
  dsimp only
  split
  · rfl
  · rw [schedLib_core]; exact setDev_core_of_core_eq rfl

/-- The two notification functions, simultaneously by induction on the fuel. -/
theorem notifyUp_spaceAvail_core (n : Nat) :
    ∀ w x, (notifyUp n w x).core = w.core ∧ (spaceAvail n w x).core = w.core := by
  induction n with
  | zero => intro w x; constructor <;> simp [notifyUp, spaceAvail]
  | succ n ih =>
    intro w x
    have hN : ∀ w x, (notifyUp n w x).core = w.core := fun w x => (ih w x).1
    have hS : ∀ w x, (spaceAvail n w x).core = w.core := fun w x => (ih w x).2
    constructor
    · rw [notifyUp]
      repeat' split
      all_goals first
        | rfl
        | exact (foldl_core _ _ _ hS).trans (setWaiting_core _ _ _ _)
        | exact foldl_core _ _ _ hS
        | exact foldl_core _ _ _ hN
    · rw [spaceAvail]
      repeat' split
      all_goals first
        | rfl
        | exact hN _ _
        | exact hS _ _
        | exact schedulePass_core _ _ _

@[simp] theorem notifyUp_core (n : Nat) (w : World) (x : Nat) : (notifyUp n w x).core = w.core :=
  (notifyUp_spaceAvail_core n w x).1

@[simp] theorem spaceAvail_core (n : Nat) (w : World) (x : Nat) :
    (spaceAvail n w x).core = w.core :=
  (notifyUp_spaceAvail_core n w x).2

@[simp] theorem notify_core (w : World) (x : Nat) : (w.notify x).core = w.core :=
  notifyUp_core _ _ _

@[simp] theorem spaceAvailable_core (w : World) (x : Nat) : (w.spaceAvailable x).core = w.core :=
  spaceAvail_core _ _ _

/-! ### the flow-only primitives on the components other than `devs` -/

core_lemmas setWaiting (w : World) (x : Nat) (a b : Bool) : w.setWaiting x a b ⟹ w :=
  setWaiting_core w x a b
core_lemmas schedulePass (w : World) (x : Nat) (o : Int) : w.schedulePass x o ⟹ w :=
  schedulePass_core w x o
core_lemmas notifyUp (n : Nat) (w : World) (x : Nat) : notifyUp n w x ⟹ w := notifyUp_core n w x
core_lemmas spaceAvail (n : Nat) (w : World) (x : Nat) : spaceAvail n w x ⟹ w :=
  spaceAvail_core n w x
core_lemmas notify (w : World) (x : Nat) : w.notify x ⟹ w := notify_core w x
core_lemmas spaceAvailable (w : World) (x : Nat) : w.spaceAvailable x ⟹ w :=
  spaceAvailable_core w x

@[simp] theorem setWaiting_devs_length (w : World) (x : Nat) (a b : Bool) :
    (w.setWaiting x a b).devs.length = w.devs.length := core_eq_devs_length (setWaiting_core ..)
@[simp] theorem schedulePass_devs_length (w : World) (x : Nat) (o : Int) :
    (w.schedulePass x o).devs.length = w.devs.length := core_eq_devs_length (schedulePass_core ..)
@[simp] theorem notifyUp_devs_length (n : Nat) (w : World) (x : Nat) :
    (notifyUp n w x).devs.length = w.devs.length := core_eq_devs_length (notifyUp_core ..)
@[simp] theorem spaceAvail_devs_length (n : Nat) (w : World) (x : Nat) :
    (spaceAvail n w x).devs.length = w.devs.length := core_eq_devs_length (spaceAvail_core ..)
@[simp] theorem notify_devs_length (w : World) (x : Nat) :
    (w.notify x).devs.length = w.devs.length := core_eq_devs_length (notify_core ..)
@[simp] theorem spaceAvailable_devs_length (w : World) (x : Nat) :
    (w.spaceAvailable x).devs.length = w.devs.length :=
  core_eq_devs_length (spaceAvailable_core ..)

@[simp] theorem part_setWaiting (w : World) (x : Nat) (a b : Bool) (p : Nat) :
    (w.setWaiting x a b).part p = w.part p := core_eq_part (setWaiting_core ..) p
@[simp] theorem part_schedulePass (w : World) (x : Nat) (o : Int) (p : Nat) :
    (w.schedulePass x o).part p = w.part p := core_eq_part (schedulePass_core ..) p
@[simp] theorem part_notifyUp (n : Nat) (w : World) (x : Nat) (p : Nat) :
    (notifyUp n w x).part p = w.part p := core_eq_part (notifyUp_core ..) p
@[simp] theorem part_spaceAvail (n : Nat) (w : World) (x : Nat) (p : Nat) :
    (spaceAvail n w x).part p = w.part p := core_eq_part (spaceAvail_core ..) p
@[simp] theorem part_notify (w : World) (x : Nat) (p : Nat) :
    (w.notify x).part p = w.part p := core_eq_part (notify_core ..) p
@[simp] theorem part_spaceAvailable (w : World) (x : Nat) (p : Nat) :
    (w.spaceAvailable x).part p = w.part p := core_eq_part (spaceAvailable_core ..) p

end World
end SimProc
