/-
C14W — a run of the closed world can be split: the simulation argument of `C14.run_split`
(`Proofs/SplitSim.lean`) carried out on `World.step`, with `step_par` (the action of an event
preserves `SplitRel`) in place of the abstract system's operation lists.
-/
import SimProc.Proofs.C14WRel
import SimProc.Props.C01W

namespace SimProc
namespace C14W
open World C01W Split

/-- The loop of `Environment.run` carried through to its end (`World.runLoop` with enough fuel). -/
inductive RunsTo : World → World → Prop
  | done {w : World} : w.env.running = false → RunsTo w w
  | step {w w' w'' : World} {e : Event} : w.env.running = true → w.step = some (e, w') →
      RunsTo w' w'' → RunsTo w w''

theorem RunsTo.of_not_running {w w' : World} (h : RunsTo w w') (hr : w.env.running = false) :
    w' = w := by
  cases h with
  | done _ => rfl
  | step hr' _ _ => rw [hr] at hr'; cases hr'

theorem RunsTo.of_step {w w1 w' : World} {e : Event} (h : RunsTo w w') (hr : w.env.running = true)
    (hs : w.step = some (e, w1)) : RunsTo w1 w' := by
  cases h with
  | done hr' => rw [hr] at hr'; cases hr'
  | step _ hs' h' =>
    rw [hs] at hs'
    cases hs'
    exact h'

/-- `runLoop` either carries the run through or reports an error (`"fuel"`, if nothing else). -/
theorem runLoop_runsTo (n : Nat) (w : World) :
    RunsTo w (runLoop n w) ∨ (runLoop n w).error.isSome = true := by
  induction n generalizing w with
  | zero => right; rw [runLoop]; exact setErr_isSome _ _
  | succ n ih =>
    rw [runLoop]
    by_cases hr : w.env.running = true
    · simp only [hr, if_true]
      cases hs : w.step with
      | none => exact absurd hs (step_ne_none_of_running hr)
      | some q =>
        obtain ⟨e, w'⟩ := q
        simp only
        rcases ih w' with h | h
        · exact Or.inl (RunsTo.step hr hs h)
        · exact Or.inr h
    · simp only [hr]
      exact Or.inl (RunsTo.done (by simpa using hr))

/-- The relation at the loop heads of the two executions. -/
structure LH (Tx : Int) (tx : Nat) (Ty : Int) (ty : Nat) (wx wy : World) : Prop where
  same : Same wx wy
  seed : wy.seed = wx.seed
  wmod : wy.wmod = wx.wmod
  good : Good wx
  rx : C01.RunInv Tx tx wx.env
  ry : C01.RunInv Ty ty wy.env
  eq : EqS wx.env wy.env
  tx : wx.env.terminated = false
  ty : wy.env.terminated = false

theorem step_env {w w' : World} {e : Event} (h : w.step = some (e, w')) :
    ∃ x1, w.env.step = some (e, x1) := by
  obtain ⟨x1, h1, _⟩ := step_via h
  exact ⟨x1, h1⟩

/-- One loop iteration on both sides when the head of the queue whose terminate event is not the
later one is a user event. -/
theorem lh_step {Tx Ty : Int} {tx ty : Nat} {wx wy wx' : World} {e : Event}
    (h : LH Tx tx Ty ty wx wy) (hT : Tx ≤ Ty) (hs : wx.step = some (e, wx')) (hnt : nt e = true) :
    ∃ e' wy', wy.step = some (e', wy') ∧ LH Tx tx Ty ty wx' wy' := by
  obtain ⟨x1', hxs'⟩ := step_env hs
  obtain ⟨es, hev, hx1⟩ := Env.step_some.mp hxs'
  obtain ⟨e', es', hyev, hnu, hnt', hst⟩ := head_sim h.rx h.ry hT h.tx h.ty h.eq hev hnt
  obtain ⟨x1, hxs, hx1n, hx1e, hx1p, hx1t⟩ := step_cons hev
  obtain ⟨y1, hys, hy1n, hy1e, hy1p, hy1t⟩ := step_cons hyev
  have hrx1 := C01.runInv_apply Arith.exact .step h.rx trivial (fun _ => h.tx)
  rw [apply_step_some _ hxs] at hrx1
  have hry1 := C01.runInv_apply Arith.exact .step h.ry trivial (fun _ => h.ty)
  rw [apply_step_some _ hys] at hry1
  simp only at hrx1 hry1
  have hea : e.act ≠ terminateAct := nt_true_iff.mp hnt
  have hea' : e'.act ≠ terminateAct := nt_true_iff.mp hnt'
  have hact' : e'.act = e.act := by simpa using congrArg Event.act hnu
  have htime' : e'.time = e.time := by simpa using congrArg Event.time hnu
  have hlive' : e'.live = e.live := by
    have := congrArg Event.cancelled hnu
    simp only [nu_cancelled] at this
    simp [Event.live, this]
  have htx1 : x1.terminated = false := by rw [hx1t, h.tx]; simp [hea]
  have hty1 : y1.terminated = false := by rw [hy1t, h.ty]; simp [hea']
  have hn1 : x1.now = y1.now := by rw [hx1n, hy1n, htime']
  have he1 : EqS x1 y1 := ⟨by rw [hx1e, hy1e, hst], by rw [hx1p, hy1p, h.eq.pa]⟩
  have hq : SplitRel Tx tx Ty ty x1 y1 := ⟨hrx1, hry1, hn1, he1, htx1, hty1⟩
  obtain ⟨w', w2', hs1, hs2, hsame, hg, hsd, hwm, hsd2, hwm2, hq', _, _⟩ :=
    step_par (cong_splitRel Tx tx Ty ty wx.seed wx.wmod) h.same h.good rfl rfl h.seed h.wmod
      hxs hys htime' hact' hlive' hq
  rw [hs] at hs1
  cases hs1
  obtain ⟨q1, q2, _, q4, q5, q6⟩ := hq'
  exact ⟨e', w2', hs2, ⟨hsame, hsd2.trans hsd.symm, hwm2.trans hwm.symm, hg, q1, q2, q4, q5, q6⟩⟩

/-- The loop iteration that pops the terminate event. -/
theorem step_term {T : Int} {tu : Nat} {w w' : World} {e : Event} (hr : C01.RunInv T tu w.env)
    (ht : w.env.terminated = false) (hs : w.step = some (e, w')) (hnt : nt e = false) :
    ∃ x1 es, w.env.events = e :: es ∧ w' = { w with env := x1 } ∧ C01.RunInv T tu x1 ∧
      x1.terminated = true ∧ x1.events = es ∧ x1.paused = w.env.paused := by
  obtain ⟨x1, hxs, _, _, hlive⟩ := step_via hs
  obtain ⟨es, hev, hx1def⟩ := Env.step_some.mp hxs
  have hx1e : x1.events = es := by rw [hx1def]
  have hx1p : x1.paused = w.env.paused := by rw [hx1def]
  have hx1t : x1.terminated = (w.env.terminated || (e.live && e.act == terminateAct)) := by
    rw [hx1def]
  have hx1 := C01.runInv_apply Arith.exact .step hr trivial (fun _ => ht)
  rw [apply_step_some _ hxs] at hx1
  have hea : e.act = terminateAct := nt_false_iff.mp hnt
  have hc := (hr.term e (by rw [hev]; simp) hea).2.2.2.2
  have hl : e.live = true := by simp [Event.live, hc]
  refine ⟨x1, es, hev, ?_, hx1, ?_, hx1e, hx1p⟩
  · rw [hlive hl, hea]
    rfl
  · rw [hx1t]; simp [hl, hea]

theorem not_running_of_terminated {s : Env} (h : s.terminated = true) : s.running = false := by
  simp [Env.running, h]

/-- Equal up to the numbering of events: everything but the queue is equal, the queues are equal up
to uids. -/
structure SameUpToUids (w w' : World) : Prop where
  rest : ({ w with env := {} } : World) = { w' with env := {} }
  env : C14.EnvEq w.env w'.env

theorem rest_of_same {wx wy : World} (h : Same wx wy) (hs : wy.seed = wx.seed)
    (hm : wy.wmod = wx.wmod) : ({ wy with env := {} } : World) = { wx with env := {} } := by
  unfold Same at h
  rw [h]
  simp only [hs, hm]

/-! ### the second run of the split execution against the rest of the single run -/

theorem phase2 {T : Int} {tx ty : Nat} {wx wx' : World} (hx : RunsTo wx wx') :
    ∀ {wy wy' : World}, RunsTo wy wy' → LH T tx T ty wx wy → SameUpToUids wy' wx' := by
  induction hx with
  | done hr =>
    intro wy wy' _ h
    exact absurd (Split.running_of_runInv h.rx h.tx) (by rw [hr]; simp)
  | @step wx w1 wx' e hr hs _ ih =>
    intro wy wy' hy h
    have hry := Split.running_of_runInv h.ry h.ty
    by_cases hnt : nt e = true
    · obtain ⟨e', wy1, hsy, h1⟩ := lh_step h (Int.le_refl _) hs hnt
      exact ih (hy.of_step hry hsy) h1
    · have hnt' : nt e = false := by simpa using hnt
      obtain ⟨x1, es, hev, hw1, hx1, htx1, hx1e, hx1p⟩ := step_term h.rx h.tx hs hnt'
      obtain ⟨e', es', hyev, hnty⟩ := head_term h.rx h.ry h.tx h.ty h.eq hev hnt'
      obtain ⟨y1', hys'⟩ : ∃ y1, wy.env.step = some (e', y1) := ⟨_, Env.step_some.mpr ⟨es', hyev, rfl⟩⟩
      have hsy : ∃ wy1, wy.step = some (e', wy1) := by
        unfold World.step; rw [hys']; exact ⟨_, rfl⟩
      obtain ⟨wy1, hsy⟩ := hsy
      obtain ⟨y1, es2, hyev2, hwy1, hy1, hty1, hy1e, hy1p⟩ := step_term h.ry h.ty hsy hnty
      rw [hyev] at hyev2
      cases hyev2
      have hxe : wx' = w1 := by
        rename_i hrun
        exact hrun.of_not_running (by rw [hw1]; exact not_running_of_terminated htx1)
      have hye : wy' = wy1 :=
        (hy.of_step hry hsy).of_not_running (by rw [hwy1]; exact not_running_of_terminated hty1)
      rw [hxe, hye, hw1, hwy1]
      refine ⟨?_, ?_, ?_, ?_, ?_⟩
      · exact rest_of_same (h.same.with_env x1 y1) h.seed h.wmod
      · show y1.now = x1.now
        rw [(hx1.done htx1).1, (hy1.done hty1).1]
      · show y1.terminated = x1.terminated
        rw [htx1, hty1]
      · show y1.events.map C14.noUid = x1.events.map C14.noUid
        rw [C14.noUid_eq]
        have hxs : strip x1.events = x1.events.map nu :=
          strip_eq_map (fun z hz => nt_true_iff.mpr ((hx1.done htx1).2 z hz))
        have hys : strip y1.events = y1.events.map nu :=
          strip_eq_map (fun z hz => nt_true_iff.mpr ((hy1.done hty1).2 z hz))
        have := h.eq.ev
        rw [hev, hyev, strip_cons_neg _ hnt', strip_cons_neg _ hnty, ← hx1e, ← hy1e] at this
        rw [← hxs, ← hys, this]
      · show y1.paused.map C14.noUid = x1.paused.map C14.noUid
        rw [C14.noUid_eq, hx1p, hy1p, h.eq.pa]

/-- `World.runBegin`, when accepted, replaces the queue and nothing else. -/
theorem runBegin_eq {w w1 : World} {d : Int} (hb : w.runBegin d = (w1, .ok)) :
    ∃ wt, w.env.runBegin Arith.exact d wt = some w1.env ∧ w1 = { w with env := w1.env } := by
  unfold World.runBegin at hb
  dsimp only at hb
  refine ⟨weightOf w.seed w.wmod (w.env.now + d) (-1) terminateAct pTerminate, ?_⟩
  split at hb
  · cases hb
  · rename_i e he
    cases hb
    exact ⟨he, rfl⟩

/-! ### the first run of the split execution against the beginning of the single run -/

theorem phase1 {T1 T : Int} {tx ty : Nat} {wx wxa : World} (hx : RunsTo wx wxa) :
    ∀ {wy wy' : World}, RunsTo wy wy' → LH T1 tx T ty wx wy → T1 ≤ T →
      ∀ {d2 : Int} {w2 wb : World}, T1 + d2 = T → wxa.runBegin d2 = (w2, .ok) → RunsTo w2 wb →
        SameUpToUids wy' wb := by
  induction hx with
  | done hr =>
    intro wy wy' _ h
    exact absurd (Split.running_of_runInv h.rx h.tx) (by rw [hr]; simp)
  | @step wx w1 wxa e hr hs hrun ih =>
    intro wy wy' hy h hT d2 w2 wb hTd hb2 hr2
    have hry := Split.running_of_runInv h.ry h.ty
    by_cases hnt : nt e = true
    · obtain ⟨e', wy1, hsy, h1⟩ := lh_step h hT hs hnt
      exact ih (hy.of_step hry hsy) h1 hT hTd hb2 hr2
    · have hnt' : nt e = false := by simpa using hnt
      obtain ⟨x1, es, hev, hw1, hx1, htx1, hx1e, hx1p⟩ := step_term h.rx h.tx hs hnt'
      have hxe : wxa = w1 :=
        hrun.of_not_running (by rw [hw1]; exact not_running_of_terminated htx1)
      rw [hxe, hw1] at hb2
      obtain ⟨wt, hb, hw2⟩ := runBegin_eq hb2
      have hx2 := C01.runInv_begin Arith.exact hx1.inv (Split.userState_of_done hx1 htx1) hb
      have hT' : Arith.exact.add x1.now d2 = T := by
        show x1.now + d2 = T
        rw [(hx1.done htx1).1]; exact hTd
      rw [hT'] at hx2
      obtain ⟨htx2, hx2e, hx2p⟩ := runBegin_strip hb
      have he2 : EqS w2.env wy.env := by
        refine ⟨?_, by rw [hx2p]; show x1.paused.map nu = _; rw [hx1p, h.eq.pa]⟩
        rw [hx2e]
        show strip x1.events = _
        rw [hx1e, ← h.eq.ev, hev, strip_cons_neg _ hnt']
      have hsame2 : Same w2 wy := by
        rw [hw2]
        exact h.same.with_env w2.env wy.env |>.trans (by unfold Same; rfl)
      have h2 : LH T x1.nextUid T ty w2 wy :=
        ⟨hsame2, by rw [hw2]; exact h.seed, by rw [hw2]; exact h.wmod,
          by rw [hw2]; exact (h.good.with_env x1).with_env w2.env, hx2, h.ry, he2, htx2, h.ty⟩
      exact phase2 hr2 hy h2

/-- **A run of the closed world can be split.**  From a world between runs (`C01.UserState`: no
terminate event pending), running for `d1` and then for `d2` ends in the same world as running once
for `d1 + d2` — the same devices, parts, resource manager, maintainers, schedulers, sensors,
records, results, error flag, ghost logs and weight key, the same clock and terminated flag, the
same pending and paused events up to their uids. -/
theorem world_run_split_runsTo {w w1 wa w2 wb w3 wc : World} {d1 d2 : Int} (g : Good w)
    (hi : C01.Inv w.env) (hu : C01.UserState w.env)
    (hb1 : w.runBegin d1 = (w1, .ok)) (hr1 : RunsTo w1 wa)
    (hb2 : wa.runBegin d2 = (w2, .ok)) (hr2 : RunsTo w2 wb)
    (hb3 : w.runBegin (d1 + d2) = (w3, .ok)) (hr3 : RunsTo w3 wc) :
    SameUpToUids wc wb := by
  have hd2 : 0 ≤ d2 := (runBegin_ok_iff wa d2).mp (by rw [hb2])
  obtain ⟨wt1, hbe1, hw1⟩ := runBegin_eq hb1
  obtain ⟨wt3, hbe3, hw3⟩ := runBegin_eq hb3
  have hx0 := C01.runInv_begin Arith.exact hi hu hbe1
  have hy0 := C01.runInv_begin Arith.exact hi hu hbe3
  obtain ⟨htx, hxe, hxp⟩ := runBegin_strip hbe1
  obtain ⟨hty, hye, hyp⟩ := runBegin_strip hbe3
  have he : EqS w1.env w3.env := ⟨by rw [hxe, hye], by rw [hxp, hyp]⟩
  have hT : Arith.exact.add w.env.now d1 ≤ Arith.exact.add w.env.now (d1 + d2) := by
    show w.env.now + d1 ≤ w.env.now + (d1 + d2)
    omega
  have hTb : Arith.exact.add w.env.now d1 + d2 = Arith.exact.add w.env.now (d1 + d2) := by
    show w.env.now + d1 + d2 = w.env.now + (d1 + d2)
    omega
  have hsame : Same w1 w3 := by
    rw [hw1, hw3]
    exact (Same.refl w).with_env w1.env w3.env
  have h0 : LH _ _ _ _ w1 w3 :=
    ⟨hsame, by rw [hw1, hw3], by rw [hw1, hw3], by rw [hw1]; exact g.with_env _, hx0, hy0, he,
      htx, hty⟩
  exact phase1 hr1 hr3 h0 hT hTb hb2 hr2

end C14W
end SimProc
