/-
C18D — machinery, part 1: the global invariant `GD` of schedulers with ONE ANCHOR PER SCHEDULER
(`A s` = the time at which scheduler `s` was initialised), after `GI` of `Proofs/C19WGlobal.lean`
(one anchor for all).  Every scheduler that exists is initialised (`SI (A s)`), indices beyond the
list satisfy `SU`; the sensors keep the invariant `SensInv P` of C19W with the single anchor of
`P`.  Preservation by frames, by taking an event from the queue, by transitions, and by APPENDING
a fresh scheduler and initialising it at the current time.
-/
import SimProc.Proofs.C19WStep

namespace SimProc
namespace C18D
open World FloorCoreL C18W C19W

/-- scheduler `s` under the anchor map `A` -/
def SchedD (A : Nat → Int) (e : Env) (c : TK) (s : Nat) : Prop :=
  (s < c.scheds.length → SI (A s) e c s) ∧ (c.scheds.length ≤ s → SU e c s)

structure GD (P : Par) (A : Nat → Int) (e : Env) (c : TK) : Prop where
  sok : SOK c
  sched : ∀ s, SchedD A e c s
  sens : ∀ s, SensInv P e c s
  acts : ∀ s, AI c s

theorem SchedD.congr {A : Nat → Int} {e e' : Env} {c c' : TK} {s : Nat} (h : SchedD A e c s)
    (hlen : c'.scheds.length = c.scheds.length)
    (hsw : c'.scheds.getD s default = c.scheds.getD s default)
    (hlog : schedLog c'.recsT s = schedLog c.recsT s)
    (hev : e'.events.filter (suEv s) = e.events.filter (suEv s))
    (hpa : e'.paused.filter (suEv s) = e.paused.filter (suEv s)) (hnow : e.now ≤ e'.now) :
    SchedD A e' c' s := by
  unfold SchedD
  rw [hlen]
  exact ⟨fun hc => SI.congr (h.1 hc) hsw hlog hev hpa hnow, fun hc => SU.congr (h.2 hc) hsw hlog hev hpa⟩

/-- Only the anchors of existing schedulers matter. -/
theorem GD.congrA {P : Par} {A A' : Nat → Int} {e : Env} {c : TK} (h : GD P A e c)
    (hA : ∀ s, s < c.scheds.length → A' s = A s) : GD P A' e c :=
  ⟨h.sok, fun s => ⟨fun hc => by rw [hA s hc]; exact (h.sched s).1 hc, (h.sched s).2⟩, h.sens, h.acts⟩

theorem GD.env {P : Par} {A : Nat → Int} {e e' : Env} {c : TK} (h : GD P A e c)
    (hev : e'.events.filter tracked = e.events.filter tracked)
    (hpa : e'.paused.filter tracked = e.paused.filter tracked) (hnow : e.now ≤ e'.now) :
    GD P A e' c :=
  ⟨h.sok,
    fun s => (h.sched s).congr rfl rfl rfl (filter_sub_congr (fun _ => suEv_tracked) hev)
      (filter_sub_congr (fun _ => suEv_tracked) hpa) hnow,
    fun s => (h.sens s).congr rfl rfl rfl (fun _ => rfl) (filter_sub_congr (fun _ => psEv_tracked) hev)
      (filter_sub_congr (fun _ => psEv_tracked) hpa) hnow (fun _ => rfl) rfl, h.acts⟩

theorem GD.cstep {P : Par} {A : Nat → Int} {e : Env} {a b : TK} (h : GD P A e a) (hs : CStep a b) :
    GD P A e b := by
  have hss := sstat_of_cstat hs.cstat
  obtain ⟨l1, l2, _⟩ := lengths_of_sstat hss
  refine ⟨h.sok.of_sstat hss, fun s => ?_, fun s => ?_,
    fun s => (h.acts s).congr (hs.sched_logs s).1 (hs.sched_logs s).2⟩
  · have hst := schedStat_of_cstat hs.cstat s
    unfold SchedD
    rw [l1]
    exact ⟨fun hc => (h.sched s).1 hc |>.frame rfl rfl (Int.le_refl _) hst (hs.sched_logs s).1,
      fun hc => (h.sched s).2 hc |>.frame rfl rfl hst (hs.sched_logs s).1⟩
  · unfold SensInv
    rw [l2, kind_of_sstat hss s]
    refine ⟨fun hc => ⟨fun hk => CStep.pi hs hc.1 (((h.sens s).1 hc).1 hk),
      fun hk => CStep.oi hs hc.1 (((h.sens s).1 hc).2 hk)⟩, fun hc => CStep.sensU hs ((h.sens s).2 hc)⟩

theorem GD.crun {P : Par} {A : Nat → Int} {e : Env} {a b : TK} (h : GD P A e a) (hs : CRun a b) :
    GD P A e b :=
  CRun.preserve (P := GD P A e) (fun hs h => h.cstep hs) hs h

/-- Every tracked event is the pending event of a scheduler or of an initialised periodic sensor. -/
theorem GD.owner {P : Par} {A : Nat → Int} {e : Env} {c : TK} (h : GD P A e c) {x : Event}
    (hx : x ∈ e.events ++ e.paused) (ht : tracked x = true) :
    (∃ s, suEv s x = true ∧ s < c.scheds.length ∧ x ∈ e.events ∧
      x.asset = (c.scheds.getD s default).aid) ∨
    (∃ s, psEv s x = true ∧ s < c.sensors.length ∧ AssetRef.sensor s ∈ P.done ∧ x ∈ e.events ∧
      (c.sensors.getD s default).s.kind = .periodic ∧ x.asset = (c.sensors.getD s default).aid) := by
  have hmem : ∀ p : Event → Bool, p x = true →
      x ∈ e.events.filter p ∨ x ∈ e.paused.filter p := by
    intro p hp
    rcases List.mem_append.mp hx with h1 | h1
    · exact Or.inl (List.mem_filter.mpr ⟨h1, hp⟩)
    · exact Or.inr (List.mem_filter.mpr ⟨h1, hp⟩)
  rcases tracked_cases ht with hs | hs
  · left
    refine ⟨x.act / 16, hs, ?_⟩
    by_cases hc : x.act / 16 < c.scheds.length
    · have hsi := (h.sched _).1 hc
      unfold SI at hsi
      by_cases hlt : (c.scheds.getD (x.act / 16) default).s.idx <
          (c.scheds.getD (x.act / 16) default).s.tt.length
      · obtain ⟨_, _, _, ⟨e0, h1, _, _, h4, _⟩, h6⟩ := hsi.running hlt
        rcases hmem _ hs with hm | hm
        · rw [h1] at hm
          simp only [List.mem_singleton] at hm
          subst hm
          have : x ∈ e.events.filter (suEv (x.act / 16)) := by rw [h1]; simp
          exact ⟨hc, (List.mem_filter.mp this).1, h4⟩
        · rw [h6] at hm; cases hm
      · obtain ⟨h1, h2, _⟩ := hsi.ended (Nat.le_of_not_lt hlt)
        rcases hmem _ hs with hm | hm
        · rw [h1] at hm; cases hm
        · rw [h2] at hm; cases hm
    · have hsu := (h.sched _).2 (Nat.le_of_not_lt hc)
      rcases hmem _ hs with hm | hm
      · rw [hsu.ev] at hm; cases hm
      · rw [hsu.pa] at hm; cases hm
  · right
    refine ⟨x.act / 16, hs, ?_⟩
    by_cases hc : x.act / 16 < c.sensors.length ∧ AssetRef.sensor (x.act / 16) ∈ P.done
    · cases hk : (c.sensors.getD (x.act / 16) default).s.kind with
      | periodic =>
        obtain ⟨log, _, _, _, _, _, _, ⟨e0, h1, _, _, h4, _⟩, h6⟩ := (((h.sens _).1 hc).1 hk).ex
        rcases hmem _ hs with hm | hm
        · rw [h1] at hm
          simp only [List.mem_singleton] at hm
          subst hm
          have : x ∈ e.events.filter (psEv (x.act / 16)) := by rw [h1]; simp
          exact ⟨hc.1, hc.2, (List.mem_filter.mp this).1, rfl, h4⟩
        · rw [h6] at hm; cases hm
      | output =>
        have hoi := ((h.sens _).1 hc).2 hk
        rcases hmem _ hs with hm | hm
        · rw [hoi.ev] at hm; cases hm
        · rw [hoi.pa] at hm; cases hm
    · have hsu := (h.sens _).2 hc
      rcases hmem _ hs with hm | hm
      · rw [hsu.ev] at hm; cases hm
      · rw [hsu.pa] at hm; cases hm

theorem GD.qi {P : Par} {A : Nat → Int} {e : Env} {c : TK} (h : GD P A e c) : QI c.ta e := by
  intro x hx ht
  rcases h.owner hx ht with ⟨s, _, h2, _, h5⟩ | ⟨s, _, h2, _, _, _, h6⟩
  · rw [h5]; exact mem_ta_sched h2
  · rw [h6]; exact mem_ta_sensor h2

theorem GD.stat {P : Par} {A : Nat → Int} {w : World} (h : GD P A w.env (tk w)) : Stat w :=
  ⟨h.sok.statc, h.qi⟩

/-- **Frames keep the invariant.** -/
theorem GD.fr {P : Par} {A : Nat → Int} {w w' : World} (h : GD P A w.env (tk w))
    (hi : C01.Inv w.env) (hf : Fr w w') :
    GD P A w'.env (tk w') ∧ C01.Inv w'.env ∧ w'.now = w.now ∧
    (tk w').scheds.length = (tk w).scheds.length ∧ (tk w').ta = (tk w).ta := by
  obtain ⟨he, hc⟩ := hf h.stat
  obtain ⟨f1, f2, _⟩ := he.filters h.qi
  have hn : w'.env.now = w.env.now := he.now
  exact ⟨(h.env f1 f2 (by rw [hn]; exact Int.le_refl _)).crun hc, he.inv hi, hn,
    (lengths_of_sstat (sstat_of_cstat hc.cstat)).1, ta_of_cstat hc.cstat⟩

theorem GD.pop_untracked {P : Par} {A : Nat → Int} {e : Env} {c : TK} (h : GD P A e c)
    (hi : C01.Inv e) {ev : Event} {es : List Event} (he : e.events = ev :: es)
    (ht : tracked ev = false) : GD P A (popEnv e ev es) c :=
  h.env (filter_pop he _ ht) rfl (hi.future ev (by rw [he]; exact List.mem_cons_self))

/-- A scheduler transition: the head of the queue is the event of scheduler `s`. -/
theorem GD.sched_adv {P : Par} {A : Nat → Int} {e : Env} {c : TK} (h : GD P A e c) (hi : C01.Inv e)
    {ev : Event} {es : List Event} (he : e.events = ev :: es) {s : Nat} (hs : suEv s ev = true)
    {e' : Env} {c' : TK} (ha : ASched (popEnv e ev es) c s true e' c') : GD P A e' c' := by
  have hnow : e.now ≤ ev.time := hi.future ev (by rw [he]; exact List.mem_cons_self)
  have hown := h.owner (x := ev) (by rw [he]; simp) (suEv_tracked hs)
  have hc : s < c.scheds.length := by
    rcases hown with ⟨s', h1, h2, _⟩ | ⟨s', h1, _⟩
    · have : s' = s := by
        have a1 : ev.act = 9 + 16 * s := by simpa [suEv] using hs
        have a2 : ev.act = 9 + 16 * s' := by simpa [suEv] using h1
        omega
      subst this; exact h2
    · rw [suEv_not_psEv h1] at hs; cases hs
  obtain ⟨hmid, _, _⟩ := ((h.sched s).1 hc).pop he hs (e.terminated || (ev.live && ev.act == terminateAct))
  have hfr := ha.frame
  obtain ⟨l1, l2, l3⟩ := lengths_of_sstat hfr.sstat
  refine ⟨h.sok.of_sstat hfr.sstat, fun s' => ?_, fun s' => ?_, fun s' => (h.acts s').asched ha⟩
  · by_cases hne : s' = s
    · subst hne
      unfold SchedD
      rw [l1]
      exact ⟨fun _ => SI_advance hmid hc (h.sok.dur_at s') ha, fun hn => by omega⟩
    · have h1 : SchedD A (popEnv e ev es) c s' :=
        (h.sched s').congr rfl rfl rfl (filter_pop he _ (suEv_ne hne hs)) rfl hnow
      unfold SchedD at h1 ⊢
      rw [l1]
      exact ⟨fun hc' => hfr.si hne (h1.1 hc'), fun hc' => hfr.su hne (h1.2 hc')⟩
  · have h1 : SensInv P (popEnv e ev es) c s' :=
      (h.sens s').congr rfl rfl rfl (fun _ => rfl) (filter_pop he _ (psEv_not_suEv hs)) rfl hnow
        (fun _ => rfl) rfl
    unfold SensInv at h1 ⊢
    rw [l2, hfr.sensors]
    exact ⟨fun hc' => ⟨fun hk => schedFrame_pi hfr ((h1.1 hc').1 hk),
      fun hk => schedFrame_oi hfr ((h1.1 hc').2 hk)⟩, fun hc' => schedFrame_sensU hfr (h1.2 hc')⟩

/-- A periodic measurement: the head of the queue is the event of sensor `s`. -/
theorem GD.sense_adv {P : Par} {A : Nat → Int} {e : Env} {c : TK} (h : GD P A e c) (hi : C01.Inv e)
    {ev : Event} {es : List Event} (he : e.events = ev :: es) {s : Nat} (hs : psEv s ev = true)
    {vals : List Int} (hv : vals.length = (c.sensors.getD s default).vars.length)
    {e' : Env} {c' : TK} (ha : APSense (popEnv e ev es) c s vals e' c') : GD P A e' c' := by
  have hnow : e.now ≤ ev.time := hi.future ev (by rw [he]; exact List.mem_cons_self)
  have hown := h.owner (x := ev) (by rw [he]; simp) (psEv_tracked hs)
  have hc : s < c.sensors.length ∧ AssetRef.sensor s ∈ P.done ∧
      (c.sensors.getD s default).s.kind = .periodic := by
    rcases hown with ⟨s', h1, _⟩ | ⟨s', h1, h2, h3, _, h5, _⟩
    · rw [psEv_not_suEv h1] at hs; cases hs
    · have : s' = s := by
        have a1 : ev.act = 10 + 16 * s := by simpa [psEv] using hs
        have a2 : ev.act = 10 + 16 * s' := by simpa [psEv] using h1
        omega
      subst this; exact ⟨h2, h3, h5⟩
  obtain ⟨hmid, _, _⟩ := (((h.sens s).1 ⟨hc.1, hc.2.1⟩).1 hc.2.2).pop he hs hnow
    (e.terminated || (ev.live && ev.act == terminateAct))
  have hfr := ha.frame
  obtain ⟨l1, l2, l3⟩ := lengths_of_sstat hfr.sstat
  refine ⟨h.sok.of_sstat hfr.sstat, fun s' => ?_, fun s' => ?_, fun s' => (h.acts s').sensFrame hfr⟩
  · have h1 : SchedD A (popEnv e ev es) c s' :=
      (h.sched s').congr rfl rfl rfl (filter_pop he _ (suEv_not_psEv hs)) rfl hnow
    unfold SchedD at h1 ⊢
    rw [l1]
    exact ⟨fun hc' => hfr.si (h1.1 hc'), fun hc' => hfr.su (h1.2 hc')⟩
  · by_cases hne : s' = s
    · subst hne
      unfold SensInv
      rw [l2, kind_of_sstat hfr.sstat s']
      exact ⟨fun _ => ⟨fun _ => PI_advance hmid hc.1 hv ha, fun hk => by rw [hc.2.2] at hk; cases hk⟩,
        fun hn => absurd ⟨hc.1, hc.2.1⟩ hn⟩
    · have h1 : SensInv P (popEnv e ev es) c s' :=
        (h.sens s').congr rfl rfl rfl (fun _ => rfl) (filter_pop he _ (psEv_ne hne hs)) rfl hnow
          (fun _ => rfl) rfl
      unfold SensInv at h1 ⊢
      rw [l2, hfr.sensors s' hne]
      exact ⟨fun hc' => ⟨fun hk => hfr.pi hne ((h1.1 hc').1 hk),
        fun hk => hfr.oi hne ((h1.1 hc').2 hk)⟩, fun hc' => hfr.sensU hne (h1.2 hc')⟩

/-- From the invariant of C18W/C19W (one anchor), when every scheduler is registered. -/
theorem GD.of_gi {P : Par} {e : Env} {c : TK} (h : GI P e c)
    (hall : ∀ s, s < c.scheds.length → AssetRef.sched s ∈ P.done) :
    GD P (fun _ => P.t0) e c :=
  ⟨h.sok, fun s => ⟨fun hc => (h.sched s).1 ⟨hc, hall s hc⟩, fun hc => (h.sched s).2 (fun hn => by omega)⟩,
    h.sens, h.acts⟩

/-! ### a fresh scheduler is appended, then initialised -/

/-- the key with a scheduler appended -/
def pushS (c : TK) (x : SchedW) : TK := { c with scheds := c.scheds ++ [x] }

theorem pushS_getD_lt (c : TK) (x : SchedW) {s : Nat} (h : s < c.scheds.length) :
    (pushS c x).scheds.getD s default = c.scheds.getD s default :=
  getD_append_left _ _ _ _ h

theorem pushS_getD_gt (c : TK) (x : SchedW) {s : Nat} (h : c.scheds.length < s) :
    (pushS c x).scheds.getD s default = c.scheds.getD s default := by
  have h1 : (pushS c x).scheds.length ≤ s := by simp [pushS]; omega
  rw [List.getD_eq_getElem?_getD, List.getD_eq_getElem?_getD, List.getElem?_eq_none h1,
    List.getElem?_eq_none (by omega)]

/-- Appending a constructor-fresh scheduler (position 0, a new asset id, durations not negative)
keeps the invariant: it is one more uninitialised scheduler. -/
theorem GD.push {P : Par} {A : Nat → Int} {e : Env} {c : TK} (h : GD P A e c) (x : SchedW)
    (hidx : x.s.idx = 0) (hdur : ∀ p ∈ x.s.tt, 0 ≤ p.1)
    (haid : x.aid ≠ 0 ∧ ∀ k ∈ c.dk, k.1 ≠ x.aid) (hscr : c.scripts = []) :
    SOK (pushS c x) ∧ (∀ s, s ≠ c.scheds.length → SchedD A e (pushS c x) s) ∧
    SU e (pushS c x) c.scheds.length ∧ (∀ s, SensInv P e (pushS c x) s) ∧ (∀ s, AI (pushS c x) s) := by
  refine ⟨⟨⟨?_, ?_⟩, ?_, h.sok.ivl⟩, ?_, ?_,
    fun s => (h.sens s).congr rfl rfl rfl (fun _ => rfl) rfl rfl (Int.le_refl _) (fun _ => rfl) rfl,
    fun s => (h.acts s).congr rfl rfl⟩
  · intro a ha
    have : a ∈ c.ta ∨ a = x.aid := by
      simp only [TK.ta, pushS, List.map_append, List.mem_append, List.mem_map, List.map_cons,
        List.map_nil, List.mem_singleton] at ha ⊢
      rcases ha with (ha | ha) | ha
      · exact Or.inl (Or.inl ha)
      · exact Or.inr ha
      · exact Or.inl (Or.inr ha)
    rcases this with ha | rfl
    · exact h.sok.statc.aids a ha
    · exact haid
  · intro l hl
    rw [show (pushS c x).scripts = c.scripts from rfl, hscr] at hl
    cases hl
  · intro sw hsw
    rcases List.mem_append.mp hsw with hm | hm
    · exact h.sok.dur sw hm
    · simp only [List.mem_singleton] at hm
      subst hm; exact hdur
  · intro s hne
    have hlen : (pushS c x).scheds.length = c.scheds.length + 1 := by simp [pushS]
    unfold SchedD
    rw [hlen]
    by_cases hlt : s < c.scheds.length
    · refine ⟨fun _ => ?_, fun hc => by omega⟩
      have := (h.sched s).1 hlt
      unfold SI at this ⊢
      rw [pushS_getD_lt c x hlt]
      exact this
    · have hgt : c.scheds.length < s := by omega
      refine ⟨fun hc => by omega, fun _ => ?_⟩
      have := (h.sched s).2 (by omega)
      exact ⟨by rw [pushS_getD_gt c x hgt]; exact this.idx, this.log, this.ev, this.pa⟩
  · have := (h.sched c.scheds.length).2 (Nat.le_refl _)
    refine ⟨?_, this.log, this.ev, this.pa⟩
    rw [show (pushS c x).scheds.getD c.scheds.length default = x from getD_append_singleton _ _ _]
    exact hidx

/-- The appended scheduler is initialised at the current time: its anchor is the clock. -/
theorem GD.sched_start {P : Par} {A : Nat → Int} {e : Env} {c : TK} {i : Nat}
    (hsok : SOK c) (hs : ∀ s, s ≠ i → SchedD A e c s) (hsu : SU e c i) (hi : i < c.scheds.length)
    (hsens : ∀ s, SensInv P e c s) (hacts : ∀ s, AI c s) (hA : A i = e.now)
    {e' : Env} {c' : TK} (ha : ASched e c i false e' c') : GD P A e' c' := by
  have hfr := ha.frame
  obtain ⟨l1, l2, l3⟩ := lengths_of_sstat hfr.sstat
  refine ⟨hsok.of_sstat hfr.sstat, fun s' => ?_, fun s' => ?_, fun s' => (hacts s').asched ha⟩
  · unfold SchedD
    rw [l1]
    by_cases hne : s' = i
    · subst hne
      refine ⟨fun _ => ?_, fun hc => by omega⟩
      rw [hA]
      exact SI_start hsu hi ha
    · have := hs s' hne
      exact ⟨fun hc => hfr.si hne (this.1 hc), fun hc => hfr.su hne (this.2 hc)⟩
  · unfold SensInv
    rw [l2, hfr.sensors]
    exact ⟨fun hc => ⟨fun hk => schedFrame_pi hfr (((hsens s').1 hc).1 hk),
      fun hk => schedFrame_oi hfr (((hsens s').1 hc).2 hk)⟩,
      fun hc => schedFrame_sensU hfr ((hsens s').2 hc)⟩

end C18D
end SimProc
