/-
Helper lemmas for C10 (Props/C10.lean): list facts for the scan, and monotonicity of
feasibility under the resource-manager operations that do not schedule a check.
-/
import SimProc.Model.Resource

namespace SimProc
namespace C10

/-! ### lists -/

theorem perm_cons_eraseIdx {α} (l : List α) (i : Nat) (h : i < l.length) :
    (l[i] :: l.eraseIdx i).Perm l := by
  induction l generalizing i with
  | nil => simp at h
  | cons a t ih =>
    cases i with
    | zero => simp
    | succ i =>
      simp only [List.getElem_cons_succ, List.eraseIdx_cons_succ]
      exact (List.Perm.swap _ _ _).trans ((ih i (by simpa using h)).cons a)

theorem drop_eraseIdx_append {α} (w l : List α) (i : Nat) (hi : i < w.length) :
    ((w ++ l).eraseIdx i).drop i = w.drop (i + 1) ++ l := by
  grind

/-! ### pools -/

theorem canFulfill_pools (a b : RM) (h : a.pools = b.pools) (req : Req) :
    a.canFulfill req = b.canFulfill req := by
  simp [RM.canFulfill, RM.lookup, h]

theorem find_map_set_ne (l : List (Nat × Int × Int)) (r r' : Nat) (v : Int × Int)
    (hr : r' ≠ r) :
    ((l.map (fun p => if p.1 == r then (r, v) else p)).find? (fun p => p.1 == r')).map (·.2)
      = (l.find? (fun p => p.1 == r')).map (·.2) := by
  induction l with
  | nil => rfl
  | cons p t ih =>
    have h1 : ¬ r = r' := fun h => hr h.symm
    by_cases hp : p.1 = r
    · have h2 : ¬ p.1 = r' := fun h => hr (h.symm.trans hp)
      rw [List.map_cons, List.find?_cons_of_neg (by simp [hp, h1]), List.find?_cons_of_neg (by simp [h2])]
      exact ih
    · by_cases hp' : p.1 = r'
      · rw [List.map_cons, List.find?_cons_of_pos (by simp [hp', hr]), List.find?_cons_of_pos (by simp [hp'])]
        simp [hp]
      · rw [List.map_cons, List.find?_cons_of_neg (by simp [hp, hp']), List.find?_cons_of_neg (by simp [hp'])]
        exact ih

theorem find_map_set_eq (l : List (Nat × Int × Int)) (r : Nat) (v : Int × Int)
    (h : l.any (fun p => p.1 == r) = true) :
    ((l.map (fun p => if p.1 == r then (r, v) else p)).find? (fun p => p.1 == r)).map (·.2)
      = some v := by
  induction l with
  | nil => simp at h
  | cons p t ih =>
    by_cases hp : p.1 = r
    · rw [List.map_cons, List.find?_cons_of_pos (by simp [hp])]
      simp [hp]
    · have ht : t.any (fun p => p.1 == r) = true := by simpa [hp] using h
      rw [List.map_cons, List.find?_cons_of_neg (by simp [hp])]
      exact ih ht

theorem find_map_set (l : List (Nat × Int × Int)) (r r' : Nat) (v : Int × Int)
    (h : l.any (fun p => p.1 == r) = true) :
    ((l.map (fun p => if p.1 == r then (r, v) else p)).find? (fun p => p.1 == r')).map (·.2)
      = if r' = r then some v else (l.find? (fun p => p.1 == r')).map (·.2) := by
  by_cases hr : r' = r
  · subst hr; simp only [if_true]; exact find_map_set_eq l r' v h
  · simp only [hr, if_false]; exact find_map_set_ne l r r' v hr

theorem lookup_setPool (rm : RM) (r r' : Nat) (v : Int × Int) :
    (rm.setPool r v).lookup r' = if r' = r then some v else rm.lookup r' := by
  unfold RM.setPool
  split
  · rename_i h
    simp only [RM.lookup]
    exact find_map_set _ _ _ _ h
  · rename_i h
    simp only [RM.lookup, List.find?_append]
    by_cases hr : r' = r
    · subst hr
      have : rm.pools.find? (fun p => p.1 == r') = none := by
        simp only [List.find?_eq_none]
        intro x hx hx'
        exact h (List.any_eq_true.mpr ⟨x, hx, hx'⟩)
      simp [this]
    · have : ¬ r = r' := fun h => hr h.symm
      simp [hr, this]

@[simp] theorem setPool_waiting (rm : RM) (r : Nat) (v : Int × Int) :
    (rm.setPool r v).waiting = rm.waiting := by
  unfold RM.setPool; split <;> rfl

@[simp] theorem setPool_inited (rm : RM) (r : Nat) (v : Int × Int) :
    (rm.setPool r v).inited = rm.inited := by
  unfold RM.setPool; split <;> rfl

@[simp] theorem setHeld_waiting (rm : RM) (id : Nat) (h : Req) :
    (rm.setHeld id h).waiting = rm.waiting := rfl

@[simp] theorem setHeld_inited (rm : RM) (id : Nat) (h : Req) :
    (rm.setHeld id h).inited = rm.inited := rfl

@[simp] theorem setHeld_pools (rm : RM) (id : Nat) (h : Req) :
    (rm.setHeld id h).pools = rm.pools := rfl

theorem take_waiting_inited (req : Req) (rm : RM) :
    (rm.take req).1.waiting = rm.waiting ∧ (rm.take req).1.inited = rm.inited := by
  induction req generalizing rm with
  | nil => simp [RM.take]
  | cons p t ih =>
    obtain ⟨r, a⟩ := p
    simp only [RM.take]
    split
    · exact ih rm
    · have := ih (rm.setPool r (rm.usage r + a, rm.capacity r))
      simpa using this

theorem credit_waiting_inited (req : Req) (rm : RM) :
    (rm.credit req).1.waiting = rm.waiting ∧ (rm.credit req).1.inited = rm.inited := by
  induction req generalizing rm with
  | nil => simp [RM.credit]
  | cons p t ih =>
    obtain ⟨r, a⟩ := p
    simp only [RM.credit]
    split
    · exact ih rm
    · have := ih (rm.setPool r (rm.usage r - a, rm.capacity r))
      simpa using this

/-- Availability (`capacity - usage`) of every resource of `a` is at most that in `b`, and the two
managers know the same resources. -/
def PoolLe (a b : RM) : Prop :=
  ∀ r, (a.lookup r = none ∧ b.lookup r = none) ∨
    ∃ u' c' u c, a.lookup r = some (u', c') ∧ b.lookup r = some (u, c) ∧ c' - u' ≤ c - u

theorem PoolLe.refl (a : RM) : PoolLe a a := by
  intro r
  cases h : a.lookup r with
  | none => exact .inl ⟨rfl, rfl⟩
  | some p => exact .inr ⟨p.1, p.2, p.1, p.2, rfl, rfl, Int.le_refl _⟩

theorem PoolLe.of_pools {a b : RM} (h : a.pools = b.pools) : PoolLe a b := by
  have : a.lookup = b.lookup := by funext r; simp [RM.lookup, h]
  intro r
  rw [this]
  exact PoolLe.refl b r

theorem PoolLe.trans {a b c : RM} (h1 : PoolLe a b) (h2 : PoolLe b c) : PoolLe a c := by
  intro r
  rcases h1 r with ⟨ha, hb⟩ | ⟨u', c', u, c1, ha, hb, hle⟩
  · rcases h2 r with ⟨_, hc⟩ | ⟨u', c', u, c1, hb', _, _⟩
    · exact .inl ⟨ha, hc⟩
    · rw [hb] at hb'; cases hb'
  · rcases h2 r with ⟨hb', _⟩ | ⟨u2, c2, u3, c3, hb', hc, hle'⟩
    · rw [hb] at hb'; cases hb'
    · rw [hb] at hb'; cases hb'
      exact .inr ⟨u', c', u3, c3, ha, hc, Int.le_trans hle hle'⟩

theorem canFulfill_mono {a b : RM} (h : PoolLe a b) (req : Req)
    (hc : a.canFulfill req = true) : b.canFulfill req = true := by
  simp only [RM.canFulfill, List.all_eq_true] at hc ⊢
  intro p hp
  have := hc p hp
  obtain ⟨r, x⟩ := p
  simp only [Bool.or_eq_true, beq_iff_eq] at this ⊢
  rcases this with h0 | h1
  · exact .inl h0
  · right
    rcases h r with ⟨ha, _⟩ | ⟨u', c', u, c, ha, hb, hle⟩
    · simp [ha] at h1
    · simp only [ha, hb, Bool.not_eq_true', decide_eq_false_iff_not] at h1 ⊢
      omega

theorem take_poolLe (req : Req) (rm : RM)
    (h : ∀ p ∈ req, p.2 ≠ 0 → 0 < p.2 ∧ (rm.lookup p.1).isSome = true) :
    PoolLe (rm.take req).1 rm := by
  induction req generalizing rm with
  | nil => exact PoolLe.refl rm
  | cons p t ih =>
    obtain ⟨r, a⟩ := p
    simp only [RM.take]
    split
    · exact ih rm (fun p hp => h p (List.mem_cons_of_mem _ hp))
    · rename_i ha
      have ha' : a ≠ 0 := by simpa using ha
      obtain ⟨hpos, hsome⟩ := h (r, a) (List.mem_cons_self) ha'
      obtain ⟨⟨u, c⟩, hlk⟩ := Option.isSome_iff_exists.mp hsome
      simp only at hlk
      have hle : PoolLe (rm.setPool r (rm.usage r + a, rm.capacity r)) rm := by
        intro r'
        rw [lookup_setPool]
        by_cases hr : r' = r
        · subst hr
          right
          refine ⟨u + a, c, u, c, ?_, hlk, by omega⟩
          simp [RM.usage, RM.capacity, hlk]
        · simp only [hr, if_false]
          exact PoolLe.refl rm r'
      refine PoolLe.trans (ih _ ?_) hle
      intro p hp hp0
      refine ⟨(h p (List.mem_cons_of_mem _ hp) hp0).1, ?_⟩
      have h2 := (h p (List.mem_cons_of_mem _ hp) hp0).2
      rw [lookup_setPool]
      split
      · rfl
      · exact h2

/-! ### operations -/

theorem apply_init (rm : RM) :
    rm.apply .init = ({ rm with inited := true }, .ok, !rm.waiting.isEmpty) := rfl

theorem add_cases (rm : RM) (r : Nat) (amt : Int) :
    (rm.add r amt = (rm, (rm.add r amt).2.1, [], false) ∧
        (amt = 0 ∨ (rm.add r amt).2.1 ≠ .ok)) ∨
    ((rm.add r amt).2.1 = .ok ∧ (rm.add r amt).2.2.2 = rm.inited ∧ amt ≠ 0 ∧
      ∃ v, (rm.add r amt).1 = rm.setPool r v) := by
  unfold RM.add
  split
  · rename_i h0
    exact .inl ⟨rfl, .inl (by simpa using h0)⟩
  · rename_i h0
    have h0' : amt ≠ 0 := by simpa using h0
    split
    · split
      · exact .inl ⟨rfl, .inr (by simp)⟩
      · exact .inr ⟨rfl, rfl, h0', _, rfl⟩
    · split
      · exact .inl ⟨rfl, .inr (by simp)⟩
      · exact .inr ⟨rfl, rfl, h0', _, rfl⟩

theorem release_cases (rm : RM) (id : Nat) (part : Option Req) :
    (rm.release id part = (rm, (rm.release id part).2.1, [], false) ∧
        (rm.release id part).2.1 ≠ .ok) ∨
    ((rm.release id part).2.1 = .ok ∧ (rm.release id part).2.2.2 = rm.inited ∧
      (rm.release id part).1.waiting = rm.waiting ∧ (rm.release id part).1.inited = rm.inited) := by
  unfold RM.release
  split
  · exact .inl ⟨rfl, by simp⟩
  · split
    · refine .inr ⟨rfl, rfl, ?_, ?_⟩
      · simp [(credit_waiting_inited _ rm).1]
      · simp [(credit_waiting_inited _ rm).2]
    · split
      · refine .inr ⟨rfl, rfl, ?_, ?_⟩
        · simp [(credit_waiting_inited _ rm).1]
        · simp [(credit_waiting_inited _ rm).2]
      · rename_i hne
        exact .inl ⟨rfl, by simpa using hne⟩

theorem reserve_spec (rm : RM) (req : Req) :
    (rm.reserve req).1.waiting = rm.waiting ∧ (rm.reserve req).1.inited = rm.inited ∧
      PoolLe (rm.reserve req).1 rm := by
  unfold RM.reserve
  by_cases hneg : req.any (fun p => p.2 < 0) = true
  · rw [if_pos hneg]
    exact ⟨rfl, rfl, PoolLe.refl rm⟩
  · by_cases hc : rm.canFulfill (req.filter (fun p => p.2 > 0)) = true
    · simp only [hneg, hc, if_true]
      refine ⟨(take_waiting_inited req rm).1, (take_waiting_inited req rm).2, ?_⟩
      refine PoolLe.trans (PoolLe.of_pools rfl) (take_poolLe req rm ?_)
      intro p hp hp0
      simp only [List.any_eq_true, decide_eq_true_eq, not_exists, not_and, Int.not_lt] at hneg
      have hge := hneg p hp
      have hpos : 0 < p.2 := by omega
      refine ⟨hpos, ?_⟩
      simp only [RM.canFulfill, List.all_eq_true] at hc
      have := hc p (List.mem_filter.mpr ⟨hp, by simpa using hpos⟩)
      obtain ⟨r, a⟩ := p
      simp only [Bool.or_eq_true, beq_iff_eq] at this
      rcases this with h0 | h1
      · exact absurd h0 hp0
      · cases hlk : rm.lookup r with
        | none => simp [hlk] at h1
        | some v => rfl
    · simp only [hneg, hc]
      exact ⟨rfl, rfl, PoolLe.refl rm⟩

theorem merge_spec (rm : RM) (a b : Nat) :
    (rm.merge a b).1.waiting = rm.waiting ∧ (rm.merge a b).1.inited = rm.inited ∧
      (rm.merge a b).1.pools = rm.pools := by
  unfold RM.merge
  split <;> try split
  all_goals exact ⟨rfl, rfl, rfl⟩

/-- Every operation only appends to the waiting list. -/
theorem apply_waiting (rm : RM) (op : RMOp) :
    ∃ l, (rm.apply op).1.waiting = rm.waiting ++ l := by
  cases op with
  | init => exact ⟨[], by simp [apply_init]⟩
  | add r amt =>
    refine ⟨[], ?_⟩
    simp only [RM.apply, List.append_nil]
    rcases add_cases rm r amt with ⟨h, _⟩ | ⟨_, _, _, v, hv⟩
    · rw [h]
    · rw [hv]; simp
  | reserve req => exact ⟨[], by simp [RM.apply, (reserve_spec rm req).1]⟩
  | release id part =>
    refine ⟨[], ?_⟩
    simp only [RM.apply, List.append_nil]
    rcases release_cases rm id part with ⟨h, _⟩ | ⟨_, _, hw, _⟩
    · rw [h]
    · exact hw
  | merge a b => exact ⟨[], by simp [RM.apply, (merge_spec rm a b).1]⟩
  | register req cb => exact ⟨[(req, cb)], rfl⟩

/-- Only `init` changes the `inited` flag. -/
theorem apply_inited (rm : RM) (op : RMOp) (hop : op ≠ .init) :
    (rm.apply op).1.inited = rm.inited := by
  cases op with
  | init => exact absurd rfl hop
  | add r amt =>
    simp only [RM.apply]
    rcases add_cases rm r amt with ⟨h, _⟩ | ⟨_, _, _, v, hv⟩
    · rw [h]
    · rw [hv]; simp
  | reserve req => simp [RM.apply, (reserve_spec rm req).2.1]
  | release id part =>
    simp only [RM.apply]
    rcases release_cases rm id part with ⟨h, _⟩ | ⟨_, _, _, hi⟩
    · rw [h]
    · exact hi
  | merge a b => simp [RM.apply, (merge_spec rm a b).2.1]
  | register req cb => rfl

/-- `inited` is never reset. -/
theorem apply_inited_mono (rm : RM) (op : RMOp) (h : rm.inited = true) :
    (rm.apply op).1.inited = true := by
  by_cases hop : op = .init
  · subst hop; rfl
  · rw [apply_inited rm op hop]; exact h

/-- Key lemma: an operation on an initialised manager that schedules no check leaves the waiting
list alone and does not make any request feasible. -/
theorem feasible_mono (rm : RM) (op : RMOp) (hi : rm.inited = true)
    (hchk : (rm.apply op).2.2 = false) :
    (rm.apply op).1.waiting = rm.waiting ∧ PoolLe (rm.apply op).1 rm := by
  cases op with
  | init =>
    rw [apply_init]
    exact ⟨rfl, PoolLe.of_pools rfl⟩
  | add r amt =>
    simp only [RM.apply] at hchk ⊢
    rcases add_cases rm r amt with ⟨h, _⟩ | ⟨_, hc, _, _⟩
    · rw [h]; exact ⟨rfl, PoolLe.refl rm⟩
    · rw [hc, hi] at hchk; cases hchk
  | reserve req =>
    simp only [RM.apply]
    exact ⟨(reserve_spec rm req).1, (reserve_spec rm req).2.2⟩
  | release id part =>
    simp only [RM.apply] at hchk ⊢
    rcases release_cases rm id part with ⟨h, _⟩ | ⟨_, hc, _, _⟩
    · rw [h]; exact ⟨rfl, PoolLe.refl rm⟩
    · rw [hc, hi] at hchk; cases hchk
  | merge a b =>
    simp only [RM.apply]
    exact ⟨(merge_spec rm a b).1, PoolLe.of_pools (merge_spec rm a b).2.2⟩
  | register req cb =>
    simp only [RM.apply, RM.register] at hchk
    rw [hi] at hchk; cases hchk

end C10
end SimProc
