/-
C04 (general serial line) — layer 2: frame lemmas for the invariant and the specifications of the
notification functions.
-/
import SimProc.Proofs.C04WFoot

set_option linter.unusedSimpArgs false
set_option linter.unusedVariables false

namespace SimProc
namespace C04W
open World C04
open SS (Key key cls)

/-! ### station invariant: monotonicity, irrelevant arguments -/

theorem PD.mono_now {L : Line} {now now' : Int} {j : Nat} {d : Dyn} {xp xj xn : Nat} {m : Mode}
    (h : PD L now j d xp xj xn m) (hn : now ≤ now') : PD L now' j d xp xj xn m :=
  { past := Int.le_trans h.past hn, le := h.le, cap := h.cap, idle := h.idle, nonidle := h.nonidle,
    procm := h.procm, readym := h.readym,
    blockedm := fun hm => ⟨(h.blockedm hm).1, Int.le_trans (h.blockedm hm).2.1 hn, (h.blockedm hm).2.2⟩,
    exhm := h.exhm, wds := h.wds, slots := h.slots }

theorem PD.xn_irrel {L : Line} {now : Int} {j : Nat} {d : Dyn} {xp xj xn : Nat} {m : Mode}
    (h : PD L now j d xp xj xn m) (hm : m ≠ .blocked) (xn' : Nat) : PD L now j d xp xj xn' m :=
  { past := h.past, le := h.le, cap := h.cap, idle := h.idle, nonidle := h.nonidle,
    procm := h.procm, readym := h.readym, blockedm := fun hb => absurd hb hm,
    exhm := h.exhm, wds := h.wds, slots := h.slots }

/-! ### the invariant with holes -/

/-- The run invariant, except that nothing is claimed about the stations of `H`. -/
structure InvH (P : Par) (T : Int) (s : S) (x : Nat → Nat) (m : Nat → Mode) (H : List Nat) : Prop where
  good : Good P s
  sorted : SortedEv s.evs
  fut : ∀ e ∈ s.evs, s.now ≤ e.time
  cover : ∀ e ∈ s.evs, Cov P.L e
  nowT : s.now ≤ T
  term : s.term = false
  kT : cls (-1) s.evs = [termKey T]
  di : ∀ j, j ≤ P.L.n → j ∉ H → DI P s j (xin x j) (x j) (x (j + 1)) (m j)
  bud : ∀ B, P.L.budget = some B → x 0 ≤ B

theorem Inv.toH {P : Par} {T : Int} {s : S} {x : Nat → Nat} {m : Nat → Mode} (h : Inv P T s x m)
    (H : List Nat) : InvH P T s x m H :=
  ⟨h.good, h.sorted, h.fut, h.cover, h.nowT, h.term, h.kT, fun j hj _ => h.di j hj, h.bud⟩

theorem InvH.widen {P : Par} {T : Int} {s : S} {x : Nat → Nat} {m : Nat → Mode} {H H' : List Nat}
    (h : InvH P T s x m H) (hh : ∀ j, j ∈ H → j ∈ H') : InvH P T s x m H' :=
  ⟨h.good, h.sorted, h.fut, h.cover, h.nowT, h.term, h.kT,
    fun j hj hn => h.di j hj (fun hm => hn (hh j hm)), h.bud⟩

theorem DI.frame {P : Par} {s s' : S} {H : List Nat} {j xp xj xn : Nat} {m : Mode}
    (h : DI P s j xp xj xn m) (F : Foot P.L H s s') (hj : j ∉ H) : DI P s' j xp xj xn m where
  keys := by rw [F.kj j hj]; exact h.keys
  pd := by rw [F.dvj j hj, F.now]; exact h.pd
  ent := fun h1 => by rw [F.rt j hj]; exact h.ent h1
  plen := fun h0 => by
    subst h0
    rw [F.plen hj]; exact h.plen rfl

/-- Closing the holes: the stations of `H` satisfy their invariant again (for new counts and modes),
the others are untouched. -/
theorem InvH.close {P : Par} {T : Int} {s s' : S} {x x' : Nat → Nat} {m m' : Nat → Mode} {H : List Nat}
    (h : InvH P T s x m H) (F : Foot P.L H s s') (hG : Good P s')
    (hD : ∀ j, j ≤ P.L.n → j ∈ H → DI P s' j (xin x' j) (x' j) (x' (j + 1)) (m' j))
    (hx : ∀ j, j ≤ P.L.n → j ∉ H →
      xin x' j = xin x j ∧ x' j = x j ∧ x' (j + 1) = x (j + 1) ∧ m' j = m j)
    (hb : ∀ B, P.L.budget = some B → x' 0 ≤ B) : Inv P T s' x' m' where
  good := hG
  sorted := F.sorted h.sorted
  fut := fun e he => by rw [F.now]; exact F.fut h.fut e he
  cover := F.cover h.cover
  nowT := by rw [F.now]; exact h.nowT
  term := by rw [F.term]; exact h.term
  kT := by rw [F.kT]; exact h.kT
  di := fun j hj => by
    by_cases hm : j ∈ H
    · exact hD j hj hm
    · obtain ⟨e1, e2, e3, e4⟩ := hx j hj hm
      rw [e1, e2, e3, e4]
      exact (h.di j hj hm).frame F hm
  bud := hb

/-! ### taking the head of the queue -/

theorem Foot.dyn_eq {L : Line} {H : List Nat} {s s' : S} (F : Foot L H s s') {j : Nat} (hj : j ∉ H) :
    dyn (C04W.dv s' j) = dyn (C04W.dv s j) := by rw [F.dvj j hj]

theorem cls_cons_eq {c : Int} {e : Event} (l : List Event) (h : e.asset = c) :
    cls c (e :: l) = key e :: cls c l := by rw [SS.cls_cons, if_pos h]

theorem cls_cons_ne {c : Int} {e : Event} (l : List Event) (h : e.asset ≠ c) :
    cls c (e :: l) = cls c l := by rw [SS.cls_cons, if_neg h]

theorem Good.pop {P : Par} {s : S} (h : Good P s) (e : Event) (rest : List Event) (he : 0 ≤ e.time) :
    Good P (pop s e rest) := ⟨h.stat, h.pok, he⟩

/-- After popping an event of station `j0`, every other station still satisfies its invariant (at
the new time), and so does `j0` except for its pending events. -/
theorem Inv.pop {P : Par} {T : Int} {s : S} {x : Nat → Nat} {m : Nat → Mode} (h : Inv P T s x m)
    {e : Event} {rest : List Event} (hs : s.evs = e :: rest) {j0 : Nat} (ha : e.asset = (j0 : Int) + 1)
    (hj0 : j0 ≤ P.L.n) :
    InvH P T (pop s e rest) x m [j0] ∧ e.time ≤ T ∧ s.now ≤ e.time ∧
    key e :: cls ((j0 : Int) + 1) rest = keysOf P.L j0 (x j0) (m j0) ∧
    PD P.L e.time j0 (dyn (dv s j0)) (xin x j0) (x j0) (x (j0 + 1)) (m j0) := by
  have hsrt := h.sorted
  rw [hs] at hsrt
  have hle : s.now ≤ e.time := h.fut e (by simp [hs])
  have hT : e.time ≤ T := by
    have kT := h.kT
    rw [hs, cls_cons_ne _ (by omega)] at kT
    exact SS.notlater_of_key hsrt (c := -1) (t := T) (pr := 4) (a := -1) (act := 0) (b := false)
      (by rw [kT]; exact List.mem_singleton.2 rfl)
  refine ⟨⟨h.good.pop e rest (by have := h.good.now0; omega), hsrt.tail, ?_, ?_, hT, rfl, ?_, ?_, h.bud⟩,
    hT, hle, ?_, (h.di j0 hj0).pd.mono_now hle⟩
  · intro e' he'
    exact Event.nlt_time (hsrt.head_min e' he')
  · intro e' he'
    exact h.cover e' (by rw [hs]; exact List.mem_cons_of_mem _ he')
  · have kT := h.kT
    rw [hs, cls_cons_ne _ (by omega)] at kT
    exact kT
  · intro j hj hn
    have hne : j ≠ j0 := by simpa using hn
    have d := h.di j hj
    refine ⟨?_, d.pd.mono_now hle, d.ent, d.plen⟩
    have := d.keys
    rw [hs, cls_cons_ne _ (by omega)] at this
    exact this
  · have := (h.di j0 hj0).keys
    rw [hs, cls_cons_eq _ ha] at this
    exact this


/-! ### slot contents: congruence -/

theorem Slots.congr {L : Line} {j : Nat} {d d' : Dyn} {xp xj : Nat} {m m' : Mode}
    (h : Slots L j d xp xj m) (h1 : d'.part = d.part) (h2 : d'.output = d.output) (h3 : d'.buf = d.buf)
    (h4 : d'.level = d.level) (h5 : d'.produced = d.produced) (h6 : d'.recvCount = d.recvCount)
    (hp : m' = .proc ↔ m = .proc) (hi : m' = .idle ↔ m = .idle) : Slots L j d' xp xj m' := by
  unfold Slots at *
  rw [h1, h2, h3, h4, h5, h6]
  generalize kindOf L j = k at *
  cases k <;> first | exact h | (simp only [hp, hi, ne_eq] at h ⊢; exact h)

/-- The pending PASS event after `_schedule_pass_part_downstream`. -/
theorem cls_passS_same {P : Par} {s : S} (hG : Good P s) {j : Nat} (hj : j ≤ P.L.n) (off : Int)
    (hk : cls ((j : Int) + 1) s.evs = []) :
    cls ((j : Int) + 1) (passS P s j off).evs = [(s.now + off, 28, (j : Int) + 1, 3 + 16 * j, false)] := by
  unfold passS
  rw [hG.aid hj]
  exact SS.cls_insort_eq _ _ _ rfl hk

theorem dyn_passS_same (P : Par) (s : S) (j : Nat) (off : Int) (hj : j < s.ds.length) :
    dyn (dv (passS P s j off) j) = { dyn (dv s j) with wds := false } := by
  rw [dv_passS_same _ _ _ _ hj]; rfl

/-! ### waking up a blocked station -/

def wakeMode (now : Int) (m : Mode) : Mode := if m = .blocked then .ready now else m

theorem wake_spec {P : Par} {s : S} (hG : Good P s) {u : Nat} (hu : u < P.L.n) {xp xu xn : Nat} {mu : Mode}
    (hk : cls ((u : Int) + 1) s.evs = keysOf P.L u xu mu)
    (hpd : PD P.L s.now u (dyn (dv s u)) xp xu xn mu)
    (hlb : mu = .blocked → s.now ≤ dI P.L u (xu + 1)) (xn' : Nat) :
    cls ((u : Int) + 1) (wakeS P s u).evs = keysOf P.L u xu (wakeMode s.now mu) ∧
    PD P.L s.now u (dyn (dv (wakeS P s u) u)) xp xu xn' (wakeMode s.now mu) := by
  have hlt := hG.stat.lt (Nat.le_of_lt hu)
  unfold wakeS wakeMode
  by_cases hb : mu = .blocked
  · have hw : (dv s u).waitingDS = true := hpd.wds.2 hb
    subst hb
    rw [if_pos hw, if_pos rfl]
    obtain ⟨_, hge, _⟩ := hpd.blockedm rfl
    refine ⟨?_, ?_⟩
    · rw [cls_passS_same hG (Nat.le_of_lt hu) 0 hk]
      simp [keysOf]
    · rw [dyn_passS_same _ _ _ _ hlt]
      exact { past := hpd.past, le := hpd.le, cap := hpd.cap, idle := (by intro h; cases h),
              nonidle := fun h1 _ => hpd.nonidle h1 (by simp), procm := (by intro h; cases h),
              readym := (by
                intro t ht
                cases ht
                exact ⟨hu, hge, hlb rfl⟩),
              blockedm := (by intro h; cases h), exhm := (by intro h; cases h),
              wds := (by simp),
              slots := hpd.slots.congr rfl rfl rfl rfl rfl rfl (by simp) (by simp) }
  · have hw : ¬ (dv s u).waitingDS = true := fun h => hb (hpd.wds.1 h)
    rw [if_neg hw, if_neg hb]
    exact ⟨hk, hpd.xn_irrel hb xn'⟩

/-! ### `_set_waiting_for_part`, notifications -/

@[simp] theorem waitS_evs (s : S) (j : Nat) : (waitS s j).evs = s.evs := by
  unfold waitS waitS0
  split
  · split <;> rfl
  · rfl
@[simp] theorem waitS_recs (s : S) (j : Nat) : (waitS s j).recs = s.recs := by
  unfold waitS waitS0
  split
  · split <;> rfl
  · rfl
@[simp] theorem waitS_parts (s : S) (j : Nat) : (waitS s j).parts = s.parts := by
  unfold waitS waitS0
  split
  · split <;> rfl
  · rfl

theorem dyn_waitS (s : S) (j i : Nat) (hj : j < s.ds.length) : dyn (dv (waitS s j) i) = dyn (dv s i) := by
  unfold waitS waitS0
  split
  · split
    · rfl
    · rw [dv_setD _ _ _ _ hj]
      split
      · next h => subst h; rfl
      · rfl
  · rfl

theorem dv_waitS_ne (s : S) (j i : Nat) (h : i ≠ j) : dv (waitS s j) i = dv s i := by
  unfold waitS waitS0
  split
  · split
    · rfl
    · exact dv_setD_ne _ _ _ _ h
  · rfl

theorem notifyS_zero (P : Par) (s : S) (h : (dv s 0).kind ≠ .buffer) : notifyS P s 0 = waitS s 0 := by
  unfold notifyS
  rw [if_neg (fun hh => h hh.1), if_pos rfl]

theorem notifyS_wake (P : Par) (s : S) {j : Nat} (hj : j ≠ 0)
    (h : ¬ ((dv s j).kind = .buffer ∧ bufRoom (dv s j) = false)) :
    notifyS P s j = wakeS P (waitS s j) (j - 1) := by
  unfold notifyS
  rw [if_neg h, if_neg hj]

theorem notifyS_none (P : Par) (s : S) {j : Nat}
    (h : (dv s j).kind = .buffer ∧ bufRoom (dv s j) = false) : notifyS P s j = s := by
  unfold notifyS
  rw [if_pos h]

/-- A notification does not change the notifying station itself (apart from `since`). -/
theorem notifyS_self {P : Par} {s : S} (hG : Good P s) {j : Nat} (hj : j ≤ P.L.n) :
    dyn (dv (notifyS P s j) j) = dyn (dv s j) ∧
    cls ((j : Int) + 1) (notifyS P s j).evs = cls ((j : Int) + 1) s.evs ∧
    (notifyS P s j).recs = s.recs ∧ (notifyS P s j).parts = s.parts := by
  have hlt := hG.stat.lt hj
  unfold notifyS
  split
  · exact ⟨rfl, rfl, rfl, rfl⟩
  · split
    · exact ⟨dyn_waitS s j j hlt, by simp, by simp, by simp⟩
    · next h0 =>
      have hG' := hG.waitS j
      have F := Foot.wakeS hG' (by omega : j - 1 ≤ P.L.n)
      have hne : j ∉ [j - 1] := by simp; omega
      refine ⟨by rw [F.dvj j hne]; exact dyn_waitS s j j hlt, by rw [F.kj j hne]; simp, ?_, ?_⟩
      · unfold wakeS; split <;> simp [passS]
      · unfold wakeS; split <;> simp [passS]

/-! ### slot contents by kind -/

theorem Slots_source {L : Line} {j : Nat} (hk : kindOf L j = .source) (d : Dyn) (xp xj : Nat) (m : Mode) :
    Slots L j d xp xj m ↔
      (d.part = none ∧ (d.output.isSome = true ↔ m ≠ .proc) ∧ d.produced = (xj : Int)) := by
  unfold Slots; rw [hk]

theorem Slots_hp {L : Line} {j : Nat} (hk : kindOf L j = .handler ∨ kindOf L j = .processor) (d : Dyn)
    (xp xj : Nat) (m : Mode) :
    Slots L j d xp xj m ↔
      ((d.part.isSome = true ↔ m = .proc) ∧ (d.output.isSome = true ↔ (m ≠ .proc ∧ m ≠ .idle))) := by
  unfold Slots; rcases hk with hk | hk <;> rw [hk]

theorem Slots_buffer {L : Line} {j : Nat} (hk : kindOf L j = .buffer) (d : Dyn) (xp xj : Nat) (m : Mode) :
    Slots L j d xp xj m ↔
      (d.part = none ∧ d.output = none ∧ d.level = xp - xj ∧
        d.buf.map (·.1) = (List.range (xp - xj)).map (fun i => eI L j (xj + 1 + i))) := by
  unfold Slots; rw [hk]

theorem Slots_sink {L : Line} {j : Nat} (hk : kindOf L j = .sink) (d : Dyn) (xp xj : Nat) (m : Mode) :
    Slots L j d xp xj m ↔
      ((d.part.isSome = true ↔ m = .proc) ∧ d.output = none ∧ d.recvCount = (xp : Int)) := by
  unfold Slots; rw [hk]

theorem isBuf_of_kind {L : Line} {j : Nat} {k : Kind} (hk : kindOf L j = k) : isBuf L j = (k == .buffer) := by
  unfold isBuf; rw [hk]

/-- Modes of the sink. -/
theorem PD.sink_mode {L : Line} {now : Int} {d : Dyn} {xp xj xn : Nat} {m : Mode}
    (h : PD L now L.n d xp xj xn m) : m = .proc ∨ m = .idle := by
  have hn : 0 < L.n := by unfold Line.n; omega
  cases m with
  | idle => exact Or.inr rfl
  | proc => exact Or.inl rfl
  | ready t => exact absurd (h.readym t rfl).1 (Nat.lt_irrefl _)
  | blocked => exact absurd (h.blockedm rfl).1 (Nat.lt_irrefl _)
  | exhausted => have := (h.exhm rfl).1; omega

/-- Can station `i` take a part?  In terms of the counts. -/
theorem canAcc_nonbuf {L : Line} {s : S} (hS : Stat L s.ds) {i : Nat} (h1 : 1 ≤ i) (hi : i ≤ L.n)
    (hb : isBuf L i = false) {now : Int} {xp xi xn : Nat} {m : Mode}
    (hpd : PD L now i (dyn (dv s i)) xp xi xn m) : canAcc (dv s i) = true ↔ m = .idle := by
  have hf := hS.facts hi
  have hkb : (dv s i).kind ≠ .buffer := by
    rw [hf.kind]; intro h; unfold isBuf at hb; rw [h] at hb; simp at hb
  have hc : canAcc (dv s i) = ((dv s i).part.isNone && (dv s i).output.isNone) := by
    unfold canAcc
    split
    · next h => exact absurd h hkb
    · simp
  rw [hc]
  rcases kindOf_cases L i with h | h | h | h | h
  · have := (kindOf_source_iff L i hi).1 h; omega
  · have hs := (Slots_hp (Or.inl h) _ _ _ _).1 hpd.slots
    simp only [dyn] at hs
    cases m <;> cases hp : (dv s i).part <;> cases ho : (dv s i).output <;> simp_all
  · have hs := (Slots_hp (Or.inr h) _ _ _ _).1 hpd.slots
    simp only [dyn] at hs
    cases m <;> cases hp : (dv s i).part <;> cases ho : (dv s i).output <;> simp_all
  · unfold isBuf at hb; rw [h] at hb; simp at hb
  · have hin : i = L.n := (kindOf_sink_iff L i hi).1 h
    subst hin
    have hs := (Slots_sink h _ _ _ _).1 hpd.slots
    simp only [dyn] at hs
    rcases hpd.sink_mode with hm | hm <;> subst hm <;>
      cases hp : (dv s L.n).part <;> cases ho : (dv s L.n).output <;> simp_all

theorem kind_buffer_of_isBuf {L : Line} {j : Nat} (h : isBuf L j = true) : kindOf L j = .buffer := by
  unfold isBuf at h
  simpa using h

theorem room_iff {L : Line} {s : S} (hS : Stat L s.ds) {i : Nat} (h1 : 1 ≤ i) (hi : i ≤ L.n)
    {now : Int} {xp xi xn : Nat} {m : Mode} (hpd : PD L now i (dyn (dv s i)) xp xi xn m) :
    canAcc (dv s i) = true ↔ ∀ K, (stn L i).effCap = some K → xp < xi + K := by
  have hle := hpd.le h1
  cases hb : isBuf L i
  · rw [canAcc_nonbuf hS h1 hi hb hpd, effCap_nonbuf L hi hb]
    constructor
    · intro hm K hK
      have := (hpd.idle hm).2
      simp at hK; omega
    · intro h
      have := h 1 rfl
      by_cases hm : m = .idle
      · exact hm
      · have := hpd.nonidle h1 hm; omega
  · have hk := kind_buffer_of_isBuf hb
    have hf := hS.facts hi
    have hs := (Slots_buffer hk _ _ _ _).1 hpd.slots
    simp only [dyn] at hs
    obtain ⟨hp, ho, hl, _⟩ := hs
    rw [effCap_buf L hi hb]
    have hcap : (dv s i).cap = (stn L i).cap := by rw [hf.cap, hb]; rfl
    unfold canAcc
    rw [hf.kind, hk, hp, ho, hcap, hl]
    cases (stn L i).cap with
    | none => simp
    | some c =>
      simp
      omega

theorem full_of_not_room {L : Line} {s : S} (hS : Stat L s.ds) {i : Nat} (h1 : 1 ≤ i) (hi : i ≤ L.n)
    {now : Int} {xp xi xn : Nat} {m : Mode} (hpd : PD L now i (dyn (dv s i)) xp xi xn m)
    (hc : canAcc (dv s i) = false) : ∃ K, (stn L i).effCap = some K ∧ xp = xi + K := by
  have hn : ¬ ∀ K, (stn L i).effCap = some K → xp < xi + K := by
    rw [← room_iff hS h1 hi hpd, hc]; simp
  cases hK : (stn L i).effCap with
  | none => exact absurd (fun K h => by rw [hK] at h; cases h) hn
  | some K =>
    refine ⟨K, rfl, ?_⟩
    have := hpd.cap h1 K hK
    by_cases hlt : xp < xi + K
    · exact absurd (fun K' h => by rw [hK] at h; cases h; exact hlt) hn
    · omega

end C04W
end SimProc
