/-
`Model/World.lean`: constructor calls, scripted operations, scripts, the resource check and the
maintainer events preserve every predicate on the slot view that is closed under "a source
generates a part" and "a device with empty slots is added".
-/
import SimProc.Proofs.WorldFrame
import SimProc.Proofs.FloorSteps
namespace SimProc
namespace C02V
open World

structure Closed (P : SV → Prop) : Prop where
  genS : ∀ {z : Nat} {a a' : SV}, P a → GenS z a a' → P a'
  addDev : ∀ {a : SV} (d : SDev), P a → d.held = [] → P { a with devs := a.devs ++ [d] }

theorem closed_consV : Closed ConsV := ⟨fun h g => consV_genS h g, fun d h hd => consV_addDev h d hd⟩
theorem closed_inv : Closed Inv :=
  ⟨fun h g => ⟨consV_genS h.1 g, extraV_genS h.1 h.2 g⟩, fun d h hd => ⟨consV_addDev h.1 d hd, extraV_addDev h.2 d hd⟩⟩

def SpecOK' : AssetSpec → Prop
  | .dev d => (sdev d).held = []
  | _ => True

def OpOK' : Op → Prop
  | .create spec => SpecOK' spec
  | _ => True

def ScriptsOK' (w : World) : Prop := ∀ l ∈ w.scripts, ∀ op ∈ l, OpOK' op

/-! ### initialisation of a device -/

def initFlag (w : World) (x : Nat) : World :=
  w.modDev x (fun d => { d with inited := true, val := d.val.reset })

theorem sv_initFlag (w : World) (x : Nat) : sv (initFlag w x) = sv w := sv_modDev_same _ _ _ (fun _ => rfl)
theorem st_initFlag (w : World) (x : Nat) : st (initFlag w x) = st w := st_modDev_same _ _ _ (fun _ => rfl)

theorem initDev_eq (w : World) (x : Nat) : w.initDev x =
    match ((initFlag w x).dev x).kind with
    | .gate | .gpath | .ginput | .goutput => initFlag w x
    | .processor =>
      ((initFlag w x).setWaiting x true true).modDev x
        (fun d => { d with lastRestore := some ((initFlag w x).setWaiting x true true).now })
    | .source => ((initFlag w x).setWaiting x true true).scheduleFinish x
    | _ => (initFlag w x).setWaiting x true true := rfl

theorem genS_initDev (w : World) (x : Nat) : GenS x (sv w) (sv (w.initDev x)) := by
  rw [initDev_eq]
  split
  · rw [sv_initFlag]; exact GenS.refl _
  · rw [sv_initFlag]; exact GenS.refl _
  · rw [sv_initFlag]; exact GenS.refl _
  · rw [sv_initFlag]; exact GenS.refl _
  · rw [sv_modDev_same, sv_setWaiting, sv_initFlag]
    · exact GenS.refl _
    · intro _; rfl
  · rename_i hk
    have := genS_scheduleFinish_source ((initFlag w x).setWaiting x true true) x
      (by rw [kind_of_st (st_setWaiting ..) x]; exact hk)
    rw [sv_setWaiting, sv_initFlag] at this
    exact this
  · rw [sv_setWaiting, sv_initFlag]; exact GenS.refl _

/-! ### constructor calls -/

def addDev1 (w : World) (d : Dev) : World :=
  { w with devs := w.devs ++ [{ d with aid := w.assets.length + 1, up := [] }],
           assets := w.assets ++ [AssetRef.dev w.devs.length] }

def regPath (w : World) (d : Dev) (i : Nat) : World :=
  if d.kind == .gpath then
    let gr := w.groups.getD d.group default
    { w with groups := w.groups.set d.group { gr with paths := gr.paths ++ [i] } }
  else w

theorem addDev_eq (w : World) (d : Dev) : w.addDev d =
    if (regPath ((addDev1 w d).rewire w.devs.length d.up) d w.devs.length).started then
      (regPath ((addDev1 w d).rewire w.devs.length d.up) d w.devs.length).initAsset (.dev w.devs.length)
    else regPath ((addDev1 w d).rewire w.devs.length d.up) d w.devs.length := rfl

theorem sv_regPath (w : World) (d : Dev) (i : Nat) : sv (regPath w d i) = sv w := by
  unfold regPath; split <;> rfl
theorem scr_regPath (w : World) (d : Dev) (i : Nat) : (regPath w d i).scripts = w.scripts := by
  unfold regPath; split <;> rfl

theorem sv_addDev1 (w : World) (d : Dev) : sv (addDev1 w d) = { sv w with devs := (sv w).devs ++ [sdev d] } := by
  simp [sv, addDev1, sdev]

theorem scr_addDev (w : World) (d : Dev) : (w.addDev d).scripts = w.scripts := by
  rw [addDev_eq]
  split
  · rw [scr_initAsset, scr_regPath, scr_rewire]; rfl
  · rw [scr_regPath, scr_rewire]; rfl

theorem scr_addAsset (w : World) (spec : AssetSpec) : (w.addAsset spec).scripts = w.scripts := by
  cases spec with
  | dev d => exact scr_addDev w d
  | group gid devs ins outs =>
    unfold World.addAsset
    simp only []
    rw [scr_rewire, scr_addDev, foldl_proj World.scripts _ _ _ (fun _ _ => scr_rewire ..), scr_addDev]
  | maint cap v =>
    unfold World.addAsset; simp only []
    split
    · rw [scr_initAsset]
    · rfl
  | sched tt cyc =>
    unfold World.addAsset; simp only []
    split
    · rw [scr_initAsset]
    · rfl
  | sensor sw =>
    unfold World.addAsset; simp only []
    split
    · rw [scr_initAsset]
    · rfl
  | cms => rfl

theorem sv_applyOp_noncreate (w : World) (op : Op) (h : ∀ s, op ≠ .create s) : sv (w.applyOp op).1 = sv w := by
  cases op
  case create s => exact absurd rfl (h s)
  all_goals (unfold World.applyOp; frame')

theorem scr_applyOp (w : World) (op : Op) : (w.applyOp op).1.scripts = w.scripts := by
  cases op
  case create s => exact scr_addAsset w s
  all_goals (unfold World.applyOp; frame')

section
variable {P : SV → Prop} (hP : Closed P)
include hP

theorem pres_initAsset (w : World) (a : AssetRef) (h : P (sv w)) : P (sv (w.initAsset a)) := by
  cases a with
  | dev d => exact hP.genS h (genS_initDev w d)
  | maint m => rw [sv_initAsset_nondev _ _ (by intro d hd; cases hd)]; exact h
  | sched m => rw [sv_initAsset_nondev _ _ (by intro d hd; cases hd)]; exact h
  | sensor m => rw [sv_initAsset_nondev _ _ (by intro d hd; cases hd)]; exact h
  | cms m => rw [sv_initAsset_nondev _ _ (by intro d hd; cases hd)]; exact h

theorem pres_addDev (w : World) (d : Dev) (h : P (sv w)) (hd : (sdev d).held = []) : P (sv (w.addDev d)) := by
  have h1 : P (sv (regPath ((addDev1 w d).rewire w.devs.length d.up) d w.devs.length)) := by
    rw [sv_regPath, sv_rewire, sv_addDev1]; exact hP.addDev (sdev d) h hd
  rw [addDev_eq]
  split
  · exact pres_initAsset hP _ _ h1
  · exact h1

theorem pres_addAsset (w : World) (spec : AssetSpec) (h : P (sv w)) (hs : SpecOK' spec) :
    P (sv (w.addAsset spec)) := by
  cases spec with
  | dev d => exact pres_addDev hP w d h hs
  | group gid devs ins outs =>
    unfold World.addAsset
    simp only []
    rw [sv_rewire]
    apply pres_addDev hP _ _ _ rfl
    rw [foldl_proj sv _ _ _ (fun _ _ => sv_rewire ..)]
    exact pres_addDev hP _ _ h rfl
  | maint cap v =>
    unfold World.addAsset; simp only []
    split
    · exact pres_initAsset hP _ _ h
    · exact h
  | sched tt cyc =>
    unfold World.addAsset; simp only []
    split
    · exact pres_initAsset hP _ _ h
    · exact h
  | sensor sw =>
    unfold World.addAsset; simp only []
    split
    · exact pres_initAsset hP _ _ h
    · exact h
  | cms => exact h

theorem pres_applyOp (w : World) (op : Op) (h : P (sv w)) (ho : OpOK' op) : P (sv (w.applyOp op).1) := by
  by_cases hc : ∃ s, op = .create s
  · obtain ⟨s, rfl⟩ := hc
    exact pres_addAsset hP w s h ho
  · rw [sv_applyOp_noncreate w op (fun s hs => hc ⟨s, hs⟩)]; exact h

end

/-- the predicate together with well-formed scripts -/
def Good (P : SV → Prop) (w : World) : Prop := P (sv w) ∧ ScriptsOK' w

theorem scriptsOK_of_eq {w w' : World} (h : w'.scripts = w.scripts) (hs : ScriptsOK' w) : ScriptsOK' w' := by
  unfold ScriptsOK'; rw [h]; exact hs

theorem Good.of_frame {P : SV → Prop} {w w' : World} (h : Good P w) (h1 : sv w' = sv w)
    (h2 : w'.scripts = w.scripts) : Good P w' := ⟨by rw [h1]; exact h.1, scriptsOK_of_eq h2 h.2⟩

section
variable {P : SV → Prop} (hP : Closed P)
include hP

theorem good_applyOps (ops : List Op) : ∀ (w : World), Good P w → (∀ op ∈ ops, OpOK' op) → Good P (w.applyOps ops) := by
  induction ops with
  | nil => intro w h _; exact h
  | cons op ops ih =>
    intro w h hok
    unfold World.applyOps
    simp only [List.foldl_cons]
    apply ih
    · exact ⟨pres_applyOp hP w op h.1 (hok op (List.mem_cons_self ..)),
        scriptsOK_of_eq (scr_applyOp w op) h.2⟩
    · exact fun o ho => hok o (List.mem_cons_of_mem _ ho)

theorem good_runScript (w : World) (k : Nat) (h : Good P w) : Good P (w.runScript k) := by
  unfold World.runScript
  apply good_applyOps hP _ _ h
  intro op hop
  by_cases hk : k < w.scripts.length
  · have : w.scripts.getD k [] = w.scripts[k] := by simp [List.getD_eq_getElem?_getD, hk]
    rw [this] at hop
    exact h.2 _ (List.getElem_mem hk) op hop
  · have : w.scripts.getD k [] = [] := by simp [List.getD_eq_getElem?_getD, Nat.le_of_not_lt hk]
    rw [this] at hop; cases hop

theorem good_scan (n : Nat) : ∀ (w : World) (i : Nat), Good P w → Good P (scanWaiting scanOps n w i) := by
  induction n with
  | zero => intro w i h; exact h
  | succ n ih =>
    intro w i h
    unfold scanWaiting
    split
    · exact h
    · split
      · apply ih
        rename_i req cb _ _
        cases cb with
        | script k =>
          have := good_runScript hP (w.addRes (.cb k)) k (h.of_frame rfl rfl)
          exact this.of_frame rfl rfl
        | proc d =>
          exact (h.of_frame (sv_procResourceCb w d) (scr_procResourceCb w d)).of_frame rfl rfl
      · exact ih _ _ h

theorem good_rmCheck (w : World) (h : Good P w) : Good P w.rmCheck := good_scan hP _ _ _ h

theorem good_hookStart (w : World) (tgt : Nat) (tag : Int) (h : Good P w) : Good P (w.hookStart tgt tag) := by
  unfold World.hookStart
  simp only []
  split
  · exact h.of_frame (by frame) (by frame)
  · split
    · exact good_runScript hP _ _ (h.of_frame rfl rfl)
    · exact h.of_frame rfl rfl

theorem good_hookEnd (w : World) (tgt : Nat) (tag : Int) (h : Good P w) : Good P (w.hookEnd tgt tag) := by
  unfold World.hookEnd
  simp only []
  split
  · exact h.of_frame (by frame) (by frame)
  · split
    · exact good_runScript hP _ _ (h.of_frame rfl rfl)
    · exact h.of_frame rfl rfl

theorem good_startWork (w : World) (m seq : Nat) (h : Good P w) : Good P (w.startWork m seq) := by
  have key : ∀ w' : World, sv w' = sv w → w'.scripts = w.scripts → ∀ t g a b c d,
      Good P ((w'.hookStart t g).schedLib a b c d) := fun w' e1 e2 t g a b c d =>
    (good_hookStart hP w' t g (h.of_frame e1 e2)).of_frame (sv_schedLib ..) (scr_schedLib ..)
  unfold World.startWork
  split
  · exact h.of_frame (sv_setErr ..) (scr_setErr ..)
  · simp only []
    refine key _ ?_ ?_ _ _ _ _ _ _ <;> rfl

theorem good_finishWork (w : World) (m seq : Nat) (h : Good P w) : Good P (w.finishWork m seq) := by
  have key : ∀ w' : World, Good P w' → ∀ w'' : World, sv w'' = sv w' → w''.scripts = w'.scripts →
      ∀ m l, Good P (w''.startOrders m l) := fun w' h' w'' e1 e2 m l =>
    (h'.of_frame e1 e2).of_frame (sv_startOrders ..) (scr_startOrders ..)
  unfold World.finishWork
  split
  · exact h.of_frame (sv_setErr ..) (scr_setErr ..)
  · simp only []
    rename_i o _
    refine key _ (good_hookEnd hP w o.target o.tag h) _ ?_ ?_ _ _ <;> rfl

end
end C02V
end SimProc
