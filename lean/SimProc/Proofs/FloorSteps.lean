/-
Effect of the slot-changing functions of `Model/Floor.lean` on the slot view, as moves of one device.
-/
import SimProc.Proofs.FloorSt
import SimProc.Proofs.SVInv
namespace SimProc
namespace C02V
open World

/-! ### indices -/

theorem dev_of_ge (w : World) (x : Nat) (h : w.devs.length ≤ x) : w.dev x = default := by
  simp [World.dev, List.getD_eq_getElem?_getD, List.getElem?_eq_none h]

theorem setDev_of_ge (w : World) (x : Nat) (d : Dev) (h : w.devs.length ≤ x) : w.setDev x d = w := by
  simp [World.setDev, List.set_eq_of_length_le h]

theorem sv_get (w : World) (x : Nat) (h : x < w.devs.length) : (sv w).devs[x]? = some (sdev (w.dev x)) := by
  simp [sv, World.dev, List.getD_eq_getElem?_getD, h]

theorem lt_of_part {w : World} {x p : Nat} (h : (w.dev x).part = some p) : x < w.devs.length := by
  by_cases hx : x < w.devs.length
  · exact hx
  · rw [dev_of_ge w x (Nat.le_of_not_lt hx)] at h; cases h

theorem lt_of_output {w : World} {x p : Nat} (h : (w.dev x).output = some p) : x < w.devs.length := by
  by_cases hx : x < w.devs.length
  · exact hx
  · rw [dev_of_ge w x (Nat.le_of_not_lt hx)] at h; cases h

theorem lt_of_kind {w : World} {x : Nat} (h : (w.dev x).kind ≠ .handler) : x < w.devs.length := by
  by_cases hx : x < w.devs.length
  · exact hx
  · rw [dev_of_ge w x (Nat.le_of_not_lt hx)] at h; exact absurd rfl h

theorem lt_of_buf {w : World} {x : Nat} (h : (w.dev x).buf ≠ []) : x < w.devs.length := by
  by_cases hx : x < w.devs.length
  · exact hx
  · rw [dev_of_ge w x (Nat.le_of_not_lt hx)] at h; exact absurd rfl h

theorem kids_get (w : World) (p : Nat) : (sv w).kids.getD p none = (w.part p).kids := by
  simp only [sv, World.part, List.getD_eq_getElem?_getD, List.getElem?_map]
  cases w.parts[p]? <;> rfl

theorem leaves_eq (w : World) (p : Nat) : (sv w).leaves p = w.leavesOf p := by
  unfold SV.leaves World.leavesOf; rw [kids_get]; cases (w.part p).kids <;> rfl

/-! ### a `setDev` that rearranges the slots -/

theorem steps_setDev_rearr (w : World) (x : Nat) (d' : Dev) (r : List Nat)
    (hk : d'.kind = (w.dev x).kind)
    (hp : (sdev (w.dev x)).held.Perm (r ++ (sdev d').held))
    (hr : (w.dev x).kind = .sink ∨ ∀ q ∈ r, w.leavesOf q = [])
    (hi : ∀ b, d'.inprog = some b → (w.dev x).inprog = some b) :
    Steps x (sv w) (sv (w.setDev x d')) := by
  by_cases hx : x < w.devs.length
  · rw [sv_setDev]
    refine Steps.single (Move.rearr _ _ _ r (sv_get w x hx) hk hp ?_ hi)
    cases hr with
    | inl h => exact Or.inl h
    | inr h => exact Or.inr (fun q hq => by rw [leaves_eq]; exact h q hq)
  · rw [setDev_of_ge w x d' (Nat.le_of_not_lt hx)]; exact Steps.refl _

theorem steps_of_sv {x : Nat} {w w' : World} (h : sv w' = sv w) : Steps x (sv w) (sv w') := by
  rw [h]; exact Steps.refl _

/-! ### `finishCycleHandler` -/

theorem steps_finishCycleHandler (w : World) (x : Nat) :
    Steps x (sv w) (sv (w.finishCycleHandler x)) := by
  unfold World.finishCycleHandler
  simp only []
  split
  · exact steps_of_sv (sv_setErr ..)
  · split
    · exact steps_of_sv (sv_setErr ..)
    · rename_i p hp
      split
      · exact steps_of_sv (sv_setErr ..)
      · rename_i ho
        rw [sv_schedulePass]
        refine steps_setDev_rearr w x _ [] rfl ?_ (Or.inr (by simp)) (fun b h => h)
        have ho' : (w.dev x).output = none := by
          cases h : (w.dev x).output <;> simp_all
        simp [SDev.held, sdev, hp, ho']


/-! ### `finishCycle` -/

/-- nothing, or one generated part -/
inductive GenS (z : Nat) : SV → SV → Prop
  | refl (a : SV) : GenS z a a
  | gen (a a' : SV) : Gen z a a' → GenS z a a'

theorem GenS.steps {z : Nat} {a a' : SV} (h : GenS z a a') : Steps z a a' := by
  cases h with
  | refl => exact Steps.refl _
  | gen _ h => exact Steps.single (Move.gen _ _ h)

theorem consV_genS {z : Nat} {a a' : SV} (hc : ConsV a) (h : GenS z a a') : ConsV a' := by
  cases h with
  | refl => exact hc
  | gen _ h => exact consV_gen hc h

theorem extraV_genS {z : Nat} {a a' : SV} (hc : ConsV a) (he : ExtraV a) (h : GenS z a a') : ExtraV a' := by
  cases h with
  | refl => exact he
  | gen _ h => exact extraV_gen hc he h

theorem gen_source (w : World) (x : Nat) (hx : x < w.devs.length) (hk : (w.dev x).kind ≠ .sink)
    (ho : (w.dev x).output = none) :
    Gen x (sv w) (sv ((w.genPart x).1.modDev x (fun d => { d with output := some (w.genPart x).2 }))) := by
  cases h : ((w.dev x).genBatch == 0)
  · rw [genPart_batch w x h]
    have := Gen.batch (z := x) (sv w) (sdev (w.dev x)) (w.dev x).genBatch.toNat (sv_get w x hx) hk ho
    simp only [sv, World.modDev, World.setDev, World.dev, List.map_set, List.map_append, List.map_replicate,
      List.map_cons, List.map_nil, List.length_map] at this ⊢
    exact this
  · rw [genPart_leaf w x h]
    have := Gen.leaf (z := x) (sv w) (sdev (w.dev x)) (sv_get w x hx) hk ho
    simp only [sv, World.modDev, World.setDev, World.dev, List.map_set, List.map_append,
      List.map_cons, List.map_nil, List.length_map] at this ⊢
    exact this

theorem genS_finishCycle_source (w : World) (x : Nat) (hk : (w.dev x).kind = .source) :
    GenS x (sv w) (sv (w.finishCycle x)) := by
  have hx : x < w.devs.length := lt_of_kind (by rw [hk]; decide)
  unfold World.finishCycle
  simp only [hk]
  rw [sv_schedulePass]
  split
  · rename_i ho
    rw [sv_addHist]
    refine GenS.gen _ _ (gen_source w x hx (by rw [hk]; decide) ?_)
    cases h : (w.dev x).output <;> simp_all
  · exact GenS.refl _

theorem kind_of_st {w w' : World} (h : st w' = st w) (x : Nat) : (w'.dev x).kind = (w.dev x).kind := by
  have h1 : ∀ w : World, (w.dev x).kind = ((st w).devs.getD x (tdev default)).kind := by
    intro w
    simp only [st, World.dev, List.getD_eq_getElem?_getD, List.getElem?_map]
    cases w.devs[x]? <;> rfl
  rw [h1, h1, h]

theorem steps_clearSink (w : World) (x : Nat) (hk : (w.dev x).kind = .sink) :
    Steps x (sv w) (sv (w.modDev x (fun d => { d with output := none }))) := by
  refine steps_setDev_rearr w x _ (w.dev x).output.toList rfl ?_ (Or.inl hk) (fun b h => h)
  rcases h : (w.dev x).output with _ | o
  · simp [SDev.held, sdev, h]
  · simp only [SDev.held, sdev, h, Option.toList_some, Option.toList_none, List.nil_append, List.append_nil,
      List.append_assoc, List.singleton_append]
    exact List.perm_middle

theorem steps_finishCycle (w : World) (x : Nat) : Steps x (sv w) (sv (w.finishCycle x)) := by
  by_cases hsrc : (w.dev x).kind = .source
  · exact (genS_finishCycle_source w x hsrc).steps
  unfold World.finishCycle
  simp only []
  split
  · rename_i h; exact absurd h hsrc
  · rename_i hk
    rw [sv_notify]
    refine (steps_finishCycleHandler w x).trans (steps_clearSink _ x ?_)
    rw [kind_of_st (st_finishCycleHandler w x)]; exact hk
  · refine (steps_finishCycleHandler w x).trans (steps_of_sv ?_)
    frame'
  · exact steps_finishCycleHandler w x


/-! ### `scheduleFinish` -/

theorem scheduleFinish_cases (w : World) (x : Nat) :
    w.scheduleFinish x = (w.setDev x { w.dev x with offset := 0 }).finishCycle x ∨
    sv (w.scheduleFinish x) = sv w := by
  unfold World.scheduleFinish
  simp only []
  generalize (if w.cycleTime x + (w.dev x).offset < 0 then (0 : Int) else w.cycleTime x + (w.dev x).offset) = c
  by_cases hc : c ≤ 0
  · left; rw [if_pos hc]
  · right; rw [if_neg hc, sv_schedLib]; exact sv_setDev_same _ _ _ rfl

theorem sv_setOffset (w : World) (x : Nat) : sv (w.setDev x { w.dev x with offset := 0 }) = sv w :=
  sv_setDev_same _ _ _ rfl

theorem steps_scheduleFinish (w : World) (x : Nat) : Steps x (sv w) (sv (w.scheduleFinish x)) := by
  rcases scheduleFinish_cases w x with h | h
  · rw [h]
    have := steps_finishCycle (w.setDev x { w.dev x with offset := 0 }) x
    rw [sv_setOffset] at this; exact this
  · exact steps_of_sv h

theorem dev_setDev_self (w : World) (x : Nat) (d : Dev) (hx : x < w.devs.length) : (w.setDev x d).dev x = d := by
  simp [World.dev, World.setDev, List.getD_eq_getElem?_getD, hx]

theorem dev_setDev_kind (w : World) (x : Nat) (d : Dev) (hk : d.kind = (w.dev x).kind) (y : Nat) :
    ((w.setDev x d).dev y).kind = (w.dev y).kind := by
  by_cases hx : x < w.devs.length
  · by_cases hy : y = x
    · subst hy; rw [dev_setDev_self w y d hx, hk]
    · simp [World.dev, World.setDev, List.getD_eq_getElem?_getD, Ne.symm hy]
  · rw [setDev_of_ge w x d (Nat.le_of_not_lt hx)]

theorem kind_setOffset (w : World) (x y : Nat) :
    ((w.setDev x { w.dev x with offset := 0 }).dev y).kind = (w.dev y).kind :=
  dev_setDev_kind w x { w.dev x with offset := 0 } rfl y

theorem genS_scheduleFinish_source (w : World) (x : Nat) (hk : (w.dev x).kind = .source) :
    GenS x (sv w) (sv (w.scheduleFinish x)) := by
  rcases scheduleFinish_cases w x with h | h
  · rw [h]
    have := genS_finishCycle_source (w.setDev x { w.dev x with offset := 0 }) x
      (by rw [kind_setOffset]; exact hk)
    rw [sv_setOffset] at this
    exact this
  · rw [h]; exact GenS.refl _

end C02V
end SimProc
