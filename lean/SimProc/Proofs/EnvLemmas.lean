/-
Helper lemmas about the event order, sorted insertion and the queue operations.
Property theorems live in `SimProc/Props/C01.lean`, `C07.lean`, `C14.lean`.
-/
import SimProc.Model.Env

namespace SimProc

/-! ### `Event.lt` is a strict weak order -/

theorem Event.lt_irrefl (a : Event) : a.lt a = false := by
  simp [Event.lt]

theorem Event.lt_trans {a b c : Event} (h1 : a.lt b = true) (h2 : b.lt c = true) :
    a.lt c = true := by
  grind [Event.lt]

theorem Event.lt_asymm {a b : Event} (h : a.lt b = true) : b.lt a = false := by
  grind [Event.lt]

/-- Negative transitivity: "not less" is transitive. -/
theorem Event.nlt_trans {a b c : Event} (h1 : b.lt a = false) (h2 : c.lt b = false) :
    c.lt a = false := by
  grind [Event.lt]

/-- What `¬ b < a` says, level by level. -/
theorem Event.nlt_iff (a b : Event) :
    b.lt a = false ↔
      a.time < b.time ∨ (a.time = b.time ∧
        (a.prio > b.prio ∨ (a.prio = b.prio ∧
          (a.weight < b.weight ∨ (a.weight = b.weight ∧ a.asset ≤ b.asset))))) := by
  grind [Event.lt]

theorem Event.nlt_time {a b : Event} (h : b.lt a = false) : a.time ≤ b.time := by
  grind [Event.lt]

theorem Event.lt_of_time_lt {a b : Event} (h : a.time < b.time) : a.lt b = true := by
  grind [Event.lt]

/-- The order only reads time, priority, weight and asset id. -/
theorem Event.lt_congr {a a' b b' : Event}
    (ha : a.time = a'.time ∧ a.prio = a'.prio ∧ a.weight = a'.weight ∧ a.asset = a'.asset)
    (hb : b.time = b'.time ∧ b.prio = b'.prio ∧ b.weight = b'.weight ∧ b.asset = b'.asset) :
    a.lt b = a'.lt b' := by
  grind [Event.lt]

/-! ### `cancelIf` only touches the `cancelled` flag -/

@[simp] theorem Event.cancelIf_uid (a : Int) (e : Event) : (e.cancelIf a).uid = e.uid := by
  unfold Event.cancelIf; split <;> rfl
@[simp] theorem Event.cancelIf_time (a : Int) (e : Event) : (e.cancelIf a).time = e.time := by
  unfold Event.cancelIf; split <;> rfl
@[simp] theorem Event.cancelIf_prio (a : Int) (e : Event) : (e.cancelIf a).prio = e.prio := by
  unfold Event.cancelIf; split <;> rfl
@[simp] theorem Event.cancelIf_weight (a : Int) (e : Event) : (e.cancelIf a).weight = e.weight := by
  unfold Event.cancelIf; split <;> rfl
@[simp] theorem Event.cancelIf_asset (a : Int) (e : Event) : (e.cancelIf a).asset = e.asset := by
  unfold Event.cancelIf; split <;> rfl
@[simp] theorem Event.cancelIf_act (a : Int) (e : Event) : (e.cancelIf a).act = e.act := by
  unfold Event.cancelIf; split <;> rfl
@[simp] theorem Event.cancelIf_pausedAt (a : Int) (e : Event) :
    (e.cancelIf a).pausedAt = e.pausedAt := by
  unfold Event.cancelIf; split <;> rfl
theorem Event.cancelIf_cancelled (a : Int) (e : Event) :
    (e.cancelIf a).cancelled = (e.cancelled || e.asset == a) := by
  unfold Event.cancelIf; split <;> simp_all

/-! ### sorted lists and `insort` -/

/-- The queue is sorted: no later element is `<` an earlier one. -/
def SortedEv (l : List Event) : Prop := l.Pairwise (fun a b => b.lt a = false)

theorem insort_mem {x y : Event} {l : List Event} : y ∈ insort x l ↔ y = x ∨ y ∈ l := by
  induction l with
  | nil => simp [insort]
  | cons e es ih =>
    simp only [insort]; split
    · simp
    · simp [ih]; grind

theorem insort_perm (x : Event) (l : List Event) : (insort x l).Perm (x :: l) := by
  induction l with
  | nil => simp [insort]
  | cons e es ih =>
    simp only [insort]; split
    · exact List.Perm.refl _
    · exact (List.Perm.cons e ih).trans (List.Perm.swap x e es)

theorem insort_length (x : Event) (l : List Event) : (insort x l).length = l.length + 1 := by
  simpa using (insort_perm x l).length_eq

theorem insort_sorted {x : Event} {l : List Event} (h : SortedEv l) : SortedEv (insort x l) := by
  induction l with
  | nil => simp [insort, SortedEv]
  | cons e es ih =>
    simp only [insort]
    have hs := List.pairwise_cons.mp h
    split
    · rename_i hlt
      refine List.pairwise_cons.mpr ⟨?_, h⟩
      intro y hy
      rcases List.mem_cons.mp hy with rfl | hy
      · exact Event.lt_asymm hlt
      · have h1 := hs.1 y hy
        cases hq : Event.lt y x with
        | false => rfl
        | true => have := Event.lt_trans hq hlt; simp [this] at h1
    · rename_i hlt
      refine List.pairwise_cons.mpr ⟨?_, ih hs.2⟩
      intro y hy
      rcases insort_mem.mp hy with rfl | hy
      · simpa using hlt
      · exact hs.1 y hy

theorem SortedEv.filter {l : List Event} (p : Event → Bool) (h : SortedEv l) :
    SortedEv (l.filter p) :=
  List.Pairwise.sublist List.filter_sublist h

theorem SortedEv.tail {e : Event} {l : List Event} (h : SortedEv (e :: l)) : SortedEv l :=
  (List.pairwise_cons.mp h).2

theorem SortedEv.head_min {e : Event} {l : List Event} (h : SortedEv (e :: l)) :
    ∀ e' ∈ l, e'.lt e = false :=
  (List.pairwise_cons.mp h).1

/-- Sortedness only depends on the compared fields. -/
theorem SortedEv.map_congr {l : List Event} (f : Event → Event)
    (hf : ∀ e, (f e).time = e.time ∧ (f e).prio = e.prio ∧ (f e).weight = e.weight ∧
      (f e).asset = e.asset) (h : SortedEv l) : SortedEv (l.map f) := by
  unfold SortedEv at *
  rw [List.pairwise_map]
  refine h.imp ?_
  intro a b hab
  rw [Event.lt_congr (hf b) (hf a)]; exact hab

/-! ### repeated insertion (unpause) -/

/-- Insert a list of events one after the other. -/
def insortAll (q : List Event) (l : List Event) : List Event := l.foldl (fun q e => insort e q) q

theorem insortAll_sorted {q l : List Event} (h : SortedEv q) : SortedEv (insortAll q l) := by
  induction l generalizing q with
  | nil => exact h
  | cons e es ih => exact ih (insort_sorted h)

theorem insortAll_perm (q l : List Event) : (insortAll q l).Perm (l ++ q) := by
  induction l generalizing q with
  | nil => simp [insortAll]
  | cons e es ih =>
    simp only [insortAll, List.foldl_cons]
    refine (ih (insort e q)).trans ?_
    refine (List.Perm.append_left es (insort_perm e q)).trans ?_
    simp

theorem insortAll_mem {q l : List Event} {y : Event} : y ∈ insortAll q l ↔ y ∈ l ∨ y ∈ q := by
  rw [(insortAll_perm q l).mem_iff]; simp

theorem foldl_insort_map (q l : List Event) (f : Event → Event) :
    l.foldl (fun q e => insort (f e) q) q = insortAll q (l.map f) := by
  simp [insortAll, List.foldl_map]

/-! ### the partition used by pause / unpause -/

theorem filter_split_perm (p : Event → Bool) (l : List Event) :
    (l.filter (fun e => !p e) ++ l.filter p).Perm l := by
  induction l with
  | nil => simp
  | cons e es ih =>
    cases hp : p e with
    | true =>
      simp only [List.filter_cons, hp, Bool.not_true, Bool.false_eq_true, if_false, if_true]
      exact (List.perm_middle).trans (List.Perm.cons e ih)
    | false =>
      simp only [List.filter_cons, hp, Bool.not_false, if_true, Bool.false_eq_true, if_false,
        List.cons_append]
      exact List.Perm.cons e ih

/-! ### characterisations of `schedule`, `step`, `runBegin` -/

theorem Env.schedule_some {s s' : Env} {t a : Int} {act : Nat} {p : Int} {w : Nat} :
    s.schedule t a act p w = some s' ↔
      s.now ≤ t ∧ s' = { s with
        events := insort (s.newEvent t a act p w) s.events
        nextUid := s.nextUid + 1 } := by
  unfold Env.schedule
  split
  · simp; omega
  · simp only [Option.some.injEq]
    constructor
    · intro h; exact ⟨by omega, h.symm⟩
    · intro h; exact h.2.symm

theorem Env.schedule_none {s : Env} {t a : Int} {act : Nat} {p : Int} {w : Nat} :
    s.schedule t a act p w = none ↔ t < s.now := by
  unfold Env.schedule; split <;> simp [*]

theorem Env.step_some {s s' : Env} {e : Event} :
    s.step = some (e, s') ↔
      ∃ es, s.events = e :: es ∧ s' = { s with
        now := e.time
        events := es
        terminated := s.terminated || (e.live && e.act == terminateAct) } := by
  unfold Env.step
  split
  · rename_i h; simp [h]
  · rename_i e0 es h
    simp only [Option.some.injEq, Prod.mk.injEq, h, List.cons.injEq]
    constructor
    · rintro ⟨rfl, rfl⟩; exact ⟨es, ⟨rfl, rfl⟩, rfl⟩
    · rintro ⟨es', ⟨rfl, rfl⟩, rfl⟩; exact ⟨rfl, rfl⟩

theorem Env.step_none {s : Env} : s.step = none ↔ s.events = [] := by
  unfold Env.step; split <;> simp [*]

theorem Env.newEvent_uid (s : Env) (t a : Int) (act : Nat) (p : Int) (w : Nat) :
    (s.newEvent t a act p w).uid = s.nextUid := rfl

theorem Env.newEvent_time (s : Env) (t a : Int) (act : Nat) (p : Int) (w : Nat) :
    (s.newEvent t a act p w).time = t := rfl

theorem apply_step_some (ar : Arith) {s s' : Env} {e : Event} (h : s.step = some (e, s')) :
    s.apply ar .step = (s', if e.live then .ran e else .skipped e) := by
  simp [Env.apply, h]

theorem apply_step_none (ar : Arith) {s : Env} (h : s.step = none) :
    s.apply ar .step = (s, .empty) := by
  simp [Env.apply, h]

/-- Output of an operation that does not take an event from the queue. -/
def EnvOut.isPop : EnvOut → Bool
  | .ran _ => true
  | .skipped _ => true
  | _ => false


end SimProc
