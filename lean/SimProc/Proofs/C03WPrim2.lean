/-
C03W — primitive steps, part 2: parts-only steps, exemption / discharge, `schedulePass`, `notify`.
-/
import SimProc.Proofs.C03WPrim

namespace SimProc
namespace C03W
open World FloorCoreL C03

/-! ### parts-only steps -/

theorem G.parts {E N : List Nat} {w w' : World} (h : G E N w) (hd : w'.devs = w.devs)
    (he : w'.env = w.env) (hs : w'.scripts = w.scripts) (ht : w'.targets = w.targets)
    (hk : ∀ p, (w'.part p).kids = none) (hl : w.parts.length ≤ w'.parts.length)
    (hq : ∀ p, p < w.parts.length →
      (w'.part p).quality = (w.part p).quality ∧ (w'.part p).value = (w.part p).value) :
    G E N w' := by
  have hdev : ∀ y, w'.dev y = w.dev y := fun y => dev_congr hd y
  have hnow : w'.now = w.now := by unfold World.now; rw [he]
  refine h.transfer (sw_of_fields hd hs (by rw [ht])) (partsLeaf_of_kids hk)
    (by rw [he]; exact h.inv) hnow
    (evOK_of h.ev (fun d => by rw [hdev]) (by rw [he]; exact fun _ h => Or.inl h))
    (by intro d hdm p hp; rw [hd] at hdm; exact Nat.lt_of_lt_of_le (h.valid d hdm p hp) hl)
    hq (fun y hy hacc => ⟨hy, by rw [← hdev]; exact hacc⟩) ?_
  intro d p hdp hdE
  refine Or.inr ⟨by rw [← hdev]; exact hdp, hdE, ?_, ?_⟩
  · exact att_mono (by rw [he]; exact fun _ h => h) (by rw [hdev])
      (by rw [hdev, hnow]; exact Int.le_refl _)
  · intro hf; left; rw [hdev]; exact hf

theorem G.modPart {E N : List Nat} {w : World} (h : G E N w) (p : Nat) (f : PartRec → PartRec)
    (hf : ∀ r, (f r).quality = r.quality ∧ (f r).value = r.value ∧ (f r).kids = r.kids) :
    G E N (w.modPart p f) := by
  refine h.parts rfl rfl rfl rfl (fun q => ?_) (by simp) (fun q _ => ?_)
  · rw [part_modPart]; split
    · rw [(hf _).2.2]; exact h.s1.2.kids _
    · exact h.s1.2.kids _
  · rw [part_modPart]; split
    · next hc => rw [(hf _).1, (hf _).2.1, hc.1]; exact ⟨rfl, rfl⟩
    · exact ⟨rfl, rfl⟩

theorem G.of_noParts {E N : List Nat} {w w' : World} (h : G E N w) (hn : w'.noParts = w.noParts)
    (hk : ∀ p, (w'.part p).kids = (w.part p).kids) (hl : w'.parts.length = w.parts.length)
    (hq : ∀ p, (w'.part p).quality = (w.part p).quality ∧ (w'.part p).value = (w.part p).value) :
    G E N w' :=
  h.parts (by have := congrArg World.devs hn; exact this)
    (by have := congrArg World.env hn; exact this)
    (by have := congrArg World.scripts hn; exact this)
    (by have := congrArg World.targets hn; exact this) (fun p => by rw [hk]; exact h.s1.2.kids p) (by rw [hl]; exact Nat.le_refl _)
    (fun p _ => hq p)

theorem G.addHist {E N : List Nat} {w : World} (h : G E N w) (p d : Nat) : G E N (w.addHist p d) :=
  h.of_noParts (addHist_noParts w p d) (fun q => addHist_part_kids ..) (addHist_parts_length ..)
    (fun q => ⟨addHist_part_quality .., addHist_part_value ..⟩)

theorem G.dropHist {E N : List Nat} {w : World} (h : G E N w) (p : Nat) : G E N (w.dropHist p) :=
  h.of_noParts (dropHist_noParts w p) (fun q => dropHist_part_kids ..) (dropHist_parts_length ..)
    (fun q => ⟨dropHist_part_quality .., dropHist_part_value ..⟩)

theorem G.newPart {E N : List Nat} {w : World} (h : G E N w) (r : PartRec) (hr : r.kids = none) :
    G E N (w.newPart r).1 := by
  refine h.parts rfl rfl rfl rfl (fun q => ?_) (by simp) (fun q hq => ?_)
  · by_cases hq : q < w.parts.length
    · rw [part_newPart_old hq]; exact h.s1.2.kids q
    · by_cases hq2 : q = w.parts.length
      · subst hq2; rw [part_newPart_new]; exact hr
      · rw [part_of_length_le (by simp; omega)]; rfl
  · rw [part_newPart_old hq]; exact ⟨rfl, rfl⟩

/-! ### exemption and discharge -/

/-- An exempt device that satisfies its clause is no longer exempt. -/
theorem G.unexempt {E N E' : List Nat} {w : World} (h : G E N w) (x : Nat)
    (hE : ∀ y ∈ E, y = x ∨ y ∈ E')
    (hx : ∀ p, holdsD (w.dev x) = some p → Att w x ∨ Blocked w N x p) : G E' N w := by
  refine ⟨h.s1, h.inv, h.now0, h.ev, h.valid, ?_⟩
  intro d p hd hdE
  by_cases hdx : d = x
  · subst hdx; exact hx p hd
  · exact h.wake d p hd (fun hc => (hE d hc).elim hdx hdE)

/-- A device that refuses everything needs no notification. -/
theorem G.discharge {E N N' : List Nat} {w : World} (h : G E N w) (x : Nat)
    (hN : ∀ y ∈ N, y = x ∨ y ∈ N') (hx : accB (w.dev x) = false) : G E N' w := by
  refine ⟨h.s1, h.inv, h.now0, h.ev, h.valid, ?_⟩
  intro d p hd hdE
  rcases h.wake d p hd hdE with ha | hb
  · exact Or.inl ha
  · refine Or.inr ⟨hb.1, fun y hy => ?_⟩
    cases hh : wouldAcceptN w.fuel w N' y p with
    | false => rfl
    | true =>
      have := wouldAcceptN_mono (w := w) (w' := w) (N := N) (N' := N') (p := p)
        (fun _ => ⟨rfl, rfl, rfl⟩) (fun _ => rfl)
        (fun z hz hc => by
          refine ⟨fun hzN => ?_, hc⟩
          rcases hN z hzN with rfl | hzN'
          · rw [canAcceptBasic_eq h.s1.2, hx] at hc; cases hc
          · exact hz hzN') _ _ hh
      rw [hb.2 y hy] at this; cases this

/-! ### `schedulePass` -/

theorem schedulePass_eq (w : World) (x : Nat) (o : Int) (hk : (w.dev x).kind ≠ .sink)
    (h0 : 0 ≤ w.now) (ho : 0 ≤ o) :
    w.schedulePass x o =
      (w.setDev x { w.dev x with waitingDS := false }).schedLib (w.now + o) (w.dev x).aid
        (.passPart x) pPassPart := by
  unfold schedulePass
  dsimp only
  split
  · next h => exact absurd h hk
  · have : (w.setDev x { w.dev x with waitingDS := false }).now = w.now := rfl
    rw [this, if_neg (by omega)]

/-- **The hand-over attempt**: `schedulePass x o` (with `now + o` not after the due time of the
part `x` holds) makes `x` satisfy its clause; every other device keeps its clause. -/
theorem G.schedulePass {E N E' : List Nat} {w : World} (h : G E N w) (x : Nat) (o : Int)
    (ho : 0 ≤ o) (hE : ∀ y ∈ E, y = x ∨ y ∈ E')
    (hdue : ∀ p, holdsD (w.dev x) = some p → w.now + o ≤ dueD w.now (w.dev x)) :
    G E' N (w.schedulePass x o) := by
  by_cases hk : (w.dev x).kind = .sink
  · rw [schedulePass_sink w x o hk]
    refine h.unexempt x hE (fun p hp => ?_)
    have := (holdsD_hl hp).2
    exact absurd hk this
  · rw [schedulePass_eq w x o hk h.now0 ho]
    have h1 : G (x :: E) N (w.setDev x { w.dev x with waitingDS := false }) :=
      h.setDev x _ rfl (fun p hp => h.valid.dev x p hp) (fun y hy => List.mem_cons_of_mem _ hy)
        (fun _ h => h) (Or.inr id) (Or.inl (List.mem_cons_self ..))
    have h2 := h1.schedLib (w.now + o) (w.dev x).aid (Action.passPart x) pPassPart
      (fun d hd => Action.noConfusion hd)
    refine h2.unexempt x (fun y hy => ?_) (fun p hp => Or.inl ?_)
    · rcases List.mem_cons.mp hy with rfl | hy
      · exact Or.inl rfl
      · exact hE y hy
    · have hx : x < w.devs.length := by
        have := holdsD_lt hp
        simpa using this
      have hle : (w.setDev x { w.dev x with waitingDS := false }).now ≤ w.now + o := by
        show w.now ≤ w.now + o; omega
      rw [schedLib_of_le _ _ _ _ _ hle] at hp ⊢
      have hdx : (w.setDev x { w.dev x with waitingDS := false }).dev x =
          { w.dev x with waitingDS := false } := dev_setDev_same hx
      refine ⟨_, mem_insort_self _ _, rfl, ?_, rfl, ?_⟩
      · show _ = ((w.setDev x { w.dev x with waitingDS := false }).dev x).aid
        rw [hdx]; rfl
      · show w.now + o ≤ dueD w.now ((w.setDev x { w.dev x with waitingDS := false }).dev x)
        have hp' : holdsD ((w.setDev x { w.dev x with waitingDS := false }).dev x) = some p := hp
        rw [hdx] at hp' ⊢
        exact hdue p hp'

theorem G.schedulePass0 {E N : List Nat} {w : World} (h : G E N w) (x : Nat) :
    G E N (w.schedulePass x 0) :=
  h.schedulePass x 0 (Int.le_refl _) (fun y hy => Or.inr hy)
    (fun p _ => by rw [Int.add_zero]; exact le_dueD _ _)

/-! ### flow-only steps: the environment part -/

/-- what a flow-only step may do to the environment: keep the queue invariant, add no failure -/
structure EnvStep (w w' : World) : Prop where
  inv : C01.Inv w.env → C01.Inv w'.env
  acts : ∀ n ∈ C02V.acts w'.env, n ∈ C02V.acts w.env ∨ ∀ d, Action.ofNat n ≠ .fail d

theorem EnvStep.refl (w : World) : EnvStep w w := ⟨id, fun _ h => Or.inl h⟩

theorem EnvStep.trans {w w' w'' : World} (h : EnvStep w w') (h' : EnvStep w' w'') : EnvStep w w'' :=
  ⟨fun hi => h'.inv (h.inv hi), fun n hn => by
    rcases h'.acts n hn with h1 | h1
    · exact h.acts n h1
    · exact Or.inr h1⟩

theorem EnvStep.of_env {w w' : World} (h : w'.env = w.env) : EnvStep w w' :=
  ⟨fun hi => by rw [h]; exact hi, fun n hn => by rw [h] at hn; exact Or.inl hn⟩

theorem EnvStep.foldl {α} (g : World → α → World) (hg : ∀ w a, EnvStep w (g w a)) (l : List α)
    (w : World) : EnvStep w (l.foldl g w) := by
  induction l generalizing w with
  | nil => exact .refl w
  | cons a l ih => exact (hg w a).trans (ih (g w a))

theorem envStep_schedLib (w : World) (t asset : Int) (a : Action) (prio : Int)
    (ha : ∀ d, a ≠ .fail d) : EnvStep w (w.schedLib t asset a prio) := by
  by_cases hle : w.now ≤ t
  · rw [schedLib_of_le w t asset a prio hle]
    have hs : w.env.schedule t asset a.toNat prio (weightOf w.seed w.wmod t asset a.toNat prio)
        = some (envWith w t asset a prio) := by
      rw [Env.schedule_some]; exact ⟨hle, rfl⟩
    refine ⟨fun hi => C01.inv_schedule hi hs, fun n hn => ?_⟩
    rw [C02V.acts_schedule hs] at hn
    rcases hn with rfl | hn
    · right; intro d hd; exact ha d (C02V.ofNat_toNat_fail a d hd)
    · exact Or.inl hn
  · rw [schedLib_of_lt w t asset a prio (Int.not_le.mp hle)]
    exact .of_env (setErr_env _ _)

theorem envStep_setWaiting (w : World) (x : Nat) (a b : Bool) : EnvStep w (w.setWaiting x a b) := by
  apply EnvStep.of_env
  unfold setWaiting
  dsimp only
  repeat' split
  all_goals rfl

theorem envStep_schedulePass (w : World) (x : Nat) (o : Int) : EnvStep w (w.schedulePass x o) := by
  unfold schedulePass
  dsimp only
  split
  · exact .refl w
  · have := envStep_schedLib (w.setDev x { w.dev x with waitingDS := false })
      (if (w.setDev x { w.dev x with waitingDS := false }).now + o < 0 then 0
        else (w.setDev x { w.dev x with waitingDS := false }).now + o) (w.dev x).aid
      (Action.passPart x) pPassPart (fun d hd => Action.noConfusion hd)
    exact ⟨fun hi => this.inv hi, fun n hn => this.acts n hn⟩

theorem envStep_notify_aux (n : Nat) :
    ∀ w x, EnvStep w (notifyUp n w x) ∧ EnvStep w (spaceAvail n w x) := by
  induction n with
  | zero =>
    intro w x
    constructor
    · rw [notifyUp]; exact .of_env (setErr_env _ _)
    · rw [spaceAvail]; exact .of_env (setErr_env _ _)
  | succ n ih =>
    intro w x
    have hN : ∀ w x, EnvStep w (notifyUp n w x) := fun w x => (ih w x).1
    have hS : ∀ w x, EnvStep w (spaceAvail n w x) := fun w x => (ih w x).2
    constructor
    · rw [notifyUp]
      repeat' split
      all_goals first
        | exact EnvStep.refl _
        | exact (envStep_setWaiting _ _ _ _).trans (EnvStep.foldl _ hS _ _)
        | exact EnvStep.foldl _ hS _ _
        | exact EnvStep.foldl _ hN _ _
    · rw [spaceAvail]
      repeat' split
      all_goals first
        | exact EnvStep.refl _
        | exact hN _ _
        | exact hS _ _
        | exact envStep_schedulePass _ _ _

theorem envStep_notify (w : World) (x : Nat) : EnvStep w (w.notify x) :=
  (envStep_notify_aux _ w x).1

/-! ### `notify` discharges the pending notification of `x` -/

theorem sw_of_core {w w' : World} (h : w'.core = w.core) : sw w' = sw w := by
  unfold sw
  have key : ∀ v : World, v.devs.map stat1 = v.core.devs.map stat1 := by
    intro v
    rw [core_devs, List.map_map]
    apply List.map_congr_left
    intro d _; rfl
  have h1 : w'.devs.map stat1 = w.devs.map stat1 := by rw [key w', key w, h]
  rw [h1, core_eq_scripts h, core_eq_targets h]

theorem holdsD_core (d : Dev) : holdsD d.core = holdsD d := rfl
theorem accB_core (d : Dev) : accB d.core = accB d := rfl
theorem dueD_core (n : Int) (d : Dev) : dueD n d.core = dueD n d := rfl
theorem heldL_core (d : Dev) : heldL d.core = heldL d := rfl

theorem accB_forwardsUp {w : World} (hs : S1 w) {x : Nat} (h : accB (w.dev x) = true) :
    forwardsUp w x = true := by
  unfold forwardsUp hasRoom
  have hk := hs.kindOK x
  unfold accB at h
  cases hkind : (w.dev x).kind <;> simp only [hkind, kindOK] at hk h ⊢
  · cases hc : (w.dev x).cap with
    | none => rfl
    | some c =>
      simp only [hc, Bool.and_eq_true, decide_eq_true_eq] at h ⊢
      omega
  · cases hk

/-- **Discharge by notification.** -/
theorem G.notify {E N N' : List Nat} {w : World} (h : G E N w) (x : Nat)
    (hN : ∀ y ∈ N, y = x ∨ y ∈ N') : G E N' (w.notify x) := by
  have hst := step_notify w x
  have hes := envStep_notify w x
  have hc := hst.core
  have hsw := sw_of_core hc
  have hdc : ∀ y, ((w.notify x).dev y).core = (w.dev y).core := core_eq_dev hc
  have hnow : (w.notify x).now = w.now := hst.mono.now
  have hpl : PartsLeaf (w.notify x) := by unfold PartsLeaf; rw [core_eq_parts hc]; exact h.s1.2
  have hs1 : S1 (w.notify x) := h.s1.of_sw hsw hpl
  have hlen : (w.notify x).devs.length = w.devs.length := core_eq_devs_length hc
  refine ⟨hs1, hes.inv h.inv, by rw [hnow]; exact h.now0, ?_, ?_, ?_⟩
  · exact evOK_of h.ev (fun d => core_eq_dev_kind hc d) (fun n hn => by
      rcases hes.acts n hn with h1 | h1
      · exact Or.inl h1
      · exact Or.inr (fun d hd => absurd hd (h1 d)))
  · intro d hd p hp
    obtain ⟨i, hi, rfl⟩ := List.getElem_of_mem hd
    rw [core_eq_parts hc]
    have e : (w.notify x).dev i = (w.notify x).devs[i] := dev_getElem hi
    rw [← e, ← heldL_core, hdc, heldL_core] at hp
    exact h.valid.dev i p hp
  · intro d p hd hdE
    have hd0 : holdsD (w.dev d) = some p := by rw [← holdsD_core, ← hdc, holdsD_core]; exact hd
    have hdlt : d < w.devs.length := holdsD_lt hd0
    have haid : ((w.notify x).dev d).aid = (w.dev d).aid := core_eq_dev_aid hc d
    have hdue : dueD w.now (w.dev d) = dueD (w.notify x).now ((w.notify x).dev d) := by
      rw [hnow, ← dueD_core, ← dueD_core _ ((w.notify x).dev d), hdc]
    have hatt : Att w d → Att (w.notify x) d :=
      att_mono (fun e he => hst.mono.mem he) haid (by rw [hdue]; exact Int.le_refl _)
    have hpend : Pending w d → ((w.notify x).dev d).waitingDS = false → Att (w.notify x) d := by
      intro hp hf
      rcases hst.pend d hp with h1 | h1
      · rw [hf] at h1; cases h1
      · obtain ⟨e, he, h1, h2, _, h4, h5⟩ := h1
        refine ⟨e, he, h1, h4, h5, ?_⟩
        rw [h2, passTime_of_nonneg (by rw [hnow]; exact h.now0)]
        exact le_dueD _ _
    rcases h.wake d p hd0 hdE with ha | hb
    · exact Or.inl (hatt ha)
    · cases hfl : ((w.notify x).dev d).waitingDS with
      | false => exact Or.inl (hpend (Or.inl hb.1) hfl)
      | true =>
        refine Or.inr ⟨hfl, fun y hy => ?_⟩
        rw [core_eq_dev_down hc] at hy
        cases hh : wouldAcceptN (w.notify x).fuel (w.notify x) N' y p with
        | false => rfl
        | true =>
          exfalso
          rw [fuel_of_len hlen] at hh
          have hh0 : wouldAcceptN w.fuel w N' y p = true := by
            rw [← hh]
            symm
            apply wouldAcceptN_congr
            · intro z
              exact ⟨core_eq_dev_kind hc z, core_eq_dev_pred hc z, core_eq_dev_down hc z⟩
            · intro pr; unfold gatePred partValue; simp only [core_eq_part hc]
            · intro z; exact core_eq_canAcceptBasic hc z p
          obtain ⟨k, hch, hcab⟩ := wouldAcceptN_local (N := N) (N' := N') (x := x)
            (fun z hz => (hN z hz).symm)
            _ y hh0 (hb.2 y hy)
          rw [canAcceptBasic_eq h.s1.2] at hcab
          have hfw := accB_forwardsUp h.s1 hcab
          obtain ⟨hylt, hdy⟩ := h.s1.down_sym hdlt hy
          have hkn : k ≤ w.devs.length := hch.depth _ (h.s1.depth hylt)
          have hr : C03.Reach w true (1 + 1 + 2 * k) x d :=
            hch.reach h.s1 hfw d 1 hylt hdy (.self (n := 0) (holdsD_hl hd0).1)
          have hr' : C03.Reach w true w.fuel x d := hr.le (by unfold World.fuel; omega)
          have hwk := reach_wakes hdlt (holdsD_hl hd0).2
            (by rw [operational_eq]; exact holdsD_opn hd0) hr' w rfl (Or.inl hb.1)
          have : ((w.notify x).dev d).waitingDS = false := hwk.1
          rw [this] at hfl; cases hfl

end C03W
end SimProc
