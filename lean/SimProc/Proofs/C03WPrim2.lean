/-
C03W — primitive steps, part 2: parts-only steps, exemption / discharge, `schedulePass`, `notify`.
-/
import SimProc.Proofs.C03WPrim

namespace SimProc
namespace C03W
open World FloorCoreL C03

/-! ### parts-only steps -/

theorem G.parts {E N A : List Nat} {w w' : World} (h : G E N A w) (hd : w'.devs = w.devs)
    (he : w'.env = w.env) (hs : w'.scripts = w.scripts) (ht : w'.targets = w.targets)
    (hpl : NoBatch w → PartsLeaf w') (hl : w.parts.length ≤ w'.parts.length)
    (hkv : KidsValid w') (hstk : StkOK w')
    (hq : ∀ d p, holdsD (w.dev d) = some p → d ∉ E → attrs w' p = attrs w p)
    (hrm : w'.rm.waiting = w.rm.waiting := by rfl) (hg : w'.groups = w.groups := by rfl) :
    G E N A w' := by
  have hdev : ∀ y, w'.dev y = w.dev y := fun y => dev_congr hd y
  have hnow : w'.now = w.now := by unfold World.now; rw [he]
  refine h.transfer (sw_of_fields hd hs (by rw [ht]) hg) hpl
    (by rw [he]; exact h.inv) hnow
    (evOK_of h.ev (fun d => by rw [hdev]) (by rw [he]; exact fun _ h => Or.inl h))
    (by intro d hdm p hp; rw [hd] at hdm; exact Nat.lt_of_lt_of_le (h.valid d hdm p hp) hl)
    hkv hstk
    (h.wr.same (sw_of_fields hd hs (by rw [ht]) hg) hrm (fun y hy => by rw [← hdev]; exact hy))
    h.aok (fun n y hy hacc => ⟨hy, by rw [← hdev]; exact hacc⟩) ?_
  intro d p hdp hdE
  have hdp0 : holdsD (w.dev d) = some p := by rw [← hdev]; exact hdp
  refine Or.inr ⟨hdp0, hdE, hq d p hdp0 hdE, ?_, ?_⟩
  · exact att_mono (by rw [he]; exact fun _ h => h) (by rw [hdev])
      (by rw [hdev, hnow]; exact Int.le_refl _)
  · intro hf; left; rw [hdev]; exact hf

/-- the value of every part is the same in both worlds, and so are the parts of `q` -/
theorem partValue_congr {w w' : World} (hv : ∀ k, (w'.part k).value = (w.part k).value) {q : Nat}
    (hk : (w'.part q).kids = (w.part q).kids) : w'.partValue q = w.partValue q := by
  unfold partValue
  rw [hk, hv q]
  cases (w.part q).kids with
  | none => rfl
  | some l =>
    simp only []
    congr 1
    exact List.map_congr_left (fun k _ => hv k)

theorem attrs_congr {w w' : World} (hv : ∀ k, (w'.part k).value = (w.part k).value) {q : Nat}
    (hq : (w'.part q).quality = (w.part q).quality)
    (hk : (w'.part q).kids = (w.part q).kids)
    (hs : (w'.part q).stack = (w.part q).stack) : attrs w' q = attrs w q := by
  unfold attrs
  rw [hq, partValue_congr hv hk, hs]
  unfold leafCount
  rw [hk]

/-- changing a part (its value excepted) does not change what is read of another part -/
theorem attrs_modPart_ne (w : World) (p : Nat) (f : PartRec → PartRec)
    (hf : ∀ r, (f r).value = r.value) {q : Nat} (hqp : q ≠ p) :
    attrs (w.modPart p f) q = attrs w q := by
  have hv : ∀ k, ((w.modPart p f).part k).value = (w.part k).value := by
    intro k
    rw [part_modPart]; split
    · next hc => rw [hf, hc.1]
    · rfl
  have hpq : (w.modPart p f).part q = w.part q := by
    rw [part_modPart, if_neg (fun hc => hqp hc.1.symm)]
  exact attrs_congr hv (by rw [hpq]) (by rw [hpq]) (by rw [hpq])

theorem G.modPart {E N A : List Nat} {w : World} (h : G E N A w) (p : Nat) (f : PartRec → PartRec)
    (hf : ∀ r, (f r).quality = r.quality ∧ (f r).value = r.value ∧ (f r).kids = r.kids ∧
      (f r).stack = r.stack) :
    G E N A (w.modPart p f) := by
  have hall : ∀ q, ((w.modPart p f).part q).quality = (w.part q).quality ∧
      ((w.modPart p f).part q).value = (w.part q).value ∧
      ((w.modPart p f).part q).kids = (w.part q).kids ∧
      ((w.modPart p f).part q).stack = (w.part q).stack := by
    intro q
    rw [part_modPart]; split
    · next hc => rw [(hf _).1, (hf _).2.1, (hf _).2.2.1, (hf _).2.2.2, hc.1]; exact ⟨rfl, rfl, rfl, rfl⟩
    · exact ⟨rfl, rfl, rfl, rfl⟩
  refine h.parts rfl rfl rfl rfl (fun hb => partsLeaf_of_kids (fun q => ?_)) (by simp)
    (kidsValid_of_part (fun q l hl k hk => by
      rw [(hall q).2.2.1] at hl
      simpa using h.kv.part q hl k hk))
    (h.stk.map (fun _ => rfl) (fun h2 q g hg => by
      rw [(hall q).2.2.2] at hg
      exact h2 q g hg))
    (fun d q _ _ => attrs_congr (fun k => (hall k).2.1) (hall q).1 (hall q).2.2.1 (hall q).2.2.2)
  rw [(hall q).2.2.1]; exact (h.pl hb).kids q

/-- a change of the batch structure of a part that no (non-exempt) holder offers -/
theorem G.modPartKids {E N A : List Nat} {w : World} (h : G E N A w) (p : Nat)
    (f : PartRec → PartRec) (hf : ∀ r, (f r).value = r.value)
    (hp : ∀ d, d ∉ E → holdsD (w.dev d) ≠ some p) (hnb : ¬ NoBatch w)
    (hkv : ∀ l, (f (w.part p)).kids = some l → ∀ k ∈ l, k < w.parts.length)
    (hstk : (∀ g ∈ (w.part p).stack, (w.dev g).kind = .gpath) →
      ∀ g ∈ (f (w.part p)).stack, (w.dev g).kind = .gpath) :
    G E N A (w.modPart p f) :=
  h.parts rfl rfl rfl rfl (fun hb => absurd hb hnb) (by simp)
    (kidsValid_of_part (fun q l hl k hk => by
      rw [part_modPart] at hl
      split at hl
      · simpa using hkv l hl k hk
      · simpa using h.kv.part q hl k hk))
    (stkOK_modPart h.stk p f hstk)
    (fun d q hd hdE => attrs_modPart_ne w p f hf (fun hc => hp d hdE (hc ▸ hd)))

theorem G.of_noParts {E N A : List Nat} {w w' : World} (h : G E N A w) (hn : w'.noParts = w.noParts)
    (hk : ∀ p, (w'.part p).kids = (w.part p).kids) (hl : w'.parts.length = w.parts.length)
    (hq : ∀ p, (w'.part p).quality = (w.part p).quality ∧ (w'.part p).value = (w.part p).value ∧
      (w'.part p).stack = (w.part p).stack) :
    G E N A w' :=
  h.parts (by have := congrArg World.devs hn; exact this)
    (by have := congrArg World.env hn; exact this)
    (by have := congrArg World.scripts hn; exact this)
    (by have := congrArg World.targets hn; exact this)
    (fun hb => partsLeaf_of_kids (fun p => by rw [hk]; exact (h.pl hb).kids p))
    (by rw [hl]; exact Nat.le_refl _)
    (kidsValid_of_part (fun q l hq k hkk => by
      rw [hk] at hq; rw [hl]; exact h.kv.part q hq k hkk))
    (h.stk.map (fun d => by
        have hd : w'.devs = w.devs := by have := congrArg World.devs hn; exact this
        rw [dev_congr hd]) (fun h2 q g hg => by
      rw [(hq q).2.2] at hg
      exact h2 q g hg))
    (fun d p _ _ => attrs_congr (fun k => (hq k).2.1) (hq p).1 (hk p) (hq p).2.2) (by rw [noParts_rm_eq hn])
    (groups_noParts hn)

theorem G.addHist {E N A : List Nat} {w : World} (h : G E N A w) (p d : Nat) :
    G E N A (w.addHist p d) :=
  h.of_noParts (addHist_noParts w p d) (fun q => addHist_part_kids ..) (addHist_parts_length ..)
    (fun q => ⟨addHist_part_quality .., addHist_part_value .., addHist_part_stack ..⟩)

theorem G.dropHist {E N A : List Nat} {w : World} (h : G E N A w) (p : Nat) :
    G E N A (w.dropHist p) :=
  h.of_noParts (dropHist_noParts w p) (fun q => dropHist_part_kids ..) (dropHist_parts_length ..)
    (fun q => ⟨dropHist_part_quality .., dropHist_part_value .., dropHist_part_stack ..⟩)

theorem part_append_old (w : World) (l : List PartRec) {q : Nat} (hq : q < w.parts.length) :
    ({ w with parts := w.parts ++ l } : World).part q = w.part q := by
  unfold World.part
  simp only [List.getD_eq_getElem?_getD]
  rw [List.getElem?_append_left hq]

/-- what is read of an existing part does not change when parts are appended, provided the parts
it consists of exist -/
theorem attrs_append (w : World) (l : List PartRec) {q : Nat} (hq : q < w.parts.length)
    (hk : ∀ ks, (w.part q).kids = some ks → ∀ k ∈ ks, k < w.parts.length) :
    attrs ({ w with parts := w.parts ++ l } : World) q = attrs w q := by
  have hpq := part_append_old w l hq
  unfold attrs partValue leafCount
  rw [hpq]
  cases hkk : (w.part q).kids with
  | none => rfl
  | some ks =>
    simp only []
    have : ks.map (fun k => (({ w with parts := w.parts ++ l } : World).part k).value) =
        ks.map (fun k => (w.part k).value) :=
      List.map_congr_left (fun k hkl => by rw [part_append_old w l (hk ks hkk k hkl)])
    rw [this]

/-- new parts are appended to the parts table -/
theorem G.appendParts {E N A : List Nat} {w : World} (h : G E N A w) (l : List PartRec)
    (hl : NoBatch w → ∀ r ∈ l, r.kids = none)
    (hkv : ∀ r ∈ l, ∀ ks, r.kids = some ks → ∀ k ∈ ks, k < w.parts.length + l.length)
    (hst : ∀ r ∈ l, r.stack = []) :
    G E N A { w with parts := w.parts ++ l } := by
  refine h.parts rfl rfl rfl rfl (fun hb => ?_) (by simp) ?_
    (h.stk.imp id (fun h2 r hr g hg => by
      rcases List.mem_append.mp hr with hr | hr
      · exact h2 r hr g hg
      · rw [hst r hr] at hg; cases hg))
    (fun d q hd hdE => attrs_append w l (h.valid.dev d q (holdsD_mem_heldL hd))
      (fun ks hks => h.kv.part q hks))
  · intro r hr
    rcases List.mem_append.mp hr with hr | hr
    · exact h.pl hb r hr
    · exact hl hb r hr
  · intro r hr ks hks k hk
    simp only [List.length_append]
    rcases List.mem_append.mp hr with hr | hr
    · exact Nat.lt_of_lt_of_le (h.kv r hr ks hks k hk) (Nat.le_add_right _ _)
    · exact hkv r hr ks hks k hk

theorem G.newPart {E N A : List Nat} {w : World} (h : G E N A w) (r : PartRec)
    (hr : NoBatch w → r.kids = none)
    (hrk : ∀ l, r.kids = some l → ∀ k ∈ l, k < w.parts.length)
    (hrs : r.stack = [] := by rfl) :
    G E N A (w.newPart r).1 :=
  h.appendParts [r] (fun hb r' hr' => by rw [List.mem_singleton] at hr'; subst hr'; exact hr hb)
    (fun r' hr' ks hks k hk => by
      rw [List.mem_singleton] at hr'; subst hr'
      exact Nat.lt_of_lt_of_le (hrk ks hks k hk) (Nat.le_add_right _ _))
    (fun r' hr' => by rw [List.mem_singleton] at hr'; subst hr'; exact hrs)

/-! ### exemption and discharge -/

/-- An exempt device that satisfies its clause is no longer exempt. -/
theorem G.unexempt {E N A E' : List Nat} {w : World} (h : G E N A w) (x : Nat)
    (hE : ∀ y ∈ E, y = x ∨ y ∈ E')
    (hx : ∀ p, holdsD (w.dev x) = some p → Att w x ∨ Blocked w N A x p) : G E' N A w := by
  refine ⟨h.sc, h.pl, h.inv, h.now0, h.ev, h.valid, h.kv, h.stk, h.wr, h.aok, ?_⟩
  intro d p hd hdE
  by_cases hdx : d = x
  · subst hdx; exact hx p hd
  · exact h.wake d p hd (fun hc => (hE d hc).elim hdx hdE)

/-- A device that refuses everything needs no notification. -/
theorem G.discharge {E N A N' : List Nat} {w : World} (h : G E N A w) (x : Nat)
    (hN : ∀ y ∈ N, y = x ∨ y ∈ N') (hx : ∀ n, accB n (w.dev x) = false) (hxA : x ∉ A) :
    G E N' A w := by
  refine ⟨h.sc, h.pl, h.inv, h.now0, h.ev, h.valid, h.kv, h.stk, h.wr, h.aok, ?_⟩
  intro d p hd hdE
  rcases h.wake d p hd hdE with ha | hb
  · exact Or.inl ha
  · refine Or.inr ⟨hb.1, fun y hy => ?_⟩
    cases hh : wouldAcceptN w.fuel w N' A y p with
    | false => rfl
    | true =>
      have := wouldAcceptN_mono (w := w) (w' := w) (N := N) (N' := N') (A := A) (A' := A) (p := p)
        (TopoEq.refl w) (fun _ => rfl) rfl
        (fun z hz hc => by
          refine ⟨fun hzN => ?_, hc⟩
          rcases hN z hzN with rfl | hzN'
          · rw [accM_eq, hx, Bool.or_false] at hc
            exact hxA (by simpa using hc)
          · exact hz hzN') _ _ hh
      rw [hb.2 y hy] at this; cases this

/-- Nothing needs to be assumed about a device that is not counted as willing any more. -/
theorem G.dropA {E N A A' : List Nat} {w : World} (h : G E N A w) (hA : ∀ y ∈ A', y ∈ A) :
    G E N A' w := h.mono (fun _ h => h) (fun _ h => h) hA

/-- A batcher that accepts may be counted as willing. -/
theorem G.introA {E N A : List Nat} {w : World} (h : G E N A w) (x : Nat)
    (hk : (w.dev x).kind = .batcher) (hx : ∀ n, accB n (w.dev x) = true) :
    G E N (x :: A) w := by
  refine ⟨h.sc, h.pl, h.inv, h.now0, h.ev, h.valid, h.kv, h.stk, h.wr, ?_, ?_⟩
  · intro y hy
    rcases List.mem_cons.mp hy with rfl | hy
    · exact hk
    · exact h.aok y hy
  · intro d p hd hdE
    rcases h.wake d p hd hdE with ha | hb
    · exact Or.inl ha
    · refine Or.inr ⟨hb.1, fun y hy => ?_⟩
      cases hh : wouldAcceptN w.fuel w N (x :: A) y p with
      | false => rfl
      | true =>
        have := wouldAcceptN_mono (w := w) (w' := w) (N := N) (N' := N) (A := A) (A' := x :: A)
          (p := p) (TopoEq.refl w) (fun _ => rfl) rfl
          (fun z hz hc => by
            refine ⟨hz, ?_⟩
            by_cases hzx : z = x
            · subst hzx; rw [accM_eq, hx]; simp
            · rw [Bool.or_eq_true] at hc ⊢
              refine hc.imp (fun h1 => ?_) id
              have : z ∈ x :: A := by simpa using h1
              rcases List.mem_cons.mp this with h2 | h2
              · exact absurd h2 hzx
              · simpa using h2) _ _ hh
        rw [hb.2 y hy] at this; cases this

/-! ### `schedulePass` -/

theorem schedulePass_eq (w : World) (x : Nat) (o : Int) (hk : (w.dev x).kind ≠ .sink)
    (h0 : 0 ≤ w.now) (ho : 0 ≤ o) :
    w.schedulePass x o =
      (w.setDev x { w.dev x with waitingDS := false }).schedLib (w.now + o) (w.dev x).aid
        (.passPart x) pPassPart := by
  unfold schedulePass
  dsimp only
  split
  · next h => exact absurd h hk
  · have : (w.setDev x { w.dev x with waitingDS := false }).now = w.now := rfl
    rw [this, if_neg (by omega)]

/-- **The hand-over attempt**: `schedulePass x o` (with `now + o` not after the due time of the
part `x` holds) makes `x` satisfy its clause; every other device keeps its clause. -/
theorem G.schedulePass {E N A E' : List Nat} {w : World} (h : G E N A w) (x : Nat) (o : Int)
    (ho : 0 ≤ o) (hE : ∀ y ∈ E, y = x ∨ y ∈ E')
    (hdue : ∀ p, holdsD (w.dev x) = some p → w.now + o ≤ dueD w.now (w.dev x)) :
    G E' N A (w.schedulePass x o) := by
  by_cases hk : (w.dev x).kind = .sink
  · rw [schedulePass_sink w x o hk]
    refine h.unexempt x hE (fun p hp => ?_)
    have := (holdsD_hl hp).2
    exact absurd hk this
  · rw [schedulePass_eq w x o hk h.now0 ho]
    have h1 : G (x :: E) N A (w.setDev x { w.dev x with waitingDS := false }) :=
      h.setDev x _ rfl (fun p hp => h.valid.dev x p hp) (fun y hy => List.mem_cons_of_mem _ hy)
        (fun _ h => h) (Or.inr (Or.inr (fun _ => id))) (Or.inl (List.mem_cons_self ..))
    have h2 := h1.schedLib (w.now + o) (w.dev x).aid (Action.passPart x) pPassPart
      (fun d hd => Action.noConfusion hd)
    refine h2.unexempt x (fun y hy => ?_) (fun p hp => Or.inl ?_)
    · rcases List.mem_cons.mp hy with rfl | hy
      · exact Or.inl rfl
      · exact hE y hy
    · have hx : x < w.devs.length := by
        have := holdsD_lt hp
        simpa using this
      have hle : (w.setDev x { w.dev x with waitingDS := false }).now ≤ w.now + o := by
        show w.now ≤ w.now + o; omega
      rw [schedLib_of_le _ _ _ _ _ hle] at hp ⊢
      have hdx : (w.setDev x { w.dev x with waitingDS := false }).dev x =
          { w.dev x with waitingDS := false } := dev_setDev_same hx
      refine ⟨_, mem_insort_self _ _, rfl, ?_, rfl, ?_⟩
      · show _ = ((w.setDev x { w.dev x with waitingDS := false }).dev x).aid
        rw [hdx]; rfl
      · show w.now + o ≤ dueD w.now ((w.setDev x { w.dev x with waitingDS := false }).dev x)
        have hp' : holdsD ((w.setDev x { w.dev x with waitingDS := false }).dev x) = some p := hp
        rw [hdx] at hp' ⊢
        exact hdue p hp'

theorem G.schedulePass0 {E N A : List Nat} {w : World} (h : G E N A w) (x : Nat) :
    G E N A (w.schedulePass x 0) :=
  h.schedulePass x 0 (Int.le_refl _) (fun y hy => Or.inr hy)
    (fun p _ => by rw [Int.add_zero]; exact le_dueD _ _)

/-! ### flow-only steps: the environment part -/

/-- what a flow-only step may do to the environment: keep the queue invariant, add no failure -/
structure EnvStep (w w' : World) : Prop where
  inv : C01.Inv w.env → C01.Inv w'.env
  acts : ∀ n ∈ C02V.acts w'.env, n ∈ C02V.acts w.env ∨ ∀ d, Action.ofNat n ≠ .fail d

theorem EnvStep.refl (w : World) : EnvStep w w := ⟨id, fun _ h => Or.inl h⟩

theorem EnvStep.trans {w w' w'' : World} (h : EnvStep w w') (h' : EnvStep w' w'') : EnvStep w w'' :=
  ⟨fun hi => h'.inv (h.inv hi), fun n hn => by
    rcases h'.acts n hn with h1 | h1
    · exact h.acts n h1
    · exact Or.inr h1⟩

theorem EnvStep.of_env {w w' : World} (h : w'.env = w.env) : EnvStep w w' :=
  ⟨fun hi => by rw [h]; exact hi, fun n hn => by rw [h] at hn; exact Or.inl hn⟩

theorem EnvStep.foldl {α} (g : World → α → World) (hg : ∀ w a, EnvStep w (g w a)) (l : List α)
    (w : World) : EnvStep w (l.foldl g w) := by
  induction l generalizing w with
  | nil => exact .refl w
  | cons a l ih => exact (hg w a).trans (ih (g w a))

theorem envStep_schedLib (w : World) (t asset : Int) (a : Action) (prio : Int)
    (ha : ∀ d, a ≠ .fail d) : EnvStep w (w.schedLib t asset a prio) := by
  by_cases hle : w.now ≤ t
  · rw [schedLib_of_le w t asset a prio hle]
    have hs : w.env.schedule t asset a.toNat prio (weightOf w.seed w.wmod t asset a.toNat prio)
        = some (envWith w t asset a prio) := by
      rw [Env.schedule_some]; exact ⟨hle, rfl⟩
    refine ⟨fun hi => C01.inv_schedule hi hs, fun n hn => ?_⟩
    rw [C02V.acts_schedule hs] at hn
    rcases hn with rfl | hn
    · right; intro d hd; exact ha d (C02V.ofNat_toNat_fail a d hd)
    · exact Or.inl hn
  · rw [schedLib_of_lt w t asset a prio (Int.not_le.mp hle)]
    exact .of_env (C03.setErr_env _ _)

theorem envStep_setWaiting (w : World) (x : Nat) (a b : Bool) : EnvStep w (w.setWaiting x a b) := by
  apply EnvStep.of_env
  unfold setWaiting
  dsimp only
  repeat' split
  all_goals rfl

theorem envStep_schedulePass (w : World) (x : Nat) (o : Int) : EnvStep w (w.schedulePass x o) := by
  unfold schedulePass
  dsimp only
  split
  · exact .refl w
  · have := envStep_schedLib (w.setDev x { w.dev x with waitingDS := false })
      (if (w.setDev x { w.dev x with waitingDS := false }).now + o < 0 then 0
        else (w.setDev x { w.dev x with waitingDS := false }).now + o) (w.dev x).aid
      (Action.passPart x) pPassPart (fun d hd => Action.noConfusion hd)
    exact ⟨fun hi => this.inv hi, fun n hn => this.acts n hn⟩

theorem envStep_notify_aux (n : Nat) :
    ∀ w x, EnvStep w (notifyUp n w x) ∧ EnvStep w (spaceAvail n w x) := by
  induction n with
  | zero =>
    intro w x
    constructor
    · rw [notifyUp]; exact .of_env (C03.setErr_env _ _)
    · rw [spaceAvail]; exact .of_env (C03.setErr_env _ _)
  | succ n ih =>
    intro w x
    have hN : ∀ w x, EnvStep w (notifyUp n w x) := fun w x => (ih w x).1
    have hS : ∀ w x, EnvStep w (spaceAvail n w x) := fun w x => (ih w x).2
    constructor
    · rw [notifyUp]
      repeat' split
      all_goals first
        | exact EnvStep.refl _
        | exact (envStep_setWaiting _ _ _ _).trans (EnvStep.foldl _ hS _ _)
        | exact EnvStep.foldl _ hS _ _
        | exact EnvStep.foldl _ hN _ _
    · rw [spaceAvail]
      repeat' split
      all_goals first
        | exact EnvStep.refl _
        | exact hN _ _
        | exact hS _ _
        | exact envStep_schedulePass _ _ _

theorem envStep_notify (w : World) (x : Nat) : EnvStep w (w.notify x) :=
  (envStep_notify_aux _ w x).1

/-! ### `notify` discharges the pending notification of `x` -/

theorem sw_of_core {w w' : World} (h : w'.core = w.core) : sw w' = sw w := by
  unfold sw
  have key : ∀ v : World, v.devs.map stat1 = v.core.devs.map stat1 := by
    intro v
    rw [core_devs, List.map_map]
    apply List.map_congr_left
    intro d _; rfl
  have h1 : w'.devs.map stat1 = w.devs.map stat1 := by rw [key w', key w, h]
  rw [h1, core_eq_scripts h, core_eq_targets h, core_eq_groups h]

theorem holdsD_core (d : Dev) : holdsD d.core = holdsD d := rfl
theorem accB_core (n : Nat) (d : Dev) : accB n d.core = accB n d := rfl
theorem dueD_core (n : Int) (d : Dev) : dueD n d.core = dueD n d := rfl
theorem heldL_core (d : Dev) : heldL d.core = heldL d := rfl

theorem accB_nodeOK {w : World} {x n : Nat} (h : accB n (w.dev x) = true) : NodeOK w x := by
  unfold NodeOK forwardsUp hasRoom
  unfold accB at h
  rw [Bool.and_eq_true] at h
  replace h := h.1
  unfold accB0 at h
  cases hkind : (w.dev x).kind <;> simp only [hkind] at h ⊢
  all_goals first
    | exact Or.inl trivial
    | exact Or.inr trivial
    | skip
  cases hc : (w.dev x).cap with
  | none => exact Or.inl rfl
  | some c =>
    simp only [hc, Bool.and_eq_true, decide_eq_true_eq] at h ⊢
    left; omega

theorem forwardsUp_batcher {w : World} {x : Nat} (hk : (w.dev x).kind = .batcher) :
    forwardsUp w x = true := by
  unfold forwardsUp; rw [hk]

theorem wouldAcceptN_core {w w' : World} (hc : w'.core = w.core) (f : Nat) (N A : List Nat)
    (y p : Nat) : wouldAcceptN f w' N A y p = wouldAcceptN f w N A y p := by
  apply wouldAcceptN_congr
  · exact ⟨core_eq_dev_kind hc, core_eq_dev_pred hc, core_eq_dev_down hc, core_eq_dev_group hc,
      core_eq_groups hc⟩
  · intro pr; unfold gatePred partValue; simp only [core_eq_part hc]
  · rw [core_eq_part hc]
  · intro z; unfold accM; rw [core_eq_canAcceptBasic hc z p, core_eq_field procM (fun _ => rfl) hc]

/-- **A notification step** (`w'` is reached from `w` by notifications only): the masks may change
from `N`, `A` to `N'`, `A'` provided every flagged holder that has a downstream neighbour willing
under the new masks but not under the old ones has been woken. -/
theorem G.notifyStep {E N A N' A' : List Nat} {w w' : World} (h : G E N A w)
    (hst : C03.Step w w') (hes : EnvStep w w')
    (haok : ∀ y ∈ A', (w.dev y).kind = .batcher)
    (hwk : ∀ d p y, holdsD (w.dev d) = some p → (w.dev d).waitingDS = true → y ∈ (w.dev d).down →
      wouldAcceptN w.fuel w N' A' y p = true → wouldAcceptN w.fuel w N A y p = false →
      (w'.dev d).waitingDS = false) : G E N' A' w' := by
  have hc := hst.core
  have hsw := sw_of_core hc
  have hdc : ∀ y, (w'.dev y).core = (w.dev y).core := core_eq_dev hc
  have hnow : w'.now = w.now := hst.mono.now
  have hlen : w'.devs.length = w.devs.length := core_eq_devs_length hc
  refine ⟨h.sc.of_sw hsw, fun hb => ?_, hes.inv h.inv, by rw [hnow]; exact h.now0, ?_, ?_, ?_,
    h.stk.frame (core_eq_parts hc) (core_eq_dev_kind hc),
    h.wr.same hsw (by rw [core_eq_rm hc])
      (fun y hy => by rw [← core_eq_dev_waitingRes hc]; exact hy),
    fun y hy => by rw [core_eq_dev_kind hc]; exact haok y hy, ?_⟩
  · unfold PartsLeaf; rw [core_eq_parts hc]; exact h.pl ((noBatch_of_sw hsw).mp hb)
  · exact evOK_of h.ev (fun d => core_eq_dev_kind hc d) (fun n hn => by
      rcases hes.acts n hn with h1 | h1
      · exact Or.inl h1
      · exact Or.inr (fun d hd => absurd hd (h1 d)))
  · intro d hd p hp
    obtain ⟨i, hi, rfl⟩ := List.getElem_of_mem hd
    rw [core_eq_parts hc]
    have e : w'.dev i = w'.devs[i] := dev_getElem hi
    rw [← e, ← heldL_core, hdc, heldL_core] at hp
    exact h.valid.dev i p hp
  · unfold KidsValid; rw [core_eq_parts hc]; exact h.kv
  · intro d p hd hdE
    have hd0 : holdsD (w.dev d) = some p := by rw [← holdsD_core, ← hdc, holdsD_core]; exact hd
    have haid : (w'.dev d).aid = (w.dev d).aid := core_eq_dev_aid hc d
    have hdue : dueD w.now (w.dev d) = dueD w'.now (w'.dev d) := by
      rw [hnow, ← dueD_core, ← dueD_core _ (w'.dev d), hdc]
    have hatt : Att w d → Att w' d :=
      att_mono (fun e he => hst.mono.mem he) haid (by rw [hdue]; exact Int.le_refl _)
    have hpend : Pending w d → (w'.dev d).waitingDS = false → Att w' d := by
      intro hp hf
      rcases hst.pend d hp with h1 | h1
      · rw [hf] at h1; cases h1
      · obtain ⟨e, he, h1, h2, _, h4, h5⟩ := h1
        refine ⟨e, he, h1, h4, h5, ?_⟩
        rw [h2, passTime_of_nonneg (by rw [hnow]; exact h.now0)]
        exact le_dueD _ _
    rcases h.wake d p hd0 hdE with ha | hb
    · exact Or.inl (hatt ha)
    · cases hfl : (w'.dev d).waitingDS with
      | false => exact Or.inl (hpend (Or.inl hb.1) hfl)
      | true =>
        refine Or.inr ⟨hfl, fun y hy => ?_⟩
        rw [core_eq_dev_down hc] at hy
        cases hh : wouldAcceptN w'.fuel w' N' A' y p with
        | false => rfl
        | true =>
          exfalso
          rw [fuel_of_len hlen, wouldAcceptN_core hc] at hh
          have := hwk d p y hd0 hb.1 hy hh (hb.2 y hy)
          rw [this] at hfl; cases hfl

/-- Notifications (whoever is notified) never destroy the invariant. -/
theorem G.ofStep {E N A : List Nat} {w w' : World} (h : G E N A w)
    (hst : C03.Step w w') (hes : EnvStep w w') : G E N A w' :=
  h.notifyStep hst hes h.aok (fun d p y _ _ _ h1 h2 => by rw [h1] at h2; cases h2)

/-- the chain `y → … → x` followed by one more step through the controller `x` -/
theorem CChain.snoc {w : World} {l k y x z c : Nat} (h : CChain w l k y x) (he : CEdge w x z c) :
    CChain w (l + 1) (k + c) y z := by
  induction h with
  | here x =>
    have := CChain.step he (.here z)
    simpa using this
  | @step l k c' y z' x he' _ ih =>
    have := CChain.step he' (ih he)
    have e : c' + k + c = c' + (k + c) := Nat.add_assoc ..
    rw [e]
    exact this

/-- **Discharge by notification**, with explicit recursion budget `n`: it must cover the way back
along every controller chain that ends in `x`. -/
theorem G.notifyUpG {E N A N' A' : List Nat} {w : World} (h : G E N A w) (x n : Nat)
    (hn : ∀ y l k, y < w.devs.length → CChain w l k y x → 2 + k ≤ n)
    (hN : ∀ y ∈ N, y = x ∨ y ∈ N')
    (hA : ∀ y ∈ A', y ∈ A ∨ (y = x ∧ (w.dev x).kind = .batcher)) :
    G E N' A' (notifyUp n w x) := by
  have haok : ∀ y ∈ A', (w.dev y).kind = .batcher := by
    intro y hy
    rcases hA y hy with h1 | ⟨rfl, h1⟩
    · exact h.aok y h1
    · exact h1
  refine h.notifyStep (step_notifyUp n w x) (envStep_notify_aux n w x).1 haok ?_
  intro d p y hd0 hfl hy hh hb2
  have hdlt : d < w.devs.length := holdsD_lt hd0
  unfold wouldAcceptN at hh hb2
  obtain ⟨l, k, hch, hcab⟩ := wouldAcceptS_local (N := N) (N' := N') (A := A) (A' := A')
    (x := x) (fun z hz => (hN z hz).symm) (fun z hz => (hA z hz).imp id (fun h1 => h1.1))
    _ y _ hh hb2
  have hnode : NodeOK w x := by
    rw [Bool.or_eq_true] at hcab
    rcases hcab with h1 | h1
    · exact Or.inl (forwardsUp_batcher (haok x (by simpa using h1)))
    · rw [accM_eq] at h1; exact accB_nodeOK h1
  obtain ⟨hylt, hdy⟩ := h.sc.down_sym hdlt hy
  have hkn : 2 + k ≤ n := hn y l k hylt hch
  have hny : NodeOK w y := by
    cases hch with
    | here _ => exact hnode
    | step he _ => exact nodeOK_ctrl he
  have hr : C03.Reach w true (1 + 1 + k) x d :=
    hch.reach h.sc _ hylt hnode
      (.up (forwards_of_up h.sc hylt hny hdy) hdy (.self (n := 0) (holdsD_hl hd0).1))
  have hr' : C03.Reach w true n x d := hr.le (by omega)
  have hwk := reach_wakes hdlt (holdsD_hl hd0).2
    (by rw [operational_eq]; exact holdsD_opn hd0) hr' w rfl (Or.inl hfl)
  exact hwk.1

/-- **Discharge by notification.**  The pending notification of `x` is discharged; if `x` is a
batcher it may be counted as willing from now on (whoever could be waiting for it has been woken,
whatever its state). -/
theorem G.notifyG {E N A N' A' : List Nat} {w : World} (h : G E N A w) (x : Nat)
    (hN : ∀ y ∈ N, y = x ∨ y ∈ N')
    (hA : ∀ y ∈ A', y ∈ A ∨ (y = x ∧ (w.dev x).kind = .batcher)) : G E N' A' (w.notify x) :=
  h.notifyUpG x w.fuel (fun y l k hylt hch => by
    have := (hch.bound h.sc _ _ (h.sc.cost hylt)).2
    unfold World.fuel; omega) hN hA

/-- **Discharge by notification** (the masks `A` unchanged). -/
theorem G.notify {E N A N' : List Nat} {w : World} (h : G E N A w) (x : Nat)
    (hN : ∀ y ∈ N, y = x ∨ y ∈ N') : G E N' A (w.notify x) :=
  h.notifyG x hN (fun _ hy => Or.inl hy)

end C03W
end SimProc
