/-
C17W machinery, part 3: the release loop of a buffer and `passPart` as seen by the batchers; the
events other than `passPart`; the closed-world invariant of C17W through `step` and `runLoop`.
-/
import SimProc.Proofs.C17WPass
namespace SimProc
namespace C17W
open World C02V C05W

theorem devs_len_of_st' {w w' : World} (h : st w' = st w) : w'.devs.length = w.devs.length := by
  have := congrArg (fun t => t.devs.length) h
  simpa [st] using this

/-! ### the release loop of a buffer -/

/-- The queue of the buffer after one successful round: every entry was in the queue before, with
the same `kids`. -/
theorem round_buf {w w1 : World} {x : Nat} {t : Int} {p : Nat} {rest : List (Int × Nat)}
    (hI : InvW w) (hk : (w.dev x).kind = .buffer) (hg : GiveOK w x)
    (hb : (w.dev x).buf = (t, p) :: rest)
    (hr : tryList givePart w (w.sortedDown x) p = (w1, true)) :
    ∀ e ∈ ((C05.popHead w1 x (w.leafCount p)).dev x).buf,
      e.2 ∈ (w.dev x).buf.map (·.2) ∧ ((C05.popHead w1 x (w.leafCount p)).part e.2).kids = (w.part e.2).kids := by
  have hx : x < w.devs.length := lt_of_kind_buffer hk
  have hbt : (tryList givePart w (w.sortedDown x) p).2 = true := by rw [hr]
  obtain ⟨z, w0, hH⟩ := tryGive_handed w x p hg hbt
  rw [hr] at hH
  simp only [] at hH
  have hx1 : x < w1.devs.length := by rw [hH.bo.len]; exact hx
  have hd2 := C05.popHead_dev w1 x (w.leafCount p) hx1
  intro e he
  rw [hd2] at he
  change e ∈ (w1.dev x).buf.drop 1 at he
  rw [popHead_part]
  by_cases hxz : x = z
  · subst hxz
    have hx0 : x < w0.devs.length := by rw [devs_len_of_sv hH.fr.sv]; exact hx
    have hk0 : (w0.dev x).kind = .buffer := by rw [kind_of_fr3 hH.fr]; exact hk
    have ho0 : (w0.dev x).output = none := by rw [output_of_sv hH.fr.sv]; exact hH.output
    obtain ⟨_, a2, _⟩ := C05.acceptPart_buffer w0 x p hx0 hk0 ho0
    rw [← hH.eq] at a2
    obtain ⟨_, f2, _⟩ := bdev_fields (bdev_of_fr3 hH.fr x)
    rw [a2, f2, hb] at he
    have hmem : e.2 ∈ (w.dev x).buf.map (·.2) := by
      rw [hb]
      simp only [List.cons_append, List.drop_succ_cons, List.drop_zero, List.mem_append,
        List.mem_singleton] at he
      rcases he with he | he
      · exact List.mem_map.2 ⟨e, List.mem_cons_of_mem _ he, rfl⟩
      · subst he; simp
    refine ⟨hmem, ?_⟩
    have hko := (acc_kids x p hH.fr hH.lt).2 (by rw [hk]; decide)
    rw [hH.eq]
    obtain ⟨e', he', heq⟩ := List.mem_map.1 hmem
    exact hko.2 e.2 (held_valid hI hx (heq ▸ buf_mem_held he')) (fun h => h)
  · obtain ⟨_, f2, _⟩ := bdev_fields (hH.bo.bdev_eq hxz)
    rw [f2, hb] at he
    simp only [List.drop_succ_cons, List.drop_zero] at he
    refine ⟨by rw [hb]; exact List.mem_map.2 ⟨e, List.mem_cons_of_mem _ he, rfl⟩, ?_⟩
    rw [hH.eq]
    exact acc_kids_others z p hI hH.fr hH.lt hx
      (buf_mem_held (by rw [hb]; exact List.mem_cons_of_mem _ he)) (held_head_ne_rest hI hx hb he) hxz

/-- One successful round of the release loop, as seen by the batchers. -/
theorem bat_round {w w1 : World} {x : Nat} {t : Int} {p : Nat} {rest : List (Int × Nat)}
    (hI : InvW w) (hB : BatAll w) (hk : (w.dev x).kind = .buffer) (hg : GiveOK w x)
    (hb : (w.dev x).buf = (t, p) :: rest)
    (hr : tryList givePart w (w.sortedDown x) p = (w1, true)) :
    ∀ y, (w.dev y).kind = .batcher →
      BatOK (C05.popHead w1 x (w.leafCount p)) y ∧
      (C17.seqOf (C05.popHead w1 x (w.leafCount p)) y = C17.seqOf w y ∨
       C17.seqOf (C05.popHead w1 x (w.leafCount p)) y = C17.seqOf w y ++ w.leavesOf p) := by
  have hx : x < w.devs.length := lt_of_kind_buffer hk
  have hbt : (tryList givePart w (w.sortedDown x) p).2 = true := by rw [hr]
  obtain ⟨z, w0, hH⟩ := tryGive_handed w x p hg hbt
  rw [hr] at hH
  simp only [] at hH
  have hpx : p ∈ (sdev (w.dev x)).held := by simp [SDev.held, sdev, hb]
  have hpv : p < w.parts.length := held_valid hI hx hpx
  intro y hyk
  have hy := lt_of_kind_batcher hyk
  have hyx : y ≠ x := by rintro rfl; rw [hk] at hyk; cases hyk
  -- the bookkeeping of the buffer does not touch `y`
  have hs2 : sdev ((C05.popHead w1 x (w.leafCount p)).dev y) = sdev (w1.dev y) := by
    unfold C05.popHead
    simp only [dev_addRec]
    rw [dev_modDev_ne (Ne.symm hyx)]
  have hb2 : ((C05.popHead w1 x (w.leafCount p)).dev y).bsize = (w1.dev y).bsize :=
    (bdev_fields ((popHead_bo w1 x _).bdev_eq hyx)).2.2.2.2.1
  have key : BatOK w1 y ∧ (C17.seqOf w1 y = C17.seqOf w y ∨ C17.seqOf w1 y = C17.seqOf w y ++ w.leavesOf p) := by
    by_cases hyz : y = z
    · subst hyz
      have := handed_bat_self hI hH hyk hx hpx (Ne.symm hyx) (hB y hyk)
      exact ⟨this.1, Or.inr this.2⟩
    · have := handed_bat_other hI hH hpv hy hyz (held_ne_of_other hI hx hy hpx hyx) (hB y hyk)
      exact ⟨this.1, Or.inl this.2⟩
  refine ⟨batOK_transport hs2 hb2 (fun q _ => by rw [popHead_part]) key.1, ?_⟩
  rw [seqOf_transport hs2 (fun q _ => by rw [popHead_part])]
  exact key.2

/-- What (a piece of) the release loop of buffer `x` does to the batchers: they keep their
invariant, and each of them has appended the leaves of some of the parts that were stored in `x`. -/
def BL (w : World) (x : Nat) (w' : World) : Prop :=
  BatAll w' ∧ ∀ y, (w.dev y).kind = .batcher →
    ∃ ps : List Nat, C17.seqOf w' y = C17.seqOf w y ++ ps.flatMap w.leavesOf ∧
      ∀ q ∈ ps, q ∈ (w.dev x).buf.map (·.2)

theorem bl_of_frame {w w' : World} (x : Nat) (hkind : ∀ y, (w'.dev y).kind = (w.dev y).kind)
    (hsv : sv w' = sv w) (hbv : bv w' = bv w) (hB : BatAll w) : BL w x w' :=
  ⟨batAll_of_frame hkind hsv hbv hB, fun y _ =>
    ⟨[], by simp [seqOf_transport (sdev_of_sv hsv y) (fun q _ => kids_of_sv hsv q)], by simp⟩⟩

theorem bat_bufferLoop (f : Nat) : ∀ (w : World) (x : Nat), InvW w → BatAll w →
    (w.dev x).kind = .buffer → GiveOK w x → BL w x (bufferLoop f w x) := by
  induction f with
  | zero => intro w x _ hB _ _; exact bl_of_frame x (fun _ => rfl) rfl rfl hB
  | succ f ih =>
    intro w x hI hB hk hg
    rw [C05.bufferLoop_succ]
    split
    · exact bl_of_frame x (fun _ => rfl) rfl rfl hB
    · rename_i t p rest hb
      split
      · exact bl_of_frame x (fun _ => rfl) rfl rfl hB
      · rename_i hh
        cases hr : tryList givePart w (w.sortedDown x) p with
        | mk w1 b =>
          cases b with
          | false =>
            simp only []
            have hf := (tryGive_gd w (w.sortedDown x) p).1 (by rw [hr])
            rw [hr] at hf
            exact bl_of_frame x (kind_of_fr3 hf) hf.sv hf.bv hB
          | true =>
            simp only []
            have h1 := bufferLoop_one_success hb hh hr
            have hI2 : InvW (C05.popHead w1 x (w.leafCount p)) := h1 ▸ inv_bufferLoop 1 w x hI hk hg
            have hst1 : st w1 = st w := by have := st_tryGive w (w.sortedDown x) p; rw [hr] at this; exact this
            have hst2 : st (C05.popHead w1 x (w.leafCount p)) = st w := (popHead_st ..).trans hst1
            have hl1 : w1.devs.length = w.devs.length := by
              have := congrArg (fun t => t.devs.length) hst1
              simpa [st] using this
            have hround := bat_round hI hB hk hg hb hr
            have hbuf := round_buf hI hk hg hb hr
            have hB2 : BatAll (C05.popHead w1 x (w.leafCount p)) := by
              intro y hy
              rw [kind_of_st hst2] at hy
              exact (hround y hy).1
            obtain ⟨r1, r2⟩ := ih _ x hI2 hB2 (by rw [kind_of_st hst2]; exact hk)
              (hg.of_st hst2 (by rw [popHead_len, hl1]))
            refine ⟨r1, fun y hy => ?_⟩
            obtain ⟨ps2, e2, m2⟩ := r2 y (by rw [kind_of_st hst2]; exact hy)
            have hfm : ps2.flatMap (C05.popHead w1 x (w.leafCount p)).leavesOf = ps2.flatMap w.leavesOf := by
              apply flatMap_congr'
              intro q hq
              obtain ⟨e, he, heq⟩ := List.mem_map.1 (m2 q hq)
              have := (hbuf e he).2
              rw [heq] at this
              exact leavesOf_of_kids this
            have hmem2 : ∀ q ∈ ps2, q ∈ (w.dev x).buf.map (·.2) := by
              intro q hq
              obtain ⟨e, he, heq⟩ := List.mem_map.1 (m2 q hq)
              exact heq ▸ (hbuf e he).1
            rcases (hround y hy).2 with hs | hs
            · exact ⟨ps2, by rw [e2, hs, hfm], hmem2⟩
            · refine ⟨p :: ps2, ?_, ?_⟩
              · rw [e2, hs, hfm]; simp
              · intro q hq
                rcases List.mem_cons.1 hq with rfl | hq
                · rw [hb]; simp
                · exact hmem2 q hq

/-! ### `passPart` -/

/-- What the event `passPart x` does to the batchers. -/
structure PP (w : World) (x : Nat) (w' : World) : Prop where
  all : BatAll w'
  /-- a batcher other than `x` appended the leaves of parts that `x` held -/
  others : ∀ y, (w.dev y).kind = .batcher → y ≠ x →
    ∃ ps : List Nat, C17.seqOf w' y = C17.seqOf w y ++ ps.flatMap w.leavesOf ∧
      ∀ q ∈ ps, q ∈ (sdev (w.dev x)).held
  /-- the batcher `x` itself handed over its output, or nothing happened to its sequence -/
  giver : (w.dev x).kind = .batcher →
    C17.seqOf w' x = C17.seqOf w x ∨
    ∃ o, (w.dev x).output = some o ∧ C17.seqOf w x = w.leavesOf o ++ C17.seqOf w' x

theorem pp_of_ph {w w' : World} {x : Nat} (hst : st w' = st w) (h : PH w x w')
    (hx : (w.dev x).kind ≠ .batcher) : PP w x w' := by
  refine ⟨?_, ?_, fun hk => absurd hk hx⟩
  · intro y hy
    rw [kind_of_st hst] at hy
    exact (h.others y hy (by rintro rfl; exact hx hy)).1
  · intro y hy hyx
    obtain ⟨_, ps, e, m⟩ := h.others y hy hyx
    exact ⟨ps, e, fun q hq => held_output (m q hq)⟩

theorem bat_passPart (w : World) (x : Nat) (hI : InvW w) (hB : BatAll w) (hg : GiveOK w x) :
    PP w x (w.passPart x) := by
  have hph := bat_passHandler w x hI hB hg
  cases hk : (w.dev x).kind
  case source =>
    have hI1 := inv_passHandler w x hI (by rw [hk]; decide) hg
    have h1 : PP w x (w.passHandler x) := pp_of_ph (st_passHandler w x) hph (by rw [hk]; decide)
    have tail : ∀ wpre : World, sv wpre = sv (w.passHandler x) → bv wpre = bv (w.passHandler x) →
        PP w x (wpre.scheduleFinish x) := by
      intro wpre hsvpre hbvpre
      have hIpre : InvW wpre := hI1.of_sv hsvpre
      have hkindpre : ∀ y, (wpre.dev y).kind = (w.dev y).kind := by
        intro y
        have : sdev (wpre.dev y) = sdev ((w.passHandler x).dev y) := sdev_of_sv hsvpre y
        exact (congrArg SDev.kind this).trans (kind_of_st (st_passHandler w x) y)
      have hsteps := steps_scheduleFinish wpre x
      have hlen : (wpre.scheduleFinish x).devs.length = wpre.devs.length := by
        have := hsteps.length; simpa [sv] using this
      have key : ∀ y, (w.dev y).kind = .batcher →
          BatOK (wpre.scheduleFinish x) y ∧ C17.seqOf (wpre.scheduleFinish x) y = C17.seqOf (w.passHandler x) y := by
        intro y hy
        have hyx : y ≠ x := by rintro rfl; rw [hk] at hy; cases hy
        have hylt : y < wpre.devs.length := by
          rw [devs_len_of_sv hsvpre, devs_len_of_st' (st_passHandler w x)]; exact lt_of_kind_batcher hy
        have hs : sdev ((wpre.scheduleFinish x).dev y) = sdev ((w.passHandler x).dev y) := by
          have h2 := hsteps.devs_ne hyx
          rw [sv_get wpre y hylt, sv_get _ y (by rw [hlen]; exact hylt)] at h2
          exact (Option.some.inj h2).trans (sdev_of_sv hsvpre y)
        have hbd : bdev ((wpre.scheduleFinish x).dev y) = bdev ((w.passHandler x).dev y) :=
          (bdev_of_bv (bv_scheduleFinish wpre x) y).trans (bdev_of_bv hbvpre y)
        have hko : KO (w.passHandler x) (wpre.scheduleFinish x) :=
          KOx.trans (KO.of_sv hsvpre) (ko_scheduleFinish wpre x)
        have hylt1 : y < (w.passHandler x).devs.length := by
          rw [devs_len_of_st' (st_passHandler w x)]; exact lt_of_kind_batcher hy
        have hkk : ∀ q ∈ (sdev ((w.passHandler x).dev y)).held,
            ((wpre.scheduleFinish x).part q).kids = ((w.passHandler x).part q).kids :=
          fun q hq => hko.2 q (held_valid hI1 hylt1 hq) (fun h => h)
        exact ⟨batOK_transport hs (bdev_fields hbd).2.2.2.2.1 hkk
          (h1.all y (by rw [kind_of_st (st_passHandler w x)]; exact hy)), seqOf_transport hs hkk⟩
      refine ⟨?_, ?_, fun hkx => by rw [hk] at hkx; cases hkx⟩
      · intro y hy
        have hy' : (w.dev y).kind = .batcher := by
          have := kind_of_st (st_scheduleFinish wpre x) y
          rw [this, hkindpre] at hy; exact hy
        exact (key y hy').1
      · intro y hy hyx
        obtain ⟨ps, e, m⟩ := h1.others y hy hyx
        exact ⟨ps, by rw [(key y hy).2, e], m⟩
    unfold World.passPart
    simp only [hk]
    repeat' split
    all_goals first
      | exact pp_of_ph rfl (ph_of_frame x rfl rfl hB) (by rw [hk]; decide)
      | exact h1
      | (apply tail
         · rw [sv_addRec]; exact sv_modDev_same _ _ _ (fun _ => rfl)
         · rw [bv_addRec]; exact bv_modDev_same _ _ _ (fun _ => rfl))
  case buffer =>
    unfold World.passPart
    simp only [hk]
    obtain ⟨b1, b2⟩ := bat_bufferLoop ((w.dev x).buf.length + 1) w x hI hB hk hg
    generalize hw1 : bufferLoop ((w.dev x).buf.length + 1) w x = wl at b1 b2
    have hfin : ∀ w' : World, sv w' = sv wl → bv w' = bv wl → (∀ y, (w'.dev y).kind = (wl.dev y).kind) →
        PP w x w' := by
      intro w' hsv hbv hkind
      refine ⟨batAll_of_frame hkind hsv hbv b1, ?_, fun hkx => by rw [hk] at hkx; cases hkx⟩
      intro y hy _
      obtain ⟨ps, e, m⟩ := b2 y hy
      refine ⟨ps, ?_, fun q hq => ?_⟩
      · rw [seqOf_transport (sdev_of_sv hsv y) (fun q _ => kids_of_sv hsv q), e]
      · obtain ⟨e', he', heq⟩ := List.mem_map.1 (m q hq)
        exact heq ▸ buf_mem_held he'
    apply hfin
    · rw [sv_notify]; split
      · rfl
      · split
        · rw [sv_schedulePass]
        · exact sv_setDev_same _ _ _ rfl
    · rw [bv_notify]; split
      · rfl
      · split
        · rw [bv_schedulePass]
        · exact bv_setDev_same _ _ _ rfl
    · intro y
      apply kind_of_st
      rw [st_notify]; split
      · rfl
      · split
        · rw [st_schedulePass]
        · exact st_setDev_same _ _ _ rfl
  case batcher =>
    unfold World.passPart
    simp only [hk]
    have hI1 := inv_passHandler w x hI (by rw [hk]; decide) hg
    have hk1 : ((w.passHandler x).dev x).kind = .batcher := by rw [kind_of_st (st_passHandler w x)]; exact hk
    obtain ⟨g1, g2⟩ := hph.giver hk
    split
    · rename_i hnone
      obtain ⟨t1, t2⟩ := batOK_tryMove hI1 hk1 g1
      refine ⟨?_, ?_, fun _ => ?_⟩
      · intro y hy
        rw [kind_of_st (st_tryMove ..), kind_of_st (st_passHandler w x)] at hy
        by_cases hyx : y = x
        · subst hyx; exact t1
        · have hylt : y < (w.passHandler x).devs.length := by
            rw [devs_len_of_st' (st_passHandler w x)]; exact lt_of_kind_batcher hy
          exact (batOK_tryMove_other hI1 hylt hyx (hph.others y hy hyx).1).1
      · intro y hy hyx
        obtain ⟨b, ps, e, m⟩ := hph.others y hy hyx
        have hylt : y < (w.passHandler x).devs.length := by
          rw [devs_len_of_st' (st_passHandler w x)]; exact lt_of_kind_batcher hy
        exact ⟨ps, by rw [(batOK_tryMove_other hI1 hylt hyx b).2, e], fun q hq => held_output (m q hq)⟩
      · rcases g2 with ⟨_, g⟩ | ⟨o, g3, g4, g5⟩
        · exact Or.inl (t2.trans g)
        · exact Or.inr ⟨o, g3, by rw [t2]; exact g5⟩
    · rename_i hsome
      rcases g2 with ⟨gb, g⟩ | ⟨o, _, g4, _⟩
      · refine ⟨?_, ?_, fun _ => Or.inl g⟩
        · intro y hy
          rw [kind_of_st (st_passHandler w x)] at hy
          by_cases hyx : y = x
          · subst hyx; exact gb
          · exact (hph.others y hy hyx).1
        · intro y hy hyx
          obtain ⟨_, ps, e, m⟩ := hph.others y hy hyx
          exact ⟨ps, e, fun q hq => held_output (m q hq)⟩
      · rw [g4] at hsome; exact absurd rfl hsome
  case sink =>
    have : w.passPart x = w := by unfold World.passPart; simp only [hk]
    rw [this]
    exact pp_of_ph rfl (ph_of_frame x rfl rfl hB) (by rw [hk]; decide)
  all_goals
    unfold World.passPart
    simp only [hk]
    exact pp_of_ph (st_passHandler w x) hph (by rw [hk]; decide)

end C17W
end SimProc
