/-
C18W — machinery, part 4: the invariant of one action scheduler.

`SI t0 e c s`: scheduler `s`, initialised at time `t0`, in the event queue `e` and the tracked key
`c` — its `.schedUpdate` records are the first `K` entries of the timetable run started at `t0`,
its position is `(K − 1) mod n`, and unless the schedule has ended exactly one event with its action
is pending (not paused, not cancelled), due at `t0 + T tt K`.  `SU`: a scheduler that has not been
initialised.  Both depend on the queue only through the tracked events and are kept by every
abstract step; `schedUpdate` moves `SU` to `SI` (initialisation) and `SI` to `SI` (transition).
-/
import SimProc.Proofs.C18WWorld
import SimProc.Props.C18

namespace SimProc
namespace C18W
open World FloorCoreL

/-! ### events, records, results of one scheduler -/

/-- `e` carries the action `.schedUpdate s` -/
def suEv (s : Nat) (e : Event) : Bool := e.act == 9 + 16 * s

theorem suEv_tracked {s : Nat} {e : Event} (h : suEv s e = true) : tracked e = true := by
  have : e.act = 9 + 16 * s := by simpa [suEv] using h
  simp [tracked, trackedNat, this]

theorem filter_sub {p : Event → Bool} (hp : ∀ e, p e = true → tracked e = true) (l : List Event) :
    l.filter p = (l.filter tracked).filter p := by
  rw [List.filter_filter]
  apply List.filter_congr
  intro e _
  cases h : p e with
  | false => simp
  | true => simp [hp e h]

theorem filter_sub_congr {p : Event → Bool} (hp : ∀ e, p e = true → tracked e = true)
    {l l' : List Event} (h : l'.filter tracked = l.filter tracked) : l'.filter p = l.filter p := by
  rw [filter_sub hp l', filter_sub hp l, h]

/-- the `.schedUpdate` records of scheduler `s`: (time stamp, state) -/
def schedLog (recs : List Rec) (s : Nat) : List (Int × Int) :=
  recs.filterMap (fun r => match r with
    | .schedUpdate s' t st => if s' = s then some (t, st) else none
    | _ => none)

/-- the `.act` results of scheduler `s` -/
def actLog (res : List Res) (s : Nat) : List Res :=
  res.filter (fun r => match r with
    | .act s' .. => s' == s
    | _ => false)

theorem schedLog_filter (recs : List Rec) (s : Nat) :
    schedLog (recs.filter trackedRec) s = schedLog recs s := by
  unfold schedLog
  rw [List.filterMap_filter]
  congr 1
  funext r
  cases r <;> simp [trackedRec]

theorem actLog_filter (res : List Res) (s : Nat) :
    actLog (res.filter trackedRes) s = actLog res s := by
  unfold actLog
  rw [List.filter_filter]
  apply List.filter_congr
  intro r _
  cases r <;> simp [trackedRes]

/-- state of the `k`-th transition of a timetable (cyclically) -/
def ttState (tt : List (Int × Int)) (k : Nat) : Int := (tt.getD (k % tt.length) (0, 0)).2

/-- duration of the `k`-th entry (cyclically) -/
def ttDur (tt : List (Int × Int)) (k : Nat) : Int := (tt.getD (k % tt.length) (0, 0)).1

theorem T_succ (tt : List (Int × Int)) (k : Nat) : C18.T tt (k + 1) = C18.T tt k + ttDur tt k := rfl

/-! ### the invariant of one scheduler -/

/-- The pending transition event of a scheduler. -/
structure Pending (ev pa : List Event) (t aid prio : Int) : Prop where
  ex : ∃ e, ev = [e] ∧ e.time = t ∧ e.cancelled = false ∧ e.asset = aid ∧ e.prio = prio
  pa : pa = []

/-- The invariant of an initialised scheduler, on what it depends on: the static part of the
scheduler (asset id, timetable, cyclic?), its position and state, its records, its events in the
queue and in the paused list, the clock. -/
structure SIc (t0 now : Int) (aid : Int) (tt : List (Int × Int)) (cyc : Bool) (idx : Nat)
    (state : Option Int) (lg : List (Int × Int)) (ev pa : List Event) : Prop where
  log : lg = (List.range lg.length).map (fun k => (t0 + C18.T tt k, ttState tt k))
  last : 1 ≤ lg.length →
    state = some (ttState tt (lg.length - 1)) ∧ t0 + C18.T tt (lg.length - 1) ≤ now
  ended : tt.length ≤ idx →
    ev = [] ∧ pa = [] ∧ lg.length = tt.length ∧ idx = tt.length ∧ (cyc = false ∨ tt.length = 0)
  running : idx < tt.length →
    1 ≤ lg.length ∧ idx = (lg.length - 1) % tt.length ∧ (cyc = false → lg.length ≤ tt.length) ∧
    Pending ev pa (t0 + C18.T tt lg.length) aid pOtherHigh

def SI (t0 : Int) (e : Env) (c : TK) (s : Nat) : Prop :=
  SIc t0 e.now (c.scheds.getD s default).aid (c.scheds.getD s default).s.tt
    (c.scheds.getD s default).s.cyc (c.scheds.getD s default).s.idx
    (c.scheds.getD s default).s.state (schedLog c.recsT s)
    (e.events.filter (suEv s)) (e.paused.filter (suEv s))

/-- A scheduler that has not been initialised: position 0, no record, no event. -/
structure SU (e : Env) (c : TK) (s : Nat) : Prop where
  idx : (c.scheds.getD s default).s.idx = 0
  log : schedLog c.recsT s = []
  ev : e.events.filter (suEv s) = []
  pa : e.paused.filter (suEv s) = []

theorem SIc.mono {t0 now now' : Int} {aid tt cyc idx state lg ev pa}
    (h : SIc t0 now aid tt cyc idx state lg ev pa) (hn : now ≤ now') :
    SIc t0 now' aid tt cyc idx state lg ev pa :=
  ⟨h.log, fun hk => ⟨(h.last hk).1, Int.le_trans (h.last hk).2 hn⟩, h.ended, h.running⟩

/-! ### abstract steps keep them -/

theorem schedLog_append (l1 l2 : List Rec) (s : Nat) :
    schedLog (l1 ++ l2) s = schedLog l1 s ++ schedLog l2 s := by
  unfold schedLog; rw [List.filterMap_append]

theorem actLog_append (l1 l2 : List Res) (s : Nat) :
    actLog (l1 ++ l2) s = actLog l1 s ++ actLog l2 s := by
  unfold actLog; rw [List.filter_append]

theorem outSense_scheds (c : TK) (s : Nat) (t q v : Int) :
    (c.outSense s t q v).scheds = c.scheds ∧ (c.outSense s t q v).recsT = c.recsT ∧
    (c.outSense s t q v).dk = c.dk ∧ (c.outSense s t q v).scripts = c.scripts := by
  unfold TK.outSense
  dsimp only
  split <;> exact ⟨rfl, rfl, rfl, rfl⟩

theorem foldl_outSense_scheds (l : List Nat) (c : TK) (t q v : Int) :
    (l.foldl (fun c s => c.outSense s t q v) c).scheds = c.scheds ∧
    (l.foldl (fun c s => c.outSense s t q v) c).recsT = c.recsT := by
  induction l generalizing c with
  | nil => exact ⟨rfl, rfl⟩
  | cons s l ih =>
    rw [List.foldl_cons]
    obtain ⟨h1, h2, _⟩ := outSense_scheds c s t q v
    exact ⟨(ih _).1.trans h1, (ih _).2.trans h2⟩

theorem actLog_sense (l : List Nat) (s' : Nat) (t : Int) (vals : List Int) (s : Nat) :
    actLog (l.map (fun cb => Res.sense s' cb t vals)) s = [] := by
  unfold actLog
  apply filter_eq_nil_of_forall
  intro r hr
  obtain ⟨c, _, rfl⟩ := List.mem_map.mp hr
  rfl

theorem outSense_actLog (c : TK) (s' : Nat) (t q v : Int) (s : Nat) :
    actLog (c.outSense s' t q v).resT s = actLog c.resT s := by
  unfold TK.outSense
  dsimp only
  split
  · rw [actLog_append, actLog_sense, List.append_nil]
  · rfl

theorem foldl_outSense_actLog (l : List Nat) (c : TK) (t q v : Int) (s : Nat) :
    actLog (l.foldl (fun c s => c.outSense s t q v) c).resT s = actLog c.resT s := by
  induction l generalizing c with
  | nil => rfl
  | cons s' l ih => rw [List.foldl_cons, ih, outSense_actLog]

/-- No abstract step touches the records or the results of a scheduler. -/
theorem CStep.sched_logs {a b : TK} (h : CStep a b) (s : Nat) :
    schedLog b.recsT s = schedLog a.recsT s ∧ actLog b.resT s = actLog a.resT s := by
  cases h with
  | reg => exact ⟨rfl, rfl⟩
  | unreg => exact ⟨rfl, rfl⟩
  | addCb => exact ⟨rfl, rfl⟩
  | prod x t p q v hx =>
    unfold TK.prod
    dsimp only
    rw [schedLog_append, (foldl_outSense_scheds _ _ _ _ _).2]
    exact ⟨by simp [schedLog], foldl_outSense_actLog _ _ _ _ _ _⟩

theorem CRun.sched_logs {a b : TK} (h : CRun a b) (s : Nat) :
    schedLog b.recsT s = schedLog a.recsT s ∧ actLog b.resT s = actLog a.resT s := by
  induction h with
  | refl => exact ⟨rfl, rfl⟩
  | tail _ hs ih => exact ⟨(hs.sched_logs s).1.trans ih.1, (hs.sched_logs s).2.trans ih.2⟩

theorem schedStat_of_cstat {a b : TK} (h : cstat b = cstat a) (s : Nat) :
    schedStat (b.scheds.getD s default) = schedStat (a.scheds.getD s default) := by
  have h1 : b.scheds.map schedStat = a.scheds.map schedStat := congrArg (·.1) h
  rw [← getD_map schedStat, ← getD_map schedStat, h1]

/-- The frame property of `SI`: it only looks at the tracked events, the static part of the
scheduler and its records; the clock may advance. -/
theorem SI.frame {t0 : Int} {e e' : Env} {c c' : TK} {s : Nat} (h : SI t0 e c s)
    (hev : e'.events.filter tracked = e.events.filter tracked)
    (hpa : e'.paused.filter tracked = e.paused.filter tracked) (hnow : e.now ≤ e'.now)
    (hst : schedStat (c'.scheds.getD s default) = schedStat (c.scheds.getD s default))
    (hlog : schedLog c'.recsT s = schedLog c.recsT s) : SI t0 e' c' s := by
  unfold SI at h ⊢
  simp only [schedStat, Prod.mk.injEq] at hst
  obtain ⟨h1, h2, h3, h4, h5⟩ := hst
  rw [h1, h2, h3, h4, h5, hlog, filter_sub_congr (fun _ => suEv_tracked) hev,
    filter_sub_congr (fun _ => suEv_tracked) hpa]
  exact h.mono hnow

theorem SU.frame {e e' : Env} {c c' : TK} {s : Nat} (h : SU e c s)
    (hev : e'.events.filter tracked = e.events.filter tracked)
    (hpa : e'.paused.filter tracked = e.paused.filter tracked)
    (hst : schedStat (c'.scheds.getD s default) = schedStat (c.scheds.getD s default))
    (hlog : schedLog c'.recsT s = schedLog c.recsT s) : SU e' c' s := by
  refine ⟨?_, hlog.trans h.log, ?_, ?_⟩
  · have := congrArg (·.2.2.2.1) hst
    simp only [schedStat] at this
    rw [this]; exact h.idx
  · rw [filter_sub_congr (fun _ => suEv_tracked) hev]; exact h.ev
  · rw [filter_sub_congr (fun _ => suEv_tracked) hpa]; exact h.pa

/-! ### `Sched.update` -/

theorem getElem?_ttState (tt : List (Int × Int)) (k : Nat) (h : k < tt.length) :
    tt[k]? = some (ttDur tt k, ttState tt k) := by
  simp [ttDur, ttState, Nat.mod_eq_of_lt h, List.getD_eq_getElem?_getD, List.getElem?_eq_getElem h]

theorem getElem?_ttState_mod (tt : List (Int × Int)) (k : Nat) (h : 0 < tt.length) :
    tt[k % tt.length]? = some (ttDur tt k, ttState tt k) := by
  have hlt := Nat.mod_lt k h
  simp [ttDur, ttState, List.getD_eq_getElem?_getD, List.getElem?_eq_getElem hlt]

theorem update_advance (sch : Sched) (K : Nat) (hK : 1 ≤ K)
    (hidx : sch.idx = (K - 1) % sch.tt.length) (hlt : sch.idx < sch.tt.length)
    (hc : sch.cyc = false → K ≤ sch.tt.length) :
    (sch.cyc = false ∧ K = sch.tt.length ∧
      sch.update true = ({ sch with idx := sch.tt.length }, none)) ∨
    (¬ (sch.cyc = false ∧ K = sch.tt.length) ∧
      sch.update true = ({ sch with idx := K % sch.tt.length, state := some (ttState sch.tt K) },
        some (ttState sch.tt K, sch.reg, ttDur sch.tt K))) := by
  have hpos : 0 < sch.tt.length := by omega
  cases hcy : sch.cyc with
  | false =>
    have hKn := hc hcy
    have h1 : sch.idx = K - 1 := by rw [hidx, Nat.mod_eq_of_lt (by omega)]
    have h2 : sch.idx + 1 = K := by omega
    by_cases hKeq : K = sch.tt.length
    · left
      refine ⟨rfl, hKeq, ?_⟩
      unfold Sched.update
      simp [hcy, h2, hKeq]
    · right
      refine ⟨fun h => hKeq h.2, ?_⟩
      have hKlt : K < sch.tt.length := by omega
      unfold Sched.update
      have hnot : ¬ (sch.tt.length ≤ K) := by omega
      simp only [hcy, h2, Bool.true_and, Bool.not_false, decide_eq_true_eq, ge_iff_le, hnot, if_false,
        if_true]
      rw [getElem?_ttState_mod _ _ hpos]
  | true =>
    right
    refine ⟨fun h => absurd h.1 (by decide), ?_⟩
    have h2 : (sch.idx + 1) % sch.tt.length = K % sch.tt.length := by
      rw [hidx, Nat.add_mod, Nat.mod_mod, ← Nat.add_mod]
      congr 1; omega
    unfold Sched.update
    simp only [hcy, Bool.not_true, Bool.and_false, Bool.false_and, Bool.false_eq_true, if_false, if_true, h2]
    rw [getElem?_ttState_mod _ _ hpos]

theorem update_start (sch : Sched) (hidx : sch.idx = 0) :
    (sch.tt.length = 0 ∧ sch.update false = ({ sch with idx := 0 }, none)) ∨
    (0 < sch.tt.length ∧
      sch.update false = ({ sch with idx := 0, state := some (ttState sch.tt 0) },
        some (ttState sch.tt 0, sch.reg, ttDur sch.tt 0))) := by
  by_cases h : sch.tt.length = 0
  · left
    refine ⟨h, ?_⟩
    have : sch.tt = [] := List.length_eq_zero_iff.mp h
    unfold Sched.update
    simp [hidx, this]
  · right
    have hpos : 0 < sch.tt.length := by omega
    refine ⟨hpos, ?_⟩
    unfold Sched.update
    have := getElem?_ttState sch.tt 0 hpos
    simp [hidx, this]

theorem update_dur_mem (sch s' : Sched) (adv : Bool) (st : Int) (objs : List (Nat × Option Nat))
    (dur : Int) (h : sch.update adv = (s', some (st, objs, dur))) : (dur, st) ∈ sch.tt := by
  unfold Sched.update at h
  dsimp only at h
  repeat' split at h
  all_goals simp only [Prod.mk.injEq, Option.some.injEq, reduceCtorEq, and_false] at h
  all_goals
    rename_i heq
    obtain ⟨_, rfl, _, rfl⟩ := h
    exact List.mem_of_getElem? heq

/-! ### the transition of a scheduler on (queue, key) -/

/-- The event queue after scheduling a new event. -/
def Env.withEvent (e : Env) (t a : Int) (act : Nat) (p : Int) (wt : Nat) : Env :=
  { e with events := insort (e.newEvent t a act p wt) e.events, nextUid := e.nextUid + 1 }

/-- `_update_state(advance)` of scheduler `s` on the event queue and the tracked key. -/
inductive ASched (e : Env) (c : TK) (s : Nat) (adv : Bool) : Env → TK → Prop
  | none (s' : Sched) : (c.scheds.getD s default).s.update adv = (s', none) →
      ASched e c s adv e { c with scheds := c.scheds.set s { (c.scheds.getD s default) with s := s' } }
  | some (s' : Sched) (st : Int) (objs : List (Nat × Option Nat)) (dur : Int) (wt : Nat) :
      (c.scheds.getD s default).s.update adv = (s', some (st, objs, dur)) → 0 ≤ dur →
      ASched e c s adv
        (Env.withEvent e (e.now + dur) (c.scheds.getD s default).aid (9 + 16 * s) pOtherHigh wt)
        { c with scheds := c.scheds.set s { (c.scheds.getD s default) with s := s' },
                 recsT := c.recsT ++ [Rec.schedUpdate s e.now st],
                 resT := c.resT ++ objs.map (fun p => Res.act s p.1 e.now st p.2) }

theorem ASched.of_eq {e : Env} {c : TK} {s : Nat} {adv : Bool} {e1 e2 : Env} {c1 c2 : TK}
    (h : ASched e c s adv e1 c1) (he : e2 = e1) (hc : c2 = c1) : ASched e c s adv e2 c2 := by
  subst he hc; exact h

theorem schedLib_ok (w : World) (t a : Int) (act : Action) (p : Int) (h : w.now ≤ t) :
    w.schedLib t a act p =
      { w with env := Env.withEvent w.env t a act.toNat p (weightOf w.seed w.wmod t a act.toNat p) } := by
  have h' : ¬ t < w.env.now := by have : w.env.now ≤ t := h; omega
  unfold schedLib World.sched
  simp [Env.apply, Env.schedule, h', Env.withEvent]

theorem foldl_addRes_act (objs : List (Nat × Option Nat)) (w : World) (s : Nat) (st : Int) :
    objs.foldl (fun w (x : Nat × Option Nat) => w.addRes (.act s x.1 w.now st x.2)) w =
      { w with results := w.results ++ objs.map (fun p => Res.act s p.1 w.now st p.2) } := by
  induction objs generalizing w with
  | nil => simp
  | cons c l ih => rw [List.foldl_cons, ih]; simp [World.addRes, World.now]

theorem filter_act (l : List (Nat × Option Nat)) (s : Nat) (t st : Int) :
    (l.map (fun p => Res.act s p.1 t st p.2)).filter trackedRes =
      l.map (fun p => Res.act s p.1 t st p.2) := by
  apply List.filter_eq_self.mpr
  intro r hr
  obtain ⟨c, _, rfl⟩ := List.mem_map.mp hr
  rfl


theorem schedUpdate_eq (w : World) (s : Nat) (adv : Bool) :
    w.schedUpdate s adv =
      match (w.scheds.getD s default).s.update adv with
      | (s', none) => { w with scheds := w.scheds.set s { (w.scheds.getD s default) with s := s' } }
      | (s', some (st, objs, dur)) =>
        ({ w with scheds := w.scheds.set s { (w.scheds.getD s default) with s := s' },
                  recs := w.recs ++ [Rec.schedUpdate s w.now st],
                  results := w.results ++ objs.map (fun p => Res.act s p.1 w.now st p.2) } : World).schedLib
          (w.now + dur) (w.scheds.getD s default).aid (.schedUpdate s) pOtherHigh := by
  unfold schedUpdate
  dsimp only
  generalize (w.scheds.getD s default).s.update adv = u
  obtain ⟨s', r⟩ := u
  cases r with
  | none => rfl
  | some q =>
    obtain ⟨st, objs, dur⟩ := q
    dsimp only
    rw [foldl_addRes_act]
    rfl

/-- `World.schedUpdate` refines `ASched` (durations in the timetable are not negative). -/
theorem schedUpdate_refines (w : World) (s : Nat) (adv : Bool)
    (hd : ∀ p ∈ (w.scheds.getD s default).s.tt, 0 ≤ p.1) :
    ASched w.env (tk w) s adv (w.schedUpdate s adv).env (tk (w.schedUpdate s adv)) := by
  rw [schedUpdate_eq]
  generalize hu : (w.scheds.getD s default).s.update adv = u
  obtain ⟨s', r⟩ := u
  cases r with
  | none => exact ASched.none s' hu
  | some q =>
    obtain ⟨st, objs, dur⟩ := q
    have hdur : 0 ≤ dur := hd _ (update_dur_mem _ _ _ _ _ _ hu)
    dsimp only
    rw [schedLib_ok _ _ _ _ _ (by show w.env.now ≤ w.env.now + dur; omega)]
    have := ASched.some (e := w.env) (c := tk w) (s := s) (adv := adv) s' st objs dur
      (weightOf w.seed w.wmod (w.now + dur) (w.scheds.getD s default).aid
        (Action.schedUpdate s).toNat pOtherHigh) hu hdur
    refine ASched.of_eq this rfl ?_
    simp only [tk, List.filter_append, filter_act]
    simp [trackedRec, World.now]


/-! ### the transitions of `SI` -/

theorem ttDur_nonneg {tt : List (Int × Int)} (hd : ∀ p ∈ tt, 0 ≤ p.1) (k : Nat) : 0 ≤ ttDur tt k := by
  unfold ttDur
  rw [List.getD_eq_getElem?_getD]
  cases h : tt[k % tt.length]? with
  | none => simp
  | some p => exact hd p (List.mem_of_getElem? h)

theorem range_succ_map {α} (f : Nat → α) (n : Nat) :
    (List.range (n + 1)).map f = (List.range n).map f ++ [f n] := by
  rw [List.range_succ, List.map_append]; rfl

/-- Scheduler `s` right after its transition event was taken from the queue. -/
structure SMid (t0 : Int) (e : Env) (c : TK) (s : Nat) : Prop where
  log : schedLog c.recsT s = (List.range (schedLog c.recsT s).length).map
    (fun k => (t0 + C18.T (c.scheds.getD s default).s.tt k, ttState (c.scheds.getD s default).s.tt k))
  last : (c.scheds.getD s default).s.state =
    some (ttState (c.scheds.getD s default).s.tt ((schedLog c.recsT s).length - 1))
  lt : (c.scheds.getD s default).s.idx < (c.scheds.getD s default).s.tt.length
  pos : 1 ≤ (schedLog c.recsT s).length
  idx : (c.scheds.getD s default).s.idx =
    ((schedLog c.recsT s).length - 1) % (c.scheds.getD s default).s.tt.length
  cyc : (c.scheds.getD s default).s.cyc = false →
    (schedLog c.recsT s).length ≤ (c.scheds.getD s default).s.tt.length
  ev : e.events.filter (suEv s) = []
  pa : e.paused.filter (suEv s) = []
  now : e.now = t0 + C18.T (c.scheds.getD s default).s.tt (schedLog c.recsT s).length

/-- Taking the transition event of `s` from the head of the queue. -/
theorem SI.pop {t0 : Int} {e : Env} {c : TK} {s : Nat} (h : SI t0 e c s) {ev : Event}
    {es : List Event} (he : e.events = ev :: es) (hs : suEv s ev = true) (b : Bool) :
    SMid t0 { e with now := ev.time, events := es, terminated := b } c s ∧ ev.cancelled = false ∧
    ev.asset = (c.scheds.getD s default).aid := by
  unfold SI at h
  have hf : e.events.filter (suEv s) = ev :: es.filter (suEv s) := by
    rw [he, List.filter_cons, if_pos hs]
  rw [hf] at h
  have hlt : (c.scheds.getD s default).s.idx < (c.scheds.getD s default).s.tt.length := by
    apply Nat.lt_of_not_le
    intro hge
    have := (h.ended hge).1
    cases this
  obtain ⟨h1, h2, h3, ⟨e0, h4, h5, h6, h7, _⟩, h8⟩ := h.running hlt
  have h9 : ev = e0 ∧ es.filter (suEv s) = [] := by
    simp only [List.cons.injEq] at h4; exact h4
  obtain ⟨rfl, h10⟩ := h9
  exact ⟨⟨h.log, (h.last h1).1, hlt, h1, h2, h3, h10, h8, h5⟩, h6, h7⟩

theorem T_pred_le {tt : List (Int × Int)} (hd : ∀ p ∈ tt, 0 ≤ p.1) {K : Nat} (hK : 1 ≤ K) :
    C18.T tt (K - 1) ≤ C18.T tt K := by
  obtain ⟨k, rfl⟩ : ∃ k, K = k + 1 := ⟨K - 1, by omega⟩
  have := ttDur_nonneg hd k
  simp only [Nat.add_sub_cancel, T_succ]
  omega

/-- The transition. -/
theorem SI_advance {t0 : Int} {e e' : Env} {c c' : TK} {s : Nat} (h : SMid t0 e c s)
    (hs : s < c.scheds.length) (hd : ∀ p ∈ (c.scheds.getD s default).s.tt, 0 ≤ p.1)
    (ha : ASched e c s true e' c') : SI t0 e' c' s := by
  have hup := update_advance (c.scheds.getD s default).s (schedLog c.recsT s).length h.pos h.idx h.lt h.cyc
  have hget : ∀ x : SchedW, (c.scheds.set s x).getD s default = x := fun x => getD_set_same _ _ _ _ hs
  have hpos : 0 < (c.scheds.getD s default).s.tt.length := Nat.lt_of_le_of_lt (Nat.zero_le _) h.lt
  cases ha with
  | none s' hu =>
    rcases hup with ⟨hc, hK, hu'⟩ | ⟨_, hu'⟩
    · rw [hu'] at hu
      simp only [Prod.mk.injEq, and_true] at hu
      subst hu
      unfold SI
      simp only [hget]
      refine ⟨h.log, fun hk => ⟨h.last, ?_⟩, fun _ => ⟨h.ev, h.pa, hK, rfl, Or.inl hc⟩,
        fun hlt => absurd hlt (Nat.lt_irrefl _)⟩
      rw [h.now]
      have := T_pred_le hd hk
      omega
    · rw [hu'] at hu; simp at hu
  | some s' st objs dur wt hu hdur =>
    rcases hup with ⟨_, _, hu'⟩ | ⟨hne, hu'⟩
    · rw [hu'] at hu; simp at hu
    · rw [hu'] at hu
      simp only [Prod.mk.injEq, Option.some.injEq] at hu
      obtain ⟨rfl, rfl, rfl, rfl⟩ := hu
      unfold SI
      simp only [schedLog_append]
      rw [hget]
      dsimp only
      have hl1 : schedLog [Rec.schedUpdate s e.now
          (ttState (c.scheds.getD s default).s.tt (schedLog c.recsT s).length)] s =
          [(e.now, ttState (c.scheds.getD s default).s.tt (schedLog c.recsT s).length)] := by
        simp [schedLog]
      rw [hl1]
      have hlen : (schedLog c.recsT s ++ [(e.now, ttState (c.scheds.getD s default).s.tt
          (schedLog c.recsT s).length)]).length = (schedLog c.recsT s).length + 1 := by simp
      have hmod : (schedLog c.recsT s).length % (c.scheds.getD s default).s.tt.length <
          (c.scheds.getD s default).s.tt.length := Nat.mod_lt _ hpos
      constructor
      · rw [hlen, range_succ_map, ← h.log, h.now]
      · intro _
        rw [hlen, Nat.add_sub_cancel]
        refine ⟨rfl, ?_⟩
        show t0 + _ ≤ e.now
        rw [h.now]; exact Int.le_refl _
      · intro hge
        exact absurd hmod (Nat.not_lt.mpr hge)
      · intro _
        rw [hlen, Nat.add_sub_cancel]
        refine ⟨by omega, rfl, ?_, ?_, h.pa⟩
        · intro hc
          have := h.cyc hc
          have : (schedLog c.recsT s).length ≠ (c.scheds.getD s default).s.tt.length :=
            fun heq => hne ⟨hc, heq⟩
          omega
        · have hf := C06W.filter_insort_pos_nil (suEv s)
            (e.newEvent (e.now + ttDur (c.scheds.getD s default).s.tt (schedLog c.recsT s).length)
              (c.scheds.getD s default).aid (9 + 16 * s) pOtherHigh wt) e.events
            (by simp [suEv, Env.newEvent]) h.ev
          refine ⟨_, hf, ?_, rfl, rfl, rfl⟩
          show e.now + _ = _
          rw [h.now, T_succ]
          omega

/-- Initialisation. -/
theorem SI_start {e e' : Env} {c c' : TK} {s : Nat} (h : SU e c s) (hs : s < c.scheds.length)
    (ha : ASched e c s false e' c') : SI e.now e' c' s := by
  have hup := update_start (c.scheds.getD s default).s h.idx
  have hget : ∀ x : SchedW, (c.scheds.set s x).getD s default = x := fun x => getD_set_same _ _ _ _ hs
  cases ha with
  | none s' hu =>
    rcases hup with ⟨hn, hu'⟩ | ⟨_, hu'⟩
    · rw [hu'] at hu
      simp only [Prod.mk.injEq, and_true] at hu
      subst hu
      unfold SI
      rw [hget]
      simp only [h.log, h.ev, h.pa]
      exact ⟨rfl, fun hk => absurd hk (by decide), fun _ => ⟨rfl, rfl, hn.symm, hn.symm, Or.inr hn⟩,
        fun hlt => absurd hlt (by rw [hn]; exact Nat.lt_irrefl _)⟩
    · rw [hu'] at hu; simp at hu
  | some s' st objs dur wt hu hdur =>
    rcases hup with ⟨_, hu'⟩ | ⟨hpos, hu'⟩
    · rw [hu'] at hu; simp at hu
    · rw [hu'] at hu
      simp only [Prod.mk.injEq, Option.some.injEq] at hu
      obtain ⟨rfl, rfl, rfl, rfl⟩ := hu
      unfold SI
      simp only [schedLog_append, h.log, List.nil_append]
      rw [hget]
      dsimp only
      have hl1 : schedLog [Rec.schedUpdate s e.now (ttState (c.scheds.getD s default).s.tt 0)] s =
          [(e.now, ttState (c.scheds.getD s default).s.tt 0)] := by
        simp [schedLog]
      rw [hl1]
      constructor
      · simp [C18.T]
      · intro _
        refine ⟨rfl, ?_⟩
        show e.now + C18.T _ 0 ≤ e.now
        simp [C18.T]
      · intro hge
        exact absurd hpos (Nat.not_lt.mpr hge)
      · intro _
        refine ⟨Nat.le_refl _, (Nat.zero_mod _).symm, fun _ => hpos, ?_, h.pa⟩
        have hf := C06W.filter_insort_pos_nil (suEv s)
          (e.newEvent (e.now + ttDur (c.scheds.getD s default).s.tt 0)
            (c.scheds.getD s default).aid (9 + 16 * s) pOtherHigh wt) e.events
          (by simp [suEv, Env.newEvent]) h.ev
        refine ⟨_, hf, ?_, rfl, rfl, rfl⟩
        show e.now + _ = _
        simp [T_succ, C18.T]


/-! ### what a scheduler transition leaves alone -/

/-- The part of a key that never changes (without constructor calls). -/
def schedS (sw : SchedW) : Int × List (Int × Int) × Bool := (sw.aid, sw.s.tt, sw.s.cyc)
def sensS (sw : SensorW) : Int × List Nat × Nat × List Nat × SensorKind × Int × Option Nat × Nat :=
  (sw.aid, sw.vars, sw.proc, sw.attrs, sw.s.kind, sw.s.interval, sw.s.cap, sw.s.nprobes)
def sstat (c : TK) := (c.scheds.map schedS, c.sensors.map sensS, c.dk.map (·.1), c.scripts)

theorem sstat_of_cstat {a b : TK} (h : cstat b = cstat a) : sstat b = sstat a := by
  have h1 : b.scheds.map schedStat = a.scheds.map schedStat := congrArg (·.1) h
  have h2 : b.sensors.map sensStat = a.sensors.map sensStat := congrArg (·.2.1) h
  have h3 : b.dk = a.dk := congrArg (·.2.2.1) h
  have h4 : b.scripts = a.scripts := congrArg (·.2.2.2) h
  have e1 : ∀ l : List SchedW, l.map schedS = (l.map schedStat).map (fun x => (x.1, x.2.1, x.2.2.1)) := by
    intro l; simp [schedS, schedStat]
  have e2 : ∀ l : List SensorW, l.map sensS = (l.map sensStat).map
      (fun x => (x.1, x.2.1, x.2.2.1, x.2.2.2.1, x.2.2.2.2.2.1, x.2.2.2.2.2.2.1, x.2.2.2.2.2.2.2.1,
        x.2.2.2.2.2.2.2.2)) := by
    intro l; simp [sensS, sensStat]
  unfold sstat
  rw [e1, e1, e2, e2, h1, h2, h3, h4]

theorem ta_of_sstat {a b : TK} (h : sstat b = sstat a) : b.ta = a.ta := by
  have h1 : b.scheds.map schedS = a.scheds.map schedS := congrArg (·.1) h
  have h2 : b.sensors.map sensS = a.sensors.map sensS := congrArg (·.2.1) h
  have e1 : ∀ l : List SchedW, l.map (·.aid) = (l.map schedS).map (·.1) := by
    intro l; simp [schedS]
  have e2 : ∀ l : List SensorW, l.map (·.aid) = (l.map sensS).map (·.1) := by
    intro l; simp [sensS]
  unfold TK.ta
  rw [e1, e1, e2, e2, h1, h2]

theorem StatC.of_sstat {a b : TK} (h : sstat b = sstat a) (hs : StatC a) : StatC b := by
  have h3 : b.dk.map (·.1) = a.dk.map (·.1) := congrArg (·.2.2.1) h
  have h4 : b.scripts = a.scripts := congrArg (·.2.2.2) h
  refine ⟨?_, ?_⟩
  · rw [ta_of_sstat h]
    intro x hx
    refine ⟨(hs.aids x hx).1, fun k hk => ?_⟩
    have : k.1 ∈ a.dk.map (·.1) := by rw [← h3]; exact List.mem_map_of_mem hk
    obtain ⟨k', hk', he⟩ := List.mem_map.mp this
    rw [← he]
    exact (hs.aids x hx).2 k' hk'
  · rw [ta_of_sstat h, h4]; exact hs.scr

theorem update_static (sch : Sched) (adv : Bool) :
    (sch.update adv).1.tt = sch.tt ∧ (sch.update adv).1.cyc = sch.cyc ∧
    (sch.update adv).1.reg = sch.reg := by
  unfold Sched.update
  dsimp only
  repeat' split
  all_goals exact ⟨rfl, rfl, rfl⟩

theorem withEvent_inv {e : Env} {t a : Int} {act : Nat} {p : Int} {wt : Nat} (h : C01.Inv e)
    (ht : e.now ≤ t) : C01.Inv (Env.withEvent e t a act p wt) :=
  C01.inv_schedule h (Env.schedule_some.mpr ⟨ht, rfl⟩)

/-- What a transition of scheduler `s` does to everything else. -/
structure SchedFrame (s : Nat) (e : Env) (c : TK) (e' : Env) (c' : TK) : Prop where
  now : e'.now = e.now
  pa : e'.paused = e.paused
  ev : ∀ p : Event → Bool, (∀ x, suEv s x = true → p x = false) →
    e'.events.filter p = e.events.filter p
  inv : C01.Inv e → C01.Inv e'
  sensors : c'.sensors = c.sensors
  dk : c'.dk = c.dk
  scripts : c'.scripts = c.scripts
  scheds : ∀ s', s' ≠ s → c'.scheds.getD s' default = c.scheds.getD s' default
  sstat : sstat c' = sstat c
  recs : ∃ l, c'.recsT = c.recsT ++ l ∧ ∀ r ∈ l, ∃ t st, r = Rec.schedUpdate s t st
  res : ∃ l, c'.resT = c.resT ++ l ∧ ∀ r ∈ l, ∃ o t st ovr, r = Res.act s o t st ovr

theorem ASched.frame {e : Env} {c : TK} {s : Nat} {adv : Bool} {e' : Env} {c' : TK}
    (h : ASched e c s adv e' c') : SchedFrame s e c e' c' := by
  have hss : ∀ s' : Sched, s' = ((c.scheds.getD s default).s.update adv).1 →
      sstat { c with scheds := c.scheds.set s { (c.scheds.getD s default) with s := s' } } = sstat c := by
    intro s' hs'
    have hu := update_static (c.scheds.getD s default).s adv
    simp only [sstat]
    congr 1
    refine map_set_of_eq schedS _ _ _ default ?_
    simp only [schedS, hs', hu.1, hu.2.1]
  cases h with
  | none s' hu =>
    refine ⟨rfl, rfl, fun _ _ => rfl, id, rfl, rfl, rfl, fun s' hne => getD_set_ne _ _ _ _ _ (Ne.symm hne),
      hss s' (by rw [hu]), ⟨[], by simp, by simp⟩, ⟨[], by simp, by simp⟩⟩
  | some s' st objs dur wt hu hdur =>
    refine ⟨rfl, rfl, fun p hp => ?_, fun hi => withEvent_inv hi (by omega), rfl, rfl, rfl,
      fun s' hne => getD_set_ne _ _ _ _ _ (Ne.symm hne), ?_, ⟨_, rfl, ?_⟩, ⟨_, rfl, ?_⟩⟩
    · exact C06W.filter_insort_neg _ _ _ (hp _ (by simp [suEv, Env.newEvent]))
    · exact hss s' (by rw [hu])
    · intro r hr
      simp only [List.mem_singleton] at hr
      exact ⟨_, _, hr⟩
    · intro r hr
      obtain ⟨x, _, rfl⟩ := List.mem_map.mp hr
      exact ⟨_, _, _, _, rfl⟩

/-- The other schedulers do not notice. -/
theorem SchedFrame.si {s : Nat} {e : Env} {c : TK} {e' : Env} {c' : TK}
    (h : SchedFrame s e c e' c') {t0 : Int} {s' : Nat} (hne : s' ≠ s) (hi : SI t0 e c s') :
    SI t0 e' c' s' := by
  have hlog : schedLog c'.recsT s' = schedLog c.recsT s' := by
    obtain ⟨l, hl, hr⟩ := h.recs
    rw [hl, schedLog_append]
    have : schedLog l s' = [] := by
      unfold schedLog
      apply List.filterMap_eq_nil_iff.mpr
      intro r hm
      obtain ⟨t, st, rfl⟩ := hr r hm
      simp [Ne.symm hne]
    rw [this, List.append_nil]
  have hev : e'.events.filter (suEv s') = e.events.filter (suEv s') := by
    apply h.ev
    intro x hx
    have h1 : x.act = 9 + 16 * s := by simpa [suEv] using hx
    simp only [suEv, h1, beq_eq_false_iff_ne, ne_eq]
    omega
  unfold SI at hi ⊢
  rw [h.scheds s' hne, hlog, hev, h.pa, h.now]
  exact hi

theorem SchedFrame.su {s : Nat} {e : Env} {c : TK} {e' : Env} {c' : TK}
    (h : SchedFrame s e c e' c') {s' : Nat} (hne : s' ≠ s) (hi : SU e c s') : SU e' c' s' := by
  have hlog : schedLog c'.recsT s' = schedLog c.recsT s' := by
    obtain ⟨l, hl, hr⟩ := h.recs
    rw [hl, schedLog_append]
    have : schedLog l s' = [] := by
      unfold schedLog
      apply List.filterMap_eq_nil_iff.mpr
      intro r hm
      obtain ⟨t, st, rfl⟩ := hr r hm
      simp [Ne.symm hne]
    rw [this, List.append_nil]
  have hev : e'.events.filter (suEv s') = e.events.filter (suEv s') := by
    apply h.ev
    intro x hx
    have h1 : x.act = 9 + 16 * s := by simpa [suEv] using hx
    simp only [suEv, h1, beq_eq_false_iff_ne, ne_eq]
    omega
  exact ⟨by rw [h.scheds s' hne]; exact hi.idx, hlog.trans hi.log, hev.trans hi.ev,
    by rw [h.pa]; exact hi.pa⟩

end C18W
end SimProc
