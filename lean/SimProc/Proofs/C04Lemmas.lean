/-
C04 — reference recurrence of a serial line: definitions and helper lemmas.
-/
import SimProc.Model.World
import SimProc.Proofs.EnvLemmas

namespace SimProc
namespace C04

/-! ### configurations -/

/-- Kind of an inner station. A processor (without resource requirements) times like a handler. -/
inductive SKind where
  | handler | processor | buffer
deriving Repr, DecidableEq, Inhabited

/-- An inner station: a one-slot device with cycle time `c` (handler / processor; `cap` is ignored)
or a buffer with minimum delay `c` and capacity `cap` (`none` = unbounded). -/
structure Station where
  kind : SKind := .handler
  c : Int := 0
  cap : Option Nat := none
deriving Repr, DecidableEq, Inhabited

/-- A serial line: source (cycle `c0`, optional budget of parts), inner stations, sink (cycle `cn`). -/
structure Line where
  c0 : Int := 0
  budget : Option Nat := none
  mids : List Station := []
  cn : Int := 0
deriving Repr, DecidableEq, Inhabited

/-- Number of slots of a station as seen by its upstream neighbour. -/
def Station.effCap (s : Station) : Option Nat :=
  match s.kind with
  | .buffer => s.cap
  | _ => some 1

def Station.isBuffer (s : Station) : Bool :=
  match s.kind with
  | .buffer => true
  | _ => false

/-- Non-negative cycle time / delay, capacity at least one. -/
def Station.WF (s : Station) : Prop := 0 ≤ s.c ∧ ∀ K, s.effCap = some K → 1 ≤ K

instance (s : Station) : Decidable s.WF := by
  unfold Station.WF
  cases s.effCap with
  | none => exact decidable_of_iff (0 ≤ s.c) (by simp)
  | some K => exact decidable_of_iff (0 ≤ s.c ∧ 1 ≤ K) (by simp)

/-- All stations of the line, source first, sink last.  The source and the sink are one-slot
stations: the source "receives" its next part when the previous one leaves, the sink frees its slot
`cn` after receiving. -/
def Line.stations (L : Line) : List Station :=
  ⟨.handler, L.c0, some 1⟩ :: (L.mids ++ [⟨.handler, L.cn, some 1⟩])

/-- Index of the sink. -/
def Line.n (L : Line) : Nat := L.mids.length + 1

def Line.WF (L : Line) : Prop := ∀ s ∈ L.stations, s.WF

instance (L : Line) : Decidable L.WF := by unfold Line.WF; infer_instance

/-! ### the reference recurrence

`rows L k` is the list of the rows of parts `k, k-1, …, 1` (most recent first); a row is the list
`[D 0 k, …, D n k]` of the departure times of one part (`D n k` = the time the sink's slot is free
again).  The sentinel for "no constraint" (−∞) is `0`; all real times are `≥ 0` (`Ref.row_nonneg`). -/

/-- `D j (k - i - 1)` looked up in the history `h` of the rows before part `k` (0 if absent). -/
def look (h : List (List Int)) (i j : Nat) : Int :=
  match h[i]? with
  | none => 0
  | some r => r.getD j 0

/-- Earliest time at which station `j` (capacity `cap`) can take the part after those of `h`. -/
def free (h : List (List Int)) (j : Nat) (cap : Option Nat) : Int :=
  match cap with
  | none => 0
  | some K => look h (K - 1) j

/-- One application of the recurrence: departure time from station `j` (record `s`, downstream
neighbour `nxt`) of the part that entered it at time `e`. -/
def stepD (h : List (List Int)) (j : Nat) (e : Int) (s : Station) (nxt : Option Station) : Int :=
  max (max (e + s.c) (if s.isBuffer then look h 0 j else 0))
    (match nxt with
     | none => 0
     | some s' => free h (j + 1) s'.effCap)

/-- The departure times of one part at the stations `j, j+1, …` given that it enters station `j`
at time `e`. -/
def go (h : List (List Int)) : Nat → Int → List Station → List Int
  | _, _, [] => []
  | j, e, s :: rest =>
    let d := stepD h j e s rest.head?
    d :: go h (j + 1) d rest

/-- The row of the next part. -/
def nextRow (L : Line) (h : List (List Int)) : List Int :=
  go h 0 (free h 0 (some 1)) L.stations

def rows (L : Line) : Nat → List (List Int)
  | 0 => []
  | k + 1 => nextRow L (rows L k) :: rows L k

/-- Row of part `k ≥ 1`. -/
def row (L : Line) (k : Nat) : List Int := (rows L k).headD []

def inBudget (L : Line) (k : Nat) : Bool :=
  match L.budget with
  | none => true
  | some B => decide (k ≤ B)

/-- Integer-valued departure time `D j k` (0 for `k = 0` or `j` beyond the sink). -/
def dI (L : Line) (j k : Nat) : Int := look (rows L k) 0 j

/-- Integer-valued entry time: the source "receives" part `k` when part `k-1` leaves it. -/
def eI (L : Line) (j k : Nat) : Int :=
  match j with
  | 0 => dI L 0 (k - 1)
  | j + 1 => dI L j k

/-- The blocking term of the recurrence: the departure from station `j'` of the part that has to
make room for part `k'`. -/
def blockI (L : Line) (j' k' : Nat) : Int :=
  match L.stations[j']? with
  | none => 0
  | some s' =>
    match s'.effCap with
    | none => 0
    | some K => dI L j' (k' - K)

/-! ### lemmas about the recursion -/

@[simp] theorem look_nil (i j : Nat) : look [] i j = 0 := by simp [look]
@[simp] theorem look_cons_succ (r : List Int) (h : List (List Int)) (i j : Nat) :
    look (r :: h) (i + 1) j = look h i j := by simp [look]
@[simp] theorem look_cons_zero (r : List Int) (h : List (List Int)) (j : Nat) :
    look (r :: h) 0 j = r.getD j 0 := by simp [look]

theorem go_length (h : List (List Int)) (j : Nat) (e : Int) (ss : List Station) :
    (go h j e ss).length = ss.length := by
  induction ss generalizing j e with
  | nil => rfl
  | cons s rest ih => simp [go, ih]

theorem go_zero (h : List (List Int)) (j : Nat) (e : Int) (s : Station) (rest : List Station) :
    (go h j e (s :: rest))[0]? = some (stepD h j e s rest.head?) := by simp [go]

theorem go_succ (h : List (List Int)) (j : Nat) (e : Int) (ss : List Station) (m : Nat) (x : Int)
    (s : Station) (hx : (go h j e ss)[m]? = some x) (hs : ss[m + 1]? = some s) :
    (go h j e ss)[m + 1]? = some (stepD h (j + m + 1) x s ss[m + 2]?) := by
  induction ss generalizing j e m x with
  | nil => simp at hs
  | cons s0 rest ih =>
    cases m with
    | zero =>
      simp only [go, List.getElem?_cons_zero, Option.some.injEq] at hx
      simp only [List.getElem?_cons_succ] at hs ⊢
      cases rest with
      | nil => simp at hs
      | cons s1 rest' =>
        simp only [List.getElem?_cons_zero, Option.some.injEq] at hs
        subst hs
        simp only [go, List.getElem?_cons_succ, List.getElem?_cons_zero, List.head?]
        congr 2
        cases rest' <;> simp
    | succ m =>
      simp only [go, List.getElem?_cons_succ] at hx hs ⊢
      have := ih (j + 1) _ m x hx hs
      rw [this]
      congr 2
      omega

theorem look_rows (L : Line) (k i j : Nat) : look (rows L k) i j = dI L j (k - i) := by
  induction i generalizing k with
  | zero => rfl
  | succ i ih =>
    cases k with
    | zero => simp [rows, dI]
    | succ k =>
      simp only [rows, look_cons_succ, ih]
      congr 1
      omega

@[simp] theorem dI_zero (L : Line) (j : Nat) : dI L j 0 = 0 := by simp [dI, rows]

theorem stations_length (L : Line) : L.stations.length = L.n + 1 := by
  simp [Line.stations, Line.n]

theorem dI_beyond (L : Line) (j k : Nat) (hj : L.n < j) : dI L j k = 0 := by
  cases k with
  | zero => simp
  | succ k =>
    simp only [dI, rows, look_cons_zero, nextRow]
    rw [List.getD_eq_getElem?_getD, List.getElem?_eq_none]
    · rfl
    · rw [go_length, stations_length]; omega

/-- The row of part `k+1` obeys the recurrence (in terms of the history). -/
theorem dI_step (L : Line) (j k : Nat) (s : Station) (hs : L.stations[j]? = some s) :
    dI L j (k + 1) = stepD (rows L k) j (eI L j (k + 1)) s L.stations[j + 1]? := by
  have key : ∀ j s, L.stations[j]? = some s →
      (nextRow L (rows L k))[j]? =
        some (stepD (rows L k) j (eI L j (k + 1)) s L.stations[j + 1]?) := by
    intro j
    induction j with
    | zero =>
      intro s hs
      unfold nextRow
      cases hst : L.stations with
      | nil => simp [hst] at hs
      | cons s0 rest =>
        simp only [hst, List.getElem?_cons_zero, Option.some.injEq] at hs
        subst hs
        rw [go_zero]
        simp only [eI, free, Nat.add_sub_cancel, Nat.sub_self, dI, List.getElem?_cons_succ]
        congr 2
        cases rest <;> simp
    | succ j ih =>
      intro s hs
      have hlt : j < L.stations.length := by
        have := (List.getElem?_eq_some_iff.1 hs).1
        omega
      have h0 := ih _ (List.getElem?_eq_getElem hlt)
      have := go_succ (rows L k) 0 (free (rows L k) 0 (some 1)) L.stations j _ s h0 hs
      have hd : dI L j (k + 1) =
          stepD (rows L k) j (eI L j (k + 1)) L.stations[j] L.stations[j + 1]? := by
        simp only [dI, rows, look_cons_zero, List.getD_eq_getElem?_getD, h0, Option.getD_some]
      show (go (rows L k) 0 (free (rows L k) 0 (some 1)) L.stations)[j + 1]? = _
      rw [this, Nat.zero_add]
      show some (stepD _ _ _ s _) = some (stepD _ _ (dI L j (k + 1)) s _)
      rw [hd]
  simp only [dI, rows, look_cons_zero, List.getD_eq_getElem?_getD, key j s hs, Option.getD_some]

/-- The reference recurrence, verbatim:
`D j k = max (E j k + c_j) [D j (k-1) for buffers] (D (j+1) (k - K_{j+1}))`. -/
theorem dI_rec (L : Line) (hL : L.WF) (j k : Nat) (s : Station) (hs : L.stations[j]? = some s) :
    dI L j (k + 1) =
      max (max (eI L j (k + 1) + s.c) (if s.isBuffer then dI L j k else 0)) (blockI L (j + 1) (k + 1)) := by
  rw [dI_step L j k s hs]
  unfold stepD blockI
  congr 1
  cases hn : L.stations[j + 1]? with
  | none => rfl
  | some s' =>
    simp only [free]
    cases hc : s'.effCap with
    | none => rfl
    | some K =>
      simp only [look_rows]
      have : 1 ≤ K := (hL s' (List.mem_of_getElem? hn)).2 K hc
      congr 1
      omega

/-! ### order facts (integer level) -/

theorem station_wf (L : Line) (hL : L.WF) (j : Nat) (s : Station) (hs : L.stations[j]? = some s) :
    s.WF := hL s (List.mem_of_getElem? hs)

theorem station_exists (L : Line) (j : Nat) (hj : j ≤ L.n) : ∃ s, L.stations[j]? = some s := by
  have : j < L.stations.length := by rw [stations_length]; omega
  exact ⟨_, List.getElem?_eq_getElem this⟩

theorem dI_nonneg (L : Line) (hL : L.WF) (j k : Nat) : 0 ≤ dI L j k := by
  induction k generalizing j with
  | zero => simp
  | succ k ihk =>
    induction j with
    | zero =>
      obtain ⟨s, hs⟩ := station_exists L 0 (by omega)
      rw [dI_rec L hL 0 k s hs]
      have h1 := ihk 0
      have h2 := (station_wf L hL 0 s hs).1
      simp only [eI, Nat.add_sub_cancel]
      omega
    | succ j ihj =>
      by_cases hj : j + 1 ≤ L.n
      · obtain ⟨s, hs⟩ := station_exists L (j + 1) hj
        rw [dI_rec L hL (j + 1) k s hs]
        have h2 := (station_wf L hL (j + 1) s hs).1
        simp only [eI]
        omega
      · rw [dI_beyond L (j + 1) (k + 1) (by omega)]
        omega

theorem max3_mono {a a' b b' c c' : Int} (h1 : a ≤ a') (h2 : b ≤ b') (h3 : c ≤ c') :
    max (max a b) c ≤ max (max a' b') c' := by omega

theorem blockI_mono (L : Line) (hL : L.WF) (j' k : Nat)
    (ih : ∀ m, m ≤ k → dI L j' m ≤ dI L j' (m + 1)) :
    blockI L j' (k + 1) ≤ blockI L j' (k + 1 + 1) := by
  unfold blockI
  cases hs : L.stations[j']? with
  | none => exact Int.le_refl _
  | some s' =>
    simp only
    cases hc : s'.effCap with
    | none => exact Int.le_refl _
    | some K =>
      simp only
      have hK : 1 ≤ K := (station_wf L hL j' s' hs).2 K hc
      by_cases h : k + 2 ≤ K
      · have e1 : k + 1 - K = 0 := by omega
        have e2 : k + 1 + 1 - K = 0 := by omega
        rw [e1, e2]
        exact Int.le_refl _
      · have e2 : k + 1 + 1 - K = (k + 1 - K) + 1 := by omega
        rw [e2]
        exact ih _ (by omega)

/-- Parts do not overtake: successive parts leave a station in order. -/
theorem dI_mono (L : Line) (hL : L.WF) (j k : Nat) : dI L j k ≤ dI L j (k + 1) := by
  induction k using Nat.strongRecOn generalizing j with
  | _ k ih =>
    cases k with
    | zero => simp only [dI_zero]; exact dI_nonneg L hL j 1
    | succ k =>
      induction j with
      | zero =>
        obtain ⟨s, hs⟩ := station_exists L 0 (by omega)
        rw [dI_rec L hL 0 (k + 1) s hs]
        refine Int.le_trans (Int.le_of_eq (dI_rec L hL 0 k s hs)) ?_
        have e : eI L 0 (k + 1) ≤ eI L 0 (k + 1 + 1) := by
          simp only [eI, Nat.add_sub_cancel]; exact ih k (by omega) 0
        have b : (if s.isBuffer then dI L 0 k else 0) ≤ (if s.isBuffer then dI L 0 (k + 1) else 0) := by
          split
          · exact ih k (by omega) 0
          · exact Int.le_refl _
        have bl := blockI_mono L hL 1 k (fun m hm => ih m (by omega) 1)
        exact max3_mono (by omega) b bl
      | succ j ihj =>
        by_cases hj : j + 1 ≤ L.n
        · obtain ⟨s, hs⟩ := station_exists L (j + 1) hj
          rw [dI_rec L hL (j + 1) (k + 1) s hs]
          refine Int.le_trans (Int.le_of_eq (dI_rec L hL (j + 1) k s hs)) ?_
          have e : eI L (j + 1) (k + 1) ≤ eI L (j + 1) (k + 1 + 1) := ihj
          have b : (if s.isBuffer then dI L (j + 1) k else 0) ≤
              (if s.isBuffer then dI L (j + 1) (k + 1) else 0) := by
            split
            · exact ih k (by omega) (j + 1)
            · exact Int.le_refl _
          have bl := blockI_mono L hL (j + 1 + 1) k (fun m hm => ih m (by omega) (j + 1 + 1))
          exact max3_mono (by omega) b bl
        · rw [dI_beyond L (j + 1) _ (by omega), dI_beyond L (j + 1) _ (by omega)]
          exact Int.le_refl _

theorem dI_mono_le (L : Line) (hL : L.WF) (j : Nat) {k k' : Nat} (h : k ≤ k') :
    dI L j k ≤ dI L j k' := by
  induction k' with
  | zero => have : k = 0 := by omega
            subst this; exact Int.le_refl _
  | succ k' ih =>
    by_cases hk : k = k' + 1
    · subst hk; exact Int.le_refl _
    · exact Int.le_trans (ih (by omega)) (dI_mono L hL j k')

theorem eI_mono_le (L : Line) (hL : L.WF) (j : Nat) {k k' : Nat} (h : k ≤ k') :
    eI L j k ≤ eI L j k' := by
  cases j with
  | zero => exact dI_mono_le L hL 0 (Nat.sub_le_sub_right h 1)
  | succ j => exact dI_mono_le L hL j h

theorem eI_nonneg (L : Line) (hL : L.WF) (j k : Nat) : 0 ≤ eI L j k := by
  cases j with
  | zero => exact dI_nonneg L hL 0 _
  | succ j => exact dI_nonneg L hL j k

theorem inBudget_of_le (L : Line) {k k' : Nat} (h : k ≤ k') (hb : inBudget L k' = true) :
    inBudget L k = true := by
  unfold inBudget at *
  revert hb
  cases L.budget with
  | none => intro _; rfl
  | some B => simp only [decide_eq_true_eq]; omega

/-! ### bridge to the executable model -/

open World

/-- The constructor call for an inner station, as the driver builds it from
`asset dev handler up=… cyc=…` / `asset dev processor up=… cyc=…` /
`asset dev buffer up=… cap=… delay=…`. -/
def Station.toDev (s : Station) (up : Nat) : Dev :=
  match s.kind with
  | .handler => { kind := .handler, up := [up], cycle := s.c }
  | .processor => { kind := .processor, up := [up], cycle := s.c }
  | .buffer => { kind := .buffer, up := [up], cap := s.cap, delay := s.c }

def addMids (w : World) : Nat → List Station → World
  | _, [] => w
  | i, s :: rest => addMids (w.addAsset (.dev (s.toDev i))) (i + 1) rest

/-- The world of the scenario `seed …; asset dev source cyc=c0 budget=…; asset dev … up=0 …;
…; asset dev sink up=n-1 cyc=cn` (device `j` of the world is station `j` of the line). -/
def Line.toWorld (L : Line) (seed wmod : Nat) : World :=
  let w : World := { seed := seed, wmod := wmod }
  let w := w.addAsset (.dev { kind := .source, cycle := L.c0,
                              maxParts := L.budget.map Int.ofNat })
  let w := addMids w 0 L.mids
  w.addAsset (.dev { kind := .sink, up := [L.mids.length], cycle := L.cn })

/-- The times of the `received_part` records of device `d`, in order. -/
def entryTimes (w : World) (d : Nat) : List Int :=
  w.recs.filterMap (fun r => match r with
    | .received d' t _ _ _ => if d' = d then some t else none
    | _ => none)

/-- `System.simulate(T)` on the line's world: initialise, begin the run, loop with fuel `f`. -/
def runLine (L : Line) (seed wmod : Nat) (T : Int) (f : Nat) : World :=
  runLoop f ((L.toWorld seed wmod).simulateInit.runBegin T).1

end C04
end SimProc
