/-
C20W — machinery, part 1: the registration key `RK` of a world (per device kind / asset id /
`inited`, per maintainer asset id / `inited`, per scheduler asset id, per sensor asset id /
`registered`, the number of cms slots, the registration list, `started`, the scripts) and the
theorem `RK (f w …) = RK w` for every function of `Model/Floor.lean`: nothing on the factory floor
registers, initialises or re-numbers an asset.  Peeling tactic in the style of `C01WBase`.
-/
import SimProc.Model.World
import SimProc.Proofs.FloorCore2
import Lean

namespace SimProc
namespace C20W
open World FloorCoreL
open Lean Elab Tactic Meta

/-! ### the key -/

def dk (d : Dev) : Kind × Int × Bool := (d.kind, d.aid, d.inited)
def mk (m : MaintW) : Int × Bool := (m.aid, m.inited)
def sk (s : SensorW) : Int × Bool := (s.aid, s.registered)

structure RKey where
  devs : List (Kind × Int × Bool)
  maints : List (Int × Bool)
  scheds : List Int
  sensors : List (Int × Bool)
  ncms : Nat
  assets : List AssetRef
  started : Bool
  scripts : List (List Op)

def RK (w : World) : RKey :=
  ⟨w.devs.map dk, w.maints.map mk, w.scheds.map (·.aid), w.sensors.map sk, w.cmsSensors.length,
   w.assets, w.started, w.scripts⟩

/-- `w'` has the registration key of `w`. -/
def Same (w w' : World) : Prop := RK w' = RK w

theorem Same.refl (w : World) : Same w w := rfl
theorem Same.trans {a b c : World} (h1 : Same a b) (h2 : Same b c) : Same a c :=
  Eq.trans h2 h1
theorem Same.of_eq {a b : World} (h : RK b = RK a) : Same a b := h
theorem Same.trans_eq {a b c : World} (h1 : Same a b) (h : RK c = RK b) : Same a c :=
  h1.trans h

theorem Same.foldl {α} (g : World → α → World) (l : List α) (w : World)
    (h : ∀ w a, Same w (g w a)) : Same w (l.foldl g w) := by
  induction l generalizing w with
  | nil => exact Same.refl w
  | cons a l ih => exact (h w a).trans (ih _)

theorem Same.of_fst_eq {α} {w w' : World} {e : World × α} {b : α} (he : Same w e.1)
    (h : e = (w', b)) : Same w w' := by
  subst h; exact he

section fields
variable {w w' : World} (h : Same w w')
include h
theorem Same.devs : w'.devs.map dk = w.devs.map dk := congrArg RKey.devs h
theorem Same.maints : w'.maints.map mk = w.maints.map mk := congrArg RKey.maints h
theorem Same.scheds : w'.scheds.map (·.aid) = w.scheds.map (·.aid) := congrArg RKey.scheds h
theorem Same.sensors : w'.sensors.map sk = w.sensors.map sk := congrArg RKey.sensors h
theorem Same.ncms : w'.cmsSensors.length = w.cmsSensors.length := congrArg RKey.ncms h
theorem Same.assets : w'.assets = w.assets := congrArg RKey.assets h
theorem Same.started : w'.started = w.started := congrArg RKey.started h
theorem Same.scripts : w'.scripts = w.scripts := congrArg RKey.scripts h
theorem Same.devs_length : w'.devs.length = w.devs.length := by
  have := congrArg List.length h.devs; simpa using this
theorem Same.maints_length : w'.maints.length = w.maints.length := by
  have := congrArg List.length h.maints; simpa using this
theorem Same.scheds_length : w'.scheds.length = w.scheds.length := by
  have := congrArg List.length h.scheds; simpa using this
theorem Same.sensors_length : w'.sensors.length = w.sensors.length := by
  have := congrArg List.length h.sensors; simpa using this
theorem Same.dk (x : Nat) : dk (w'.dev x) = dk (w.dev x) := by
  have h1 := h.devs
  unfold World.dev
  have e : ∀ l : List Dev, C20W.dk (l.getD x default) = (l.map C20W.dk).getD x (C20W.dk default) :=
    fun l => (getD_map C20W.dk l x default).symm
  rw [e, e, h1]
theorem Same.mk (x : Nat) : mk (w'.maints.getD x default) = mk (w.maints.getD x default) := by
  have h1 := h.maints
  have e : ∀ l : List MaintW, C20W.mk (l.getD x default) = (l.map C20W.mk).getD x (C20W.mk default) :=
    fun l => (getD_map C20W.mk l x default).symm
  rw [e, e, h1]
theorem Same.sk (x : Nat) : sk (w'.sensors.getD x default) = sk (w.sensors.getD x default) := by
  have h1 := h.sensors
  have e : ∀ l : List SensorW, C20W.sk (l.getD x default) = (l.map C20W.sk).getD x (C20W.sk default) :=
    fun l => (getD_map C20W.sk l x default).symm
  rw [e, e, h1]
theorem Same.schedAid (x : Nat) : (w'.scheds.getD x default).aid = (w.scheds.getD x default).aid := by
  have h1 := h.scheds
  have e : ∀ l : List SchedW, (l.getD x default).aid = (l.map (·.aid)).getD x (default : SchedW).aid :=
    fun l => (getD_map (fun s : SchedW => s.aid) l x default).symm
  rw [e, e, h1]
theorem Same.kind (x : Nat) : (w'.dev x).kind = (w.dev x).kind := congrArg (·.1) (h.dk x)
theorem Same.aid (x : Nat) : (w'.dev x).aid = (w.dev x).aid := congrArg (·.2.1) (h.dk x)
theorem Same.inited (x : Nat) : (w'.dev x).inited = (w.dev x).inited := congrArg (·.2.2) (h.dk x)
end fields

/-! ### the registration invariant (on keys) -/

/-- A constructor-fresh asset description: not initialised yet. -/
def specFresh : AssetSpec → Bool
  | .dev d => !d.inited
  | .sensor s => !s.registered
  | _ => true

/-- Scripted operations whose `create` payloads are constructor-fresh. -/
def opFresh : Op → Bool
  | .create spec => specFresh spec
  | _ => true

@[simp] theorem blt_eq_false_iff (a b : Nat) : Nat.blt a b = false ↔ b ≤ a := by
  rw [Bool.eq_false_iff]; simp [Nat.blt_eq]

/-- A cms reference. -/
def _root_.SimProc.AssetRef.isCms : AssetRef → Bool
  | .cms _ => true
  | _ => false

namespace RKey

/-- The reference points to an existing component. -/
def valid (k : RKey) : AssetRef → Bool
  | .dev d => Nat.blt d k.devs.length
  | .maint m => Nat.blt m k.maints.length
  | .sched s => Nat.blt s k.scheds.length
  | .sensor s => Nat.blt s k.sensors.length
  | .cms c => Nat.blt c k.ncms

/-- The asset id of a registered asset (the model keeps none for a cms). -/
def aidOf (k : RKey) : AssetRef → Option Int
  | .dev d => k.devs[d]?.map (·.2.1)
  | .maint m => k.maints[m]?.map (·.1)
  | .sched s => k.scheds[s]?
  | .sensor s => k.sensors[s]?.map (·.1)
  | .cms _ => none

/-- The "has been initialised" flag of a registered asset (`inited` of a device or maintainer,
`registered` of a sensor; schedulers and cms keep none). -/
def flagOf (k : RKey) : AssetRef → Option Bool
  | .dev d => k.devs[d]?.map (·.2.2)
  | .maint m => k.maints[m]?.map (·.2)
  | .sensor s => k.sensors[s]?.map (·.2)
  | _ => none

/-- What `initAsset` does to the key: the flag is raised. -/
def init (k : RKey) : AssetRef → RKey
  | .dev d => { k with devs := k.devs.modify d (fun x => (x.1, x.2.1, true)) }
  | .maint m => { k with maints := k.maints.modify m (fun x => (x.1, true)) }
  | .sensor s => { k with sensors := k.sensors.modify s (fun x => (x.1, true)) }
  | _ => k

/-- What the constructors do to the key: one component, one registration entry, asset id =
registration index + 1. -/
def pushDev (k : RKey) (kd : Kind) (b : Bool) : RKey :=
  { k with devs := k.devs ++ [(kd, (k.assets.length : Int) + 1, b)],
           assets := k.assets ++ [AssetRef.dev k.devs.length] }
def pushMaint (k : RKey) (b : Bool) : RKey :=
  { k with maints := k.maints ++ [((k.assets.length : Int) + 1, b)],
           assets := k.assets ++ [AssetRef.maint k.maints.length] }
def pushSched (k : RKey) : RKey :=
  { k with scheds := k.scheds ++ [(k.assets.length : Int) + 1],
           assets := k.assets ++ [AssetRef.sched k.scheds.length] }
def pushSensor (k : RKey) (b : Bool) : RKey :=
  { k with sensors := k.sensors ++ [((k.assets.length : Int) + 1, b)],
           assets := k.assets ++ [AssetRef.sensor k.sensors.length] }
def pushCms (k : RKey) : RKey :=
  { k with ncms := k.ncms + 1, assets := k.assets ++ [AssetRef.cms k.ncms] }

end RKey

/-- **The registration invariant**, on keys. -/
structure RegK (k : RKey) : Prop where
  /-- no asset is registered twice -/
  nodup : k.assets.Nodup
  /-- every registration entry points to an existing component -/
  valid : ∀ a ∈ k.assets, k.valid a = true
  /-- every constructed device / maintainer / scheduler / sensor is registered (cms slots can also
  be opened by `add_sensor`) -/
  complete : ∀ a, k.valid a = true → a.isCms = false → a ∈ k.assets
  /-- asset id = registration index + 1 -/
  aid : ∀ i (h : i < k.assets.length), ∀ x, k.aidOf k.assets[i] = some x → x = (i : Int) + 1
  /-- initialised exactly when the system has started simulating -/
  flag : ∀ a ∈ k.assets, ∀ b, k.flagOf a = some b → b = k.started
  /-- scripts construct fresh assets only -/
  scripts : ∀ l ∈ k.scripts, ∀ op ∈ l, opFresh op = true

/-- The registration invariant of a world. -/
def Reg (w : World) : Prop := RegK (RK w)

/-- `w'` keeps the registration invariant of `w`, the `started` flag, and every registration entry
(the registration list only grows at its end). -/
def Pv (w w' : World) : Prop := Reg w → Reg w' ∧ w'.started = w.started ∧ w.assets <+: w'.assets

theorem Pv.refl (w : World) : Pv w w := fun h => ⟨h, rfl, List.prefix_refl _⟩
theorem Pv.trans {a b c : World} (h1 : Pv a b) (h2 : Pv b c) : Pv a c := fun h =>
  have g1 := h1 h
  have g2 := h2 g1.1
  ⟨g2.1, g2.2.1.trans g1.2.1, g1.2.2.trans g2.2.2⟩
theorem Pv.of_same {a b : World} (h : Same a b) : Pv a b := fun r =>
  ⟨by unfold Reg at *; rw [h]; exact r, h.started, by rw [h.assets]; exact List.prefix_refl _⟩
theorem Pv.trans_same {a b c : World} (h1 : Pv a b) (h2 : Same b c) : Pv a c :=
  h1.trans (Pv.of_same h2)
theorem Pv.trans_eq {a b c : World} (h1 : Pv a b) (h : RK c = RK b) : Pv a c :=
  h1.trans_same h
theorem Pv.with_reg {w w' : World} (h : Reg w → Pv w w') : Pv w w' := fun r => h r r

theorem Pv.foldl {α} (g : World → α → World) (l : List α) (w : World)
    (h : ∀ w a, Pv w (g w a)) : Pv w (l.foldl g w) := by
  induction l generalizing w with
  | nil => exact Pv.refl w
  | cons a l ih => exact (h w a).trans (ih _)

theorem Pv.of_fst_eq {α} {w w' : World} {e : World × α} {b : α} (he : Pv w e.1)
    (h : e = (w', b)) : Pv w w' := by
  subst h; exact he

/-! ### primitives of `WorldDef` -/

@[simp] theorem RK_setErr (w : World) (m : String) : RK (w.setErr m) = RK w := by
  unfold setErr; split <;> rfl
@[simp] theorem RK_addRes (w : World) (r : Res) : RK (w.addRes r) = RK w := rfl
@[simp] theorem RK_addRec (w : World) (r : Rec) : RK (w.addRec r) = RK w := rfl
@[simp] theorem RK_modPart (w : World) (p : Nat) (f : PartRec → PartRec) :
    RK (w.modPart p f) = RK w := rfl
@[simp] theorem RK_newPart (w : World) (r : PartRec) : RK (w.newPart r).1 = RK w := rfl
@[simp] theorem RK_envOp (w : World) (op : EnvOp) : RK (w.envOp op) = RK w := rfl

theorem RK_setDev (w : World) (x : Nat) (d : Dev) (h : dk d = dk (w.dev x)) :
    RK (w.setDev x d) = RK w := by
  unfold RK World.setDev
  simp only
  rw [map_set_of_eq dk w.devs x d default h]

theorem RK_modDev (w : World) (x : Nat) (f : Dev → Dev) (h : dk (f (w.dev x)) = dk (w.dev x)) :
    RK (w.modDev x f) = RK w := RK_setDev w x _ h

theorem RK_sched (w : World) (t a : Int) (act : Action) (p : Int) :
    RK (w.sched t a act p).1 = RK w := by
  unfold World.sched
  simp only [Env.apply]
  cases w.env.schedule t a act.toNat p (weightOf w.seed w.wmod t a act.toNat p) <;> rfl

theorem RK_schedLib (w : World) (t a : Int) (act : Action) (p : Int) :
    RK (w.schedLib t a act p) = RK w := by
  have h := RK_sched w t a act p
  unfold schedLib
  generalize w.sched t a act p = s at h
  obtain ⟨w', r⟩ := s
  cases r <;> simp_all

theorem RK_foldl {α} (g : World → α → World) (l : List α) (w : World)
    (h : ∀ w a, RK (g w a) = RK w) : RK (l.foldl g w) = RK w :=
  foldl_preserve RK g l w h

theorem RK_rmEffects (w : World) (recs : List ResRec) (chk : Bool) :
    RK (w.rmEffects recs chk) = RK w := by
  unfold rmEffects
  dsimp only
  have h : RK (recs.foldl (fun w r => w.addRec (.resUpdate r.res w.now r.inUse r.cap)) w) = RK w :=
    RK_foldl _ _ _ (fun _ _ => rfl)
  split
  · rw [RK_schedLib, h]
  · exact h

theorem RK_setSensor (w : World) (s : Nat) (x : SensorW) (h : sk x = sk (w.sensors.getD s default)) :
    RK ({ w with sensors := w.sensors.set s x } : World) = RK w := by
  unfold RK
  simp only
  rw [map_set_of_eq sk w.sensors s x default h]

theorem RK_setSensor2 (w : World) (s : Nat) (a b : SensorW)
    (_ha : sk a = sk (w.sensors.getD s default)) (hb : sk b = sk (w.sensors.getD s default)) :
    RK ({ w with sensors := (w.sensors.set s a).set s b } : World) = RK w := by
  unfold RK
  simp only
  rw [List.set_set, map_set_of_eq sk w.sensors s b default hb]

theorem RK_setSched (w : World) (s : Nat) (x : SchedW) (h : x.aid = (w.scheds.getD s default).aid) :
    RK ({ w with scheds := w.scheds.set s x } : World) = RK w := by
  unfold RK
  simp only
  rw [map_set_of_eq (fun s : SchedW => s.aid) w.scheds s x default h]

theorem RK_setMaint (w : World) (m : Nat) (x : MaintW) (h : mk x = mk (w.maints.getD m default)) :
    RK ({ w with maints := w.maints.set m x } : World) = RK w := by
  unfold RK
  simp only
  rw [map_set_of_eq mk w.maints m x default h]

/-! ### the peeling tactic -/

/-- Peel a structure update `{ w with f := v, … }` that leaves the key alone. -/
elab "rk_struct" : tactic => do
  let g ← getMainGoal
  g.withContext do
    let t ← instantiateMVars (← g.getType)
    let_expr Same a b := t.consumeMData | throwError "rk_struct: not a Same goal"
    let b := b.consumeMData
    unless b.isAppOfArity ``World.mk 23 do throwError "rk_struct: not a structure instance"
    let r := b.getArg! 18
    let w0 ← match r with
      | .proj _ _ w0 => pure w0
      | _ =>
        if r.isAppOfArity ``World.assets 1 then pure (r.getArg! 0)
        else throwError "rk_struct: the registration list is changed"
    let newGoal ← mkFreshExprSyntheticOpaqueMVar (← mkAppM ``Same #[a, w0])
    let eq ← mkEq (← mkAppM ``RK #[b]) (← mkAppM ``RK #[w0])
    let pf ← mkFreshExprMVar eq
    pf.mvarId!.refl
    g.assign (mkApp5 (mkConst ``Same.trans_eq) a w0 b newGoal pf)
    replaceMainGoal [newGoal.mvarId!]

/-- The same for `Pv` goals. -/
elab "pv_struct" : tactic => do
  let g ← getMainGoal
  g.withContext do
    let t ← instantiateMVars (← g.getType)
    let_expr Pv a b := t.consumeMData | throwError "pv_struct: not a Pv goal"
    let b := b.consumeMData
    unless b.isAppOfArity ``World.mk 23 do throwError "pv_struct: not a structure instance"
    let r := b.getArg! 18
    let w0 ← match r with
      | .proj _ _ w0 => pure w0
      | _ =>
        if r.isAppOfArity ``World.assets 1 then pure (r.getArg! 0)
        else throwError "pv_struct: the registration list is changed"
    let newGoal ← mkFreshExprSyntheticOpaqueMVar (← mkAppM ``Pv #[a, w0])
    let eq ← mkEq (← mkAppM ``RK #[b]) (← mkAppM ``RK #[w0])
    let pf ← mkFreshExprMVar eq
    pf.mvarId!.refl
    g.assign (mkApp5 (mkConst ``Pv.trans_eq) a w0 b newGoal pf)
    replaceMainGoal [newGoal.mvarId!]

/-- One step: close the goal, or peel the outermost function application. -/
syntax "rk_step" : tactic
syntax "pv_step" : tactic

/-- Peel / split until nothing is left. -/
macro "rk_auto" : tactic => `(tactic| repeat' first | rk_step | split)
macro "pv_auto" : tactic => `(tactic| repeat' first | pv_step | split)

/-- Register `t : Same _ (f …)` as a peeling step of both tactics. -/
macro "same_rule " t:term : command =>
  `(macro_rules | `(tactic| rk_step) => `(tactic| with_reducible apply Same.trans (h2 := $t))
    macro_rules | `(tactic| pv_step) => `(tactic| with_reducible apply Pv.trans_same (h2 := $t)))

/-- Register `t : RK (f …) = RK _` as a peeling step of both tactics. -/
macro "eq_rule " t:term : command =>
  `(macro_rules | `(tactic| rk_step) => `(tactic| with_reducible apply Same.trans_eq (h := $t))
    macro_rules | `(tactic| pv_step) => `(tactic| with_reducible apply Pv.trans_eq (h := $t)))

/-- The same with one side goal closed by `rfl`. -/
macro "eq_rule1 " t:term : command =>
  `(macro_rules | `(tactic| rk_step) => `(tactic|
      ((with_reducible apply Same.trans_eq (h := $t)); case hp => exact rfl))
    macro_rules | `(tactic| pv_step) => `(tactic|
      ((with_reducible apply Pv.trans_eq (h := $t)); case hp => exact rfl)))

macro_rules | `(tactic| rk_step) => `(tactic| rk_struct)
macro_rules | `(tactic| pv_step) => `(tactic| pv_struct)
macro_rules | `(tactic| rk_step) => `(tactic|
  ((with_reducible apply Same.trans (h2 := Same.foldl _ _ _ ?hs)); case hs => (intro _ _; rk_auto; done)))
macro_rules | `(tactic| pv_step) => `(tactic|
  ((with_reducible apply Pv.trans (h2 := Pv.foldl _ _ _ ?hs)); case hs => (intro _ _; pv_auto; done)))
eq_rule RK_rmEffects _ _ _
eq_rule RK_envOp _ _
eq_rule RK_schedLib _ _ _ _ _
eq_rule RK_setErr _ _
eq_rule RK_addRes _ _
eq_rule RK_addRec _ _
eq_rule RK_modPart _ _ _
eq_rule RK_newPart _ _
eq_rule1 RK_modDev _ _ _ ?hp
eq_rule1 RK_setDev _ _ _ ?hp
eq_rule1 RK_setSensor _ _ _ ?hp
macro_rules | `(tactic| rk_step) => `(tactic|
  ((with_reducible apply Same.trans_eq (h := RK_setSensor2 _ _ _ _ ?ha ?hb)); (case ha => exact rfl); (case hb => exact rfl)))
macro_rules | `(tactic| pv_step) => `(tactic|
  ((with_reducible apply Pv.trans_eq (h := RK_setSensor2 _ _ _ _ ?ha ?hb)); (case ha => exact rfl); (case hb => exact rfl)))
eq_rule1 RK_setSched _ _ _ ?hp
eq_rule1 RK_setMaint _ _ _ ?hp
macro_rules | `(tactic| rk_step) => `(tactic| with_reducible exact Same.refl _)
macro_rules | `(tactic| pv_step) => `(tactic| with_reducible exact Pv.refl _)

/-- After a `split` on a pair-valued call: use the fact `t` about the call. -/
macro "rk_heq " t:term : tactic =>
  `(tactic| (rename_i heq; with_reducible apply Same.trans (h2 := Same.of_fst_eq $t heq)))
macro "pv_heq " t:term : tactic =>
  `(tactic| (rename_i heq; with_reducible apply Pv.trans (h2 := Pv.of_fst_eq $t heq)))

/-! ### `Model/Floor.lean` -/

theorem Same_setWaiting (w : World) (x : Nat) (a b : Bool) : Same w (w.setWaiting x a b) := by
  unfold setWaiting
  dsimp only
  rk_auto

same_rule Same_setWaiting _ _ _ _

theorem Same_schedulePass (w : World) (x : Nat) (o : Int) : Same w (w.schedulePass x o) := by
  unfold schedulePass
  dsimp only
  rk_auto

same_rule Same_schedulePass _ _ _

theorem Same_notifyUp_spaceAvail (n : Nat) :
    ∀ w x, Same w (notifyUp n w x) ∧ Same w (spaceAvail n w x) := by
  induction n with
  | zero =>
    intro w x
    constructor
    · rw [notifyUp]; exact Same.of_eq (RK_setErr _ _)
    · rw [spaceAvail]; exact Same.of_eq (RK_setErr _ _)
  | succ n ih =>
    intro w x
    have hN : ∀ w x, Same w (notifyUp n w x) := fun w x => (ih w x).1
    have hS : ∀ w x, Same w (spaceAvail n w x) := fun w x => (ih w x).2
    constructor
    · rw [notifyUp]
      dsimp only
      repeat' first
        | with_reducible exact Same.refl _
        | with_reducible apply Same.trans (h2 := Same.foldl _ _ _ hS)
        | with_reducible apply Same.trans (h2 := Same.foldl _ _ _ hN)
        | with_reducible apply Same.trans (h2 := Same_setWaiting _ _ _ _)
        | split
    · rw [spaceAvail]
      try dsimp only
      repeat' first
        | with_reducible exact Same.refl _
        | exact hN _ _
        | exact hS _ _
        | exact Same_schedulePass _ _ _
        | split

theorem Same_notifyUp (n : Nat) (w : World) (x : Nat) : Same w (notifyUp n w x) :=
  (Same_notifyUp_spaceAvail n w x).1
theorem Same_spaceAvail (n : Nat) (w : World) (x : Nat) : Same w (spaceAvail n w x) :=
  (Same_notifyUp_spaceAvail n w x).2
theorem Same_notify (w : World) (x : Nat) : Same w (w.notify x) := Same_notifyUp _ _ _
theorem Same_spaceAvailable (w : World) (x : Nat) : Same w (w.spaceAvailable x) := Same_spaceAvail _ _ _

same_rule Same_notify _ _
same_rule Same_spaceAvailable _ _

theorem Same_releaseReserved (w : World) (x : Nat) : Same w (w.releaseReserved x) := by
  unfold releaseReserved
  split
  · exact Same.refl _
  · dsimp only
    rk_auto

theorem Same_procAcquire (w : World) (x : Nat) : Same w (w.procAcquire x).1 := by
  unfold procAcquire
  dsimp only
  rk_auto

same_rule Same_releaseReserved _ _

theorem Same_addHist (w : World) (p d : Nat) : Same w (w.addHist p d) := by
  unfold addHist
  dsimp only
  rk_auto

theorem Same_dropHist (w : World) (p : Nat) : Same w (w.dropHist p) := by
  unfold dropHist
  dsimp only
  rk_auto

theorem Same_applyPartCb (w : World) (x p : Nat) (c : PartCb) : Same w (w.applyPartCb x p c) := by
  unfold applyPartCb
  dsimp only
  rk_auto

theorem Same_senseOutput (w : World) (s p : Nat) : Same w (w.senseOutput s p) := by
  unfold senseOutput
  dsimp only
  rk_auto

theorem Same_finishCycleHandler (w : World) (x : Nat) : Same w (w.finishCycleHandler x) := by
  unfold finishCycleHandler
  dsimp only
  rk_auto

same_rule Same_addHist _ _ _
same_rule Same_dropHist _ _
same_rule Same_applyPartCb _ _ _ _
same_rule Same_senseOutput _ _ _
same_rule Same_finishCycleHandler _ _

theorem RK_genPart_fold (d : Dev) (l : List Nat) (acc : World × List Nat) :
    RK (l.foldl (fun (acc : World × List Nat) _ =>
      let (w', k) := acc.1.newPart { quality := d.genQuality, value := d.genValue }
      (w', acc.2 ++ [k])) acc).1 = RK acc.1 := by
  induction l generalizing acc with
  | nil => rfl
  | cons a l ih => rw [List.foldl_cons, ih]; rfl

theorem RK_genPart (w : World) (x : Nat) : RK (w.genPart x).1 = RK w := by
  unfold genPart
  dsimp only
  split
  · rfl
  · exact RK_genPart_fold _ _ _

theorem Same_genPart (w : World) (x : Nat) : Same w (w.genPart x).1 := Same.of_eq (RK_genPart w x)

same_rule Same_genPart _ _

theorem Same_batcherLoop (n : Nat) (w : World) (x : Nat) : Same w (batcherLoop n w x) := by
  induction n generalizing w with
  | zero => exact Same.refl _
  | succ n ih =>
    rw [batcherLoop]
    split
    · split
      rename_i w1 t heq
      refine Same.trans ?_ (ih _)
      have h1 : Same w (w1, t).1 := by
        rw [← heq]
        split <;> dsimp only <;> rk_auto
      refine Same.trans h1 ?_
      split
      · rk_auto
      · split
        rename_i w2 b heq2
        have h2 : Same w1 (w2, b).1 := by
          rw [← heq2]
          split
          · exact Same.refl _
          · dsimp only
            rk_step
            exact Same.of_eq (RK_newPart _ _)
        refine Same.trans h2 ?_
        dsimp only
        rk_auto
    · exact Same.refl _

same_rule Same_batcherLoop _ _ _

theorem Same_finishCycle (w : World) (x : Nat) : Same w (w.finishCycle x) := by
  unfold finishCycle
  dsimp only
  split
  · -- source
    rk_step
    split
    · rk_step
      rk_step
      have := Same_genPart w x
      revert this
      generalize w.genPart x = q
      intro this
      exact this
    · exact Same.refl _
  · rk_auto
  · -- processor
    split
    · rk_auto
    · rk_auto
  · rk_auto

same_rule Same_finishCycle _ _

theorem Same_scheduleFinish (w : World) (x : Nat) : Same w (w.scheduleFinish x) := by
  unfold scheduleFinish
  dsimp only
  rk_auto

same_rule Same_scheduleFinish _ _

theorem Same_tryMove (w : World) (x : Nat) : Same w (w.tryMove x) := by
  unfold tryMove
  dsimp only
  rk_auto

same_rule Same_tryMove _ _

theorem Same_onReceived (w : World) (x p : Nat) : Same w (w.onReceived x p) := by
  unfold onReceived
  dsimp only
  rk_auto

same_rule Same_onReceived _ _ _

theorem Same_acceptPart (w : World) (x p : Nat) : Same w (w.acceptPart x p) := by
  unfold acceptPart
  dsimp only
  rk_auto

theorem Same_tryList (g : World → Nat → Nat → World × Bool)
    (hg : ∀ w y p, Same w (g w y p).1) (w : World) (l : List Nat) (p : Nat) :
    Same w (tryList g w l p).1 := by
  induction l generalizing w with
  | nil => exact Same.refl w
  | cons y ys ih =>
    rw [tryList]
    have h := hg w y p
    split
    · rename_i heq; rw [heq] at h; exact h
    · rename_i heq; rw [heq] at h; exact h.trans (ih _)

theorem Same_give (n : Nat) : ∀ (w : World) (x p : Nat), Same w (give n w x p).1 := by
  induction n with
  | zero => intro w x p; exact Same.of_eq (RK_setErr _ _)
  | succ n ih =>
    intro w x p
    have hT : ∀ w l p, Same w (tryList (give n) w l p).1 := Same_tryList _ ih
    rw [give]
    dsimp only
    repeat' first
      | rk_step
      | with_reducible apply Same.trans (h2 := Same_acceptPart _ _ _)
      | exact hT _ _ _
      | exact ih _ _ _
      | rk_heq (hT _ _ _)
      | rk_heq (ih _ _ _)
      | rk_heq (Same_procAcquire _ _)
      | split

theorem Same_givePart (w : World) (x p : Nat) : Same w (w.givePart x p).1 := Same_give _ _ _ _

theorem Same_tryList_givePart (w : World) (l : List Nat) (p : Nat) :
    Same w (tryList givePart w l p).1 := Same_tryList _ Same_givePart _ _ _

theorem Same_passHandler (w : World) (x : Nat) : Same w (w.passHandler x) := by
  unfold passHandler
  dsimp only
  repeat' first
    | rk_step
    | rk_heq (Same_tryList_givePart _ _ _)
    | split

theorem Same_bufferLoop (n : Nat) (w : World) (x : Nat) : Same w (bufferLoop n w x) := by
  induction n generalizing w with
  | zero => exact Same.refl _
  | succ n ih =>
    rw [bufferLoop]
    dsimp only
    repeat' first
      | rk_step
      | with_reducible apply Same.trans (h2 := ih _)
      | rk_heq (Same_tryList_givePart _ _ _)
      | split

same_rule Same_passHandler _ _
same_rule Same_bufferLoop _ _ _

theorem Same_passPart (w : World) (x : Nat) : Same w (w.passPart x) := by
  unfold passPart
  dsimp only
  rk_auto

theorem Same_shutdownDev (w : World) (x : Nat) (f : Bool) (lost : Option Nat) :
    Same w (w.shutdownDev x f lost) := by
  unfold shutdownDev
  dsimp only
  rk_auto

theorem Same_restoreDev (w : World) (x : Nat) : Same w (w.restoreDev x) := by
  unfold restoreDev
  dsimp only
  rk_auto

same_rule Same_shutdownDev _ _ _ _
same_rule Same_restoreDev _ _

theorem Same_failDev (w : World) (x : Nat) : Same w (w.failDev x) := by
  unfold failDev
  dsimp only
  rk_auto

theorem Same_releaseIfIdle (w : World) (x : Nat) : Same w (w.releaseIfIdle x) := by
  unfold releaseIfIdle
  rk_auto

theorem Same_procResourceCb (w : World) (x : Nat) : Same w (w.procResourceCb x) := by
  unfold procResourceCb
  dsimp only
  rk_auto

theorem Same_setBlock (w : World) (x : Nat) (b : Bool) : Same w (w.setBlock x b) := by
  unfold setBlock
  dsimp only
  rk_auto

theorem Same_adjustParts (w : World) (x : Nat) (v : Int) : Same w (w.adjustParts x v) := by
  unfold adjustParts
  dsimp only
  rk_auto

theorem Same_rewire (w : World) (x : Nat) (ups : List Nat) : Same w (w.rewire x ups) := by
  unfold rewire
  dsimp only
  rk_auto

same_rule Same_passPart _ _
same_rule Same_failDev _ _
same_rule Same_releaseIfIdle _ _
same_rule Same_procResourceCb _ _
same_rule Same_setBlock _ _ _
same_rule Same_adjustParts _ _ _
same_rule Same_rewire _ _ _

end C20W
end SimProc
