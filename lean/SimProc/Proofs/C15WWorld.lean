/-
C15W / C16W — machinery, part 2b: the functions of `Model/World.lean` (scripted operations, events,
the event loop, initialisation) are `KStep`s / `KRun`s on keys, provided the scripts create no
assets (`NoCreate`).
-/
import SimProc.Proofs.C15WPass
import SimProc.Proofs.StaticWorld

namespace SimProc
namespace C15W
open World FloorCoreL C15 RM
variable {ph : Phase}

/-! ### initialisation of a device -/

theorem KS_devResetSite (hph : ph.ini = true) (w : World) (x : Nat) :
    KS ph w (w.modDev x (fun d => { d with inited := true, val := d.val.reset })) := by
  unfold KS
  refine (KStep.devReset (key w) x hph).cast ?_
  show _ = key (w.setDev x _)
  rw [key_setDev_eq]
  simp only [WKey.setDev, key_dev]
  rfl

theorem KS_initDev (hph : ph.ini = true) (w : World) (x : Nat) : KS ph w (w.initDev x) := by
  unfold initDev
  dsimp only
  repeat' first
    | ks_step
    | exact KS_devResetSite hph _ _
    | split

/-! ### maintainers, schedulers, sensors -/

theorem key_modMaint (w : World) (m : Nat) (f : Maint → Maint)
    (h : (f (w.maint m)).val = (w.maint m).val) : key (w.modMaint m f) = key w := by
  unfold key World.modMaint
  simp only
  rw [map_set_of_eq (fun mw : MaintW => mw.m.val) w.maints m _ default h]

theorem KS_modMaint (w : World) (m : Nat) (f : Maint → Maint)
    (h : (f (w.maint m)).val = (w.maint m).val) : KS ph w (w.modMaint m f) :=
  KS.of_key (key_modMaint w m f h)

theorem KS_startOrders (w : World) (m : Nat) (st : List Order) : KS ph w (w.startOrders m st) := by
  unfold startOrders
  ks_auto

macro_rules | `(tactic| ks_step) => `(tactic| with_reducible apply KS.trans (h2 := KS_startOrders _ _ _))

theorem KS_schedUpdate (w : World) (s : Nat) (advance : Bool) : KS ph w (w.schedUpdate s advance) := by
  unfold schedUpdate
  dsimp only
  ks_auto

theorem KS_periodicSense (w : World) (s : Nat) : KS ph w (w.periodicSense s) := by
  unfold periodicSense
  dsimp only
  ks_auto

theorem KS_setVar (w : World) (h : Nat) (v : Option Nat) : KS ph w (w.setVar h v) := by
  unfold World.setVar
  dsimp only
  ks_auto

macro_rules | `(tactic| ks_step) => `(tactic| with_reducible apply KS.trans (h2 := KS_setVar _ _ _))

/-! ### scripted operations -/

def Op.isCreate : Op → Bool
  | .create _ => true
  | _ => false

theorem scanQ_val (mm : Maint) (q : List Order) : (mm.scanQ q).1.val = mm.val := by
  induction q generalizing mm with
  | nil => rfl
  | cons o rest ih =>
    rw [Maint.scanQ]
    split
    · dsimp only; rw [ih]
    · dsimp only; rw [ih]

theorem tryWork_val (mm : Maint) : mm.tryWork.1.val = mm.val := by
  unfold Maint.tryWork
  dsimp only
  exact scanQ_val mm mm.queue

theorem create_val (mm : Maint) (tgt : Nat) (tag need info : Int) :
    (mm.create tgt tag need info).1.val = mm.val := by
  unfold Maint.create
  split
  · rfl
  · dsimp only
    rw [tryWork_val]

theorem KS_applyOp (w : World) (op : Op) (h : Op.isCreate op = false) : KS ph w (w.applyOp op).1 := by
  cases op with
  | create s => cases h
  | addRes r amt => exact KS_rmStep w _ _ _ (RMok.add w.rm r amt)
  | reserve hd req =>
    unfold applyOp
    dsimp only
    split
    · exact KS.refl _
    · exact (KS_rmStep w _ _ false (RMok.reserve w.rm req)).trans (KS_setVar _ _ _)
  | release hd part =>
    unfold applyOp
    dsimp only
    split
    · exact KS.refl _
    · rename_i id _
      exact KS_rmStep w _ _ _ (RMok.release w.rm id part)
  | merge h1 h2 =>
    unfold applyOp
    dsimp only
    split
    · exact KS.refl _
    · split
      · exact KS.refl _
      · rename_i a _ _ b _
        exact KS_rmStep w _ [] false (RMok.merge w.rm a b)
  | register k req => exact KS_rmStep w _ [] _ (RMok.register w.rm req (.script k))
  | shutdown d =>
    unfold applyOp
    dsimp only
    split
    · exact KS.refl _
    · exact KS_shutdownDev _ _ _ _
  | restore d =>
    unfold applyOp
    dsimp only
    split
    · exact KS.refl _
    · exact KS_restoreDev _ _
  | block d b => exact KS_setBlock _ _ _
  | adjust d n => exact KS_adjustParts _ _ _
  | rewire d ups => exact KS_rewire _ _ _
  | workOrder m tgt tag info =>
    unfold applyOp
    dsimp only
    refine KS.trans ?_ (KS_startOrders _ _ _)
    have hm : KS ph w (w.modMaint m fun _ =>
        ((w.maint m).create tgt tag (w.targetParams tgt tag).2.1 info).1) :=
      KS_modMaint w m _ (create_val _ _ _ _ _)
    split
    · exact hm.trans (KS_addRec _ _ rfl rfl)
    · exact hm
  | addSensor c s =>
    unfold applyOp
    dsimp only
    split
    · exact KS.refl _
    · exact KS.of_key rfl
  | _ => (unfold applyOp; dsimp only; ks_auto)

theorem KS_applyOps (ops : List Op) (w : World) (h : ∀ op ∈ ops, Op.isCreate op = false) :
    KS ph w (w.applyOps ops) := by
  induction ops generalizing w with
  | nil => exact KS.refl _
  | cons op ops ih =>
    unfold applyOps
    rw [List.foldl_cons]
    exact ((KS_applyOp w op (h op (List.mem_cons_self ..))).trans (KS_addRes _ _)).trans
      (ih _ (fun o ho => h o (List.mem_cons_of_mem _ ho)))

/-- The scripts create no assets. -/
def NoCreate (w : World) : Prop := ∀ l ∈ w.scripts, ∀ op ∈ l, Op.isCreate op = false

instance (w : World) : Decidable (NoCreate w) := by unfold NoCreate; infer_instance

theorem NoCreate.of_scripts {w w' : World} (h : NoCreate w) (e : w'.scripts = w.scripts) : NoCreate w' := by
  unfold NoCreate; rw [e]; exact h

theorem KS_runScript (w : World) (k : Nat) (h : NoCreate w) : KS ph w (w.runScript k) := by
  unfold runScript
  apply KS_applyOps
  intro op hop
  by_cases hk : k < w.scripts.length
  · have : w.scripts.getD k [] = w.scripts[k] := by simp [List.getD_eq_getElem?_getD, hk]
    rw [this] at hop
    exact h _ (List.getElem_mem hk) op hop
  · have : w.scripts.getD k [] = [] := by simp [List.getD_eq_getElem?_getD, Nat.le_of_not_lt hk]
    rw [this] at hop; cases hop

/-! ### the availability check, the maintainer's events -/

theorem KS_scanWaiting (n : Nat) (w : World) (i : Nat) (h : NoCreate w) :
    KS ph w (scanWaiting scanOps n w i) := by
  induction n generalizing w i with
  | zero => exact KS.refl _
  | succ n ih =>
    rw [scanWaiting]
    split
    · exact KS.refl _
    · split
      · rename_i req cb _ _
        have h1 : KS ph w (scanOps.call w cb req) ∧ (scanOps.call w cb req).scripts = w.scripts := by
          cases cb with
          | script k =>
            exact ⟨(KS_addRes w _).trans (KS_runScript _ k h), (C02V.scr_runScript _ k).trans rfl⟩
          | proc d => exact ⟨KS_procResourceCb w d, C02V.scr_procResourceCb w d⟩
        have h2 : KS ph (scanOps.call w cb req) (scanOps.erase (scanOps.call w cb req) i) :=
          KS_rmStep _ _ [] false (RMok.of_pools rfl rfl)
        exact (h1.1.trans h2).trans (ih _ _ (h.of_scripts h1.2))
      · exact ih _ _ h

theorem KS_rmCheck (w : World) (h : NoCreate w) : KS ph w w.rmCheck := KS_scanWaiting _ _ _ h

theorem KS_hookStart (w : World) (tgt : Nat) (tag : Int) (h : NoCreate w) :
    KS ph w (w.hookStart tgt tag) := by
  unfold hookStart
  dsimp only
  split
  · exact (KS_addRes w _).trans (KS_shutdownDev _ _ _ _)
  · split
    · exact (KS_addRes w _).trans (KS_runScript _ _ h)
    · exact KS_addRes w _

theorem KS_hookEnd (w : World) (tgt : Nat) (tag : Int) (h : NoCreate w) :
    KS ph w (w.hookEnd tgt tag) := by
  unfold hookEnd
  dsimp only
  split
  · exact (KS_addRes w _).trans (KS_restoreDev _ _)
  · split
    · exact (KS_addRes w _).trans (KS_runScript _ _ h)
    · exact KS_addRes w _

/-- The site: the maintainer is charged the cost of the order it starts. -/
theorem KS_startCostSite (hph : ph.cst = true) (w : World) (m : Nat) (c : Int) :
    KS ph w (w.modMaint m (fun mm => mm.startCost w.now c)) := by
  unfold KS
  refine (KStep.maintCost (key w) m c hph).cast ?_
  unfold key World.modMaint
  simp only [List.map_set, WKey.mval, WKey.now]
  congr 2
  exact (getD_map (fun mw : MaintW => mw.m.val) w.maints m default).symm ▸ rfl

theorem KS_startWork (hph : ph.cst = true) (w : World) (m seq : Nat) (h : NoCreate w) :
    KS ph w (w.startWork m seq) := by
  unfold startWork
  split
  · exact KS_setErr _ _
  · rename_i o _
    dsimp only
    refine KS.trans ?_ (KS_schedLib _ _ _ _ _)
    refine KS.trans ?_ (KS_hookStart _ _ _ ?_)
    · exact (KS_addRec w _ rfl rfl).trans (KS_startCostSite hph _ m _)
    · exact h.of_scripts rfl

theorem KS_finishWork (w : World) (m seq : Nat) (h : NoCreate w) : KS ph w (w.finishWork m seq) := by
  unfold finishWork
  split
  · exact KS_setErr _ _
  · rename_i o _
    dsimp only
    refine KS.trans ?_ (KS_startOrders _ _ _)
    refine KS.trans ?_ (KS_modMaint _ _ _ ?_)
    · refine KS.trans ?_ (KS_addRec _ _ rfl rfl)
      exact (KS_hookEnd w _ _ h).trans (KS_modMaint _ _ _ rfl)
    · exact tryWork_val _

/-! ### events -/

theorem KS_exec (w : World) (a : Action) (h : NoCreate w)
    (hp : ∀ d, a = .passPart d → ph.moves ∧ ((w.dev d).kind = .source → ph.sup = true))
    (hc : ∀ m o, a = .startWork m o → ph.cst = true) : KS ph w (w.exec a) := by
  cases a with
  | terminate => exact KS.refl _
  | script k => exact KS_runScript w k h
  | finishCycle d => exact KS_finishCycle w d
  | passPart d => exact KS_passPart (hp d rfl).1 w d (hp d rfl).2
  | fail d => exact KS_failDev w d
  | releaseIfIdle d => exact KS_releaseIfIdle w d
  | rmCheck => exact KS_rmCheck w h
  | startWork m o => exact KS_startWork (hc m o rfl) w m o h
  | finishWork m o => exact KS_finishWork w m o h
  | schedUpdate s => exact KS_schedUpdate w s true
  | periodicSense s => exact KS_periodicSense w s
  | unknown n => exact KS_setErr _ _

/-! ### the event loop -/

/-- Runs of the event loop on keys: steps of event actions and pops of the event queue. -/
inductive KRun : WKey → WKey → Prop where
  | refl (k : WKey) : KRun k k
  | trans {a b c : WKey} : KRun a b → KRun b c → KRun a c
  | act {a b : WKey} : KStep .run a b → KRun a b
  | pop (k : WKey) : KRun k { k with env := (k.env.apply Arith.exact .step).1 }

theorem step_cases {w w' : World} {e : Event} (h : w.step = some (e, w')) :
    ∃ env', w.env.step = some (e, env') ∧
      w' = if e.live then ({ w with env := env' } : World).exec (Action.ofNat e.act)
           else { w with env := env' } := by
  unfold World.step at h
  split at h
  · cases h
  · rename_i e' env' henv
    simp only [Option.some.injEq, Prod.mk.injEq] at h
    obtain ⟨rfl, rfl⟩ := h
    exact ⟨env', henv, rfl⟩

theorem KRun_pop_world (w : World) (e : Event) (env' : Env) (h : w.env.step = some (e, env')) :
    KRun (key w) (key ({ w with env := env' } : World)) := by
  have := KRun.pop (key w)
  have e1 : ((key w).env.apply Arith.exact .step).1 = env' := by
    show (w.env.apply Arith.exact .step).1 = env'
    simp only [Env.apply, h]
  rw [e1] at this
  exact this

theorem KRun_step {w w' : World} {e : Event} (hn : NoCreate w) (h : w.step = some (e, w')) :
    KRun (key w) (key w') ∧ NoCreate w' := by
  obtain ⟨env', henv, rfl⟩ := step_cases h
  have h1 := KRun_pop_world w e env' henv
  have hn1 : NoCreate ({ w with env := env' } : World) := hn.of_scripts rfl
  split
  · exact ⟨h1.trans (KRun.act (KS_exec (ph := .run) _ _ hn1 (fun _ _ => ⟨rfl, fun _ => rfl⟩) (fun _ _ _ => rfl))), hn1.of_scripts (C02V.scr_exec _ _)⟩
  · exact ⟨h1, hn1⟩

theorem KRun_runLoop (n : Nat) (w : World) (hn : NoCreate w) :
    KRun (key w) (key (runLoop n w)) ∧ NoCreate (runLoop n w) := by
  induction n generalizing w with
  | zero =>
    unfold runLoop
    exact ⟨KRun.act (KS_setErr (ph := .run) w _), hn.of_scripts (C02V.scr_setErr ..)⟩
  | succ n ih =>
    unfold runLoop
    split
    · split
      · exact ⟨KRun.refl _, hn⟩
      · rename_i e w' hst
        have h1 := KRun_step hn hst
        have h2 := ih w' h1.2
        exact ⟨h1.1.trans h2.1, h2.2⟩
    · exact ⟨KRun.refl _, hn⟩

theorem KS_runBegin (w : World) (d : Int) : KS ph w (w.runBegin d).1 := by
  unfold World.runBegin
  dsimp only
  have h := KStep.env (ph := ph) (key w)
    (.runBegin d (weightOf w.seed w.wmod (w.env.now + d) (-1) terminateAct pTerminate))
    (by intro h; cases h)
  split
  · exact KS.refl _
  · rename_i e heq
    unfold KS
    refine h.cast ?_
    show ({ key w with env := (w.env.apply Arith.exact _).1 } : WKey) = _
    simp only [Env.apply, heq]
    rfl

/-! ### initialisation -/

theorem KS_maintResetSite (hph : ph.ini = true) (w : World) (m : Nat) :
    KS ph w (w.initAsset (.maint m)) := by
  unfold KS
  refine (KStep.maintReset (key w) m hph).cast ?_
  unfold key initAsset
  simp only [List.map_set, WKey.mval]
  congr 2
  exact (getD_map (fun mw : MaintW => mw.m.val) w.maints m default).symm ▸ rfl

theorem KS_initAsset (hph : ph.ini = true) (w : World) (a : AssetRef) : KS ph w (w.initAsset a) := by
  cases a with
  | dev d => exact KS_initDev hph w d
  | maint m => exact KS_maintResetSite hph w m
  | sched s => exact KS_schedUpdate w s false
  | sensor s =>
    unfold initAsset
    dsimp only
    ks_auto
  | cms c => exact KS.refl _

theorem KS_simulateInit (hph : ph.ini = true) (w : World) (hi : w.rm.inited = false) :
    KS ph w w.simulateInit := by
  unfold simulateInit
  split
  · exact KS.refl _
  · dsimp only
    ks_struct
    refine KS.trans ?_ (KS.foldl _ _ _ (fun w a => KS_initAsset hph w a))
    have h1 : KS ph w (((w.rm.init).2.1).foldl
        (fun w r => w.addRec (.resUpdate r.res w.now r.inUse r.cap))
        ({ w with rm := (w.rm.init).1 } : World)) := by
      unfold KS
      rw [key_foldl_resUpdate]
      refine (KStep.rmInit (key w) hph hi).cast ?_
      rfl
    unfold rmEffects
    dsimp only
    split
    · exact h1.trans (KS_schedLib _ _ _ _ _)
    · exact h1

end C15W
end SimProc
