/-
C06W (closed-world timer invariant), part 3: the frame relation `Fr` for the primitives and for the
functions of the floor that do not touch any timer.
-/
import SimProc.Proofs.C06WDefs
import SimProc.Proofs.FloorGive
namespace SimProc
namespace C06W
open World FloorCoreL

/-! ### primitives -/

section prim
variable {X : Nat → Prop} (w : World)

/-- A change of environment and error flag only. -/
theorem fr_of_env {w w' : World} (hd : w'.devs = w.devs) (htg : w'.targets = w.targets)
    (hn : w'.env.now = w.env.now) (hu : w.env.nextUid ≤ w'.env.nextUid)
    (hf : ∀ y, (w.dev y).kind ≠ .source →
      finE w'.env y = finE w.env y ∧ finP w'.env y = finP w.env y)
    (hei : EI w.env → EI w'.env) (herr : okErr w.error = true → okErr w'.error = true) :
    Fr X w w' := by
  have hdev : ∀ y, w'.dev y = w.dev y := fun y => dev_congr hd y
  refine ⟨hn, hu, by rw [hd], ?_, ?_, hf, by rw [htg], hei, herr⟩
  · intro y; rw [hdev]; exact ⟨rfl, rfl⟩
  · intro y _; rw [hdev]

theorem fr_setErr (m : String) (hm : allowedErrs.contains m = true) : Fr X w (w.setErr m) := by
  refine fr_of_env (setErr_devs w m) (setErr_targets w m) ?_ ?_ ?_ ?_ (okErr_setErr w m hm)
  all_goals rw [setErr_env]
  · exact Nat.le_refl _
  · intro _ _; exact ⟨rfl, rfl⟩
  · exact id

theorem fr_addRec (r : Rec) : Fr X w (w.addRec r) := fr_of_fields rfl rfl rfl rfl
theorem fr_addRes (r : Res) : Fr X w (w.addRes r) := fr_of_fields rfl rfl rfl rfl
theorem fr_modPart (p : Nat) (g : PartRec → PartRec) : Fr X w (w.modPart p g) :=
  fr_of_fields rfl rfl rfl rfl
theorem fr_newPart (r : PartRec) : Fr X w (w.newPart r).1 := fr_of_fields rfl rfl rfl rfl

theorem sched_fst_error (t a : Int) (act : Action) (p : Int) : (w.sched t a act p).1.error = w.error := by
  unfold World.sched; dsimp only; split <;> rfl

theorem sched_fst_env (t a : Int) (act : Action) (p : Int) :
    (w.sched t a act p).1.env =
      (w.env.apply Arith.exact (.sched t a act.toNat p (weightOf w.seed w.wmod t a act.toNat p))).1 := by
  unfold World.sched
  dsimp only
  simp only [Env.apply]
  cases w.env.schedule t a act.toNat p (weightOf w.seed w.wmod t a act.toNat p) <;> rfl

/-- Scheduling anything but the finish event of a tracked device is a frame. -/
theorem fr_sched (t a : Int) (act : Action) (p : Int)
    (hact : ∀ y, act = .finishCycle y → (w.dev y).kind = .source) :
    Fr X w (w.sched t a act p).1 := by
  have henv := sched_fst_env w t a act p
  have herr : okErr w.error = true → okErr (w.sched t a act p).1.error = true := by
    rw [sched_fst_error]; exact id
  cases hs : w.env.schedule t a act.toNat p (weightOf w.seed w.wmod t a act.toNat p) with
  | none =>
    have he : (w.sched t a act p).1.env = w.env := by rw [henv]; simp [Env.apply, hs]
    refine fr_of_env (sched_fst_devs ..) (sched_fst_targets ..) (by rw [he]) (by rw [he]; exact Nat.le_refl _)
      ?_ (by rw [he]; exact id) herr
    intro _ _; rw [he]; exact ⟨rfl, rfl⟩
  | some s' =>
    have he : (w.sched t a act p).1.env = s' := by rw [henv]; simp [Env.apply, hs]
    obtain ⟨_, hs'⟩ := Env.schedule_some.mp hs
    refine fr_of_env (sched_fst_devs ..) (sched_fst_targets ..) (by rw [he, hs'])
      (by rw [he, hs']; exact Nat.le_succ _) ?_ ?_ herr
    · intro y hk
      rw [he]
      exact fin_schedule_ne hs y (toNat_ne_finAct act y (fun e => hk (hact y e)))
    · intro hei
      rw [he]
      have := hei.apply (.sched t a act.toNat p (weightOf w.seed w.wmod t a act.toNat p))
      simpa [Env.apply, hs] using this

theorem fr_schedLib (t a : Int) (act : Action) (p : Int)
    (hact : ∀ y, act = .finishCycle y → (w.dev y).kind = .source) :
    Fr X w (w.schedLib t a act p) := by
  have h := fr_sched (X := X) w t a act p hact
  unfold World.schedLib
  generalize w.sched t a act p = s at h ⊢
  obtain ⟨w', r⟩ := s
  cases r
  case ok => exact h
  all_goals exact h.trans (fr_setErr _ _ (by decide))

theorem fr_rmEffects (recs : List ResRec) (check : Bool) : Fr X w (w.rmEffects recs check) := by
  have h : Fr X w (recs.foldl (fun w r => w.addRec (.resUpdate r.res w.now r.inUse r.cap)) w) :=
    Fr.foldl _ _ _ (fun w r => fr_addRec w _)
  unfold World.rmEffects
  split
  · exact h.trans (fr_schedLib _ _ _ _ _ (by intro y e; cases e))
  · exact h

/-- Overwriting device `x` with a record that has the same timer view (or, if `x` is exempt, the
same kind and asset id). -/
theorem fr_setDev (x : Nat) (d : Dev) (hk : d.kind = (w.dev x).kind) (ha : d.aid = (w.dev x).aid)
    (h : ¬ X x → tdm d = tdm (w.dev x)) : Fr X w (w.setDev x d) := by
  refine ⟨rfl, Nat.le_refl _, by simp, ?_, ?_, fun _ _ => ⟨rfl, rfl⟩, rfl, id, id⟩
  · intro y
    rw [dev_setDev]
    split
    · next hxy => rw [← hxy.1]; exact ⟨hk, ha⟩
    · exact ⟨rfl, rfl⟩
  · intro y hy
    rw [dev_setDev]
    split
    · next hxy => rw [← hxy.1] at hy ⊢; exact h hy
    · rfl

theorem fr_setDev_same (x : Nat) (d : Dev) (h : tdm d = tdm (w.dev x)) : Fr X w (w.setDev x d) :=
  fr_setDev w x d (congrArg TD.kind h) (congrArg TD.aid h) (fun _ => h)

theorem fr_modDev_same (x : Nat) (f : Dev → Dev) (h : tdm (f (w.dev x)) = tdm (w.dev x)) :
    Fr X w (w.modDev x f) := fr_setDev_same w x _ h

end prim

/-! ### the chaining tactic -/

/-- one step: close the goal, or peel the outermost primitive off the right-hand world -/
syntax "frs" : tactic
macro_rules | `(tactic| frs) => `(tactic| first
  | exact Fr.refl _ _
  | exact fr_of_fields rfl rfl rfl rfl
  | refine Fr.trans ?_ (fr_setErr _ _ (by decide))
  | refine Fr.trans ?_ (fr_addRec _ _)
  | refine Fr.trans ?_ (fr_addRes _ _)
  | refine Fr.trans ?_ (fr_modPart _ _ _)
  | refine Fr.trans ?_ (fr_schedLib _ _ _ _ _ (by intro y e; cases e))
  | refine Fr.trans ?_ (fr_rmEffects _ _ _)
  | refine Fr.trans ?_ (fr_setDev_same _ _ _ rfl)
  | refine Fr.trans ?_ (fr_modDev_same _ _ _ rfl))

/-- split all `if`/`match` and chain frame steps -/
macro "fr_auto" : tactic => `(tactic| ((try dsimp only) <;> repeat' (first | frs | split)))

/-- declare a frame lemma (with three explicit arguments after the world) as a step of `frs` -/
macro "fr_lemma3" a:ident : command =>
  `(macro_rules | `(tactic| frs) => `(tactic| refine Fr.trans ?_ ($a:ident _ _ _ _)))
macro "fr_lemma2" a:ident : command =>
  `(macro_rules | `(tactic| frs) => `(tactic| refine Fr.trans ?_ ($a:ident _ _ _)))
macro "fr_lemma1" a:ident : command =>
  `(macro_rules | `(tactic| frs) => `(tactic| refine Fr.trans ?_ ($a:ident _ _)))

section comp
variable {X : Nat → Prop} (w : World)

theorem fr_setWaiting (x : Nat) (a b : Bool) : Fr X w (w.setWaiting x a b) := by
  unfold World.setWaiting; fr_auto
fr_lemma3 fr_setWaiting

theorem fr_schedulePass (x : Nat) (o : Int) : Fr X w (w.schedulePass x o) := by
  unfold World.schedulePass; fr_auto
fr_lemma2 fr_schedulePass

theorem fr_notify_aux (f : Nat) :
    ∀ (w : World) (x : Nat), Fr X w (notifyUp f w x) ∧ Fr X w (spaceAvail f w x) := by
  induction f with
  | zero =>
    intro w x
    exact ⟨by unfold notifyUp; exact fr_setErr _ _ (by decide),
      by unfold spaceAvail; exact fr_setErr _ _ (by decide)⟩
  | succ f ih =>
    intro w x
    have hup : ∀ (w : World) (l : List Nat), Fr X w (l.foldl (fun w u => spaceAvail f w u) w) :=
      fun w l => Fr.foldl _ l w (fun w a => (ih w a).2)
    have hnu : ∀ (w : World) (l : List Nat), Fr X w (l.foldl (fun w u => notifyUp f w u) w) :=
      fun w l => Fr.foldl _ l w (fun w a => (ih w a).1)
    have h1 : Fr X w (notifyUp (f + 1) w x) := by
      unfold notifyUp
      simp only []
      repeat' split
      all_goals first
        | exact Fr.refl _ _ | exact (fr_setWaiting ..).trans (hup ..) | exact hnu .. | exact hup ..
    refine ⟨h1, ?_⟩
    unfold spaceAvail
    simp only []
    repeat' split
    all_goals first
      | exact Fr.refl _ _ | exact (ih w x).1 | exact (ih _ _).2 | exact fr_schedulePass ..

theorem fr_notifyUp (f : Nat) (x : Nat) : Fr X w (notifyUp f w x) := (fr_notify_aux f w x).1
theorem fr_spaceAvail (f : Nat) (x : Nat) : Fr X w (spaceAvail f w x) := (fr_notify_aux f w x).2
theorem fr_notify (x : Nat) : Fr X w (w.notify x) := fr_notifyUp w _ x
theorem fr_spaceAvailable (x : Nat) : Fr X w (w.spaceAvailable x) := fr_spaceAvail w _ x
fr_lemma1 fr_notify
fr_lemma1 fr_spaceAvailable

macro_rules | `(tactic| frs) => `(tactic| refine Fr.trans ?_ (Fr.foldl _ _ _ (fun _ _ => ?_)))

theorem fr_releaseReserved (x : Nat) : Fr X w (w.releaseReserved x) := by
  unfold World.releaseReserved; fr_auto
fr_lemma1 fr_releaseReserved

theorem fr_procAcquire (x : Nat) : Fr X w (w.procAcquire x).1 := by
  unfold World.procAcquire; fr_auto
fr_lemma1 fr_procAcquire

theorem fr_applyPartCb (x p : Nat) (c : PartCb) : Fr X w (w.applyPartCb x p c) := by
  rw [applyPartCb_eq]; unfold cbDev; fr_auto
fr_lemma3 fr_applyPartCb

theorem fr_addHist (p d : Nat) : Fr X w (w.addHist p d) := by
  unfold World.addHist; fr_auto
fr_lemma2 fr_addHist

theorem fr_dropHist (p : Nat) : Fr X w (w.dropHist p) := by
  unfold World.dropHist; fr_auto
fr_lemma1 fr_dropHist

theorem fr_senseOutput (s p : Nat) : Fr X w (w.senseOutput s p) := by
  unfold World.senseOutput; fr_auto
fr_lemma2 fr_senseOutput

theorem fr_setBlock (x : Nat) (b : Bool) : Fr X w (w.setBlock x b) := by
  unfold World.setBlock; fr_auto
fr_lemma2 fr_setBlock

theorem fr_adjustParts (x : Nat) (v : Int) : Fr X w (w.adjustParts x v) := by
  unfold World.adjustParts; fr_auto
fr_lemma2 fr_adjustParts

theorem fr_procResourceCb (x : Nat) : Fr X w (w.procResourceCb x) := by
  unfold World.procResourceCb; fr_auto
fr_lemma1 fr_procResourceCb

theorem fr_releaseIfIdle (x : Nat) : Fr X w (w.releaseIfIdle x) := by
  unfold World.releaseIfIdle; fr_auto
fr_lemma1 fr_releaseIfIdle

/-- An update of a device that does not time its work, keeping kind, asset id and the processor
flags. -/
theorem fr_setDev_mask (x : Nat) (d : Dev) (hk : isT (w.dev x).kind = false)
    (hf : d.kind = (w.dev x).kind ∧ d.aid = (w.dev x).aid ∧ d.shutDown = (w.dev x).shutDown ∧
      d.lastRestore = (w.dev x).lastRestore ∧ d.lastUseStart = (w.dev x).lastUseStart) :
    Fr X w (w.setDev x d) := by
  apply fr_setDev_same
  obtain ⟨h1, h2, h3, h4, h5⟩ := hf
  simp [tdm, h1, h2, h3, h4, h5, hk]

theorem fr_modDev_mask (x : Nat) (f : Dev → Dev) (hk : isT (w.dev x).kind = false)
    (hf : ∀ d, (f d).kind = d.kind ∧ (f d).aid = d.aid ∧ (f d).shutDown = d.shutDown ∧
      (f d).lastRestore = d.lastRestore ∧ (f d).lastUseStart = d.lastUseStart) :
    Fr X w (w.modDev x f) := fr_setDev_mask w x _ hk (hf _)

theorem Fr.kind {w w' : World} (h : Fr X w w') (y : Nat) : (w'.dev y).kind = (w.dev y).kind := (h.ka y).1

theorem fr_genPart (x : Nat) : Fr X w (w.genPart x).1 := by
  cases h : ((w.dev x).genBatch == 0)
  · rw [C02V.genPart_batch w x h]; exact fr_of_fields rfl rfl rfl rfl
  · rw [C02V.genPart_leaf w x h]; exact fr_of_fields rfl rfl rfl rfl

theorem finishCycle_source_eq (x : Nat) (hk : (w.dev x).kind = .source) :
    w.finishCycle x =
      (if (w.dev x).output.isNone then
        ((w.genPart x).1.modDev x (fun d => { d with output := some (w.genPart x).2 })).addHist
          (w.genPart x).2 x
       else w).schedulePass x 0 := by
  unfold World.finishCycle
  simp only [hk]

theorem fr_finishCycle_source (x : Nat) (hk : (w.dev x).kind = .source) : Fr X w (w.finishCycle x) := by
  rw [finishCycle_source_eq w x hk]
  refine Fr.trans ?_ (fr_schedulePass _ _ _)
  split
  · have h1 : Fr X w (w.genPart x).1 := fr_genPart w x
    generalize w.genPart x = g at h1 ⊢
    obtain ⟨w1, p⟩ := g
    have hT : isT (w1.dev x).kind = false := by rw [h1.kind, hk]; rfl
    have h2 : Fr X w1 (w1.modDev x (fun d => { d with output := some p })) :=
      fr_modDev_mask w1 x _ hT (fun _ => ⟨rfl, rfl, rfl, rfl, rfl⟩)
    exact (h1.trans h2).trans (fr_addHist _ _ _)
  · exact Fr.refl _ _

theorem fr_scheduleFinish_source (x : Nat) (hk : (w.dev x).kind = .source) :
    Fr X w (w.scheduleFinish x) := by
  have h1 : Fr X w (w.setDev x { w.dev x with offset := 0 }) := fr_setDev_same _ _ _ rfl
  by_cases hc : 0 < w.finishDelay x
  · rw [scheduleFinish_pos w x hc]
    refine h1.trans (fr_schedLib _ _ _ _ _ ?_)
    intro y e
    cases e
    rw [h1.kind]; exact hk
  · rw [scheduleFinish_nonpos w x (Int.not_lt.1 hc)]
    exact h1.trans (fr_finishCycle_source _ x (by rw [h1.kind]; exact hk))

/-! ### the batcher and the buffer: their slots are masked -/

/-- peel a masked `modDev`/`setDev` off the right-hand world: leaves the prefix and the kind goal -/
macro "mask_hf" : tactic => `(tactic| first
  | exact fun _ => ⟨rfl, rfl, rfl, rfl, rfl⟩
  | exact ⟨rfl, rfl, rfl, rfl, rfl⟩
  | (refine ⟨?_, rfl, rfl, rfl, rfl⟩; symm; assumption))
macro "mask_peel" : tactic => `(tactic| (
  (first
    | refine Fr.trans ?_ (fr_modDev_mask _ _ _ ?_ ?hf)
    | refine Fr.trans ?_ (fr_setDev_mask _ _ _ ?_ ?hf))
  (case hf => mask_hf)))

theorem fr_batchGet (x p : Nat) (hk : isT (w.dev x).kind = false) : Fr X w (C02V.batchGet w x p).1 := by
  unfold C02V.batchGet
  split
  · dsimp only
    split
    · mask_peel
      · exact fr_modPart w _ _
      · exact hk
    · exact fr_modPart w _ _
  · dsimp only
    mask_peel
    · exact Fr.refl _ _
    · exact hk

theorem fr_batchShell (x : Nat) (hk : isT (w.dev x).kind = false) : Fr X w (C02V.batchShell w x).1 := by
  unfold C02V.batchShell
  split
  · exact Fr.refl _ _
  · dsimp only [World.newPart]
    mask_peel
    · exact fr_of_fields rfl rfl rfl rfl
    · exact hk

theorem fr_batchAdd (x t : Nat) (hk : isT (w.dev x).kind = false) : Fr X w (C02V.batchAdd w x t) := by
  unfold C02V.batchAdd
  split
  · mask_peel
    · exact Fr.refl _ _
    · exact hk
  · have h1 := fr_batchShell (X := X) w x hk
    have hk1 : isT ((C02V.batchShell w x).1.dev x).kind = false := by rw [h1.kind]; exact hk
    dsimp only
    split
    · mask_peel
      · exact h1.trans (fr_modPart _ _ _)
      · exact hk1
    · exact h1.trans (fr_modPart _ _ _)

theorem fr_batcherLoop (f : Nat) : ∀ (w : World) (x : Nat), isT (w.dev x).kind = false →
    Fr X w (batcherLoop f w x) := by
  induction f with
  | zero => intro w x _; exact Fr.refl _ _
  | succ f ih =>
    intro w x hk
    rw [C02V.batcherLoop_succ]
    split
    · rename_i p _ _
      have h1 := fr_batchGet (X := X) w x p hk
      have hk1 : isT ((C02V.batchGet w x p).1.dev x).kind = false := by rw [h1.kind]; exact hk
      have h2 := fr_batchAdd (X := X) (C02V.batchGet w x p).1 x (C02V.batchGet w x p).2 hk1
      have hk2 : isT ((C02V.batchAdd (C02V.batchGet w x p).1 x (C02V.batchGet w x p).2).dev x).kind = false := by
        rw [h2.kind]; exact hk1
      exact (h1.trans h2).trans (ih _ x hk2)
    · exact Fr.refl _ _

theorem fr_tryMove_buffer (x : Nat) (hk : (w.dev x).kind = .buffer) : Fr X w (w.tryMove x) := by
  have hT : isT (w.dev x).kind = false := by rw [hk]; rfl
  unfold World.tryMove
  simp only [hk]
  split
  · exact Fr.refl _ _
  · split
    · refine Fr.trans ?_ (fr_schedulePass _ _ _)
      refine Fr.trans ?_ (fr_notify _ _)
      mask_peel
      · exact Fr.refl _ _
      · exact hT
    · refine Fr.trans ?_ (fr_notify _ _)
      mask_peel
      · exact Fr.refl _ _
      · exact hT

theorem fr_tryMove_batcher (x : Nat) (hk : (w.dev x).kind = .batcher) : Fr X w (w.tryMove x) := by
  have hT : isT (w.dev x).kind = false := by rw [hk]; rfl
  unfold World.tryMove
  simp only [hk]
  repeat' split
  all_goals first
    | exact Fr.refl _ _
    | (mask_peel
       · exact Fr.refl _ _
       · exact hT)
    | (refine Fr.trans ?_ (fr_schedulePass _ _ _); exact fr_batcherLoop _ _ _ hT)
    | exact fr_batcherLoop _ _ _ hT

end comp
end C06W
end SimProc
