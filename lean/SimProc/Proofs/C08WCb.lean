/-
C08W, part 8: the gate predicates and the receive / finish callbacks of the devices never change
(`pcv`), for every function of the factory floor and of the closed world without `create`.
-/
import SimProc.Proofs.StaticWorld
namespace SimProc
namespace C08W
open World C02V

/-- What a device contributes to "does a gate accept this part now": its predicate and the callbacks
that could change value or quality of parts. -/
def pcd (d : Dev) : Pred × List PartCb × List PartCb := (d.pred, d.recvCbs, d.finCbs)

def pcv (w : World) : List (Pred × List PartCb × List PartCb) := w.devs.map pcd

theorem pcv_dev {w w' : World} (h : pcv w' = pcv w) (x : Nat) : pcd (w'.dev x) = pcd (w.dev x) := by
  have h1 : ∀ w : World, pcd (w.dev x) = (pcv w).getD x (pcd default) := by
    intro w
    simp only [pcv, World.dev, List.getD_eq_getElem?_getD, List.getElem?_map]
    cases w.devs[x]? <;> rfl
  rw [h1, h1, h]

section prim
variable (w : World)
@[simp] theorem pcv_setErr (m : String) : pcv (w.setErr m) = pcv w := by
  unfold World.setErr; split <;> rfl
@[simp] theorem pcv_addRec (r : Rec) : pcv (w.addRec r) = pcv w := rfl
@[simp] theorem pcv_addRes (r : Res) : pcv (w.addRes r) = pcv w := rfl
@[simp] theorem pcv_sched (t a : Int) (act : Action) (p : Int) : pcv (w.sched t a act p).1 = pcv w := by
  unfold World.sched; simp only []; split <;> rfl
@[simp] theorem pcv_schedLib (t a : Int) (act : Action) (p : Int) : pcv (w.schedLib t a act p) = pcv w := by
  have := pcv_sched w t a act p
  unfold World.schedLib; split <;> simp_all
@[simp] theorem pcv_envOp (op : EnvOp) : pcv (w.envOp op) = pcv w := rfl
theorem pcv_setDev_same (x : Nat) (d : Dev) (h : pcd d = pcd (w.dev x)) : pcv (w.setDev x d) = pcv w := by
  simp only [pcv, World.setDev]
  rw [map_set_getD_self pcd w.devs x default d h]
theorem pcv_modDev_same (x : Nat) (f : Dev → Dev) (h : ∀ d, pcd (f d) = pcd d) :
    pcv (w.modDev x f) = pcv w := pcv_setDev_same w x _ (h _)
@[simp] theorem pcv_modPart (p : Nat) (f : PartRec → PartRec) : pcv (w.modPart p f) = pcv w := rfl
end prim

macro_rules | `(tactic| fr_step) => `(tactic| first
  | rw [pcv_setErr] | rw [pcv_schedLib] | rw [pcv_setDev_same] | rw [pcv_modDev_same] | rw [pcv_modPart]
  | rw [pcv_addRec] | rw [pcv_addRes] | rw [pcv_envOp] | rw [pcv_sched]
  | rw [foldl_proj pcv])

/-- declare a frame lemma as a rewrite step of `frame` -/
macro "cb_frame_lemma" a:ident : command =>
  `(macro_rules | `(tactic| fr_step) => `(tactic| rw [$a:ident]))

section
variable (w : World)

theorem pcv_rmEffects (recs : List ResRec) (c : Bool) :
    pcv (w.rmEffects recs c) = pcv w := by
  unfold World.rmEffects; frame
cb_frame_lemma pcv_rmEffects

theorem pcv_setWaiting (x : Nat) (a b : Bool) :
    pcv (w.setWaiting x a b) = pcv w := by
  unfold World.setWaiting; frame
cb_frame_lemma pcv_setWaiting

theorem pcv_schedulePass (x : Nat) (o : Int) :
    pcv (w.schedulePass x o) = pcv w := by
  unfold World.schedulePass; frame
cb_frame_lemma pcv_schedulePass

end

section
variable (w : World)

theorem pcv_notify (x : Nat) : pcv (w.notify x) = pcv w :=
  (notify_proj _ pcv_setWaiting pcv_schedulePass pcv_setErr _ w x).1
theorem pcv_spaceAvailable (x : Nat) : pcv (w.spaceAvailable x) = pcv w :=
  (notify_proj _ pcv_setWaiting pcv_schedulePass pcv_setErr _ w x).2
cb_frame_lemma pcv_notify
cb_frame_lemma pcv_spaceAvailable

theorem pcv_releaseReserved (x : Nat) :
    pcv (w.releaseReserved x) = pcv w := by
  unfold World.releaseReserved; frame
cb_frame_lemma pcv_releaseReserved
theorem pcv_procAcquire (x : Nat) :
    pcv (w.procAcquire x).1 = pcv w := by
  unfold World.procAcquire; frame
cb_frame_lemma pcv_procAcquire
theorem pcv_applyPartCb (x p : Nat) (c : PartCb) :
    pcv (w.applyPartCb x p c) = pcv w := by
  unfold World.applyPartCb; frame
cb_frame_lemma pcv_applyPartCb
theorem pcv_senseOutput (s p : Nat) :
    pcv (w.senseOutput s p) = pcv w := by
  unfold World.senseOutput; frame
cb_frame_lemma pcv_senseOutput
theorem pcv_addHist (p d : Nat) : pcv (w.addHist p d) = pcv w := by
  unfold World.addHist; frame
cb_frame_lemma pcv_addHist
theorem pcv_dropHist (p : Nat) : pcv (w.dropHist p) = pcv w := by
  unfold World.dropHist; frame
cb_frame_lemma pcv_dropHist
theorem pcv_shutdownDev (x : Nat) (f : Bool) (l : Option Nat) :
    pcv (w.shutdownDev x f l) = pcv w := by
  unfold World.shutdownDev; frame
cb_frame_lemma pcv_shutdownDev
theorem pcv_restoreDev (x : Nat) : pcv (w.restoreDev x) = pcv w := by
  unfold World.restoreDev; frame
cb_frame_lemma pcv_restoreDev
theorem pcv_releaseIfIdle (x : Nat) : pcv (w.releaseIfIdle x) = pcv w := by
  unfold World.releaseIfIdle; frame
cb_frame_lemma pcv_releaseIfIdle
theorem pcv_procResourceCb (x : Nat) : pcv (w.procResourceCb x) = pcv w := by
  unfold World.procResourceCb; frame
cb_frame_lemma pcv_procResourceCb
theorem pcv_setBlock (x : Nat) (b : Bool) : pcv (w.setBlock x b) = pcv w := by
  unfold World.setBlock; frame
cb_frame_lemma pcv_setBlock
theorem pcv_adjustParts (x : Nat) (v : Int) :
    pcv (w.adjustParts x v) = pcv w := by
  unfold World.adjustParts; frame
cb_frame_lemma pcv_adjustParts

theorem pcv_finishCycleHandler (x : Nat) :
    pcv (w.finishCycleHandler x) = pcv w := by
  unfold World.finishCycleHandler; frame
cb_frame_lemma pcv_finishCycleHandler
theorem pcv_genPart (x : Nat) : pcv (w.genPart x).1 = pcv w := by
  cases h : ((w.dev x).genBatch == 0)
  · rw [genPart_batch w x h]; rfl
  · rw [genPart_leaf w x h]; rfl
cb_frame_lemma pcv_genPart
theorem pcv_finishCycle (x : Nat) : pcv (w.finishCycle x) = pcv w := by
  unfold World.finishCycle; frame
cb_frame_lemma pcv_finishCycle
theorem pcv_scheduleFinish (x : Nat) : pcv (w.scheduleFinish x) = pcv w := by
  unfold World.scheduleFinish; frame
cb_frame_lemma pcv_scheduleFinish
theorem pcv_newPart (r : PartRec) : pcv (w.newPart r).1 = pcv w := rfl
cb_frame_lemma pcv_newPart
theorem pcv_batchGet (x p : Nat) : pcv (batchGet w x p).1 = pcv w := by
  unfold batchGet; frame
cb_frame_lemma pcv_batchGet
theorem pcv_batchShell (x : Nat) : pcv (batchShell w x).1 = pcv w := by
  unfold batchShell; frame
cb_frame_lemma pcv_batchShell
theorem pcv_batchAdd (x t : Nat) : pcv (batchAdd w x t) = pcv w := by
  unfold batchAdd; frame
cb_frame_lemma pcv_batchAdd

end

theorem pcv_batcherLoop (f : Nat) : ∀ (w : World) (x : Nat),
    pcv (batcherLoop f w x) = pcv w := by
  induction f with
  | zero => intro w x; rfl
  | succ f ih =>
    intro w x; rw [batcherLoop_succ]
    split
    · rw [ih]; frame
    · rfl
cb_frame_lemma pcv_batcherLoop

section
variable (w : World)

theorem pcv_tryMove (x : Nat) : pcv (w.tryMove x) = pcv w := by
  unfold World.tryMove; frame
cb_frame_lemma pcv_tryMove
theorem pcv_onReceived (x p : Nat) : pcv (w.onReceived x p) = pcv w := by
  unfold World.onReceived; frame
cb_frame_lemma pcv_onReceived
theorem pcv_acceptPart (x p : Nat) : pcv (w.acceptPart x p) = pcv w := by
  unfold World.acceptPart; frame
cb_frame_lemma pcv_acceptPart

theorem pcv_give (f : Nat) (x p : Nat) : pcv (give f w x p).1 = pcv w :=
  give_proj pcv pcv_acceptPart pcv_procAcquire pcv_setErr pcv_addHist pcv_dropHist
    (fun _ _ _ => rfl) f w x p
theorem pcv_tryGive (l : List Nat) (p : Nat) :
    pcv (tryList givePart w l p).1 = pcv w :=
  tryList_proj pcv _ (fun w y p => pcv_give w _ y p) l w p
theorem pcv_passHandler (x : Nat) : pcv (w.passHandler x) = pcv w :=
  passHandler_proj pcv pcv_tryGive (fun _ _ => pcv_modDev_same _ _ _ (fun _ => rfl))
    (fun _ _ => pcv_modDev_same _ _ _ (fun _ => rfl)) pcv_notify w x
theorem pcv_bufferLoop (f : Nat) (x : Nat) : pcv (bufferLoop f w x) = pcv w :=
  bufferLoop_proj pcv pcv_tryGive (fun _ _ _ => pcv_modDev_same _ _ _ (fun _ => rfl)) (fun _ _ => rfl) f w x
cb_frame_lemma pcv_passHandler
cb_frame_lemma pcv_bufferLoop

theorem pcv_passPart (x : Nat) : pcv (w.passPart x) = pcv w := by
  unfold World.passPart; frame
theorem pcv_failDev (x : Nat) : pcv (w.failDev x) = pcv w := by
  unfold World.failDev; frame
theorem pcv_initDev (x : Nat) : pcv (w.initDev x) = pcv w := by
  unfold World.initDev; frame

end

/-! ### the closed world -/

section
variable (w : World)

theorem pcv_startOrders (m : Nat) (l : List Order) : pcv (w.startOrders m l) = pcv w := by
  unfold World.startOrders; frame
cb_frame_lemma pcv_startOrders
theorem pcv_schedUpdate (s : Nat) (b : Bool) : pcv (w.schedUpdate s b) = pcv w := by
  unfold World.schedUpdate; frame
cb_frame_lemma pcv_schedUpdate
theorem pcv_periodicSense (s : Nat) : pcv (w.periodicSense s) = pcv w := by
  unfold World.periodicSense; frame
cb_frame_lemma pcv_periodicSense
theorem pcv_modMaint (m : Nat) (f : Maint → Maint) : pcv (w.modMaint m f) = pcv w := rfl
cb_frame_lemma pcv_modMaint
theorem pcv_setVar (h : Nat) (v : Option Nat) : pcv (w.setVar h v) = pcv w := rfl
cb_frame_lemma pcv_setVar
cb_frame_lemma pcv_initDev

theorem pcv_initAsset (a : AssetRef) : pcv (w.initAsset a) = pcv w := by
  unfold World.initAsset; frame

end

theorem pcv_applyOp_static (w : World) (op : Op) (h1 : ∀ d ups, op ≠ .rewire d ups)
    (h2 : ∀ s, op ≠ .create s) : pcv (w.applyOp op).1 = pcv w := by
  cases op
  case rewire d ups => exact absurd rfl (h1 d ups)
  case create s => exact absurd rfl (h2 s)
  all_goals (unfold World.applyOp; frame')

end C08W
end SimProc
