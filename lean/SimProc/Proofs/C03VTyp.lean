/-
C03V, part 3 — several groups AND re-wiring in scripts: the typing of the ENVELOPE, and the
typed-stacks invariant along the event loop of a world whose scripts re-wire.

* `Typed.sub`  : the typing by group contexts survives the removal of connections;
* `TE cl w`    : the envelope of `w` (the wiring plus every connection `u → x` that some scripted
                 `rewire x ups`, `u ∈ ups`, may add) is typed by `cl` — a decidable condition on the
                 static world: every new upstream neighbour a script may give a device stands in
                 the nesting context in which the device expects its upstream neighbours (for a
                 group path as upstream neighbour: the device stands behind the group, in the
                 context of the path).  Preserved by every step, the re-wiring steps included
                 (`TE.of_rw`: the envelope can only shrink);
* `tinv_stepV` : one step of the event loop preserves `TInv cl` and `TE cl` — the actions that run
                 no script are blind to the scripts (`es_exec`) and are taken in the world without
                 its scripts (`C03Z.tinv_exec`); the others do not touch slots, kinds, group ids,
                 parts (`rw_exec_scr`; the invariant does not read the wiring: `TInv.of_kinds`);
* `gc_es`      : "one group, or typed envelope and typed stacks" gives the machinery's condition
                 `C03Z.GC` for the world without its scripts.
-/
import SimProc.Proofs.C03VEs

namespace SimProc
namespace C03V
open World C02V C03W C03 C03Z FloorCoreL

variable {cl : List (List Nat)}

/-- **Fewer connections: still typed.** -/
theorem Typed.sub {w w' : World} (h : Typed cl w) (hs : TopoSub w w')
    (hl : w'.devs.length = w.devs.length) : Typed cl w' := by
  refine ⟨fun x hx => ?_, fun x hx hkx => h.2 x (by rw [← hl]; exact hx) (by rw [← hs.kind]; exact hkx)⟩
  have := h.1 x (by rw [← hl]; exact hx)
  unfold TypedAt groupIn groupOut at this ⊢
  rw [hs.kind, hs.group, hs.groups]
  exact ⟨fun y hy => this.1 y (hs.down x y hy), this.2⟩

/-- **The envelope is typed.** -/
def TE (cl : List (List Nat)) (w : World) : Prop := Typed cl (envl w)

instance (cl : List (List Nat)) (w : World) : Decidable (TE cl w) := by unfold TE; infer_instance

/-- … hence the wiring of the moment -/
theorem TE.typed {w : World} (h : TE cl w) : Typed cl w :=
  Typed.sub h (topoSub_envl w) (envl_devs_length w).symm

theorem TE.of_rw {w w' : World} (h : TE cl w) (r : RW w w') : TE cl w' :=
  Typed.sub h r.envl (by rw [envl_devs_length, envl_devs_length, swr_len r.swr])

theorem TE.of_sw {w w' : World} (h : TE cl w) (e : sw w' = sw w) : TE cl w' :=
  Typed.of_sw h (by rw [← envl_sw, e, envl_sw])

/-- without re-wiring scripts the envelope is the world -/
theorem te_of_nr {w : World} (hn : NR w) (h : Typed cl w) : TE cl w := by
  unfold TE; rw [envl_of_nr hn]; exact h

theorem te_iff_of_nr {w : World} (hn : NR w) : TE cl w ↔ Typed cl w := by
  unfold TE; rw [envl_of_nr hn]

/-! ### the typed-stacks invariant does not read scripts and wiring -/

theorem tinv_es {w : World} (s : List (List Op)) : TInv cl (es w s) ↔ TInv cl w :=
  ⟨fun h => h.of_frame (w := es w s) (w' := w) rfl rfl rfl,
   fun h => h.of_frame (w := w) (w' := es w s) rfl rfl rfl⟩

theorem TInv.of_rw {w w' : World} (h : TInv cl w) (r : RW w w') : TInv cl w' :=
  h.of_kinds r.sv r.kind r.group r.parts

/-- the actions that may run a script -/
def scrAct : Action → Bool
  | .script _ | .rmCheck | .startWork _ _ | .finishWork _ _ => true
  | _ => false

theorem scrAct_true {a : Action} (h : scrAct a = true) :
    (∃ k, a = .script k) ∨ a = .rmCheck ∨ (∃ m o, a = .startWork m o) ∨
      ∃ m o, a = .finishWork m o := by
  cases a <;> simp only [scrAct] at h <;> first
    | (cases h; done)
    | exact Or.inl ⟨_, rfl⟩
    | exact Or.inr (Or.inl rfl)
    | exact Or.inr (Or.inr (Or.inl ⟨_, _, rfl⟩))
    | exact Or.inr (Or.inr (Or.inr ⟨_, _, rfl⟩))

theorem scrAct_false {a : Action} (h : scrAct a = false) :
    (∀ k, a ≠ .script k) ∧ a ≠ .rmCheck ∧ (∀ m o, a ≠ .startWork m o) ∧
      ∀ m o, a ≠ .finishWork m o := by
  cases a <;> simp only [scrAct] at h <;> first
    | (cases h; done)
    | exact ⟨fun _ hh => (nomatch hh), fun hh => (nomatch hh), fun _ _ hh => (nomatch hh),
        fun _ _ hh => (nomatch hh)⟩

/-- **Every admissible event action preserves the typed-stacks invariant and the typing of the
envelope** — in a world of the scope `SC` (its scripts may re-wire) whose version without scripts
satisfies the conservation invariant. -/
theorem tinv_execV (v : World) (a : Action) (hI : InvW v) (hsc : SC v) (hte : TE cl v)
    (hR : TInv cl v) (ha : ActOK (es v []) a) : TInv cl (v.exec a) ∧ TE cl (v.exec a) := by
  cases hs : scrAct a with
  | true =>
    have r := rw_exec_scr v a hsc.nc (scrAct_true hs)
    exact ⟨TInv.of_rw hR r, hte.of_rw r⟩
  | false =>
    obtain ⟨h1, h2, h3, h4⟩ := scrAct_false hs
    refine ⟨?_, hte.of_sw (SW.sw_eq ⟨swv_exec_plain v a h1 h2 h3 h4, scr_exec v a⟩)⟩
    have e := es_exec v [] a h1 h2 h3 h4
    have hS : TSt cl (es v []) := hte.typed.tst.of_tv (w := v) (w' := es v []) rfl
    have := tinv_exec (cl := cl) (es v []) a (hI.of_sv (w := v) (w' := es v []) rfl)
      ((tinv_es []).mpr hR) hS (fun l hl => nomatch hl) ha
    rw [e] at this
    exact (tinv_es []).mp this

/-- **One step of the event loop preserves the typed-stacks invariant and the typing of the
envelope** (scripts may re-wire). -/
theorem tinv_stepV {w w' : World} {e : Event} (hci : C17W.CI (es w [])) (hsc : SC w)
    (hte : TE cl w) (hR : TInv cl w) (hst : w.step = some (e, w')) : TInv cl w' ∧ TE cl w' := by
  unfold World.step at hst
  split at hst
  · cases hst
  · rename_i e' env' henv
    simp only [Option.some.injEq, Prod.mk.injEq] at hst
    obtain ⟨rfl, rfl⟩ := hst
    have henv0 : (es w []).env.step = some (e', env') := henv
    have hact : ActOK (es ({ w with env := env' } : World) []) (Action.ofNat e'.act) :=
      static_actOK (es w []) e' env' hci.stat henv0
    have hI1 : InvW ({ w with env := env' } : World) :=
      hci.inv.of_sv (w := es w []) (w' := ({ w with env := env' } : World)) rfl
    have hsc1 : SC ({ w with env := env' } : World) := hsc.of_sw rfl
    have hte1 : TE cl ({ w with env := env' } : World) := hte.of_sw rfl
    have hR1 : TInv cl ({ w with env := env' } : World) := hR.of_frame rfl rfl rfl
    split
    · exact tinv_execV _ _ hI1 hsc1 hte1 hR1 hact
    · exact ⟨hR1, hte1⟩

/-! ### the condition of the machinery -/

theorem wouldAccept_es (w : World) (s : List (List Op)) (f x p : Nat) :
    wouldAccept f (es w s) x p = wouldAccept f w x p :=
  wouldAcceptT_congr (w := w) (w' := es w s)
    ⟨fun _ => rfl, fun _ => rfl, fun _ => rfl, fun _ => rfl, rfl⟩
    (fun _ => rfl) (fun _ => rfl) (fun _ => rfl) (fun _ => rfl) f x _

/-- **One group, or typed envelope and typed stacks**: the machinery's condition holds for the world
without its scripts. -/
theorem gc_es {w : World} (h : ¬ OneGrp w → TE cl w ∧ TInv cl w) : GC (es w []) := by
  by_cases h1 : OneGrp w
  · exact Or.inl h1
  · obtain ⟨ht, hi⟩ := h h1
    exact Or.inr ⟨cl, fun l hl => (nomatch hl),
      Typed.congr ht.typed rfl (fun _ => rfl) (fun _ => rfl) (fun _ => rfl) rfl, (tinv_es []).mpr hi⟩

end C03V
end SimProc
