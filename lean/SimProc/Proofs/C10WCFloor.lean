/-
C10W — `C w (f w)` for every function of `Model/Floor.lean` (the conditional relation).
-/
import SimProc.Proofs.C10WCBase

namespace SimProc
namespace C10W
open World FloorCoreL C01W

/-! ### notifications -/

theorem C_setWaiting (w : World) (x : Nat) (a b : Bool) : C w (w.setWaiting x a b) := by
  unfold setWaiting
  dsimp only
  c_auto

macro_rules | `(tactic| c_step) => `(tactic| with_reducible apply C.trans (h2 := C_setWaiting _ _ _ _))

theorem C_schedulePass (w : World) (x : Nat) (o : Int) : C w (w.schedulePass x o) := by
  unfold schedulePass
  dsimp only
  c_auto

macro_rules | `(tactic| c_step) => `(tactic| with_reducible apply C.trans (h2 := C_schedulePass _ _ _))

theorem C_notifyUp_spaceAvail (n : Nat) :
    ∀ w x, C w (notifyUp n w x) ∧ C w (spaceAvail n w x) := by
  induction n with
  | zero =>
    intro w x
    constructor
    · rw [notifyUp]; exact C.of_KK (KK_setErr _ _)
    · rw [spaceAvail]; exact C.of_KK (KK_setErr _ _)
  | succ n ih =>
    intro w x
    have hN : ∀ w x, C w (notifyUp n w x) := fun w x => (ih w x).1
    have hS : ∀ w x, C w (spaceAvail n w x) := fun w x => (ih w x).2
    constructor
    · rw [notifyUp]
      dsimp only
      repeat' first
        | with_reducible exact C.refl _
        | with_reducible apply C.trans (h2 := C.foldl _ _ _ hS)
        | with_reducible apply C.trans (h2 := C.foldl _ _ _ hN)
        | with_reducible apply C.trans (h2 := C_setWaiting _ _ _ _)
        | split
    · rw [spaceAvail]
      try dsimp only
      repeat' first
        | with_reducible exact C.refl _
        | exact hN _ _
        | exact hS _ _
        | exact C_schedulePass _ _ _
        | split

theorem C_notifyUp (n : Nat) (w : World) (x : Nat) : C w (notifyUp n w x) :=
  (C_notifyUp_spaceAvail n w x).1
theorem C_spaceAvail (n : Nat) (w : World) (x : Nat) : C w (spaceAvail n w x) :=
  (C_notifyUp_spaceAvail n w x).2
theorem C_notify (w : World) (x : Nat) : C w (w.notify x) := C_notifyUp _ _ _
theorem C_spaceAvailable (w : World) (x : Nat) : C w (w.spaceAvailable x) := C_spaceAvail _ _ _

macro_rules | `(tactic| c_step) => `(tactic| with_reducible apply C.trans (h2 := C_notify _ _))
macro_rules | `(tactic| c_step) => `(tactic| with_reducible apply C.trans (h2 := C_spaceAvailable _ _))

/-! ### resources of a processor -/

theorem C_releaseReserved (w : World) (x : Nat) : C w (w.releaseReserved x) := by
  unfold releaseReserved
  split
  · exact C.refl _
  · rename_i id _
    have h := RmC.release w.rm id none
    rcases hr : w.rm.release id none with ⟨rm, res, recs, chk⟩
    rw [hr] at h
    dsimp only at h ⊢
    c_step
    exact C_rmStep w rm recs chk h

theorem ChkNow.of_env {w w' : World} (h : ChkNow w) (he : w'.env = w.env) : ChkNow w' := by
  unfold ChkNow C11W.QueuedL World.now at h ⊢
  rw [he]; exact h

theorem lt_of_resReq {w : World} {x : Nat} {req : Req} (h : (w.dev x).resReq = some req) :
    x < w.devs.length := by
  apply Nat.lt_of_not_le
  intro hle
  rw [dev_of_length_le hle] at h
  cases h

/-- A processor that is not yet waiting registers its request and sets its flag. -/
theorem C_procRegister (w : World) (x : Nat) (req : Req) (rm' : RM) (chk : Bool)
    (hreg : w.rm.register req (.proc x) = (rm', chk))
    (hreq : (w.dev x).resReq = some req) (hflag : (w.dev x).waitingRes = false) :
    C w ((({ w with rm := rm' } : World).rmEffects [] chk).modDev x
      (fun d => { d with waitingRes := true })) := by
  intro hp
  have hx : x < w.devs.length := lt_of_resReq hreq
  obtain ⟨hrm, hchk⟩ : rm' = { w.rm with waiting := w.rm.waiting ++ [(req, .proc x)] } ∧
      chk = w.rm.inited := by
    have h1 : rm' = (w.rm.register req (.proc x)).1 := by rw [hreg]
    have h2 : chk = (w.rm.register req (.proc x)).2 := by rw [hreg]
    exact ⟨h1, h2⟩
  have hk := KC_rmEffects ({ w with rm := rm' } : World) [] chk
  generalize hw1 : ({ w with rm := rm' } : World).rmEffects [] chk = w1 at hk
  have hd1 : w1.devs.map kd = w.devs.map kd := KC_devs (w := ({ w with rm := rm' } : World)) hk
  have hs1 : w1.scripts = w.scripts := KC_scr (w := ({ w with rm := rm' } : World)) hk
  have hr1 : w1.rm = rm' := KC_rm (w := ({ w with rm := rm' } : World)) hk
  have hlen : w1.devs.length = w.devs.length := by
    have := congrArg List.length hd1; simpa using this
  have hx1 : x < w1.devs.length := by rw [hlen]; exact hx
  have hkd1 : ∀ y, kd (w1.dev y) = kd (w.dev y) := kd_dev_of_map hd1
  -- the devices after the update
  have hdev : ∀ y, kd ((w1.modDev x (fun d => { d with waitingRes := true })).dev y) =
      if y = x then ((w.dev x).aid, true, (w.dev x).resReq) else kd (w.dev y) := by
    intro y
    rw [dev_modDev]
    by_cases hy : y = x
    · subst hy
      rw [if_pos ⟨rfl, hx1⟩, if_pos rfl]
      have := hkd1 y
      show ((w1.dev y).aid, true, (w1.dev y).resReq) = _
      rw [kd_aid this, kd_resReq this]
    · rw [if_neg (fun h => hy h.1.symm), if_neg hy]; exact hkd1 y
  have hrm2 : (w1.modDev x (fun d => { d with waitingRes := true })).rm = rm' := hr1
  have hwait : (w1.modDev x (fun d => { d with waitingRes := true })).rm.waiting =
      w.rm.waiting ++ [(req, .proc x)] := by rw [hrm2, hrm]
  have hfm : ((w1.modDev x (fun d => { d with waitingRes := true })).rm.waiting).filterMap procOf =
      w.rm.waiting.filterMap procOf ++ [x] := by
    rw [hwait, List.filterMap_append]; rfl
  have hnot : x ∉ w.rm.waiting.filterMap procOf := by
    intro hm
    obtain ⟨e, he, hpe⟩ := List.mem_filterMap.1 hm
    have := (hp.wait.entry e he x hpe).1
    rw [hflag] at this; cases this
  have g0 : Good ({ w with rm := rm' } : World) := ⟨hp.good.aid, hp.good.scr⟩
  have hv1 : Refines w.env w1.env := by
    have := (Via_rmEffects ({ w with rm := rm' } : World) [] chk g0).2
    rw [hw1] at this; exact this
  refine ⟨⟨?_, ?_, ?_, ?_, ?_⟩, hv1, ?_, ?_⟩
  · -- asset ids
    unfold AidOK
    have : (w1.modDev x (fun d => { d with waitingRes := true })).devs.map (·.aid) =
        w1.devs.map (·.aid) := by
      unfold World.modDev World.setDev
      exact map_set_of_eq Dev.aid w1.devs x _ default rfl
    rw [this, aids_of_map hd1]; exact hp.aid
  · unfold ScriptsC
    show ∀ l ∈ w1.scripts, _
    rw [hs1]; exact hp.scr
  · rw [hfm]
    exact List.nodup_append.2 ⟨hp.wait.nodup, (by simp), by
      intro a ha b hb; have : b = x := by simpa using hb
      subst this; exact fun h => hnot (h ▸ ha)⟩
  · intro e he d hd
    rw [hwait] at he
    have hkd := hdev d
    rcases List.mem_append.1 he with he | he
    · obtain ⟨h1, h2⟩ := hp.wait.entry e he d hd
      by_cases hdx : d = x
      · subst hdx
        rw [if_pos rfl] at hkd
        exact ⟨congrArg (fun q => q.2.1) hkd, (congrArg (fun q => q.2.2) hkd).trans h2⟩
      · rw [if_neg hdx] at hkd
        exact ⟨(kd_waitingRes hkd).trans h1, (kd_resReq hkd).trans h2⟩
    · have : e = (req, .proc x) := by simpa using he
      subst this
      have hdx : x = d := by simpa [procOf] using hd
      subst hdx
      rw [if_pos rfl] at hkd
      exact ⟨congrArg (fun q => q.2.1) hkd, (congrArg (fun q => q.2.2) hkd).trans hreq⟩
  · intro d hd
    rw [hfm]
    by_cases hdx : d = x
    · subst hdx; simp
    · have hkd := hdev d
      rw [if_neg hdx] at hkd
      rw [kd_waitingRes hkd] at hd
      exact List.mem_append_left _ (hp.wait.flag d hd)
  · intro hi
    rw [hrm2, hrm]; exact hi
  · intro hi
    left
    have : ChkNow w1 := by
      rw [← hw1, hchk, hi]; exact chkNow_rmEffects _ _
    exact this.of_env rfl

theorem C_procAcquire (w : World) (x : Nat) : C w (w.procAcquire x).1 := by
  unfold procAcquire
  dsimp only
  split
  · exact C.refl _
  · rename_i req hreq
    split
    · exact C.refl _
    · have h := RmC.reserve w.rm req
      split
      · rename_i rm r id recs heq
        rw [heq] at h
        dsimp only at h ⊢
        c_step
        exact C_rmStep w rm recs false h
      · dsimp only
        c_auto
      · split
        · exact C.refl _
        · rename_i hfl
          rcases hr : w.rm.register req (.proc x) with ⟨rm, chk⟩
          dsimp only
          exact C_procRegister w x req rm chk hr hreq (by simpa using hfl)

macro_rules | `(tactic| c_step) => `(tactic| with_reducible apply C.trans (h2 := C_releaseReserved _ _))

/-! ### parts, callbacks -/

theorem C_addHist (w : World) (p d : Nat) : C w (w.addHist p d) := by
  unfold addHist
  dsimp only
  c_auto

theorem C_dropHist (w : World) (p : Nat) : C w (w.dropHist p) := by
  unfold dropHist
  dsimp only
  c_auto

theorem C_applyPartCb (w : World) (x p : Nat) (c : PartCb) : C w (w.applyPartCb x p c) := by
  unfold applyPartCb
  dsimp only
  c_auto

theorem C_senseOutput (w : World) (s p : Nat) : C w (w.senseOutput s p) := by
  unfold senseOutput
  dsimp only
  c_auto

theorem C_finishCycleHandler (w : World) (x : Nat) : C w (w.finishCycleHandler x) := by
  unfold finishCycleHandler
  dsimp only
  c_auto

macro_rules | `(tactic| c_step) => `(tactic| with_reducible apply C.trans (h2 := C_addHist _ _ _))
macro_rules | `(tactic| c_step) => `(tactic| with_reducible apply C.trans (h2 := C_dropHist _ _))
macro_rules | `(tactic| c_step) => `(tactic| with_reducible apply C.trans (h2 := C_applyPartCb _ _ _ _))
macro_rules | `(tactic| c_step) => `(tactic| with_reducible apply C.trans (h2 := C_senseOutput _ _ _))
macro_rules | `(tactic| c_step) => `(tactic| with_reducible apply C.trans (h2 := C_finishCycleHandler _ _))

theorem KC_genPart_fold (d : Dev) (l : List Nat) (acc : World × List Nat) :
    KK (l.foldl (fun (acc : World × List Nat) _ =>
      let (w', k) := acc.1.newPart { quality := d.genQuality, value := d.genValue }
      (w', acc.2 ++ [k])) acc).1 = KK acc.1 := by
  induction l generalizing acc with
  | nil => rfl
  | cons a l ih => rw [List.foldl_cons, ih]; rfl

theorem KC_genPart (w : World) (x : Nat) : KK (w.genPart x).1 = KK w := by
  unfold genPart
  dsimp only
  split
  · rfl
  · exact KC_genPart_fold _ _ _

theorem C_genPart (w : World) (x : Nat) : C w (w.genPart x).1 := C.of_KK (KC_genPart w x)

macro_rules | `(tactic| c_step) => `(tactic| with_reducible apply C.trans (h2 := C_genPart _ _))

theorem C_batcherLoop (n : Nat) (w : World) (x : Nat) : C w (batcherLoop n w x) := by
  induction n generalizing w with
  | zero => exact C.refl _
  | succ n ih =>
    rw [batcherLoop]
    split
    · split
      rename_i w1 t heq
      refine C.trans ?_ (ih _)
      have h1 : C w (w1, t).1 := by
        rw [← heq]
        split <;> dsimp only <;> c_auto
      refine C.trans h1 ?_
      split
      · c_auto
      · split
        rename_i w2 b heq2
        have h2 : C w1 (w2, b).1 := by
          rw [← heq2]
          split
          · exact C.refl _
          · dsimp only
            c_step
            exact C.of_KK (KK_newPart _ _)
        refine C.trans h2 ?_
        dsimp only
        c_auto
    · exact C.refl _

macro_rules | `(tactic| c_step) => `(tactic| with_reducible apply C.trans (h2 := C_batcherLoop _ _ _))

/-! ### finishing a cycle -/

theorem C_finishCycle (w : World) (x : Nat) : C w (w.finishCycle x) := by
  unfold finishCycle
  dsimp only
  split
  · -- source
    c_step
    split
    · c_step
      c_step
      have := C_genPart w x
      revert this
      generalize w.genPart x = q
      intro this
      exact this
    · exact C.refl _
  · c_auto
  · -- processor
    split
    · c_auto
    · c_auto
  · c_auto

macro_rules | `(tactic| c_step) => `(tactic| with_reducible apply C.trans (h2 := C_finishCycle _ _))

theorem C_scheduleFinish (w : World) (x : Nat) : C w (w.scheduleFinish x) := by
  unfold scheduleFinish
  dsimp only
  c_auto

macro_rules | `(tactic| c_step) => `(tactic| with_reducible apply C.trans (h2 := C_scheduleFinish _ _))

theorem C_tryMove (w : World) (x : Nat) : C w (w.tryMove x) := by
  unfold tryMove
  dsimp only
  c_auto

macro_rules | `(tactic| c_step) => `(tactic| with_reducible apply C.trans (h2 := C_tryMove _ _))

theorem C_onReceived (w : World) (x p : Nat) : C w (w.onReceived x p) := by
  unfold onReceived
  dsimp only
  c_auto

macro_rules | `(tactic| c_step) => `(tactic| with_reducible apply C.trans (h2 := C_onReceived _ _ _))

theorem C_acceptPart (w : World) (x p : Nat) : C w (w.acceptPart x p) := by
  unfold acceptPart
  dsimp only
  c_auto

/-! ### handing parts over -/

theorem C_tryList (g : World → Nat → Nat → World × Bool)
    (hg : ∀ w y p, C w (g w y p).1) (w : World) (l : List Nat) (p : Nat) :
    C w (tryList g w l p).1 := by
  induction l generalizing w with
  | nil => exact C.refl w
  | cons y ys ih =>
    rw [tryList]
    have h := hg w y p
    split
    · rename_i heq; rw [heq] at h; exact h
    · rename_i heq; rw [heq] at h; exact h.trans (ih _)

theorem C_give (n : Nat) : ∀ (w : World) (x p : Nat), C w (give n w x p).1 := by
  induction n with
  | zero => intro w x p; exact C.of_KK (KK_setErr _ _)
  | succ n ih =>
    intro w x p
    have hT : ∀ w l p, C w (tryList (give n) w l p).1 := C_tryList _ ih
    rw [give]
    dsimp only
    repeat' first
      | c_step
      | with_reducible apply C.trans (h2 := C_acceptPart _ _ _)
      | exact hT _ _ _
      | exact ih _ _ _
      | c_heq (hT _ _ _)
      | c_heq (ih _ _ _)
      | c_heq (C_procAcquire _ _)
      | split

theorem C_givePart (w : World) (x p : Nat) : C w (w.givePart x p).1 := C_give _ _ _ _

theorem C_tryList_givePart (w : World) (l : List Nat) (p : Nat) :
    C w (tryList givePart w l p).1 := C_tryList _ C_givePart _ _ _

theorem C_passHandler (w : World) (x : Nat) : C w (w.passHandler x) := by
  unfold passHandler
  dsimp only
  repeat' first
    | c_step
    | c_heq (C_tryList_givePart _ _ _)
    | split

theorem C_bufferLoop (n : Nat) (w : World) (x : Nat) : C w (bufferLoop n w x) := by
  induction n generalizing w with
  | zero => exact C.refl _
  | succ n ih =>
    rw [bufferLoop]
    dsimp only
    repeat' first
      | c_step
      | with_reducible apply C.trans (h2 := ih _)
      | c_heq (C_tryList_givePart _ _ _)
      | split

macro_rules | `(tactic| c_step) => `(tactic| with_reducible apply C.trans (h2 := C_passHandler _ _))
macro_rules | `(tactic| c_step) => `(tactic| with_reducible apply C.trans (h2 := C_bufferLoop _ _ _))

theorem C_passPart (w : World) (x : Nat) : C w (w.passPart x) := by
  unfold passPart
  dsimp only
  c_auto

/-! ### processors: failure, shutdown, restore -/

theorem C_shutdownDev (w : World) (x : Nat) (f : Bool) (lost : Option Nat) :
    C w (w.shutdownDev x f lost) := by
  refine C.with_P fun hP => ?_
  have ha : (w.dev x).aid ≠ -1 := hP.good.ne x
  have hc : LibOp (.cancel (w.dev x).aid) := ha
  have hp : LibOp (.pause (w.dev x).aid) := ha
  unfold shutdownDev
  dsimp only
  c_auto

theorem C_restoreDev (w : World) (x : Nat) : C w (w.restoreDev x) := by
  refine C.with_P fun hP => ?_
  have ha : (w.dev x).aid ≠ -1 := hP.good.ne x
  have hu : LibOp (.unpause (w.dev x).aid) := ha
  unfold restoreDev
  dsimp only
  c_auto

macro_rules | `(tactic| c_step) => `(tactic| with_reducible apply C.trans (h2 := C_shutdownDev _ _ _ _))
macro_rules | `(tactic| c_step) => `(tactic| with_reducible apply C.trans (h2 := C_restoreDev _ _))

theorem C_failDev (w : World) (x : Nat) : C w (w.failDev x) := by
  unfold failDev
  dsimp only
  c_auto

theorem C_releaseIfIdle (w : World) (x : Nat) : C w (w.releaseIfIdle x) := by
  unfold releaseIfIdle
  c_auto

/-! ### scripted operations on devices -/

theorem C_setBlock (w : World) (x : Nat) (b : Bool) : C w (w.setBlock x b) := by
  unfold setBlock
  dsimp only
  c_auto

theorem C_adjustParts (w : World) (x : Nat) (v : Int) : C w (w.adjustParts x v) := by
  unfold adjustParts
  dsimp only
  c_auto

theorem C_rewire (w : World) (x : Nat) (ups : List Nat) : C w (w.rewire x ups) := by
  unfold rewire
  dsimp only
  c_auto

theorem C_initDev (w : World) (x : Nat) : C w (w.initDev x) := by
  unfold initDev
  dsimp only
  c_auto

macro_rules | `(tactic| c_step) => `(tactic| with_reducible apply C.trans (h2 := C_passPart _ _))
macro_rules | `(tactic| c_step) => `(tactic| with_reducible apply C.trans (h2 := C_failDev _ _))
macro_rules | `(tactic| c_step) => `(tactic| with_reducible apply C.trans (h2 := C_releaseIfIdle _ _))
macro_rules | `(tactic| c_step) => `(tactic| with_reducible apply C.trans (h2 := C_setBlock _ _ _))
macro_rules | `(tactic| c_step) => `(tactic| with_reducible apply C.trans (h2 := C_adjustParts _ _ _))
macro_rules | `(tactic| c_step) => `(tactic| with_reducible apply C.trans (h2 := C_rewire _ _ _))
macro_rules | `(tactic| c_step) => `(tactic| with_reducible apply C.trans (h2 := C_initDev _ _))

end C10W
end SimProc
