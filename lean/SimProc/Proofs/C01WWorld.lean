/-
C01W — `Via w (f w)` for every function of `Model/World.lean`; `step` and `runBegin` as
environment operations followed by library operations.
-/
import SimProc.Proofs.C01WFloor

namespace SimProc
namespace C01W
open World FloorCoreL

/-! ### small state updates -/

@[simp] theorem EK_modMaint (w : World) (m : Nat) (f : Maint → Maint) :
    EK (w.modMaint m f) = EK w := rfl
@[simp] theorem EK_setVar (w : World) (h : Nat) (v : Option Nat) : EK (w.setVar h v) = EK w := rfl

macro_rules | `(tactic| via_step) => `(tactic| with_reducible apply Via.trans_EK (h := EK_modMaint _ _ _))
macro_rules | `(tactic| via_step) => `(tactic| with_reducible apply Via.trans_EK (h := EK_setVar _ _ _))

theorem Via_startOrders (w : World) (m : Nat) (st : List Order) : Via w (w.startOrders m st) := by
  unfold startOrders
  via_auto

macro_rules | `(tactic| via_step) => `(tactic| with_reducible apply Via.trans (h2 := Via_startOrders _ _ _))

theorem Via_schedUpdate (w : World) (s : Nat) (advance : Bool) :
    Via w (w.schedUpdate s advance) := by
  unfold schedUpdate
  dsimp only
  via_auto

macro_rules | `(tactic| via_step) => `(tactic| with_reducible apply Via.trans (h2 := Via_schedUpdate _ _ _))

theorem Via_initAsset (w : World) (a : AssetRef) : Via w (w.initAsset a) := by
  unfold initAsset
  split <;> (try dsimp only) <;> via_auto

macro_rules | `(tactic| via_step) => `(tactic| with_reducible apply Via.trans (h2 := Via_initAsset _ _))

/-! ### constructors -/

theorem Via_addDev (w : World) (d : Dev) : Via w (w.addDev d) := by
  unfold addDev
  extract_lets i d' ups w1 w2 gr w3
  have h1 : Via w w1 := by
    intro g
    refine ⟨⟨?_, g.scr⟩, Refines.refl _⟩
    intro a ha
    have ha' : a ∈ w.devs.map (·.aid) ++ [(w.assets.length : Int) + 1] := by
      simpa [w1, d'] using ha
    rcases List.mem_append.1 ha' with h | h
    · exact g.aid a h
    · have : a = (w.assets.length : Int) + 1 := by simpa using h
      omega
  have h2 : Via w1 w2 := Via_rewire _ _ _
  have h3 : Via w2 w3 := by
    show Via w2 (if _ then _ else _)
    split
    · exact Via.of_EK rfl
    · exact Via.refl _
  have h4 : Via w3 (if w3.started = true then w3.initAsset (AssetRef.dev i) else w3) := by
    split
    · exact Via_initAsset _ _
    · exact Via.refl _
  exact (h1.trans h2).trans (h3.trans h4)

macro_rules | `(tactic| via_step) => `(tactic| with_reducible apply Via.trans (h2 := Via_addDev _ _))

theorem Via_addAsset (w : World) (spec : AssetSpec) : Via w (w.addAsset spec) := by
  unfold addAsset
  split <;> (try dsimp only)
  all_goals via_auto

macro_rules | `(tactic| via_step) => `(tactic| with_reducible apply Via.trans (h2 := Via_addAsset _ _))

/-! ### scripted operations -/

theorem Via_applyOp (w : World) (op : Op) (h : opUser op = true) : Via w (w.applyOp op).1 := by
  unfold applyOp
  split <;> (try dsimp only)
  · exact Via_sched _ _ _ _ _ (by intro h; cases h)
      (by have h' : pTerminate < _ := of_decide_eq_true h; exact h')
  · exact Via_sched _ _ _ _ _ (by intro h; cases h)
      (by have h' : pTerminate < _ := of_decide_eq_true h; exact h')
  · exact Via_envOp _ _ (show _ ≠ _ from of_decide_eq_true h)
  · exact Via_envOp _ _ (show _ ≠ _ from of_decide_eq_true h)
  · exact Via_envOp _ _ (show _ ≠ _ from of_decide_eq_true h)
  all_goals try (via_auto; done)
  all_goals repeat' first
      | via_step
      | exact Via_sched _ _ _ _ _ (by intro h; cases h) (by decide)
      | split
      | dsimp only

theorem Via_applyOps (w : World) (ops : List Op) (h : ∀ op ∈ ops, opUser op = true) :
    Via w (w.applyOps ops) := by
  unfold applyOps
  induction ops generalizing w with
  | nil => exact Via.refl _
  | cons op ops ih =>
    rw [List.foldl_cons]
    refine Via.trans ?_ (ih _ (fun o ho => h o (List.mem_cons_of_mem _ ho)))
    exact (Via_applyOp w op (h op List.mem_cons_self)).trans_EK (EK_addRes _ _)

theorem mem_getD_nil {α} {l : List (List α)} {k : Nat} {a : α} (h : a ∈ l.getD k []) :
    ∃ s ∈ l, a ∈ s := by
  rw [List.getD_eq_getElem?_getD] at h
  cases hk : l[k]? with
  | none => rw [hk] at h; simp at h
  | some s => rw [hk] at h; exact ⟨s, List.mem_of_getElem? hk, h⟩

theorem Via_runScript (w : World) (k : Nat) : Via w (w.runScript k) := by
  refine Via.with_good fun g => ?_
  unfold runScript
  refine Via_applyOps _ _ ?_
  intro op hop
  obtain ⟨s, hs, hm⟩ := mem_getD_nil hop
  exact g.scr s hs op hm

macro_rules | `(tactic| via_step) => `(tactic| with_reducible apply Via.trans (h2 := Via_runScript _ _))

/-! ### resource availability check -/

theorem Via_scanWaiting (n : Nat) (w : World) (i : Nat) : Via w (scanWaiting scanOps n w i) := by
  induction n generalizing w i with
  | zero => exact Via.refl _
  | succ n ih =>
    rw [scanWaiting]
    split
    · exact Via.refl _
    · split
      · refine Via.trans ?_ (ih _ _)
        show Via w (scanOps.erase (scanOps.call w _ _) i)
        unfold scanOps
        dsimp only
        via_auto
      · exact ih _ _

theorem Via_rmCheck (w : World) : Via w w.rmCheck := Via_scanWaiting _ _ _

/-! ### maintainer events -/

theorem Via_hookStart (w : World) (tgt : Nat) (tag : Int) : Via w (w.hookStart tgt tag) := by
  unfold hookStart
  dsimp only
  via_auto

theorem Via_hookEnd (w : World) (tgt : Nat) (tag : Int) : Via w (w.hookEnd tgt tag) := by
  unfold hookEnd
  dsimp only
  via_auto

macro_rules | `(tactic| via_step) => `(tactic| with_reducible apply Via.trans (h2 := Via_hookStart _ _ _))
macro_rules | `(tactic| via_step) => `(tactic| with_reducible apply Via.trans (h2 := Via_hookEnd _ _ _))
macro_rules | `(tactic| via_step) => `(tactic| with_reducible apply Via.trans (h2 := Via_rmCheck _))

theorem Via_startWork (w : World) (m seq : Nat) : Via w (w.startWork m seq) := by
  unfold startWork
  dsimp only
  via_auto

theorem Via_finishWork (w : World) (m seq : Nat) : Via w (w.finishWork m seq) := by
  unfold finishWork
  dsimp only
  via_auto

theorem Via_periodicSense (w : World) (s : Nat) : Via w (w.periodicSense s) := by
  unfold periodicSense
  dsimp only
  via_auto

/-! ### events -/

theorem Via_exec (w : World) (a : Action) : Via w (w.exec a) := by
  unfold exec
  split
  · exact Via.refl _
  · exact Via_runScript _ _
  · exact Via_finishCycle _ _
  · exact Via_passPart _ _
  · exact Via_failDev _ _
  · exact Via_releaseIfIdle _ _
  · exact Via_rmCheck _
  · exact Via_startWork _ _ _
  · exact Via_finishWork _ _ _
  · exact Via_schedUpdate _ _ _
  · exact Via_periodicSense _ _
  · exact Via.of_EK (EK_setErr _ _)

theorem Via_simulateInit (w : World) : Via w w.simulateInit := by
  unfold simulateInit
  split
  · exact Via.refl _
  · dsimp only
    via_auto

/-! ### `step`, `runBegin`, `runLoop` -/

theorem Good.with_env {w : World} (g : Good w) (e : Env) : Good { w with env := e } :=
  ⟨g.aid, g.scr⟩

theorem Good.of_with_env {w : World} {e : Env} (g : Good { w with env := e }) : Good w :=
  ⟨g.aid, g.scr⟩

/-- **A world step is the environment's `step` followed by library operations.** -/
theorem step_via {w w' : World} {e : Event} (h : w.step = some (e, w')) :
    ∃ env1, w.env.step = some (e, env1) ∧ Via { w with env := env1 } w' ∧
      (e.live = false → w' = { w with env := env1 }) ∧
      (e.live = true → w' = ({ w with env := env1 } : World).exec (Action.ofNat e.act)) := by
  unfold World.step at h
  split at h
  · cases h
  · rename_i e0 env' hs
    cases h
    refine ⟨env', hs, ?_, ?_, ?_⟩
    · split
      · exact Via_exec _ _
      · exact Via.refl _
    · intro hl; simp [hl]
    · intro hl; simp [hl]

/-- `World.runBegin` is exactly one `.runBegin` operation of the environment. -/
theorem runBegin_env (w : World) (d : Int) :
    (w.runBegin d).1.env =
      (w.env.apply Arith.exact (.runBegin d
        (weightOf w.seed w.wmod (w.env.now + d) (-1) terminateAct pTerminate))).1 ∧
    EK (w.runBegin d).1 = ((w.runBegin d).1.env, (EK w).2) := by
  unfold World.runBegin
  simp only [Env.apply]
  cases w.env.runBegin Arith.exact d
      (weightOf w.seed w.wmod (w.env.now + d) (-1) terminateAct pTerminate) <;> exact ⟨rfl, rfl⟩

theorem runBegin_good (w : World) (d : Int) (g : Good w) : Good (w.runBegin d).1 := by
  have h := (runBegin_env w d).2
  refine ⟨?_, ?_⟩
  · unfold AidOK
    rw [show (w.runBegin d).1.devs.map (·.aid) = w.devs.map (·.aid) from
      congrArg (fun q => q.2.1) h]
    exact g.aid
  · unfold ScriptsUser
    rw [show (w.runBegin d).1.scripts = w.scripts from congrArg (fun q => q.2.2) h]
    exact g.scr

end C01W
end SimProc
