/-
C08W, part 2: the exact effect of a successful `give` on the parts table (`give_exact`): the
history of the part and of its kids grows by exactly one hand-over chain, every gate of the chain
accepted the part, no device of the chain was blocked, all other parts are untouched, and what is
left to do is `acceptPart` at the last device of the chain.
-/
import SimProc.Proofs.C08WTopo
import SimProc.Proofs.C08Lemmas
import SimProc.Proofs.FloorGive
namespace SimProc
namespace C08W
open World C02V C08L FloorCoreL

/-! ### the parts table after a chain has been written -/

/-- The record of part `i` after the chain `c` has been appended `n` times interleaved (`n` = number
of occurrences of `i` in `p :: kids p`; 1 or 0 in a conservative world) and — for `p` itself — the
stack has become `s'`. -/
def bumpRec (n : Nat) (c : List Nat) (s' : Option (List Nat)) (r : PartRec) : PartRec :=
  { r with hist := r.hist ++ c.flatMap (fun d => List.replicate n d), stack := s'.getD r.stack }

/-- `ps'` is `ps` with the chain `c` appended to the history of `p` and of each of its kids and the
stack of `p` replaced by `s'`; nothing else differs. -/
def Bumped (ps ps' : List PartRec) (p : Nat) (c s' : List Nat) : Prop :=
  ∀ i, ps'[i]? = ps[i]?.map (fun r =>
    bumpRec ((histIdxs ps p).count i) c (if i = p then some s' else none) r)

theorem Bumped.length {ps ps' : List PartRec} {p : Nat} {c s' : List Nat}
    (h : Bumped ps ps' p c s') : ps'.length = ps.length := by
  rcases Nat.lt_trichotomy ps'.length ps.length with hlt | heq | hlt
  · have := h ps'.length
    rw [List.getElem?_eq_none (Nat.le_refl _), List.getElem?_eq_getElem hlt] at this
    simp at this
  · exact heq
  · have := h ps.length
    rw [List.getElem?_eq_none (Nat.le_refl _), List.getElem?_eq_getElem hlt] at this
    simp at this

theorem Bumped.getD {ps ps' : List PartRec} {p : Nat} {c s' : List Nat}
    (h : Bumped ps ps' p c s') (i : Nat) (hi : i < ps.length) :
    ps'.getD i default =
      bumpRec ((histIdxs ps p).count i) c (if i = p then some s' else none) (ps.getD i default) := by
  rw [List.getD_eq_getElem?_getD, List.getD_eq_getElem?_getD, h i, List.getElem?_eq_getElem hi]
  rfl

theorem Bumped.kids {ps ps' : List PartRec} {p : Nat} {c s' : List Nat}
    (h : Bumped ps ps' p c s') (i : Nat) : (ps'.getD i default).kids = (ps.getD i default).kids := by
  rw [List.getD_eq_getElem?_getD, List.getD_eq_getElem?_getD, h i]
  cases ps[i]? <;> rfl

theorem Bumped.histIdxs {ps ps' : List PartRec} {p : Nat} {c s' : List Nat}
    (h : Bumped ps ps' p c s') : histIdxs ps' p = histIdxs ps p := by
  unfold C08L.histIdxs; rw [h.kids]

theorem Bumped.trans {ps ps1 ps2 : List PartRec} {p : Nat} {c1 s1 c2 s2 : List Nat}
    (h1 : Bumped ps ps1 p c1 s1) (h2 : Bumped ps1 ps2 p c2 s2) : Bumped ps ps2 p (c1 ++ c2) s2 := by
  intro i
  rw [h2 i, h1 i, h1.histIdxs]
  cases ps[i]? with
  | none => rfl
  | some r =>
    simp only [Option.map_some, bumpRec, List.flatMap_append, List.append_assoc]
    by_cases hi : i = p <;> simp [hi]

theorem bumped_congr {ps ps' qs qs' : List PartRec} {p : Nat} {c s' : List Nat}
    (h : Bumped ps ps' p c s') (e1 : qs = ps) (e2 : qs' = ps') : Bumped qs qs' p c s' := by
  subst e1; subst e2; exact h

theorem bumped_addHist (w : World) (p d : Nat) :
    Bumped w.parts (w.addHist p d).parts p [d] (w.part p).stack := by
  intro i
  rw [addHist_parts, modAll_getElem?]
  cases hr : w.parts[i]? with
  | none => rfl
  | some r =>
    simp only [Option.map_some, iter_addH, bumpRec, List.flatMap_cons, List.flatMap_nil,
      List.append_nil]
    by_cases hi : i = p
    · subst hi
      have : w.part i = r := part_eq_of_getElem? hr
      simp [this]
    · simp [hi]

theorem bumped_modStack (w : World) (p : Nat) (f : List Nat → List Nat) :
    Bumped w.parts (w.modPart p (fun r => { r with stack := f r.stack })).parts p []
      (f (w.part p).stack) := by
  intro i
  show (w.parts.set p _)[i]? = _
  rw [List.getElem?_set]
  by_cases hi : p = i
  · subst hi
    rw [if_pos rfl]
    by_cases hlt : p < w.parts.length
    · have hr : w.parts[p]? = some w.parts[p] := List.getElem?_eq_getElem hlt
      have : w.part p = w.parts[p] := part_eq_of_getElem? hr
      simp [hlt, this, bumpRec]
    · simp [hlt]
  · rw [if_neg hi]
    cases hr : w.parts[i]? with
    | none => rfl
    | some r =>
      have : ¬ i = p := fun h => hi h.symm
      simp [bumpRec, this]

theorem bumped_refl (w : World) (p : Nat) : Bumped w.parts w.parts p [] (w.part p).stack := by
  intro i
  cases hr : w.parts[i]? with
  | none => rfl
  | some r =>
    by_cases hi : i = p
    · subst hi
      have : w.part i = r := part_eq_of_getElem? hr
      simp [bumpRec, this]
    · simp [bumpRec, hi]

/-! ### what neither a refused hand-over nor the bookkeeping on the way changes -/

theorem gatePred_congr {w w' : World} (h : w'.parts = w.parts) (pr : Pred) (q : Nat) :
    w'.gatePred pr q = w.gatePred pr q := by
  unfold gatePred partValue
  simp only [part_congr h]

structure Quiet (w w1 : World) : Prop where
  sv : sv w1 = sv w
  st : st w1 = st w
  blk : ∀ d, (w1.dev d).blockInput = (w.dev d).blockInput
  prd : ∀ d, (w1.dev d).pred = (w.dev d).pred
  gp : ∀ pr q, w1.gatePred pr q = w.gatePred pr q

theorem Quiet.refl (w : World) : Quiet w w := ⟨rfl, rfl, fun _ => rfl, fun _ => rfl, fun _ _ => rfl⟩

theorem Quiet.trans {a b c : World} (h1 : Quiet a b) (h2 : Quiet b c) : Quiet a c :=
  ⟨h2.sv.trans h1.sv, h2.st.trans h1.st, fun d => (h2.blk d).trans (h1.blk d),
    fun d => (h2.prd d).trans (h1.prd d), fun pr q => (h2.gp pr q).trans (h1.gp pr q)⟩

theorem sdev_noWR (d : Dev) : sdev d.noWR = sdev d := rfl
theorem tdev_noWR (d : Dev) : tdev d.noWR = tdev d := rfl

theorem Quiet.of_refused {w w' : World} (h : Refused w w') : Quiet w w' := by
  have hd := refFrame_devs h.2
  have hdev := refFrame_dev h.2
  refine ⟨?_, ?_, ?_, ?_, fun pr q => gatePred_congr h.1 pr q⟩
  · have h1 : w'.devs.map sdev = w.devs.map sdev := by
      have := congrArg (List.map sdev) hd
      simpa [List.map_map, Function.comp_def, sdev_noWR] using this
    have h2 := congrArg World.generated h.2
    have h3 := congrArg World.delivered h.2
    have h4 := congrArg World.lost h.2
    simp only [C02V.sv, h1, h.1]
    exact congr (congr (congrArg _ h2) h3) h4
  · have h1 : w'.devs.map tdev = w.devs.map tdev := by
      have := congrArg (List.map tdev) hd
      simpa [List.map_map, Function.comp_def, tdev_noWR] using this
    have h2 := congrArg World.groups h.2
    simp only [C02V.st, h1]
    exact congrArg _ (congrArg (List.map (·.input)) h2)
  · intro d; have := congrArg Dev.blockInput (hdev d); exact this
  · intro d; have := congrArg Dev.pred (hdev d); exact this

theorem Quiet.of_addHist (w : World) (p d : Nat) : Quiet w (w.addHist p d) :=
  ⟨sv_addHist .., st_addHist .., fun _ => by rw [dev_addHist], fun _ => by rw [dev_addHist],
    fun pr q => addHist_gatePred w p d pr q⟩

theorem Quiet.of_modStack (w : World) (p : Nat) (f : List Nat → List Nat) :
    Quiet w (w.modPart p (fun r => { r with stack := f r.stack })) := by
  refine ⟨sv_modPart_same _ _ _ (fun _ => rfl), rfl, fun _ => rfl, fun _ => rfl, ?_⟩
  intro pr q
  unfold gatePred partValue
  have hk : ∀ k, ((w.modPart p (fun r => { r with stack := f r.stack })).part k).kids = (w.part k).kids :=
    fun k => modPart_part_field PartRec.kids w p _ rfl k
  have hv : ∀ k, ((w.modPart p (fun r => { r with stack := f r.stack })).part k).value = (w.part k).value :=
    fun k => modPart_part_field PartRec.value w p _ rfl k
  have hq : ∀ k, ((w.modPart p (fun r => { r with stack := f r.stack })).part k).quality = (w.part k).quality :=
    fun k => modPart_part_field PartRec.quality w p _ rfl k
  simp only [hk, hv, hq]

theorem Quiet.of_procAcquire (w : World) (x : Nat) : Quiet w (w.procAcquire x).1 :=
  ⟨sv_procAcquire .., st_procAcquire ..,
    fun d => procAcquire_dev_field Dev.blockInput (fun _ _ _ => rfl) w x d,
    fun d => procAcquire_dev_field Dev.pred (fun _ _ _ => rfl) w x d,
    fun pr q => gatePred_congr (procAcquire_fst_parts w x) pr q⟩

theorem Quiet.kind {w w1 : World} (h : Quiet w w1) (x : Nat) : (w1.dev x).kind = (w.dev x).kind :=
  kind_of_st h.st x

theorem Quiet.topo {w w1 : World} (h : Quiet w w1) : topo w1 = topo w := topo_of_st h.st

theorem Quiet.down {w w1 : World} (h : Quiet w w1) (x : Nat) : (w1.dev x).down = (w.dev x).down := by
  have := congrArg (fun t => t.down x) h.topo
  exact this

/-- The refusing prefix of an offer round. -/
theorem prefix_quiet {f : Nat} {w wm : World} {l : List Nat} {p : Nat}
    (h : tryList (give f) w l p = (wm, false)) : Quiet w wm ∧ wm.parts = w.parts := by
  have hr := tryList_refused (fun w y w' h => give_refused f w y p w' h) h
  exact ⟨Quiet.of_refused hr, hr.1⟩

theorem canAccept_unblocked {w : World} {x p : Nat} (h : w.canAcceptBasic x p = true) :
    (w.dev x).blockInput = false := by
  cases hb : (w.dev x).blockInput with
  | false => rfl
  | true => rw [canAcceptBasic_blocked p hb] at h; cases h

/-! ### the exact effect of a successful hand-over -/

/-- What is known about the chain a successful `give` wrote. -/
structure ChainOK (w : World) (p : Nat) (c : List Nat) : Prop where
  unblocked : ∀ g ∈ c, (w.dev g).blockInput = false
  gates : ∀ g ∈ c, (w.dev g).kind = .gate → w.gatePred (w.dev g).pred p = true

theorem ChainOK.nil (w : World) (p : Nat) : ChainOK w p [] :=
  ⟨fun _ h => (by cases h), fun _ h _ => (by cases h)⟩

theorem ChainOK.of_quiet {w wm : World} {p : Nat} {c : List Nat} (hq : Quiet w wm)
    (h : ChainOK wm p c) : ChainOK w p c :=
  ⟨fun g hg => by rw [← hq.blk]; exact h.unblocked g hg,
   fun g hg hk => by
    rw [← hq.gp, ← hq.prd]
    exact h.gates g hg (by rw [hq.kind]; exact hk)⟩

theorem ChainOK.cons {w : World} {p x : Nat} {c : List Nat} (hb : (w.dev x).blockInput = false)
    (hg : (w.dev x).kind = .gate → w.gatePred (w.dev x).pred p = true) (h : ChainOK w p c) :
    ChainOK w p (x :: c) :=
  ⟨fun g hg' => by
    rcases List.mem_cons.1 hg' with rfl | hg'
    · exact hb
    · exact h.unblocked g hg',
   fun g hg' hk => by
    rcases List.mem_cons.1 hg' with rfl | hg'
    · exact hg hk
    · exact h.gates g hg' hk⟩

/-- **The exact effect of a successful hand-over** (`give_history_exact`, general form).  If
`give f w y p` succeeds then there are an accepting device `z` with a slot of its own, a list `c`
of decision gates and group paths and a stack `s'` such that
* `c ++ [z]` is a hand-over chain from `y` for the stack of `p` (so it follows configured
  connections, enters groups through group paths and leaves them through the innermost entered
  path),
* every device of `c` was unblocked and every gate of `c` accepted `p`,
* the result is `acceptPart z p` applied to a world `w1` that differs from `w` only in that `c` has
  been appended to the history of `p` and its kids and the stack of `p` is `s'` (`Bumped`; slot view,
  static view, block flags and gate predicates are those of `w`), and `z` can accept `p` there. -/
theorem give_exact (f : Nat) : ∀ (w : World) (y p : Nat) (w' : World), p < w.parts.length →
    give f w y p = (w', true) →
    ∃ z c s' w1, GChain (topo w) y (w.part p).stack (c ++ [z]) s' ∧
      isHandlerLike (w.dev z).kind = true ∧ w1.canAcceptBasic z p = true ∧
      w' = w1.acceptPart z p ∧ Quiet w w1 ∧ Bumped w.parts w1.parts p c s' ∧ ChainOK w p c := by
  induction f with
  | zero => intro w y p w' _ h; rw [give.eq_1] at h; simp at h
  | succ f ih =>
    intro w x p w' hp h
    -- a successful offer round over a list
    have ihl : ∀ (w0 : World) (l : List Nat) (w' : World), p < w0.parts.length →
        tryList (give f) w0 l p = (w', true) →
        ∃ y ∈ l, ∃ z c s' w1, GChain (topo w0) y (w0.part p).stack (c ++ [z]) s' ∧
          isHandlerLike (w0.dev z).kind = true ∧ w1.canAcceptBasic z p = true ∧
          w' = w1.acceptPart z p ∧ Quiet w0 w1 ∧ Bumped w0.parts w1.parts p c s' ∧ ChainOK w0 p c := by
      intro w0 l w' hp0 htl
      obtain ⟨l1, y, l2, wm, hl, h1, h2⟩ := tryList_true htl
      obtain ⟨hq, hparts⟩ := prefix_quiet h1
      obtain ⟨z, c, s', w1, hc, hz, hca, hw', hq1, hb, hok⟩ :=
        ih wm y p w' (by rw [hparts]; exact hp0) h2
      refine ⟨y, by rw [hl]; simp, z, c, s', w1, ?_, ?_, hca, hw', hq.trans hq1, ?_, hok.of_quiet hq⟩
      · rw [← hq.topo, ← part_congr hparts]; exact hc
      · rw [← hq.kind]; exact hz
      · exact bumped_congr hb hparts.symm rfl
    rw [give.eq_2] at h
    split at h
    -- source, handler, buffer, batcher, sink
    iterate 5
      · next hk =>
        split at h
        · next hca =>
          have : w.acceptPart x p = w' := (Prod.mk.inj h).1
          exact ⟨x, [], (w.part p).stack, w, GChain.slot x _ (by show isHandlerLike (w.dev x).kind = true; rw [hk]; rfl),
            by rw [hk]; rfl, hca, this.symm, Quiet.refl w, bumped_refl w p, ChainOK.nil w p⟩
        · simp at h
    -- processor
    · next hk =>
      split at h
      · next hca =>
        split at h
        · next w1 hacq =>
          have : w1.acceptPart x p = w' := (Prod.mk.inj h).1
          have hq : Quiet w w1 := by have := Quiet.of_procAcquire w x; rw [hacq] at this; exact this
          have hpp : w1.parts = w.parts := by
            have := procAcquire_fst_parts w x; rw [hacq] at this; exact this
          have hca1 : w1.canAcceptBasic x p = true := by
            have hcore : w1.canAcceptBasic x p = w.canAcceptBasic x p := by
              unfold canAcceptBasic operational leafCount
              have h1 := hq.kind x
              have h2 : (w1.dev x).shutDown = (w.dev x).shutDown := by
                have := procAcquire_dev_field Dev.shutDown (fun _ _ _ => rfl) w x x
                rw [hacq] at this; exact this
              have h3 := hq.blk x
              have h4 := part_of_sv hq.sv x
              have h5 := output_of_sv hq.sv x
              have h6 : (w1.dev x).cap = (w.dev x).cap := by
                have := procAcquire_dev_field Dev.cap (fun _ _ _ => rfl) w x x
                rw [hacq] at this; exact this
              have h7 : (w1.dev x).level = (w.dev x).level := by
                have := procAcquire_dev_field Dev.level (fun _ _ _ => rfl) w x x
                rw [hacq] at this; exact this
              simp only [h1, h2, h3, h4, h5, h6, h7, part_congr hpp]
            rw [hcore]; exact hca
          exact ⟨x, [], (w.part p).stack, w1, GChain.slot x _ (by show isHandlerLike (w.dev x).kind = true; rw [hk]; rfl),
            by rw [hk]; rfl, hca1, this.symm, hq, bumped_congr (bumped_refl w p) rfl hpp, ChainOK.nil w p⟩
        · simp at h
      · simp at h
    -- gate
    · next hk =>
      split at h
      · simp at h
      · next hpred =>
        split at h
        · simp at h
        · next hca =>
          dsimp only at h
          split at h
          · next w2 htl =>
            have : w2 = w' := (Prod.mk.inj h).1
            subst this
            have hqa := Quiet.of_addHist w p x
            have hpa : p < (w.addHist p x).parts.length := by rw [addHist_parts_length]; exact hp
            obtain ⟨y, hy, z, c, s', w1, hc, hz, hca1, hw', hq1, hb, hok⟩ := ihl _ _ _ hpa htl
            have hyd : y ∈ (w.dev x).down := by
              have := (mem_sortedDown _ _ _).1 hy
              rw [hqa.down] at this; exact this
            refine ⟨z, x :: c, s', w1, ?_, ?_, hca1, hw', hqa.trans hq1,
              (bumped_addHist w p x).trans hb, ?_⟩
            · rw [hqa.topo, addHist_part_stack] at hc
              exact GChain.gate x _ y _ _ hk hyd hc
            · rw [← hqa.kind]; exact hz
            · refine ChainOK.cons ?_ ?_ (hok.of_quiet hqa)
              · exact canAccept_unblocked (by simpa using hca)
              · intro _; simpa using hpred
          · simp at h
    -- ginput
    · next hk =>
      split at h
      · simp at h
      · obtain ⟨y, hy, z, c, s', w1, hc, hz, hca1, hw', hq1, hb, hok⟩ := ihl _ _ _ hp h
        exact ⟨z, c, s', w1, GChain.ginput x _ y _ _ hk ((mem_sortedDown _ _ _).1 hy) hc, hz, hca1, hw',
          hq1, hb, hok⟩
    -- gpath
    · next hk =>
      split at h
      · simp at h
      · next hblk =>
        dsimp only at h
        split at h
        · next w3 hgv =>
          have : w3 = w' := (Prod.mk.inj h).1
          subst this
          have hq0 := Quiet.of_modStack w p (fun s => s ++ [x])
          have hqa := Quiet.of_addHist (w.modPart p (fun r => { r with stack := r.stack ++ [x] })) p x
          have hq2 := hq0.trans hqa
          have hp2 : p < ((w.modPart p (fun r => { r with stack := r.stack ++ [x] })).addHist p x).parts.length := by
            rw [addHist_parts_length, modPart_parts_length]; exact hp
          obtain ⟨z, c, s', w1, hc, hz, hca1, hw', hq1, hb, hok⟩ := ih _ _ _ _ hp2 hgv
          refine ⟨z, x :: c, s', w1, ?_, ?_, hca1, hw', hq2.trans hq1, ?_, ?_⟩
          · rw [hq2.topo, addHist_part_stack, part_modPart_same hp] at hc
            simp only [addHist_groups, modPart_groups] at hc
            exact GChain.gpath x _ _ _ hk hc
          · rw [← hq2.kind]; exact hz
          · have h1 := bumped_modStack w p (fun s => s ++ [x])
            have h2 := bumped_addHist (w.modPart p (fun r => { r with stack := r.stack ++ [x] })) p x
            have := ((h1.trans h2).trans hb)
            simpa using this
          · refine ChainOK.cons ?_ ?_ (hok.of_quiet hq2)
            · cases hb' : (w.dev x).blockInput with
              | false => rfl
              | true => exact absurd hb' hblk
            · intro hk'; rw [hk] at hk'; cases hk'
        · simp at h
    -- goutput
    · next hk =>
      split at h
      · simp at h
      · next g hgl =>
        dsimp only at h
        split at h
        · next w2 htl =>
          have : w2 = w' := (Prod.mk.inj h).1
          subst this
          have hq0 := Quiet.of_modStack w p List.dropLast
          have hp2 : p < (w.modPart p (fun r => { r with stack := r.stack.dropLast })).parts.length := by
            rw [modPart_parts_length]; exact hp
          obtain ⟨y, hy, z, c, s', w1, hc, hz, hca1, hw', hq1, hb, hok⟩ := ihl _ _ _ hp2 htl
          have hyd : y ∈ (w.dev g).down := by
            have := (mem_sortedDown _ _ _).1 hy
            rw [hq0.down] at this; exact this
          have hstk : (w.part p).stack = (w.part p).stack.dropLast ++ [g] := by
            have hne : (w.part p).stack ≠ [] := by intro h0; rw [h0] at hgl; simp at hgl
            have hl := List.getLast?_eq_some_getLast hne
            rw [hl] at hgl
            have hg' : (w.part p).stack.getLast hne = g := by simpa using hgl
            rw [← hg']
            exact (List.dropLast_concat_getLast hne).symm
          refine ⟨z, c, s', w1, ?_, ?_, hca1, hw', hq0.trans hq1, ?_, hok.of_quiet hq0⟩
          · rw [hq0.topo, part_modPart_same hp] at hc
            rw [hstk]
            exact GChain.goutput x _ g y _ _ hk hyd hc
          · rw [← hq0.kind]; exact hz
          · have h1 := bumped_modStack w p List.dropLast
            have := h1.trans hb
            simpa using this
        · simp at h

end C08W
end SimProc
