/-
Frame library for the factory-floor model, part 3: effect lemmas for the small primitives that are
not flow-only.

* `releaseReserved`, `procAcquire`: only `rm`, the device's `reserved` / `waitingRes`, and flow state.
* `applyPartCb`: only `cycle` / `offset` of the device and `value` / `quality` of the part.
* `addHist`, `dropHist`: only the `hist` fields of parts.
* `setBlock`: only `blockInput` of the device, plus flow state.
* `adjustParts`: only `maxParts` of the device, plus flow state.

Every primitive comes with (a) an equation for an auxiliary projection of the world that erases
exactly what may change (`inert`, `noDevsParts`, `noParts`, or `core`), from which the simp lemmas
for the individual world fields are generated, (b) an equation for `devs` / `parts` (or for `core`)
in terms of a single `modDev` / `modPart`, and (c) `…_dev_ne`, `…_dev_same`, `…_dev_field` style
corollaries; the `_field` lemmas say that every observation of a device (part) that is insensitive
to the touched fields is unchanged, for every device (part) index.
-/
import SimProc.Proofs.FloorCore

namespace SimProc
open FloorCoreL
namespace World

/-! ### auxiliary projections -/

/-- A world without flow state, devices and resource manager. -/
def inert (w : World) : World := { w.noFlow with devs := [], rm := {} }

/-- A world without devices and parts (everything else, flow state included, is kept). -/
def noDevsParts (w : World) : World := { w with devs := [], parts := [] }

/-- A world without parts (everything else, flow state included, is kept). -/
def noParts (w : World) : World := { w with parts := [] }

theorem inert_of_noFlow_eq {w w' : World} (h : w'.noFlow = w.noFlow) : w'.inert = w.inert := by
  unfold inert; rw [h]

theorem inert_of_core_eq {w w' : World} (h : w'.core = w.core) : w'.inert = w.inert := by
  show ({ w'.core with devs := [], rm := {} } : World) = { w.core with devs := [], rm := {} }
  rw [h]

@[simp] theorem modDev_inert (w : World) (x : Nat) (f : Dev → Dev) :
    (w.modDev x f).inert = w.inert := rfl

@[simp] theorem setDev_inert (w : World) (x : Nat) (d : Dev) : (w.setDev x d).inert = w.inert := rfl

/-- Generates the field lemmas from `(f w).inert = w.inert`. -/
local syntax "inert_lemmas " ident bracketedBinder* " : " term " ⟹ " term " := " term : command

macro_rules
  | `(inert_lemmas $n $bs* : $l ⟹ $r := $pf) =>
    `(proj_lemmas [parts scripts generated delivered lost groups maints targets scheds
        sensors cmsSensors svars vars assets started seed wmod] $n $bs* : $l ⟹ $r := $pf)

/-- Generates the field lemmas from `(f w).noDevsParts = w.noDevsParts` (with `parts`: from
`(f w).noParts = w.noParts`). -/
local syntax "noDevsParts_lemmas " ident bracketedBinder* " : " term " ⟹ " term " := " term : command

macro_rules
  | `(noDevsParts_lemmas $n $bs* : $l ⟹ $r := $pf) =>
    `(proj_lemmas [env results recs error rm scripts generated delivered lost groups maints targets
        scheds sensors cmsSensors svars vars assets started seed wmod] $n $bs* : $l ⟹ $r := $pf)

/-- `modDev` only looks at `devs`. -/
theorem modDev_devs_congr {w w' : World} (h : w'.devs = w.devs) (x : Nat) (f : Dev → Dev) :
    (w'.modDev x f).devs = (w.modDev x f).devs := by
  unfold modDev setDev dev; rw [h]

/-- Consumers of an equation `w'.devs = (w.modDev x f).devs`. -/
theorem devs_eq_modDev_dev_ne {w w' : World} {x : Nat} {f : Dev → Dev}
    (h : w'.devs = (w.modDev x f).devs) {y : Nat} (hy : y ≠ x) : w'.dev y = w.dev y := by
  rw [dev_congr h, dev_modDev_ne (Ne.symm hy)]

theorem devs_eq_modDev_dev_same {w w' : World} {x : Nat} {f : Dev → Dev}
    (h : w'.devs = (w.modDev x f).devs) (hx : x < w.devs.length) : w'.dev x = f (w.dev x) := by
  rw [dev_congr h, dev_modDev_same hx]

theorem devs_eq_modDev_field {α} (g : Dev → α) {w w' : World} {x : Nat} {f : Dev → Dev}
    (h : w'.devs = (w.modDev x f).devs) (hg : g (f (w.dev x)) = g (w.dev x)) (y : Nat) :
    g (w'.dev y) = g (w.dev y) := by
  rw [dev_congr h, modDev_dev_field g w x f hg]

theorem devs_eq_modDev_length {w w' : World} {x : Nat} {f : Dev → Dev}
    (h : w'.devs = (w.modDev x f).devs) : w'.devs.length = w.devs.length := by
  rw [h, modDev_devs_length]

/-- Consumers of an equation `w'.core = (w.modDev x f).core`. -/
theorem core_eq_modDev_dev_ne {w w' : World} {x : Nat} {f : Dev → Dev}
    (h : w'.core = (w.modDev x f).core) {y : Nat} (hy : y ≠ x) :
    (w'.dev y).core = (w.dev y).core := by
  rw [core_eq_dev h, dev_modDev_ne (Ne.symm hy)]

theorem core_eq_modDev_dev_same {w w' : World} {x : Nat} {f : Dev → Dev}
    (h : w'.core = (w.modDev x f).core) (hx : x < w.devs.length) :
    (w'.dev x).core = (f (w.dev x)).core := by
  rw [core_eq_dev h, dev_modDev_same hx]

/-- An observation that depends neither on the flow flags nor on what `f` changes. -/
theorem core_eq_modDev_field {α} (g : Dev → α) (hcore : ∀ d, g d.core = g d) {w w' : World}
    {x : Nat} {f : Dev → Dev} (h : w'.core = (w.modDev x f).core)
    (hg : g (f (w.dev x)) = g (w.dev x)) (y : Nat) : g (w'.dev y) = g (w.dev y) := by
  rw [core_eq_field g hcore h, modDev_dev_field g w x f hg]

theorem core_eq_modDev_length {w w' : World} {x : Nat} {f : Dev → Dev}
    (h : w'.core = (w.modDev x f).core) : w'.devs.length = w.devs.length := by
  rw [core_eq_devs_length h, modDev_devs_length]

/-! ### `releaseReserved` -/

theorem releaseReserved_inert (w : World) (x : Nat) : (w.releaseReserved x).inert = w.inert := by
  unfold releaseReserved
  split
  · rfl
  · dsimp only
    rw [modDev_inert]
    exact (inert_of_noFlow_eq (rmEffects_noFlow _ _ _)).trans rfl

/-- On the devices, `releaseReserved` is exactly "clear `reserved` of `x`". -/
theorem releaseReserved_devs (w : World) (x : Nat) :
    (w.releaseReserved x).devs = (w.modDev x (fun d => { d with reserved := none })).devs := by
  unfold releaseReserved
  split
  · next h =>
    rw [modDev_of_fix]
    exact congrArg (fun r => ({ w.dev x with reserved := r } : Dev)) h.symm
  · dsimp only
    exact modDev_devs_congr (rmEffects_devs _ _ _) _ _

inert_lemmas releaseReserved (w : World) (x : Nat) : w.releaseReserved x ⟹ w :=
  releaseReserved_inert w x

@[simp] theorem releaseReserved_devs_length (w : World) (x : Nat) :
    (w.releaseReserved x).devs.length = w.devs.length :=
  devs_eq_modDev_length (releaseReserved_devs w x)

@[simp] theorem part_releaseReserved (w : World) (x p : Nat) :
    (w.releaseReserved x).part p = w.part p := part_congr (releaseReserved_parts w x) p

theorem releaseReserved_dev_ne (w : World) {x y : Nat} (h : y ≠ x) :
    (w.releaseReserved x).dev y = w.dev y :=
  devs_eq_modDev_dev_ne (releaseReserved_devs w x) h

/-- Holds also for an index out of range (the default device has nothing reserved). -/
theorem releaseReserved_dev_same (w : World) (x : Nat) :
    (w.releaseReserved x).dev x = { w.dev x with reserved := none } := by
  by_cases hx : x < w.devs.length
  · exact devs_eq_modDev_dev_same (releaseReserved_devs w x) hx
  · have hx' := Nat.not_lt.1 hx
    rw [dev_congr (releaseReserved_devs w x), modDev_out_of_range hx', dev_of_length_le hx']
    rfl

theorem releaseReserved_dev (w : World) (x y : Nat) :
    (w.releaseReserved x).dev y = if y = x then { w.dev x with reserved := none } else w.dev y := by
  split
  · next h => subst h; exact releaseReserved_dev_same w y
  · next h => exact releaseReserved_dev_ne w h

theorem releaseReserved_dev_core (w : World) (x y : Nat) :
    ((w.releaseReserved x).dev y).core =
      if y = x then { (w.dev x).core with reserved := none } else (w.dev y).core := by
  rw [releaseReserved_dev]; split <;> rfl

/-- Every observation of a device that does not depend on `reserved` is unchanged. -/
theorem releaseReserved_dev_field {α} (g : Dev → α)
    (hg : ∀ d r, g { d with reserved := r } = g d) (w : World) (x y : Nat) :
    g ((w.releaseReserved x).dev y) = g (w.dev y) :=
  devs_eq_modDev_field g (releaseReserved_devs w x) (hg _ _) y

@[simp] theorem releaseReserved_reserved (w : World) (x : Nat) :
    ((w.releaseReserved x).dev x).reserved = none := by
  rw [releaseReserved_dev_same]

/-! ### `procAcquire` -/

theorem procAcquire_inert (w : World) (x : Nat) : (w.procAcquire x).1.inert = w.inert := by
  unfold procAcquire
  dsimp only
  repeat' split
  all_goals first
    | rfl
    | exact inert_of_noFlow_eq (setErr_noFlow _ _)
    | (dsimp only; rw [modDev_inert]; exact (inert_of_noFlow_eq (rmEffects_noFlow _ _ _)).trans rfl)

/-- On the devices, `procAcquire` is "set `reserved` and `waitingRes` of `x` to something". -/
theorem procAcquire_devs (w : World) (x : Nat) :
    ∃ r wr, (w.procAcquire x).1.devs =
      (w.modDev x (fun d => { d with reserved := r, waitingRes := wr })).devs := by
  have keep : w.devs = (w.modDev x (fun d =>
      { d with reserved := (w.dev x).reserved, waitingRes := (w.dev x).waitingRes })).devs := by
    rw [modDev_of_fix]; rfl
  unfold procAcquire
  dsimp only
  repeat' split
  all_goals first
    | exact ⟨_, _, keep⟩
    | exact ⟨_, _, (setErr_devs _ _).trans keep⟩
    | skip
  · next id _ _ =>
    refine ⟨some id, (w.dev x).waitingRes, ?_⟩
    exact modDev_devs_congr (rmEffects_devs _ _ _) _ _
  · refine ⟨(w.dev x).reserved, true, ?_⟩
    exact modDev_devs_congr (rmEffects_devs _ _ _) _ _

inert_lemmas procAcquire_fst (w : World) (x : Nat) : (w.procAcquire x).1 ⟹ w :=
  procAcquire_inert w x

@[simp] theorem procAcquire_devs_length (w : World) (x : Nat) :
    (w.procAcquire x).1.devs.length = w.devs.length := by
  obtain ⟨r, wr, h⟩ := procAcquire_devs w x
  exact devs_eq_modDev_length h

@[simp] theorem part_procAcquire (w : World) (x p : Nat) :
    (w.procAcquire x).1.part p = w.part p := part_congr (procAcquire_fst_parts w x) p

theorem procAcquire_dev_ne (w : World) {x y : Nat} (h : y ≠ x) :
    (w.procAcquire x).1.dev y = w.dev y := by
  obtain ⟨r, wr, hd⟩ := procAcquire_devs w x
  exact devs_eq_modDev_dev_ne hd h

theorem procAcquire_dev_same (w : World) (x : Nat) :
    ∃ r wr, (w.procAcquire x).1.dev x = { w.dev x with reserved := r, waitingRes := wr } := by
  obtain ⟨r, wr, hd⟩ := procAcquire_devs w x
  by_cases hx : x < w.devs.length
  · exact ⟨r, wr, devs_eq_modDev_dev_same hd hx⟩
  · refine ⟨(w.dev x).reserved, (w.dev x).waitingRes, ?_⟩
    rw [dev_congr hd, modDev_out_of_range (Nat.not_lt.1 hx)]

/-- Every observation of a device that does not depend on `reserved` and `waitingRes` is
unchanged. -/
theorem procAcquire_dev_field {α} (g : Dev → α)
    (hg : ∀ d r wr, g { d with reserved := r, waitingRes := wr } = g d) (w : World) (x y : Nat) :
    g ((w.procAcquire x).1.dev y) = g (w.dev y) := by
  obtain ⟨r, wr, hd⟩ := procAcquire_devs w x
  exact devs_eq_modDev_field g hd (hg _ _ _) y

theorem procAcquire_dev_core (w : World) (x y : Nat) :
    ∃ r wr, ((w.procAcquire x).1.dev y).core =
      if y = x then { (w.dev x).core with reserved := r, waitingRes := wr } else (w.dev y).core := by
  by_cases h : y = x
  · subst h
    obtain ⟨r, wr, hd⟩ := procAcquire_dev_same w y
    exact ⟨r, wr, by rw [hd, if_pos rfl]; rfl⟩
  · exact ⟨none, false, by rw [procAcquire_dev_ne w h, if_neg h]⟩

/-! ### `applyPartCb` -/

/-- What `applyPartCb` does to its device … -/
def cbDev (c : PartCb) (d : Dev) : Dev :=
  { d with cycle := c.setCycle.getD d.cycle, offset := d.offset + c.offset }

/-- … and to its part (if it is not a batch). -/
def cbPart (c : PartCb) (r : PartRec) : PartRec :=
  { r with value := r.value + c.addValue, quality := c.setQuality.getD r.quality }

/-- `applyPartCb` in closed form: one `modDev`, and one `modPart` unless the part is a batch. -/
theorem applyPartCb_eq (w : World) (x p : Nat) (c : PartCb) :
    w.applyPartCb x p c =
      if w.isBatch p then w.modDev x (cbDev c)
      else (w.modDev x (cbDev c)).modPart p (cbPart c) := by
  have hb : ∀ (f : Dev → Dev) (w : World), (w.modDev x f).isBatch p = w.isBatch p := fun _ _ => rfl
  obtain ⟨sc, off, av, sq⟩ := c
  unfold applyPartCb cbDev cbPart
  cases sc <;> cases sq <;> by_cases ha : av = 0 <;> by_cases hbt : w.isBatch p = true
  all_goals try subst ha
  all_goals dsimp only
  all_goals try simp only [beq_iff_eq, ha, if_false]
  all_goals simp only [hb, hbt, modDev_modDev, modPart_modPart, Int.add_zero, Option.getD_none,
    Option.getD_some, beq_self_eq_true, if_true, if_false, Bool.false_eq_true]
  all_goals exact (modPart_of_fix rfl).symm

theorem applyPartCb_noDevsParts (w : World) (x p : Nat) (c : PartCb) :
    (w.applyPartCb x p c).noDevsParts = w.noDevsParts := by
  rw [applyPartCb_eq]; split <;> rfl

theorem applyPartCb_devs (w : World) (x p : Nat) (c : PartCb) :
    (w.applyPartCb x p c).devs = (w.modDev x (cbDev c)).devs := by
  rw [applyPartCb_eq]; split <;> rfl

theorem applyPartCb_parts (w : World) (x p : Nat) (c : PartCb) :
    (w.applyPartCb x p c).parts =
      (if w.isBatch p then w else w.modPart p (cbPart c)).parts := by
  rw [applyPartCb_eq]; split <;> rfl

noDevsParts_lemmas applyPartCb (w : World) (x p : Nat) (c : PartCb) : w.applyPartCb x p c ⟹ w :=
  applyPartCb_noDevsParts w x p c

@[simp] theorem applyPartCb_core_noDevsParts (w : World) (x p : Nat) (c : PartCb) :
    (w.applyPartCb x p c).core.noDevsParts = w.core.noDevsParts := by
  have h := applyPartCb_noDevsParts w x p c
  show ({ (w.applyPartCb x p c).noDevsParts with
      env := {}, results := [], recs := [], error := none } : World) =
    { w.noDevsParts with env := {}, results := [], recs := [], error := none }
  rw [h]

@[simp] theorem applyPartCb_devs_length (w : World) (x p : Nat) (c : PartCb) :
    (w.applyPartCb x p c).devs.length = w.devs.length :=
  devs_eq_modDev_length (applyPartCb_devs w x p c)

@[simp] theorem applyPartCb_parts_length (w : World) (x p : Nat) (c : PartCb) :
    (w.applyPartCb x p c).parts.length = w.parts.length := by
  rw [applyPartCb_parts]; split <;> simp

theorem applyPartCb_dev_ne (w : World) {x y : Nat} (p : Nat) (c : PartCb) (h : y ≠ x) :
    (w.applyPartCb x p c).dev y = w.dev y :=
  devs_eq_modDev_dev_ne (applyPartCb_devs w x p c) h

theorem applyPartCb_dev_same (w : World) {x : Nat} (p : Nat) (c : PartCb)
    (h : x < w.devs.length) : (w.applyPartCb x p c).dev x = cbDev c (w.dev x) :=
  devs_eq_modDev_dev_same (applyPartCb_devs w x p c) h

theorem applyPartCb_dev (w : World) (x y p : Nat) (c : PartCb) :
    (w.applyPartCb x p c).dev y =
      if x = y ∧ x < w.devs.length then cbDev c (w.dev x) else w.dev y := by
  rw [dev_congr (applyPartCb_devs w x p c), dev_modDev]

/-- Every observation of a device that does not depend on `cycle` and `offset` is unchanged. -/
theorem applyPartCb_dev_field {α} (g : Dev → α)
    (hg : ∀ d cy o, g { d with cycle := cy, offset := o } = g d) (w : World) (x p : Nat)
    (c : PartCb) (y : Nat) : g ((w.applyPartCb x p c).dev y) = g (w.dev y) :=
  devs_eq_modDev_field g (applyPartCb_devs w x p c) (hg _ _ _) y

theorem applyPartCb_dev_core (w : World) (x y p : Nat) (c : PartCb) :
    ((w.applyPartCb x p c).dev y).core =
      if x = y ∧ x < w.devs.length then cbDev c (w.dev x).core else (w.dev y).core := by
  rw [applyPartCb_dev]; split <;> rfl

theorem applyPartCb_part_ne (w : World) (x : Nat) {p q : Nat} (c : PartCb) (h : q ≠ p) :
    (w.applyPartCb x p c).part q = w.part q := by
  rw [part_congr (applyPartCb_parts w x p c)]
  split
  · rfl
  · exact part_modPart_ne (Ne.symm h)

theorem applyPartCb_part_same (w : World) (x : Nat) {p : Nat} (c : PartCb)
    (h : p < w.parts.length) :
    (w.applyPartCb x p c).part p = if w.isBatch p then w.part p else cbPart c (w.part p) := by
  rw [part_congr (applyPartCb_parts w x p c)]
  split
  · rfl
  · exact part_modPart_same h

/-- Every observation of a part that does not depend on `value` and `quality` is unchanged. -/
theorem applyPartCb_part_field {α} (g : PartRec → α)
    (hg : ∀ r v q, g { r with value := v, quality := q } = g r) (w : World) (x p : Nat)
    (c : PartCb) (q : Nat) : g ((w.applyPartCb x p c).part q) = g (w.part q) := by
  rw [part_congr (applyPartCb_parts w x p c)]
  split
  · rfl
  · exact modPart_part_field g w p (cbPart c) (hg _ _ _) q

@[simp] theorem applyPartCb_part_kids (w : World) (x p : Nat) (c : PartCb) (q : Nat) :
    ((w.applyPartCb x p c).part q).kids = (w.part q).kids :=
  applyPartCb_part_field PartRec.kids (fun _ _ _ => rfl) w x p c q

@[simp] theorem applyPartCb_part_hist (w : World) (x p : Nat) (c : PartCb) (q : Nat) :
    ((w.applyPartCb x p c).part q).hist = (w.part q).hist :=
  applyPartCb_part_field PartRec.hist (fun _ _ _ => rfl) w x p c q

@[simp] theorem applyPartCb_part_stack (w : World) (x p : Nat) (c : PartCb) (q : Nat) :
    ((w.applyPartCb x p c).part q).stack = (w.part q).stack :=
  applyPartCb_part_field PartRec.stack (fun _ _ _ => rfl) w x p c q

@[simp] theorem applyPartCb_isBatch (w : World) (x p : Nat) (c : PartCb) (q : Nat) :
    (w.applyPartCb x p c).isBatch q = w.isBatch q := by
  unfold isBatch; rw [applyPartCb_part_kids]

@[simp] theorem applyPartCb_leavesOf (w : World) (x p : Nat) (c : PartCb) (q : Nat) :
    (w.applyPartCb x p c).leavesOf q = w.leavesOf q := by
  unfold leavesOf; rw [applyPartCb_part_kids]

@[simp] theorem applyPartCb_leafCount (w : World) (x p : Nat) (c : PartCb) (q : Nat) :
    (w.applyPartCb x p c).leafCount q = w.leafCount q := by
  unfold leafCount; rw [applyPartCb_part_kids]

/-! ### `addHist`, `dropHist` -/

@[simp] theorem modPart_noParts (w : World) (p : Nat) (g : PartRec → PartRec) :
    (w.modPart p g).noParts = w.noParts := rfl

/-- Common shape of `addHist` and `dropHist`: apply `f` to `p` and then to the kids of `p`. -/
def histOp (w : World) (p : Nat) (f : PartRec → PartRec) : World :=
  let w := w.modPart p f
  match (w.part p).kids with
  | some l => l.foldl (fun w k => w.modPart k f) w
  | none => w

theorem addHist_eq_histOp (w : World) (p d : Nat) :
    w.addHist p d = w.histOp p (fun r => { r with hist := r.hist ++ [d] }) := rfl

theorem dropHist_eq_histOp (w : World) (p : Nat) :
    w.dropHist p = w.histOp p (fun r => { r with hist := r.hist.dropLast }) := rfl

/-- Any observation of the world that a single `modPart _ f` preserves. -/
theorem histOp_preserve {β} (P : World → β) (f : PartRec → PartRec)
    (hP : ∀ w k, P (w.modPart k f) = P w) (w : World) (p : Nat) : P (w.histOp p f) = P w := by
  unfold histOp
  dsimp only
  split
  · rw [foldl_preserve P _ _ _ hP, hP]
  · rw [hP]

theorem histOp_noParts (w : World) (p : Nat) (f : PartRec → PartRec) :
    (w.histOp p f).noParts = w.noParts :=
  histOp_preserve noParts f (fun _ _ => rfl) w p

theorem histOp_parts_length (w : World) (p : Nat) (f : PartRec → PartRec) :
    (w.histOp p f).parts.length = w.parts.length :=
  histOp_preserve (fun w => w.parts.length) f (fun _ _ => modPart_parts_length) w p

theorem histOp_part_field {α} (g : PartRec → α) (f : PartRec → PartRec)
    (hg : ∀ r, g (f r) = g r) (w : World) (p q : Nat) :
    g ((w.histOp p f).part q) = g (w.part q) :=
  histOp_preserve (fun w => g (w.part q)) f
    (fun w k => modPart_part_field g w k f (hg _) q) w p

theorem addHist_noParts (w : World) (p d : Nat) : (w.addHist p d).noParts = w.noParts :=
  histOp_noParts w p _

theorem dropHist_noParts (w : World) (p : Nat) : (w.dropHist p).noParts = w.noParts :=
  histOp_noParts w p _

noDevsParts_lemmas addHist (w : World) (p d : Nat) : w.addHist p d ⟹ w := addHist_noParts w p d
noDevsParts_lemmas dropHist (w : World) (p : Nat) : w.dropHist p ⟹ w := dropHist_noParts w p

@[simp] theorem addHist_devs (w : World) (p d : Nat) : (w.addHist p d).devs = w.devs := by
  have h := congrArg World.devs (addHist_noParts w p d); exact h

@[simp] theorem dropHist_devs (w : World) (p : Nat) : (w.dropHist p).devs = w.devs := by
  have h := congrArg World.devs (dropHist_noParts w p); exact h

@[simp] theorem dev_addHist (w : World) (p d x : Nat) : (w.addHist p d).dev x = w.dev x :=
  dev_congr (addHist_devs w p d) x

@[simp] theorem dev_dropHist (w : World) (p x : Nat) : (w.dropHist p).dev x = w.dev x :=
  dev_congr (dropHist_devs w p) x

@[simp] theorem addHist_parts_length (w : World) (p d : Nat) :
    (w.addHist p d).parts.length = w.parts.length := histOp_parts_length w p _

@[simp] theorem dropHist_parts_length (w : World) (p : Nat) :
    (w.dropHist p).parts.length = w.parts.length := histOp_parts_length w p _

/-- The core of the world changes only in `parts`. -/
theorem addHist_core (w : World) (p d : Nat) :
    (w.addHist p d).core = { w.core with parts := (w.addHist p d).parts } := by
  have h := addHist_noParts w p d
  show ({ (w.addHist p d).noParts.core with parts := (w.addHist p d).parts } : World) =
    { w.noParts.core with parts := (w.addHist p d).parts }
  rw [h]

theorem dropHist_core (w : World) (p : Nat) :
    (w.dropHist p).core = { w.core with parts := (w.dropHist p).parts } := by
  have h := dropHist_noParts w p
  show ({ (w.dropHist p).noParts.core with parts := (w.dropHist p).parts } : World) =
    { w.noParts.core with parts := (w.dropHist p).parts }
  rw [h]

/-- Every observation of a part that does not depend on `hist` is unchanged. -/
theorem addHist_part_field {α} (g : PartRec → α) (hg : ∀ r h, g { r with hist := h } = g r)
    (w : World) (p d q : Nat) : g ((w.addHist p d).part q) = g (w.part q) :=
  histOp_part_field g _ (fun _ => hg _ _) w p q

theorem dropHist_part_field {α} (g : PartRec → α) (hg : ∀ r h, g { r with hist := h } = g r)
    (w : World) (p q : Nat) : g ((w.dropHist p).part q) = g (w.part q) :=
  histOp_part_field g _ (fun _ => hg _ _) w p q

/-- A part differs from the old one at most in `hist`. -/
theorem addHist_part (w : World) (p d q : Nat) :
    (w.addHist p d).part q = { w.part q with hist := ((w.addHist p d).part q).hist } := by
  have h1 := addHist_part_field PartRec.quality (fun _ _ => rfl) w p d q
  have h2 := addHist_part_field PartRec.value (fun _ _ => rfl) w p d q
  have h3 := addHist_part_field PartRec.stack (fun _ _ => rfl) w p d q
  have h4 := addHist_part_field PartRec.kids (fun _ _ => rfl) w p d q
  cases h : (w.addHist p d).part q
  rw [h] at h1 h2 h3 h4
  simp only at h1 h2 h3 h4
  simp [h1, h2, h3, h4]

theorem dropHist_part (w : World) (p q : Nat) :
    (w.dropHist p).part q = { w.part q with hist := ((w.dropHist p).part q).hist } := by
  have h1 := dropHist_part_field PartRec.quality (fun _ _ => rfl) w p q
  have h2 := dropHist_part_field PartRec.value (fun _ _ => rfl) w p q
  have h3 := dropHist_part_field PartRec.stack (fun _ _ => rfl) w p q
  have h4 := dropHist_part_field PartRec.kids (fun _ _ => rfl) w p q
  cases h : (w.dropHist p).part q
  rw [h] at h1 h2 h3 h4
  simp only at h1 h2 h3 h4
  simp [h1, h2, h3, h4]

@[simp] theorem addHist_part_kids (w : World) (p d q : Nat) :
    ((w.addHist p d).part q).kids = (w.part q).kids :=
  addHist_part_field PartRec.kids (fun _ _ => rfl) w p d q
@[simp] theorem addHist_part_quality (w : World) (p d q : Nat) :
    ((w.addHist p d).part q).quality = (w.part q).quality :=
  addHist_part_field PartRec.quality (fun _ _ => rfl) w p d q
@[simp] theorem addHist_part_value (w : World) (p d q : Nat) :
    ((w.addHist p d).part q).value = (w.part q).value :=
  addHist_part_field PartRec.value (fun _ _ => rfl) w p d q
@[simp] theorem addHist_part_stack (w : World) (p d q : Nat) :
    ((w.addHist p d).part q).stack = (w.part q).stack :=
  addHist_part_field PartRec.stack (fun _ _ => rfl) w p d q

@[simp] theorem dropHist_part_kids (w : World) (p q : Nat) :
    ((w.dropHist p).part q).kids = (w.part q).kids :=
  dropHist_part_field PartRec.kids (fun _ _ => rfl) w p q
@[simp] theorem dropHist_part_quality (w : World) (p q : Nat) :
    ((w.dropHist p).part q).quality = (w.part q).quality :=
  dropHist_part_field PartRec.quality (fun _ _ => rfl) w p q
@[simp] theorem dropHist_part_value (w : World) (p q : Nat) :
    ((w.dropHist p).part q).value = (w.part q).value :=
  dropHist_part_field PartRec.value (fun _ _ => rfl) w p q
@[simp] theorem dropHist_part_stack (w : World) (p q : Nat) :
    ((w.dropHist p).part q).stack = (w.part q).stack :=
  dropHist_part_field PartRec.stack (fun _ _ => rfl) w p q

/-- The derived observations of parts do not read `hist`. -/
@[simp] theorem addHist_isBatch (w : World) (p d q : Nat) :
    (w.addHist p d).isBatch q = w.isBatch q := by unfold isBatch; rw [addHist_part_kids]
@[simp] theorem addHist_leavesOf (w : World) (p d q : Nat) :
    (w.addHist p d).leavesOf q = w.leavesOf q := by unfold leavesOf; rw [addHist_part_kids]
@[simp] theorem addHist_leafCount (w : World) (p d q : Nat) :
    (w.addHist p d).leafCount q = w.leafCount q := by unfold leafCount; rw [addHist_part_kids]
@[simp] theorem addHist_partValue (w : World) (p d q : Nat) :
    (w.addHist p d).partValue q = w.partValue q := by
  unfold partValue; simp only [addHist_part_kids, addHist_part_value]
@[simp] theorem addHist_gatePred (w : World) (p d : Nat) (pr : Pred) (q : Nat) :
    (w.addHist p d).gatePred pr q = w.gatePred pr q := by
  unfold gatePred; simp only [addHist_part_quality, addHist_partValue]

@[simp] theorem dropHist_isBatch (w : World) (p q : Nat) :
    (w.dropHist p).isBatch q = w.isBatch q := by unfold isBatch; rw [dropHist_part_kids]
@[simp] theorem dropHist_leavesOf (w : World) (p q : Nat) :
    (w.dropHist p).leavesOf q = w.leavesOf q := by unfold leavesOf; rw [dropHist_part_kids]
@[simp] theorem dropHist_leafCount (w : World) (p q : Nat) :
    (w.dropHist p).leafCount q = w.leafCount q := by unfold leafCount; rw [dropHist_part_kids]
@[simp] theorem dropHist_partValue (w : World) (p q : Nat) :
    (w.dropHist p).partValue q = w.partValue q := by
  unfold partValue; simp only [dropHist_part_kids, dropHist_part_value]
@[simp] theorem dropHist_gatePred (w : World) (p : Nat) (pr : Pred) (q : Nat) :
    (w.dropHist p).gatePred pr q = w.gatePred pr q := by
  unfold gatePred; simp only [dropHist_part_quality, dropHist_partValue]

/-! ### `setBlock` -/

/-- Up to flow state, `setBlock` is exactly "set `blockInput` of `x`". -/
theorem setBlock_core (w : World) (x : Nat) (b : Bool) :
    (w.setBlock x b).core = (w.modDev x (fun d => { d with blockInput := b })).core := by
  unfold setBlock
  split
  · next h =>
    have hb : (w.dev x).blockInput = b := by simpa using h
    rw [modDev_of_fix]
    exact congrArg (fun v => ({ w.dev x with blockInput := v } : Dev)) hb.symm
  · dsimp only
    split
    · exact notify_core _ _
    · rfl

core_lemmas setBlock (w : World) (x : Nat) (b : Bool) : w.setBlock x b ⟹ w := setBlock_core w x b

@[simp] theorem setBlock_devs_length (w : World) (x : Nat) (b : Bool) :
    (w.setBlock x b).devs.length = w.devs.length := core_eq_modDev_length (setBlock_core w x b)

@[simp] theorem part_setBlock (w : World) (x : Nat) (b : Bool) (p : Nat) :
    (w.setBlock x b).part p = w.part p := part_congr (setBlock_parts w x b) p

theorem setBlock_dev_ne (w : World) {x y : Nat} (b : Bool) (h : y ≠ x) :
    ((w.setBlock x b).dev y).core = (w.dev y).core :=
  core_eq_modDev_dev_ne (setBlock_core w x b) h

theorem setBlock_dev_same (w : World) {x : Nat} (b : Bool) (h : x < w.devs.length) :
    ((w.setBlock x b).dev x).core = { (w.dev x).core with blockInput := b } :=
  core_eq_modDev_dev_same (setBlock_core w x b) h

theorem setBlock_dev_core (w : World) (x y : Nat) (b : Bool) :
    ((w.setBlock x b).dev y).core =
      if x = y ∧ x < w.devs.length then { (w.dev x).core with blockInput := b }
      else (w.dev y).core := by
  rw [core_eq_dev (setBlock_core w x b), dev_modDev]; split <;> rfl

/-- Every observation of a device that depends neither on the flow flags nor on `blockInput` is
unchanged. -/
theorem setBlock_dev_field {α} (g : Dev → α) (hcore : ∀ d, g d.core = g d)
    (hg : ∀ d b, g { d with blockInput := b } = g d) (w : World) (x : Nat) (b : Bool) (y : Nat) :
    g ((w.setBlock x b).dev y) = g (w.dev y) :=
  core_eq_modDev_field g hcore (setBlock_core w x b) (hg _ _) y

theorem setBlock_blockInput (w : World) {x : Nat} (b : Bool) (h : x < w.devs.length) :
    ((w.setBlock x b).dev x).blockInput = b :=
  congrArg Dev.blockInput (setBlock_dev_same w b h)

/-! ### `adjustParts` -/

/-- The new part budget of a source. -/
def adjustedMax (d : Dev) (v : Int) : Option Int :=
  d.maxParts.map (fun m => if m + v < d.produced then d.produced else m + v)

/-- Up to flow state, `adjustParts` is exactly "set `maxParts` of `x`". -/
theorem adjustParts_core (w : World) (x : Nat) (v : Int) :
    (w.adjustParts x v).core =
      (w.modDev x (fun d => { d with maxParts := adjustedMax d v })).core := by
  unfold adjustParts
  dsimp only
  split
  · next h =>
    rw [modDev_of_fix]
    have : adjustedMax (w.dev x) v = (w.dev x).maxParts := by simp [adjustedMax, h]
    exact congrArg (fun m => ({ w.dev x with maxParts := m } : Dev)) this
  · next m h =>
    have hm : adjustedMax (w.dev x) v =
        some (if m + v < (w.dev x).produced then (w.dev x).produced else m + v) := by
      simp [adjustedMax, h]
    have hd : ∀ m', adjustedMax (w.dev x) v = m' →
        (w.modDev x (fun d => { d with maxParts := adjustedMax d v })) =
          w.setDev x { w.dev x with maxParts := m' } := by
      intro m' hm'; unfold modDev; dsimp only; rw [hm']
    rw [hd _ hm]
    split
    · exact schedulePass_core _ _ _
    · rfl

core_lemmas adjustParts (w : World) (x : Nat) (v : Int) : w.adjustParts x v ⟹ w :=
  adjustParts_core w x v

@[simp] theorem adjustParts_devs_length (w : World) (x : Nat) (v : Int) :
    (w.adjustParts x v).devs.length = w.devs.length :=
  core_eq_modDev_length (adjustParts_core w x v)

@[simp] theorem part_adjustParts (w : World) (x : Nat) (v : Int) (p : Nat) :
    (w.adjustParts x v).part p = w.part p := part_congr (adjustParts_parts w x v) p

theorem adjustParts_dev_ne (w : World) {x y : Nat} (v : Int) (h : y ≠ x) :
    ((w.adjustParts x v).dev y).core = (w.dev y).core :=
  core_eq_modDev_dev_ne (adjustParts_core w x v) h

theorem adjustParts_dev_same (w : World) {x : Nat} (v : Int) (h : x < w.devs.length) :
    ((w.adjustParts x v).dev x).core =
      { (w.dev x).core with maxParts := adjustedMax (w.dev x) v } :=
  core_eq_modDev_dev_same (adjustParts_core w x v) h

theorem adjustParts_dev_core (w : World) (x y : Nat) (v : Int) :
    ((w.adjustParts x v).dev y).core =
      if x = y ∧ x < w.devs.length then { (w.dev x).core with maxParts := adjustedMax (w.dev x) v }
      else (w.dev y).core := by
  rw [core_eq_dev (adjustParts_core w x v), dev_modDev]; split <;> rfl

/-- Every observation of a device that depends neither on the flow flags nor on `maxParts` is
unchanged. -/
theorem adjustParts_dev_field {α} (g : Dev → α) (hcore : ∀ d, g d.core = g d)
    (hg : ∀ d m, g { d with maxParts := m } = g d) (w : World) (x : Nat) (v : Int) (y : Nat) :
    g ((w.adjustParts x v).dev y) = g (w.dev y) :=
  core_eq_modDev_field g hcore (adjustParts_core w x v) (hg _ _) y

theorem adjustParts_maxParts (w : World) {x : Nat} (v : Int) (h : x < w.devs.length) :
    ((w.adjustParts x v).dev x).maxParts = adjustedMax (w.dev x) v :=
  congrArg Dev.maxParts (adjustParts_dev_same w v h)

end World
end SimProc
