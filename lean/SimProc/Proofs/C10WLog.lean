/-
C10W — the logs of a check: the callback records `.cb k` written to `results`, and the registration
numbers (`Tag`) through events, operations and checks.
-/
import SimProc.Proofs.C10WInv

namespace SimProc
namespace C10W
open World FloorCoreL C01W

/-! ### callback records in the action log -/

/-- The script named by a callback record. -/
def cbOf : Res → Option Nat
  | .cb k => some k
  | _ => none

/-- The script named by a callback. -/
def scriptOf : Cb → Option Nat
  | .script k => some k
  | .proc _ => none

/-- The callback records of the action log, in order. -/
def cbLog (w : World) : List Nat := w.results.filterMap cbOf

theorem cbOf_notCb {r : Res} (h : notCb r = true) : cbOf r = none := by
  cases r <;> first | rfl | cases h

theorem filterMap_cbOf_notCb (l : List Res) (h : ∀ r ∈ l, notCb r = true) :
    l.filterMap cbOf = [] :=
  List.filterMap_eq_nil_iff.2 (fun r hr => cbOf_notCb (h r hr))

/-- Nothing but a check writes callback records. -/
theorem U0.cbLog {w w' : World} (u : U0 w w') : cbLog w' = cbLog w := by
  obtain ⟨l, hl, hn⟩ := u.res
  unfold C10W.cbLog
  rw [hl, List.filterMap_append, filterMap_cbOf_notCb l hn, List.append_nil]

theorem U.cbLog {w w' : World} (u : U w w') : cbLog w' = cbLog w := u.toU0.cbLog

/-- One callback writes its record (a script) or none (a processor). -/
theorem call_cbLog (w : World) (cb : Cb) (req : Req) :
    cbLog (scanOps.call w cb req) = cbLog w ++ (scriptOf cb).toList := by
  cases cb with
  | script k =>
    have := (U_runScript (w.addRes (.cb k)) k).cbLog
    show cbLog ((w.addRes (.cb k)).runScript k) = _
    rw [this]
    unfold cbLog World.addRes
    simp [List.filterMap_append, cbOf, scriptOf]
  | proc d =>
    have := (U_procResourceCb w d).cbLog
    show cbLog (w.procResourceCb d) = _
    rw [this]
    simp [scriptOf]

/-- **The callback records written by a check** are exactly the script callbacks of its call log,
in order. -/
theorem scan_cbLog (f : Nat) (w : World) (i : Nat) :
    cbLog (scanWaiting scanOps f w i) =
      cbLog w ++ (C10.scanLog scanOps f w i).2.filterMap (fun c => scriptOf c.2.1) := by
  induction f generalizing w i with
  | zero => simp [scanWaiting, C10.scanLog]
  | succ f ih =>
    cases hw : (scanOps.rm w).waiting[i]? with
    | none => simp [scanWaiting, C10.scanLog, hw]
    | some e =>
      obtain ⟨req, cb⟩ := e
      by_cases hc : (scanOps.rm w).canFulfill req = true
      · simp only [scanWaiting, C10.scanLog, hw, hc, if_true]
        rw [ih]
        have : cbLog (scanOps.erase (scanOps.call w cb req) i) = cbLog (scanOps.call w cb req) := rfl
        rw [this, call_cbLog, List.filterMap_cons]
        cases cb with
        | script k => simp [scriptOf]
        | proc d => simp [scriptOf]
      · simp only [scanWaiting, C10.scanLog, hw, hc]
        exact ih _ _

/-! ### registration numbers -/

/-- A step that is not a check: the new registrations get the next numbers. -/
theorem TagOK.of_U0 {w w' : World} {g : Tag} (h : TagOK g w.rm.waiting) (u : U0 w w') :
    TagOK (g.sync w'.rm.waiting) w'.rm.waiting := by
  obtain ⟨l, hl⟩ := u.wapp
  rw [hl]; exact h.sync l

theorem TagOK.of_U {w w' : World} {g : Tag} (h : TagOK g w.rm.waiting) (u : U w w') :
    TagOK (g.sync w'.rm.waiting) w'.rm.waiting := h.of_U0 u.toU0

theorem Tag.sync_self {g : Tag} {wl : List (Req × Cb)} (h : TagOK g wl) : g.sync wl = g := by
  have hlen : g.tw.length = wl.length := by
    have := congrArg List.length h.proj; simpa using this
  unfold Tag.sync Tag.extend
  rw [hlen, List.drop_length]
  simp

/-- The payloads of the registrations served by a check are the entries of its call log. -/
theorem served_scan {σ : Type} (o : ScanOps σ) (hl : C10.Laws o) (f : Nat) (s : σ) (i : Nat)
    (g : Tag) (h : TagOK g (o.rm s).waiting) :
    (scanTag o f s i g).served.map (·.2) =
      g.served.map (·.2) ++ (C10.scanLog o f s i).2.map (fun c => (c.1, c.2.1)) := by
  induction f generalizing s i g with
  | zero => simp [scanTag, C10.scanLog]
  | succ f ih =>
    cases hw : (o.rm s).waiting[i]? with
    | none => simp [scanTag, C10.scanLog, hw]
    | some e =>
      obtain ⟨req, cb⟩ := e
      by_cases hc : (o.rm s).canFulfill req = true
      · simp only [scanTag, C10.scanLog, hw, hc, if_true]
        obtain ⟨l, hl1⟩ := hl.call_appends s cb req
        have h1 : TagOK (g.sync (o.rm (o.call s cb req)).waiting) (o.rm (o.call s cb req)).waiting := by
          rw [hl1]; exact h.sync l
        have h2 : TagOK ((g.sync (o.rm (o.call s cb req)).waiting).serve i)
            (o.rm (o.erase (o.call s cb req) i)).waiting := by
          rw [hl.erase_spec]; exact h1.serve i
        rw [ih _ _ _ h2]
        -- the entry served
        obtain ⟨hi, hget⟩ := List.getElem?_eq_some_iff.mp hw
        have hget' : (o.rm (o.call s cb req)).waiting[i]? = some (req, cb) := by
          rw [hl1, List.getElem?_append_left hi]; exact hw
        have hp : ((g.sync (o.rm (o.call s cb req)).waiting).tw[i]?).map (·.2) = some (req, cb) := by
          rw [← List.getElem?_map, h1.proj]; exact hget'
        have hs : ((g.sync (o.rm (o.call s cb req)).waiting).serve i).served.map (·.2) =
            g.served.map (·.2) ++ [(req, cb)] := by
          have hsv : (g.sync (o.rm (o.call s cb req)).waiting).served = g.served := rfl
          simp only [Tag.serve, List.map_append, hsv]
          cases ht : (g.sync (o.rm (o.call s cb req)).waiting).tw[i]? with
          | none => rw [ht] at hp; cases hp
          | some x =>
            rw [ht] at hp
            simp only [Option.map_some, Option.some.injEq] at hp
            simp [hp]
        rw [hs]
        simp
      · simp only [scanTag, C10.scanLog, hw, hc]
        exact ih _ _ _ h

end C10W
end SimProc
