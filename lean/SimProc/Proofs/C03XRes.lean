/-
C03W, stages A, B and C — the closed-world invariant `GoodB`: the generalised wake-up invariant
`G [] [] []` of `Proofs/C03W*.lean`, together with
* the resource invariant `C11W.Inv` (`Props/C11W.lean`) if some device declares a requirement, and
* the batcher / conservation invariant `C17W.CI` (`Props/C17W.lean`, which contains `C02V.InvW`) if
  batchers, batch-generating sources or group devices exist;
its preservation by every step, and the bridge from "registered processors count as refusing"
(`wouldAcceptR`) to the real answer (`wouldAccept`).
-/
import SimProc.Proofs.C03XSw
import SimProc.Proofs.C03YSwrW
import SimProc.Props.C11W
import SimProc.Props.C17W

namespace SimProc
namespace C03W
open World FloorCoreL C03

/-- scripts schedule failures of devices that are not sinks only (the condition of C02's closed-world
theorem; `applyOp` rejects `schedFail` on anything but a processor anyway) -/
def OpB (w : World) : Op → Prop
  | .schedFail d _ => (w.dev d).kind ≠ .sink
  | .schedFailRel d _ => (w.dev d).kind ≠ .sink
  | _ => True

instance (w : World) (op : Op) : Decidable (OpB w op) := by
  cases op <;> (simp only [OpB]; infer_instance)

def ScrB (w : World) : Prop := ∀ l ∈ w.scripts, ∀ op ∈ l, OpB w op

instance (w : World) : Decidable (ScrB w) := by unfold ScrB; infer_instance

/-- **The scope of stage C**: the scope `SC` of the machinery (sources — also of batches —,
handlers, processors with or without resource requirements, buffers, gates, batchers, sinks, and ONE
group — any number of group paths sharing one group input and one group output …); if some device
declares a requirement, the class `C11W.S` of the resource theorems; if batchers, batch-generating
sources or group devices exist, the conditions of the batcher / conservation theorems (`C17W`):
scripts schedule failures of non-sinks only, every configured batch size is positive. -/
def S4 (w : World) : Prop :=
  (SC w ∧ NR w) ∧ (hasRes w = true → C11W.S w) ∧ (¬ NoBatch w → ScrB w ∧ C17W.SizesPos w) ∧
    OneGrp w

/-- **The scope of stages D, E, F (several groups)**: as `S4`, but instead of "there is one group
only" (`OneGrp`) it suffices that the world is typed by group contexts (`C03Z.Typed cl w`, for a
certificate `cl` — for instance the computed `C03Z.ctxInfer w`): groups used one after the other,
the same group entered several times through different group paths, groups nested in groups. -/
def S5 (cl : List (List Nat)) (w : World) : Prop :=
  (SC w ∧ NR w) ∧ (hasRes w = true → C11W.S w) ∧ (¬ NoBatch w → ScrB w ∧ C17W.SizesPos w) ∧
    (OneGrp w ∨ C03Z.Typed cl w)

instance (cl : List (List Nat)) (w : World) : Decidable (S5 cl w) := by unfold S5; infer_instance

instance (w : World) : Decidable (S4 w) := by unfold S4; infer_instance

/-- no group device (decidable form) -/
def NoGroups (w : World) : Prop :=
  ∀ d ∈ w.devs, d.kind ≠ .gpath ∧ d.kind ≠ .ginput ∧ d.kind ≠ .goutput

instance (w : World) : Decidable (NoGroups w) := by unfold NoGroups; infer_instance

theorem NoGroups.noGrp {w : World} (h : NoGroups w) : NoGrp w := noGrp_of_devs h

theorem noGroups_of_noBatch {w : World} (h : NoBatch w) : NoGroups w := fun d hd => (h d hd).2.2

theorem noGroups_of_sw {w w' : World} (e : sw w' = sw w) (h : NoGroups w) : NoGroups w' := by
  intro d hd
  have h1 : stat1 d ∈ (sw w').devs := by simp only [sw, List.mem_map]; exact ⟨d, hd, rfl⟩
  rw [e] at h1
  simp only [sw, List.mem_map] at h1
  obtain ⟨d0, hd0, hs⟩ := h1
  have hk : d0.kind = d.kind := by
    have := congrArg Dev.kind hs
    simpa only [stat1] using this
  rw [← hk]; exact h d0 hd0

/-- **The scope of stage B**: stage C without group devices. -/
def S3 (w : World) : Prop := S4 w ∧ NoGroups w

instance (w : World) : Decidable (S3 w) := by unfold S3; infer_instance

/-- **The scope of stage A**: stage B without batchers and batch-generating sources. -/
def S2 (w : World) : Prop := S3 w ∧ NoBatch w

instance (w : World) : Decidable (S2 w) := by unfold S2; infer_instance

theorem S1.s2 {w : World} (h : S1 w) : S2 w :=
  ⟨⟨⟨⟨h.sc, h.nr⟩, (fun hr => by rw [h.noRes] at hr; cases hr), (fun hn => absurd h.noBatch hn),
    oneGrp_noGrp (noGroups_of_noBatch h.noBatch).noGrp⟩,
    noGroups_of_noBatch h.noBatch⟩, h.noBatch⟩

theorem S2.s3 {w : World} (h : S2 w) : S3 w := h.1

theorem S3.s4 {w : World} (h : S3 w) : S4 w := h.1

theorem S4.s5 {w : World} (h : S4 w) (cl : List (List Nat)) : S5 cl w :=
  ⟨h.1, h.2.1, h.2.2.1, Or.inl h.2.2.2⟩

/-! ### the static conditions of C02 / C17W follow from the scope -/

theorem scriptsStatic_of {w : World} (hs : SC w) (hr : NR w) (hb : ScrB w) :
    C02V.ScriptsStatic w := by
  intro l hl op hop
  have h1 := hs.scriptOp hl hop
  have h2 := hb l hl op hop
  have h3 := (hr l hl op hop).1
  cases op <;> first
    | exact absurd h1 id
    | exact absurd rfl (h3 _ _)
    | exact h2
    | trivial

theorem static_of {w : World} (hs : SC w) (hr : NR w) (hb : ScrB w) (he : EvOK w) :
    C02V.Static w := by
  refine ⟨scriptsStatic_of hs hr hb, fun x => hs.giveOK x, ?_⟩
  rintro ⟨n, hn, d, hd, hk⟩
  have := he n hn d hd
  rw [this] at hk; cases hk

/-- Everything the closed-world induction carries (stages A, B and C). -/
structure GoodB (w : World) : Prop where
  g : G [] [] [] w
  r : hasRes w = true → C11W.Inv w
  c : ¬ NoBatch w → C17W.CI w
  /-- no script re-wires, or every device has been initialised -/
  i : IOK w
  /-- there is one group, or the world is typed by group contexts and the stacks of the held parts
  are typed -/
  k : C03Z.GC w

theorem oneGrp_of_noBatch {w : World} (h : NoBatch w) : OneGrp w :=
  oneGrp_noGrp (noGroups_of_noBatch h).noGrp

theorem GoodB.invB {w : World} (h : GoodB w) : InvB w := fun hnb => (h.c hnb).inv

theorem GoodB.settled {w : World} (h : GoodB w) : Settled w := by
  intro x hk ho
  have hnb : ¬ NoBatch w := fun hn => (noBatch_dev hn x).1 hk
  rcases ((h.c hnb).bat x hk).settled with h1 | h1
  · rw [ho] at h1; cases h1
  · exact h1

theorem scrB_of_sw {w w' : World} (e : sw w' = sw w) (h : ScrB w) : ScrB w' := by
  have hs : w'.scripts = w.scripts := by
    have := congrArg World.scripts e; exact this
  intro l hl op hop
  rw [hs] at hl
  have := h l hl op hop
  cases op <;> simp only [OpB] at this ⊢ <;> first | trivial | (rw [sw_kind e]; exact this)

theorem sizesPos_of_sw {w w' : World} (e : sw w' = sw w) (h : C17W.SizesPos w) :
    C17W.SizesPos w' := by
  intro d hd n hn
  have h1 : stat1 d ∈ (sw w').devs := by simp only [sw, List.mem_map]; exact ⟨d, hd, rfl⟩
  rw [e] at h1
  simp only [sw, List.mem_map] at h1
  obtain ⟨d0, hd0, hs⟩ := h1
  refine h d0 hd0 n ?_
  have := congrArg Dev.bsize hs
  simp only [stat1] at this
  rw [this]; exact hn

theorem S4.of_sw {w w' : World} (h : S4 w) (hsc : SC w') (r : SW w w') (r' : C02V.SS w w') : S4 w' :=
  ⟨⟨hsc, h.1.2.of_sw r⟩, fun hr => (h.2.1 (by rw [← hasRes_of_ss r']; exact hr)).of_ss r',
    (fun hn => by
      have := h.2.2.1 (fun hb => hn ((noBatch_of_sw r.sw_eq).mpr hb))
      exact ⟨scrB_of_sw r.sw_eq this.1, sizesPos_of_sw r.sw_eq this.2⟩), h.2.2.2.of_sw r.sw_eq⟩

theorem S5.of_sw {cl : List (List Nat)} {w w' : World} (h : S5 cl w) (hsc : SC w') (r : SW w w')
    (r' : C02V.SS w w') : S5 cl w' :=
  ⟨⟨hsc, h.1.2.of_sw r⟩, fun hr => (h.2.1 (by rw [← hasRes_of_ss r']; exact hr)).of_ss r',
    (fun hn => by
      have := h.2.2.1 (fun hb => hn ((noBatch_of_sw r.sw_eq).mpr hb))
      exact ⟨scrB_of_sw r.sw_eq this.1, sizesPos_of_sw r.sw_eq this.2⟩),
    h.2.2.2.imp (fun h1 => h1.of_sw r.sw_eq) (fun h1 => h1.of_sw r.sw_eq)⟩

theorem S3.of_sw {w w' : World} (h : S3 w) (hsc : SC w') (r : SW w w') (r' : C02V.SS w w') : S3 w' :=
  ⟨h.1.of_sw hsc r r', noGroups_of_sw r.sw_eq h.2⟩

theorem hasRes_of_swr' {w w' : World} (r : SWR w w') : hasRes w' = hasRes w := hasRes_of_swr r.1

theorem noBatch_of_swr' {w w' : World} (r : SWR w w') : NoBatch w' ↔ NoBatch w := noBatch_of_swr r.1

theorem stat0_of_swr {w w' : World} (h : C02V.swr w' = C02V.swr w) (y : Nat) :
    stat0 (w'.dev y) = stat0 (w.dev y) := by
  have h1 : w'.devs.map stat0 = w.devs.map stat0 := congrArg Prod.fst h
  have e : ∀ v : World, stat0 (v.dev y) = (v.devs.map stat0).getD y (stat0 default) :=
    fun v => (getD_map stat0 v.devs y default).symm
  rw [e, e, h1]

theorem oneGrp_of_swr {w w' : World} (h : OneGrp w) (r : C02V.swr w' = C02V.swr w) : OneGrp w' := by
  have hl : w'.devs.length = w.devs.length := by
    have := congrArg (fun t => t.1.length) r
    simpa [C02V.swr] using this
  exact h.congr hl (fun y => stat0_kind (stat0_of_swr r y)) (fun y => stat0_group (stat0_of_swr r y))
    (congrArg (fun t => t.2.2) r)

/-- a world without one single group has group devices, hence carries the conservation invariant -/
theorem GoodB.ci_of {w : World} (h : GoodB w) (h1 : ¬ OneGrp w) : C17W.CI w :=
  h.c (fun hb => h1 (oneGrp_of_noBatch hb))

theorem GoodB.step {w w' : World} {e : Event} (h : GoodB w) (hst : w.step = some (e, w')) :
    GoodB w' := by
  have r := swrw_step w w' e h.g.sc.nc hst
  exact ⟨h.g.stepG h.invB h.settled h.i h.k hst,
    fun hr => C11W.inv_step w w' e (h.r (by rw [← hasRes_of_swr' r]; exact hr)) hst,
    fun hn => C17W.ci_step w w' e (h.c (fun hb => hn ((noBatch_of_swr' r).mpr hb))) hst,
    h.i.step (istep_step hst),
    C03Z.gc_step h.k (fun h1 => oneGrp_of_swr h1 r.1) (fun h1 => ⟨(h.ci_of h1).inv, (h.ci_of h1).stat⟩)
      (fun hn => (sw_step w w' e hn hst).sw_eq) hst⟩

theorem GoodB.runLoop (n : Nat) : ∀ {w : World}, GoodB w → GoodB (runLoop n w) := by
  induction n with
  | zero =>
    intro w h
    have r := swrw_runLoop 0 w h.g.sc.nc
    refine ⟨h.g.setErr _, fun hr => C11W.inv_runLoop 0 w (h.r ?_), fun hn => C17W.ci_runLoop 0 w (h.c ?_),
      h.i.step (istep_runLoop 0 w), h.k.frame ?_ (C02V.sv_setErr ..) (setErr_parts ..)⟩
    · rw [← hasRes_of_swr' r]; exact hr
    · exact fun hb => hn ((noBatch_of_swr' r).mpr hb)
    · exact C03Z.sw_of_swv (C02V.swv_setErr w _) (C02V.scr_setErr ..)
  | succ n ih =>
    intro w h
    unfold World.runLoop
    split
    · split
      · exact h
      · next e w' hst => exact ih (h.step hst)
    · exact h

theorem GoodB.runBegin {w : World} (h : GoodB w) (d : Int) : GoodB (w.runBegin d).1 :=
  ⟨h.g.runBeginG d,
    fun hr => C11W.inv_runBegin w d (h.r (by rw [← hasRes_of_ss (ss_runBegin w d)]; exact hr)),
    fun hn => C17W.ci_runBegin w d
      (h.c (fun hb => hn ((noBatch_of_sw (sw_runBegin w d).sw_eq).mpr hb))),
    h.i.step (istep_runBegin w d), C03Z.gc_runBegin h.k d (sw_runBegin w d).sw_eq⟩

/-! ### registered processors really cannot get their resources, or a check is pending -/

theorem canFulfill_of_filter (rm : RM) (req : Req) (hnn : ∀ e ∈ req, 0 ≤ e.2)
    (h : rm.canFulfill (req.filter (fun e => e.2 > 0)) = true) : rm.canFulfill req = true := by
  rw [RM.canFulfill_iff] at h ⊢
  intro e he
  by_cases h0 : e.2 = 0
  · exact Or.inl h0
  · have := hnn e he
    exact h e (List.mem_filter.mpr ⟨he, by simp; omega⟩)

/-- **(W3)** A processor that the invariant counts as refusing for want of resources (it is
registered with the resource manager) cannot get them now — or a live availability check is queued
for the current instant.  (What is needed of the resource invariant is `C11W.Pend` only.) -/
theorem registered_of {w : World} (hg : G [] [] [] w) (hp : hasRes w = true → C11W.Pend w) (y : Nat)
    (hk : (w.dev y).kind = .processor) (hm : procM (w.dev y) = false) :
    procReal w y = false ∨ C11W.QueuedL w .rmCheck w.now pOtherHigh (-1) := by
  unfold procM at hm
  rw [hk] at hm
  cases hq : (w.dev y).resReq with
  | none => rw [hq] at hm; cases hm
  | some req =>
    rw [hq] at hm
    simp only [Bool.or_eq_false_iff, Bool.not_eq_false'] at hm
    have hylt : y < w.devs.length := valid_of_resReq hq
    have hres : hasRes w = true := by
      unfold hasRes
      rw [List.any_eq_true]
      exact ⟨w.dev y, dev_mem hylt, by rw [hq]; rfl⟩
    have hreg : Reg w := by
      rcases hg.wr with hn | hr
      · rw [hres] at hn; cases hn
      · exact hr
    obtain ⟨req', hq', hmem⟩ := hreg.2 y hm.2
    rw [hq] at hq'
    cases hq'
    cases hc : w.rm.canFulfill req with
    | true => exact Or.inr (hp hres ⟨(req, Cb.proc y), hmem, hc⟩)
    | false =>
      left
      unfold procReal
      rw [hq]
      simp only [hm.1, Bool.false_or]
      cases hf : w.rm.canFulfill (req.filter (fun e => e.2 > 0)) with
      | false => simp
      | true =>
        rw [canFulfill_of_filter w.rm req (hg.sc.reqNN y hq) hf] at hc; cases hc

theorem GoodB.registered {w : World} (h : GoodB w) (y : Nat) (hk : (w.dev y).kind = .processor)
    (hm : procM (w.dev y) = false) :
    procReal w y = false ∨ C11W.QueuedL w .rmCheck w.now pOtherHigh (-1) :=
  registered_of h.g (fun hr => (h.r hr).pend) y hk hm

/-- no live event is due at the current instant ⇒ no availability check is pending -/
theorem no_check_of_advance {w : World} (hadv : ∀ e ∈ w.env.events, w.now < e.time) :
    ¬ C11W.QueuedL w .rmCheck w.now pOtherHigh (-1) := by
  rintro ⟨e, he, _, ht, _⟩
  have := hadv e he
  omega

/-- There is one group only: every group output an offer can reach owns the innermost group path
of the part.  (Several groups: `C03Z.consS_of_ts`, from the typing of the stack.) -/
theorem consS_of {w : World} (_ : SC w) (h1 : OneGrp w) : ∀ f x stk,
    ((∀ x, (w.dev x).kind ≠ .goutput) ∨ ∀ g ∈ stk, (w.dev g).kind = .gpath) →
    consS f w x stk = true := C03Z.consS_of_one h1

/-- If no availability check is pending, whoever refuses a HELD part in the invariant's sense
really refuses it (`hgc`: there is one group, or the stacks of the held parts are typed). -/
theorem real_of_R_of {w : World} (hg : G [] [] [] w) (hp : hasRes w = true → C11W.Pend w)
    (hgc : C03Z.GC w)
    (hno : ¬ C11W.QueuedL w .rmCheck w.now pOtherHigh (-1)) (f : Nat) {d x p : Nat}
    (hd : holdsD (w.dev d) = some p) (hx : x ∈ (w.dev d).down)
    (hr : wouldAcceptR f w x p = false) : wouldAccept f w x p = false :=
  wouldAcceptT_of_S (fun y hk hm => (registered_of hg hp y hk hm).resolve_right hno) f x _
    (hgc.cs hg.stk (holdsD_lt hd) (holdsD_hl hd).2 (holdsD_mem_heldL hd) hx f) hr

theorem GoodB.real_of_R {w : World} (h : GoodB w)
    (hno : ¬ C11W.QueuedL w .rmCheck w.now pOtherHigh (-1)) (f : Nat) {d x p : Nat}
    (hd : holdsD (w.dev d) = some p) (hx : x ∈ (w.dev d).down)
    (hr : wouldAcceptR f w x p = false) : wouldAccept f w x p = false :=
  real_of_R_of h.g (fun hr => (h.r hr).pend) h.k hno f hd hx hr

/-! ### initialisation -/

/-- nobody is flagged as waiting for resources -/
def NoFlag (w : World) : Prop := ∀ d ∈ w.devs, d.waitingRes = false

instance (w : World) : Decidable (NoFlag w) := by unfold NoFlag; infer_instance

theorem wr_fresh {w : World} (hfl : NoFlag w) (hw : hasRes w = true → w.rm.waiting = []) : WR w := by
  cases hr : hasRes w with
  | false => exact Or.inl hr
  | true =>
    right
    refine ⟨fun e he => (by rw [hw hr] at he; cases he), fun x hx => ?_⟩
    rcases dev_mem_or_default w x with hm | hd
    · rw [hfl _ hm] at hx; cases hx
    · rw [hd] at hx; cases hx

end C03W
end SimProc
