/-
C05W / C17W machinery, part 3: `give` at the level of worlds.  A refused hand-over changes neither
the slot view, nor the static view, nor the auxiliary view; a successful one is — up to such a
change — exactly one `acceptPart` by a reachable handler-like device with empty slots.
-/
import SimProc.Proofs.C05WAccept
namespace SimProc
namespace C05W
open World C02V

/-- Slot view, static view and auxiliary view are the same. -/
structure Fr3 (w w' : World) : Prop where
  sv : sv w' = sv w
  st : st w' = st w
  bv : bv w' = bv w

theorem Fr3.refl (w : World) : Fr3 w w := ⟨rfl, rfl, rfl⟩
theorem Fr3.trans {a b c : World} (h1 : Fr3 a b) (h2 : Fr3 b c) : Fr3 a c :=
  ⟨h2.sv.trans h1.sv, h2.st.trans h1.st, h2.bv.trans h1.bv⟩

theorem fr3_setErr (w : World) (m : String) : Fr3 w (w.setErr m) := ⟨sv_setErr .., st_setErr .., bv_setErr ..⟩
theorem fr3_addHist (w : World) (p d : Nat) : Fr3 w (w.addHist p d) := ⟨sv_addHist .., st_addHist .., bv_addHist ..⟩
theorem fr3_dropHist (w : World) (p : Nat) : Fr3 w (w.dropHist p) := ⟨sv_dropHist .., st_dropHist .., bv_dropHist ..⟩
theorem fr3_procAcquire (w : World) (x : Nat) : Fr3 w (w.procAcquire x).1 :=
  ⟨sv_procAcquire .., st_procAcquire .., bv_procAcquire ..⟩
theorem fr3_modStack (w : World) (p : Nat) (g : List Nat → List Nat) :
    Fr3 w (w.modPart p (fun r => { r with stack := g r.stack })) :=
  ⟨sv_modPart_same _ _ _ (fun _ => rfl), rfl, rfl⟩

/-- `w1` is the result of a successful hand-over of `p`, entered at `y`. -/
def Acc (w : World) (y p : Nat) (w1 : World) : Prop :=
  ∃ z w0, Fr3 w w0 ∧ Reach (st w) y z ∧ isHandlerLike (w0.dev z).kind = true ∧
    (w0.dev z).part = none ∧ (w0.dev z).output = none ∧
    ((w0.dev z).kind = .buffer → w0.canAcceptBasic z p = true) ∧ w1 = w0.acceptPart z p

def GD (w : World) (r : World × Bool) (y p : Nat) : Prop :=
  (r.2 = false → Fr3 w r.1) ∧ (r.2 = true → Acc w y p r.1)

theorem GD.fail {w w' : World} {y p : Nat} (h : Fr3 w w') : GD w (w', false) y p :=
  ⟨fun _ => h, fun h => by cases h⟩
theorem GD.ok {w w' : World} {y p : Nat} (h : Acc w y p w') : GD w (w', true) y p :=
  ⟨fun h' => (by cases h'), fun _ => h⟩

theorem Acc.pre {w w1 w' : World} {y p : Nat} (h1 : Fr3 w w1) (h : Acc w1 y p w') : Acc w y p w' := by
  obtain ⟨z, w0, hf, hr, rest⟩ := h
  exact ⟨z, w0, h1.trans hf, by rw [← h1.st]; exact hr, rest⟩

theorem acc_self (w w1 : World) (x p : Nat) (hk : isHandlerLike (w.dev x).kind = true)
    (hc : w.canAcceptBasic x p = true) (h1 : Fr3 w w1) (hb : (w.dev x).kind = .buffer → w1 = w) :
    Acc w x p (w1.acceptPart x p) := by
  have hs := canAccept_slots hk hc
  have hkk : (w1.dev x).kind = (w.dev x).kind := kind_of_st h1.st x
  refine ⟨x, w1, h1, Reach.self x (by rw [st_kind]; exact hk), by rw [hkk]; exact hk,
    by rw [part_of_sv h1.sv]; exact hs.1, by rw [output_of_sv h1.sv]; exact hs.2, ?_, rfl⟩
  intro hkb
  rw [hb (hkk ▸ hkb)]; exact hc

theorem tryList_gd (g : World → Nat → Nat → World × Bool)
    (hg : ∀ w y p, GD w (g w y p) y p) (l : List Nat) :
    ∀ (w : World) (p : Nat),
      ((tryList g w l p).2 = false → Fr3 w (tryList g w l p).1) ∧
      ((tryList g w l p).2 = true → ∃ y ∈ l, Acc w y p (tryList g w l p).1) := by
  induction l with
  | nil => intro w p; exact ⟨fun _ => Fr3.refl w, fun h => by cases h⟩
  | cons y ys ih =>
    intro w p
    unfold tryList
    have h1 := hg w y p
    cases hgy : g w y p with
    | mk w' b =>
      rw [hgy] at h1
      cases b with
      | true =>
        simp only []
        exact ⟨fun h => (by cases h), fun _ => ⟨y, List.mem_cons_self .., h1.2 rfl⟩⟩
      | false =>
        simp only []
        have hs : Fr3 w w' := h1.1 rfl
        have := ih w' p
        exact ⟨fun h => hs.trans (this.1 h), fun h => by
          obtain ⟨z, hz, ha⟩ := this.2 h
          exact ⟨z, List.mem_cons_of_mem _ hz, ha.pre hs⟩⟩

theorem give_gd (f : Nat) : ∀ (w : World) (y p : Nat), GD w (give f w y p) y p := by
  induction f with
  | zero => intro w y p; exact GD.fail (fr3_setErr ..)
  | succ f ih =>
    intro w y p
    have hl := tryList_gd (give f) ih
    unfold give
    simp only []
    split
    iterate 5
      rename_i hk
      split
      · rename_i hc
        exact GD.ok (acc_self w w y p (by rw [hk]; rfl) hc (Fr3.refl w) (fun _ => rfl))
      · exact GD.fail (Fr3.refl w)
    · -- processor
      rename_i hk
      split
      · rename_i hc
        split
        · rename_i w1 h
          have hs : Fr3 w w1 := by have := fr3_procAcquire w y; rw [h] at this; exact this
          exact GD.ok (acc_self w w1 y p (by rw [hk]; rfl) hc hs (fun hb => by rw [hk] at hb; cases hb))
        · rename_i w1 h
          have hs : Fr3 w w1 := by have := fr3_procAcquire w y; rw [h] at this; exact this
          exact GD.fail hs
      · exact GD.fail (Fr3.refl w)
    · -- gate
      rename_i hk
      split
      · exact GD.fail (Fr3.refl w)
      · split
        · exact GD.fail (Fr3.refl w)
        · have hs1 : Fr3 w (w.addHist p y) := fr3_addHist ..
          have := hl ((w.addHist p y).sortedDown y) (w.addHist p y) p
          split
          · rename_i w2 h; rw [h] at this
            refine GD.ok (Acc.pre hs1 ?_)
            obtain ⟨z, hz, u, w0, hf, hr, rest⟩ := this.2 rfl
            refine ⟨u, w0, hf, Reach.gate y z u (Or.inl ?_) ?_ hr, rest⟩
            · rw [st_kind, kind_of_st hs1.st]; exact hk
            · rw [st_down]; exact (C02V.mem_sortedDown ..).1 hz
          · rename_i w2 h; rw [h] at this
            exact GD.fail ((hs1.trans (this.1 rfl)).trans (fr3_dropHist ..))
    · -- ginput
      rename_i hk
      split
      · exact GD.fail (Fr3.refl w)
      · have := hl (w.sortedDown y) w p
        refine ⟨this.1, fun h => ?_⟩
        obtain ⟨z, hz, u, w0, hf, hr, rest⟩ := this.2 h
        refine ⟨u, w0, hf, Reach.gate y z u (Or.inr ?_) ?_ hr, rest⟩
        · rw [st_kind]; exact hk
        · rw [st_down]; exact (C02V.mem_sortedDown ..).1 hz
    · -- gpath
      rename_i hk
      split
      · exact GD.fail (Fr3.refl w)
      · have hs1 : Fr3 w ((w.modPart p (fun r => { r with stack := r.stack ++ [y] })).addHist p y) :=
          (fr3_modStack w p (fun s => s ++ [y])).trans (fr3_addHist ..)
        have := ih ((w.modPart p (fun r => { r with stack := r.stack ++ [y] })).addHist p y)
          ((((w.modPart p (fun r => { r with stack := r.stack ++ [y] })).addHist p y).groups.getD
            (w.dev y).group default).input) p
        split
        · rename_i w2 h
          rw [h] at this
          refine GD.ok (Acc.pre hs1 ?_)
          obtain ⟨u, w0, hf, hr, rest⟩ := this.2 rfl
          refine ⟨u, w0, hf, Reach.gpath y u ?_ ?_, rest⟩
          · rw [st_kind, kind_of_st hs1.st]; exact hk
          · rw [st_gin, st_group]
            have : ((((w.modPart p (fun r => { r with stack := r.stack ++ [y] })).addHist p y).dev y).group) =
                (w.dev y).group := by
              have := congrArg (fun t => t.group y) hs1.st
              simp only [st_group] at this
              exact this
            rw [this]; exact hr
        · rename_i w2 h
          rw [h] at this
          refine GD.fail ?_
          exact ((hs1.trans (this.1 rfl)).trans (fr3_modStack _ p (fun s => s.dropLast))).trans (fr3_dropHist ..)
    · -- goutput
      rename_i hk
      split
      · exact GD.fail (fr3_setErr ..)
      · rename_i g hg
        have hs1 : Fr3 w (w.modPart p (fun r => { r with stack := r.stack.dropLast })) :=
          fr3_modStack w p (fun s => s.dropLast)
        have := hl ((w.modPart p (fun r => { r with stack := r.stack.dropLast })).sortedDown g)
          (w.modPart p (fun r => { r with stack := r.stack.dropLast })) p
        split
        · rename_i w2 h; rw [h] at this
          refine GD.ok (Acc.pre hs1 ?_)
          obtain ⟨z, hz, u, w0, hf, hr, rest⟩ := this.2 rfl
          refine ⟨u, w0, hf, Reach.goutput y g z u ?_ ?_ hr, rest⟩
          · rw [hs1.st, st_kind]; exact hk
          · rw [st_down]; exact (C02V.mem_sortedDown ..).1 hz
        · rename_i w2 h; rw [h] at this
          exact GD.fail ((hs1.trans (this.1 rfl)).trans (fr3_modStack _ p (fun s => s ++ [g])))

/-- The hand-over loop of `passHandler` / `bufferLoop`. -/
theorem tryGive_gd (w : World) (l : List Nat) (p : Nat) :
    ((tryList givePart w l p).2 = false → Fr3 w (tryList givePart w l p).1) ∧
    ((tryList givePart w l p).2 = true → ∃ y ∈ l, Acc w y p (tryList givePart w l p).1) :=
  tryList_gd givePart (fun w y p => give_gd w.fuel w y p) l w p

end C05W
end SimProc
