/-
C03W — the acceptance predicate: `give` answers `wouldAccept`; monotonicity; localisation of a
change of acceptance (gate chains); gate chains and the notification dispatch.
-/
import SimProc.Proofs.C03WDefs
import SimProc.Proofs.C05Lemmas

namespace SimProc
namespace C03W
open World FloorCoreL C03

/-! ### monotonicity / congruence of `wouldAcceptN` -/

theorem wouldAcceptN_mono {w w' : World} {N N' : List Nat} {p : Nat}
    (hk : ∀ z, (w'.dev z).kind = (w.dev z).kind ∧ (w'.dev z).pred = (w.dev z).pred ∧
      (w'.dev z).down = (w.dev z).down)
    (hg : ∀ pr, w'.gatePred pr p = w.gatePred pr p)
    (hc : ∀ z, z ∉ N' → w'.canAcceptBasic z p = true → z ∉ N ∧ w.canAcceptBasic z p = true) :
    ∀ f y, wouldAcceptN f w' N' y p = true → wouldAcceptN f w N y p = true := by
  intro f
  induction f with
  | zero => intro y h; cases h
  | succ f ih =>
    intro y h
    unfold wouldAcceptN at h ⊢
    by_cases hy : y ∈ N'
    · simp [hy] at h
    · have hy' : N'.contains y = false := by simpa using hy
      rw [hy'] at h
      simp only [Bool.false_eq_true, if_false] at h
      rw [(hk y).1, (hk y).2.1, (hk y).2.2, hg] at h
      cases hkind : (w.dev y).kind <;> simp only [hkind] at h ⊢
      case gate =>
        simp only [Bool.and_eq_true, List.any_eq_true] at h
        obtain ⟨⟨h1, h2⟩, z, hz, h3⟩ := h
        obtain ⟨hn, hc2⟩ := hc y hy h2
        have hn' : N.contains y = false := by simpa using hn
        simp only [hn', Bool.false_eq_true, if_false, Bool.and_eq_true, List.any_eq_true]
        exact ⟨⟨h1, hc2⟩, z, hz, ih z h3⟩
      all_goals first
        | (cases h; done)
        | (obtain ⟨hn, hc2⟩ := hc y hy h
           have hn' : N.contains y = false := by simpa using hn
           simp only [hn', Bool.false_eq_true, if_false]
           exact hc2)

/-- same devices (as far as acceptance is concerned) and same part ⇒ same answer -/
theorem wouldAcceptN_congr {w w' : World} {N : List Nat} {p : Nat}
    (hk : ∀ z, (w'.dev z).kind = (w.dev z).kind ∧ (w'.dev z).pred = (w.dev z).pred ∧
      (w'.dev z).down = (w.dev z).down)
    (hg : ∀ pr, w'.gatePred pr p = w.gatePred pr p)
    (hc : ∀ z, w'.canAcceptBasic z p = w.canAcceptBasic z p) (f y : Nat) :
    wouldAcceptN f w' N y p = wouldAcceptN f w N y p := by
  apply Bool.eq_iff_iff.mpr
  constructor
  · exact wouldAcceptN_mono hk hg (fun z hz h => ⟨hz, by rw [← hc]; exact h⟩) f y
  · exact wouldAcceptN_mono (fun z => ⟨(hk z).1.symm, (hk z).2.1.symm, (hk z).2.2.symm⟩)
      (fun pr => (hg pr).symm) (fun z hz h => ⟨hz, by rw [hc]; exact h⟩) f y

theorem wouldAcceptN_mask {w : World} {N N' : List Nat} {p : Nat} (h : ∀ z ∈ N, z ∈ N') (f y : Nat) :
    wouldAcceptN f w N' y p = true → wouldAcceptN f w N y p = true :=
  wouldAcceptN_mono (fun _ => ⟨rfl, rfl, rfl⟩) (fun _ => rfl)
    (fun z hz hc => ⟨fun hn => hz (h z hn), hc⟩) f y

theorem wouldAcceptN_le_wouldAccept {w : World} {N : List Nat} {p : Nat} (f y : Nat)
    (h : wouldAccept f w y p = false) : wouldAcceptN f w N y p = false := by
  cases hh : wouldAcceptN f w N y p with
  | false => rfl
  | true =>
    have := wouldAcceptN_mask (N := []) (N' := N) (w := w) (p := p) (fun _ h => by cases h) f y hh
    rw [wouldAcceptN_nil, h] at this; cases this

theorem G.mono {E N E' N' : List Nat} {w : World} (h : G E N w) (hE : ∀ x ∈ E, x ∈ E')
    (hN : ∀ x ∈ N, x ∈ N') : G E' N' w := by
  refine ⟨h.s1, h.inv, h.now0, h.ev, h.valid, ?_⟩
  intro d p hd hdE
  rcases h.wake d p hd (fun hc => hdE (hE d hc)) with ha | hb
  · exact Or.inl ha
  · refine Or.inr ⟨hb.1, fun y hy => ?_⟩
    cases hh : wouldAcceptN w.fuel w N' y p with
    | false => rfl
    | true =>
      have := wouldAcceptN_mask hN _ _ hh
      rw [hb.2 y hy] at this; cases this

/-! ### `give` answers `wouldAccept` -/

/-- only kinds of S1, no resource requirements (a property of the frame of a refusal) -/
def KOK (w : World) : Prop := ∀ x, kindOK (w.dev x).kind = true ∧ (w.dev x).resReq = none

theorem S1.kok {w : World} (h : S1 w) : KOK w := fun x => ⟨h.kindOK x, h.resReq x⟩

theorem refused_dev {w w' : World} (h : C08L.Refused w w') (y : Nat) :
    (w'.dev y).noWR = (w.dev y).noWR := C08L.refFrame_dev h.2 y

theorem noWR_field {α} (g : Dev → α) (hg : ∀ d, g d.noWR = g d) {d d' : Dev}
    (h : d'.noWR = d.noWR) : g d' = g d := by rw [← hg d', ← hg d, h]

theorem KOK.of_refused {w w' : World} (h : KOK w) (r : C08L.Refused w w') : KOK w' := by
  intro x
  have hd := refused_dev r x
  have h1 := noWR_field Dev.kind (fun _ => rfl) hd
  have h2 := noWR_field Dev.resReq (fun _ => rfl) hd
  have h1' : (w'.dev x).kind = (w.dev x).kind := h1
  have h2' : (w'.dev x).resReq = (w.dev x).resReq := h2
  rw [h1', h2']; exact h x

theorem canAcceptBasic_refused {w w' : World} (r : C08L.Refused w w') (z p : Nat) :
    w'.canAcceptBasic z p = w.canAcceptBasic z p := by
  have hd := refused_dev r z
  have e1 : (w'.dev z).kind = (w.dev z).kind := noWR_field Dev.kind (fun _ => rfl) hd
  have e2 : (w'.dev z).cap = (w.dev z).cap := noWR_field Dev.cap (fun _ => rfl) hd
  have e3 : (w'.dev z).level = (w.dev z).level := noWR_field Dev.level (fun _ => rfl) hd
  have e4 : (w'.dev z).blockInput = (w.dev z).blockInput := noWR_field Dev.blockInput (fun _ => rfl) hd
  have e5 : (w'.dev z).part = (w.dev z).part := noWR_field Dev.part (fun _ => rfl) hd
  have e6 : (w'.dev z).output = (w.dev z).output := noWR_field Dev.output (fun _ => rfl) hd
  have e7 : (w'.dev z).shutDown = (w.dev z).shutDown := noWR_field Dev.shutDown (fun _ => rfl) hd
  have e8 : w'.leafCount p = w.leafCount p := by unfold leafCount part; rw [r.1]
  unfold canAcceptBasic operational
  simp only [e1, e2, e3, e4, e5, e6, e7, e8]

theorem gatePred_parts {w w' : World} (h : w'.parts = w.parts) (pr : Pred) (p : Nat) :
    w'.gatePred pr p = w.gatePred pr p := by
  unfold gatePred partValue part; rw [h]

theorem wouldAccept_refused {w w' : World} (r : C08L.Refused w w') (f y p : Nat) :
    wouldAccept f w' y p = wouldAccept f w y p := by
  rw [← wouldAcceptN_nil, ← wouldAcceptN_nil]
  apply wouldAcceptN_congr
  · intro z
    have hd := refused_dev r z
    exact ⟨noWR_field Dev.kind (fun _ => rfl) hd, noWR_field Dev.pred (fun _ => rfl) hd,
      noWR_field Dev.down (fun _ => rfl) hd⟩
  · exact fun pr => gatePred_parts r.1 pr p
  · exact fun z => canAcceptBasic_refused r z p

theorem procAcquire_none (w : World) (x : Nat) (h : (w.dev x).resReq = none) :
    w.procAcquire x = (w, true) := by
  unfold procAcquire; simp only [h]

theorem tryList_answer {g : World → Nat → Nat → World × Bool} {f p : Nat}
    (hg : ∀ w y, KOK w → (g w y p).2 = wouldAccept f w y p)
    (hr : ∀ w y w', g w y p = (w', false) → C08L.Refused w w') :
    ∀ (l : List Nat) (w : World), KOK w →
      (tryList g w l p).2 = l.any (fun y => wouldAccept f w y p) := by
  intro l
  induction l with
  | nil => intro w _; rfl
  | cons y ys ih =>
    intro w hw
    rw [tryList]
    have h1 := hg w y hw
    rcases hgy : g w y p with ⟨w1, b⟩
    rw [hgy] at h1
    cases b
    · simp only [List.any_cons]
      have r := hr w y w1 hgy
      rw [ih w1 (hw.of_refused r), ← h1]
      simp only [Bool.false_or]
      exact List.any_congr rfl (fun z => wouldAccept_refused r f z p)
    · simp only [List.any_cons, ← h1, Bool.true_or]

theorem any_perm {α} {l l' : List α} (h : l.Perm l') (q : α → Bool) : l.any q = l'.any q := by
  apply Bool.eq_iff_iff.mpr
  simp only [List.any_eq_true]
  constructor
  · rintro ⟨x, hx, hq⟩; exact ⟨x, h.mem_iff.mp hx, hq⟩
  · rintro ⟨x, hx, hq⟩; exact ⟨x, h.mem_iff.mpr hx, hq⟩

/-- **(a) The answer of `give` is `wouldAccept`**: it does not depend on the order in which the
downstream devices are tried, nor on anything but the acceptance-relevant state. -/
theorem give_answer_eq (f : Nat) : ∀ (w : World) (x p : Nat), KOK w →
    (give f w x p).2 = wouldAccept f w x p := by
  induction f with
  | zero => intro w x p _; rfl
  | succ f ih =>
    intro w x p hw
    have hT : ∀ (w' : World) (l : List Nat), KOK w' →
        (tryList (give f) w' l p).2 = l.any (fun y => wouldAccept f w' y p) :=
      fun w' l hw' => tryList_answer (fun w y hk => ih w y p hk)
        (fun w y w' h => C08L.give_refused f w y p w' h) l w' hw'
    rw [give, wouldAccept]
    dsimp only
    have hk := (hw x).1
    cases hkind : (w.dev x).kind <;> simp only [hkind, kindOK] at hk ⊢
    case processor =>
      rw [procAcquire_none w x (hw x).2]
      split <;> simp_all
    case gate =>
      cases hgp : w.gatePred (w.dev x).pred p
      · simp
      · cases hcb : w.canAcceptBasic x p
        · simp
        · have hw1 : KOK (w.addHist p x) := fun z => by rw [dev_addHist]; exact hw z
          have hans := hT (w.addHist p x) ((w.addHist p x).sortedDown x) hw1
          have hperm : ((w.addHist p x).sortedDown x).Perm (w.dev x).down := by
            have := C08.sortedDown_perm (w.addHist p x) x
            rwa [dev_addHist] at this
          rw [any_perm hperm] at hans
          have hsame : ∀ y, wouldAccept f (w.addHist p x) y p = wouldAccept f w y p := by
            intro y
            rw [← wouldAcceptN_nil, ← wouldAcceptN_nil]
            apply wouldAcceptN_congr
            · intro z; rw [dev_addHist]; exact ⟨rfl, rfl, rfl⟩
            · intro pr; exact addHist_gatePred w p x pr p
            · intro z
              unfold canAcceptBasic operational
              simp only [dev_addHist, addHist_leafCount]
          simp only [hsame] at hans
          simp only [Bool.not_true, Bool.false_eq_true, if_false, Bool.true_and, ← hans]
          split <;> simp_all
    all_goals (split <;> simp_all)

theorem givePart_answer_eq (w : World) (x p : Nat) (hw : KOK w) :
    (w.givePart x p).2 = wouldAccept w.fuel w x p := give_answer_eq _ w x p hw

theorem tryList_givePart_answer (w : World) (l : List Nat) (p : Nat) (hw : KOK w) :
    (tryList givePart w l p).2 = l.any (fun y => wouldAccept w.fuel w y p) := by
  have key : ∀ (l : List Nat) (w' : World), w'.devs.length = w.devs.length → KOK w' →
      (tryList givePart w' l p).2 = l.any (fun y => wouldAccept w.fuel w' y p) := by
    intro l
    induction l with
    | nil => intro w' _ _; rfl
    | cons y ys ih =>
      intro w' hl hw'
      rw [tryList]
      have h1 := givePart_answer_eq w' y p hw'
      have hf : w'.fuel = w.fuel := by unfold World.fuel; rw [hl]
      rw [hf] at h1
      rcases hgy : givePart w' y p with ⟨w1, b⟩
      rw [hgy] at h1
      cases b
      · simp only [List.any_cons]
        have r := C08L.give_refused _ w' y p w1 hgy
        have hl1 : w1.devs.length = w.devs.length := (C08L.refFrame_devs_length r.2).trans hl
        rw [ih w1 hl1 (hw'.of_refused r), ← h1]
        simp only [Bool.false_or]
        exact List.any_congr rfl (fun z => wouldAccept_refused r w.fuel z p)
      · simp only [List.any_cons, ← h1, Bool.true_or]
  exact key l w rfl hw

/-! ### gate chains -/

/-- `GChain w k y x`: `y = g₁ → g₂ → … → g_k → x` along `down`, all `gᵢ` gates. -/
inductive GChain (w : World) : Nat → Nat → Nat → Prop
  | here (x : Nat) : GChain w 0 x x
  | step {k y z x : Nat} : (w.dev y).kind = .gate → z ∈ (w.dev y).down → GChain w k z x →
      GChain w (k + 1) y x

theorem GChain.depth {w : World} {k y x : Nat} (h : GChain w k y x) :
    ∀ f, gateDepthLe f w y = true → k ≤ f := by
  induction h with
  | here x => intro f _; exact Nat.zero_le _
  | @step k y z x hk hz _ ih =>
    intro f hf
    cases f with
    | zero => simp [gateDepthLe, hk] at hf
    | succ f =>
      simp only [gateDepthLe, hk, bne_self_eq_false, Bool.false_or, List.all_eq_true] at hf
      exact Nat.succ_le_succ (ih f (hf z hz))

theorem GChain.toGReach {w : World} {k y x : Nat} (h : GChain w k y x) :
    ∀ f, k ≤ f → gReach f w y x = true := by
  induction h with
  | here x => intro f _; cases f <;> simp [gReach]
  | @step k y z x hk hz _ ih =>
    intro f hf
    cases f with
    | zero => omega
    | succ f =>
      simp only [gReach, hk, beq_self_eq_true, Bool.true_and, Bool.or_eq_true, List.any_eq_true]
      exact Or.inr ⟨z, hz, ih f (by omega)⟩

/-- **Localisation**: if `y` accepts with mask `N'` but not with the larger mask `N ⊆ N' ∪ {x}`,
then `x` is reached from `y` through gates, and `x` itself is willing. -/
theorem wouldAcceptN_local {w : World} {N N' : List Nat} {x p : Nat}
    (hN : ∀ z ∈ N, z ∈ N' ∨ z = x) :
    ∀ f y, wouldAcceptN f w N' y p = true → wouldAcceptN f w N y p = false →
      ∃ k, GChain w k y x ∧ w.canAcceptBasic x p = true := by
  intro f
  induction f with
  | zero => intro y h; cases h
  | succ f ih =>
    intro y h h'
    unfold wouldAcceptN at h h'
    by_cases hy' : y ∈ N'
    · simp [hy'] at h
    · have e1 : N'.contains y = false := by simpa using hy'
      rw [e1] at h
      simp only [Bool.false_eq_true, if_false] at h
      by_cases hy : y ∈ N
      · have : y = x := (hN y hy).resolve_left hy'
        subst this
        refine ⟨0, .here _, ?_⟩
        cases hkind : (w.dev y).kind <;> simp only [hkind] at h
        case gate => simp only [Bool.and_eq_true] at h; exact h.1.2
        all_goals first | exact h | cases h
      · have e2 : N.contains y = false := by simpa using hy
        rw [e2] at h'
        simp only [Bool.false_eq_true, if_false] at h'
        cases hkind : (w.dev y).kind <;> simp only [hkind] at h h'
        case gate =>
          simp only [Bool.and_eq_true, List.any_eq_true] at h
          obtain ⟨⟨h1, h2⟩, z, hz, h3⟩ := h
          rw [h1, h2, Bool.true_and, Bool.true_and] at h'
          have h4 : wouldAcceptN f w N z p = false := by
            cases hh : wouldAcceptN f w N z p with
            | false => rfl
            | true =>
              have : (w.dev y).down.any (fun y => wouldAcceptN f w N y p) = true :=
                List.any_eq_true.mpr ⟨z, hz, hh⟩
              rw [this] at h'; cases h'
          obtain ⟨k, hc, hx⟩ := ih z h3 h4
          exact ⟨k + 1, .step hkind hz hc, hx⟩
        all_goals first
          | (rw [h] at h'; cases h')
          | cases h

/-- A gate chain from a downstream neighbour `y` of `d` to `x`, read backwards, is a route of the
notification dispatch from `x` to `d`. -/
theorem GChain.reach {w : World} (hs : S1 w) {x d : Nat} (hf : forwardsUp w x = true) {k y : Nat}
    (h : GChain w k y x) :
    ∀ (u m : Nat), y < w.devs.length → u ∈ (w.dev y).up → C03.Reach w false m u d →
      C03.Reach w true (m + 1 + 2 * k) x d := by
  induction h with
  | here x => intro u m _ hu hr; exact .up hf hu hr
  | @step k y z x hk hz _ ih =>
    intro u m hy hu hr
    obtain ⟨hz1, hz2⟩ := hs.down_sym hy hz
    have h1 : C03.Reach w true (m + 1) y d := .up (forwardsUp_gate hk) hu hr
    have h2 : C03.Reach w false (m + 2) y d := .fwd (Or.inl hk) h1
    have := ih hf y (m + 2) hz1 hz2 h2
    exact this.le (by omega)

/-! ### a hand-over never touches a device it cannot reach through gates -/

theorem same_dropHist (x : Nat) (w : World) (p : Nat) : Same x w (w.dropHist p) :=
  ⟨by rw [dev_dropHist], by rw [dropHist_devs], by
    unfold World.now
    have : (w.dropHist p).noParts = w.noParts := dropHist_noParts w p
    have := congrArg (fun v : World => v.env.now) this
    exact this,
    fun q => dropHist_part_kids .., fun z => by rw [dev_dropHist]⟩

theorem gReach_self (f : Nat) (w : World) (x : Nat) : gReach f w x x = true := by
  cases f <;> simp [gReach]

/-- static facts a refusal preserves: kinds of S1, no source is anybody's downstream neighbour -/
def HK (w : World) : Prop :=
  ∀ z, kindOK (w.dev z).kind = true ∧ ∀ y ∈ (w.dev z).down, (w.dev y).kind ≠ .source

theorem S1.hk {w : World} (h : S1 w) : HK w := by
  intro z
  refine ⟨h.kindOK z, fun y hy hk => ?_⟩
  by_cases hz : z < w.devs.length
  · have := (h.down_sym hz hy).2
    rw [h.source_up y hk] at this; cases this
  · rw [dev_of_length_le (Nat.le_of_not_lt hz)] at hy; cases hy

theorem HK.of_refused {w w' : World} (h : HK w) (r : C08L.Refused w w') : HK w' := by
  intro z
  have e1 : (w'.dev z).kind = (w.dev z).kind := noWR_field Dev.kind (fun _ => rfl) (refused_dev r z)
  have e2 : (w'.dev z).down = (w.dev z).down := noWR_field Dev.down (fun _ => rfl) (refused_dev r z)
  rw [e1, e2]
  refine ⟨(h z).1, fun y hy => ?_⟩
  have e3 : (w'.dev y).kind = (w.dev y).kind := noWR_field Dev.kind (fun _ => rfl) (refused_dev r y)
  rw [e3]; exact (h z).2 y hy

theorem gReach_congr {w w' : World}
    (hk : ∀ z, (w'.dev z).kind = (w.dev z).kind ∧ (w'.dev z).down = (w.dev z).down) :
    ∀ f y x, gReach f w' y x = gReach f w y x := by
  intro f
  induction f with
  | zero => intro y x; rfl
  | succ f ih => intro y x; simp only [gReach, (hk y).1, (hk y).2, ih]

theorem gReach_refused {w w' : World} (r : C08L.Refused w w') (f y x : Nat) :
    gReach f w' y x = gReach f w y x :=
  gReach_congr (fun z => ⟨noWR_field Dev.kind (fun _ => rfl) (refused_dev r z),
    noWR_field Dev.down (fun _ => rfl) (refused_dev r z)⟩) f y x

theorem same_tryList_gates (x f p : Nat)
    (ih : ∀ (w : World) (y : Nat), HK w → (w.dev y).kind ≠ .source → gReach f w y x = false →
      Same x w (give f w y p).1) :
    ∀ (l : List Nat) (w : World), HK w →
      (∀ y ∈ l, (w.dev y).kind ≠ .source ∧ gReach f w y x = false) →
      Same x w (tryList (give f) w l p).1 := by
  intro l
  induction l with
  | nil => intro w _ _; exact .refl x w
  | cons y ys ihl =>
    intro w hw hl
    rw [tryList]
    have h1 := ih w y hw (hl y (List.mem_cons_self ..)).1 (hl y (List.mem_cons_self ..)).2
    rcases hg : give f w y p with ⟨w1, b⟩
    rw [hg] at h1
    cases b
    · dsimp only
      have r := C08L.give_refused f w y p w1 hg
      refine h1.trans (ihl w1 (hw.of_refused r) (fun z hz => ?_))
      have := hl z (List.mem_cons_of_mem _ hz)
      rw [gReach_refused r, h1.kind z]
      exact this
    · exact h1

theorem same_give_gates (x : Nat) (f : Nat) : ∀ (w : World) (y p : Nat), HK w →
    (w.dev y).kind ≠ .source → gReach f w y x = false → Same x w (give f w y p).1 := by
  induction f with
  | zero => intro w y p _ _ _; rw [give]; exact same_setErr x w _
  | succ f ih =>
    intro w y p hw hsrc hr
    simp only [gReach, Bool.or_eq_false_iff, beq_eq_false_iff_ne, ne_eq] at hr
    obtain ⟨hyx, hr2⟩ := hr
    by_cases hg : (w.dev y).kind = .gate
    · have hdown : ∀ z ∈ (w.dev y).down, gReach f w z x = false := by
        intro z hz
        simp only [hg, beq_self_eq_true, Bool.true_and] at hr2
        cases hh : gReach f w z x with
        | false => rfl
        | true =>
          have : (w.dev y).down.any (fun z => gReach f w z x) = true :=
            List.any_eq_true.mpr ⟨z, hz, hh⟩
          rw [this] at hr2; cases hr2
      rw [give]
      simp only [hg]
      split
      · exact .refl x w
      · split
        · exact .refl x w
        · have hw1 : HK (w.addHist p y) := fun z => by
            simp only [dev_addHist]; exact hw z
          have hl : ∀ z ∈ (w.addHist p y).sortedDown y,
              ((w.addHist p y).dev z).kind ≠ .source ∧ gReach f (w.addHist p y) z x = false := by
            intro z hz
            have hz' : z ∈ (w.dev y).down := by
              have := (C08.sortedDown_mem (w.addHist p y) y z).mp hz
              rwa [dev_addHist] at this
            rw [dev_addHist, gReach_congr (w := w) (fun z => by rw [dev_addHist]; exact ⟨rfl, rfl⟩)]
            exact ⟨(hw y).2 z hz', hdown z hz'⟩
          have hT := same_tryList_gates x f p (fun w y => ih w y p) _ (w.addHist p y) hw1 hl
          have h0 : Same x w (w.addHist p y) := same_addHist x w p y
          generalize tryList (give f) (w.addHist p y) ((w.addHist p y).sortedDown y) p = r at hT
          obtain ⟨w1, b⟩ := r
          cases b
          · exact (h0.trans hT).trans (same_dropHist x w1 p)
          · exact h0.trans hT
    · have hpk : plainKind (w.dev y).kind := by
        have := (hw y).1
        unfold plainKind
        cases hk : (w.dev y).kind <;> simp_all [kindOK]
      exact same_give f w p (fun h => hyx h) hpk

end C03W
end SimProc
