/-
C03W — the acceptance predicate: `give` answers `wouldAccept`; monotonicity; localisation of a
change of acceptance (gate chains); gate chains and the notification dispatch.
-/
import SimProc.Proofs.C03WDefs
import SimProc.Proofs.C05Lemmas
import SimProc.Props.C11
import SimProc.Proofs.C10Lemmas
import SimProc.Proofs.C03XSame

namespace SimProc
namespace C03W
open World FloorCoreL C03

/-! ### monotonicity / congruence of `wouldAcceptN` -/

/-- the static data the acceptance predicates read of a world: kinds, predicates, wiring, groups -/
structure TopoEq (w w' : World) : Prop where
  kind : ∀ z, (w'.dev z).kind = (w.dev z).kind
  pred : ∀ z, (w'.dev z).pred = (w.dev z).pred
  down : ∀ z, (w'.dev z).down = (w.dev z).down
  group : ∀ z, (w'.dev z).group = (w.dev z).group
  groups : w'.groups = w.groups

theorem TopoEq.refl (w : World) : TopoEq w w := ⟨fun _ => rfl, fun _ => rfl, fun _ => rfl, fun _ => rfl, rfl⟩

theorem TopoEq.symm {w w' : World} (h : TopoEq w w') : TopoEq w' w :=
  ⟨fun z => (h.kind z).symm, fun z => (h.pred z).symm, fun z => (h.down z).symm,
    fun z => (h.group z).symm, h.groups.symm⟩

theorem TopoEq.groupIn {w w' : World} (h : TopoEq w w') (x : Nat) : groupIn w' x = groupIn w x := by
  unfold C03W.groupIn; rw [h.group, h.groups]

theorem TopoEq.groupOut {w w' : World} (h : TopoEq w w') (x : Nat) : groupOut w' x = groupOut w x := by
  unfold C03W.groupOut; rw [h.group, h.groups]

theorem TopoEq.of_sw {w w' : World} (e : sw w' = sw w) : TopoEq w w' :=
  ⟨sw_kind e, sw_pred e, sw_down e, sw_group e, sw_groups e⟩

theorem TopoEq.of_devs {w w' : World} (hd : w'.devs = w.devs) (hg : w'.groups = w.groups) :
    TopoEq w w' := by
  have h : ∀ z, w'.dev z = w.dev z := fun z => dev_congr hd z
  exact ⟨fun z => by rw [h], fun z => by rw [h], fun z => by rw [h], fun z => by rw [h], hg⟩

theorem wouldAcceptS_mono {w w' : World} {N N' A A' : List Nat} {p : Nat}
    (hk : TopoEq w w')
    (hg : ∀ pr, w'.gatePred pr p = w.gatePred pr p)
    (hc : ∀ z, z ∉ N' → (A'.contains z || accM w' z p) = true →
      z ∉ N ∧ (A.contains z || accM w z p) = true) :
    ∀ f y stk, wouldAcceptS f w' N' A' y p stk = true → wouldAcceptS f w N A y p stk = true := by
  intro f
  induction f with
  | zero => intro y stk h; cases h
  | succ f ih =>
    intro y stk h
    unfold wouldAcceptS at h ⊢
    rw [hk.kind y, hk.pred y, hk.down y, hg, hk.groupIn] at h
    by_cases hgo : (w.dev y).kind = .goutput
    · -- a group output is never masked
      simp only [hgo, bne_self_eq_false, Bool.and_false, Bool.false_eq_true, if_false] at h ⊢
      cases hl : stk.getLast? with
      | none => simp [hl] at h
      | some g =>
        simp only [hl, Bool.and_eq_true, List.any_eq_true, beq_iff_eq] at h ⊢
        obtain ⟨⟨h1, h2⟩, z, hz, h3⟩ := h
        rw [hk.kind g, hk.groupOut g, hk.down g] at *
        exact ⟨⟨h1, h2⟩, z, hz, ih z _ h3⟩
    · have hne : ((w.dev y).kind != Kind.goutput) = true := by simpa using hgo
      rw [hne, Bool.and_true] at h ⊢
      by_cases hy : y ∈ N'
      · simp [hy] at h
      · have hy' : N'.contains y = false := by simpa using hy
        rw [hy'] at h
        simp only [Bool.false_eq_true, if_false] at h
        cases hkind : (w.dev y).kind <;> simp only [hkind] at h ⊢
        case gate =>
          simp only [Bool.and_eq_true, List.any_eq_true] at h
          obtain ⟨⟨h1, h2⟩, z, hz, h3⟩ := h
          obtain ⟨hn, hc2⟩ := hc y hy h2
          have hn' : N.contains y = false := by simpa using hn
          simp only [hn', Bool.false_eq_true, if_false, Bool.and_eq_true, List.any_eq_true]
          exact ⟨⟨h1, hc2⟩, z, hz, ih z stk h3⟩
        case ginput =>
          simp only [Bool.and_eq_true, List.any_eq_true] at h
          obtain ⟨h2, z, hz, h3⟩ := h
          obtain ⟨hn, hc2⟩ := hc y hy h2
          have hn' : N.contains y = false := by simpa using hn
          simp only [hn', Bool.false_eq_true, if_false, Bool.and_eq_true, List.any_eq_true]
          exact ⟨hc2, z, hz, ih z stk h3⟩
        case gpath =>
          simp only [Bool.and_eq_true] at h
          obtain ⟨hn, hc2⟩ := hc y hy h.1
          have hn' : N.contains y = false := by simpa using hn
          simp only [hn', Bool.false_eq_true, if_false, Bool.and_eq_true]
          exact ⟨hc2, ih _ _ h.2⟩
        case goutput => exact absurd hkind hgo
        all_goals first
          | (cases h; done)
          | (obtain ⟨hn, hc2⟩ := hc y hy h
             have hn' : N.contains y = false := by simpa using hn
             simp only [hn', Bool.false_eq_true, if_false]
             exact hc2)

theorem wouldAcceptN_mono {w w' : World} {N N' A A' : List Nat} {p : Nat}
    (hk : TopoEq w w')
    (hg : ∀ pr, w'.gatePred pr p = w.gatePred pr p)
    (hs : (w'.part p).stack = (w.part p).stack)
    (hc : ∀ z, z ∉ N' → (A'.contains z || accM w' z p) = true →
      z ∉ N ∧ (A.contains z || accM w z p) = true) (f y : Nat) :
    wouldAcceptN f w' N' A' y p = true → wouldAcceptN f w N A y p = true := by
  unfold wouldAcceptN
  rw [hs]
  exact wouldAcceptS_mono hk hg hc f y _

/-- same devices (as far as acceptance is concerned) and same part ⇒ same answer -/
theorem wouldAcceptN_congr {w w' : World} {N A : List Nat} {p : Nat}
    (hk : TopoEq w w')
    (hg : ∀ pr, w'.gatePred pr p = w.gatePred pr p)
    (hs : (w'.part p).stack = (w.part p).stack)
    (hc : ∀ z, accM w' z p = accM w z p) (f y : Nat) :
    wouldAcceptN f w' N A y p = wouldAcceptN f w N A y p := by
  apply Bool.eq_iff_iff.mpr
  constructor
  · exact wouldAcceptN_mono hk hg hs (fun z hz h => ⟨hz, by rw [← hc]; exact h⟩) f y
  · exact wouldAcceptN_mono hk.symm (fun pr => (hg pr).symm) hs.symm
      (fun z hz h => ⟨hz, by rw [hc]; exact h⟩) f y

theorem contains_mono {A A' : List Nat} (hA : ∀ z ∈ A', z ∈ A) (z : Nat) (b : Bool)
    (h : (A'.contains z || b) = true) : (A.contains z || b) = true := by
  rw [Bool.or_eq_true] at h ⊢
  rcases h with h | h
  · left
    have : z ∈ A' := by simpa using h
    simpa using hA z this
  · exact Or.inr h

theorem wouldAcceptN_mask {w : World} {N N' A A' : List Nat} {p : Nat} (h : ∀ z ∈ N, z ∈ N')
    (hA : ∀ z ∈ A', z ∈ A) (f y : Nat) :
    wouldAcceptN f w N' A' y p = true → wouldAcceptN f w N A y p = true :=
  wouldAcceptN_mono (.refl w) (fun _ => rfl) rfl
    (fun z hz hc => ⟨fun hn => hz (h z hn), contains_mono hA z _ hc⟩) f y

theorem wouldAcceptN_of_nil {w : World} {N A : List Nat} {p : Nat} (f y : Nat)
    (h : wouldAcceptN f w [] A y p = false) : wouldAcceptN f w N A y p = false := by
  cases hh : wouldAcceptN f w N A y p with
  | false => rfl
  | true =>
    have := wouldAcceptN_mask (N := []) (N' := N) (A := A) (A' := A) (w := w) (p := p)
      (fun _ h => by cases h) (fun _ h => h) f y hh
    rw [h] at this; cases this

theorem G.mono {E N A E' N' A' : List Nat} {w : World} (h : G E N A w) (hE : ∀ x ∈ E, x ∈ E')
    (hN : ∀ x ∈ N, x ∈ N') (hA : ∀ x ∈ A', x ∈ A) : G E' N' A' w := by
  refine ⟨h.sc, h.pl, h.inv, h.now0, h.ev, h.valid, h.kv, h.stk, h.wr, fun x hx => h.aok x (hA x hx), ?_⟩
  intro d p hd hdE
  rcases h.wake d p hd (fun hc => hdE (hE d hc)) with ha | hb
  · exact Or.inl ha
  · refine Or.inr ⟨hb.1, fun y hy => ?_⟩
    cases hh : wouldAcceptN w.fuel w N' A' y p with
    | false => rfl
    | true =>
      have := wouldAcceptN_mask hN hA _ _ hh
      rw [hb.2 y hy] at this; cases this

/-! ### the frame of a refusal -/

/-- only kinds of the scope; declared requirements have no negative amount (a property of the frame
of a refusal) -/
def KOK (w : World) : Prop := ∀ x, kindOK (w.dev x).kind = true ∧ reqNN (w.dev x)

theorem SC.kok {w : World} (h : SC w) : KOK w := fun x => ⟨h.kindOK x, (h.devOK x).2.1⟩

theorem refused_dev {w w' : World} (h : C08L.Refused w w') (y : Nat) :
    (w'.dev y).noWR = (w.dev y).noWR := C08L.refFrame_dev h.2 y

theorem noWR_field {α} (g : Dev → α) (hg : ∀ d, g d.noWR = g d) {d d' : Dev}
    (h : d'.noWR = d.noWR) : g d' = g d := by rw [← hg d', ← hg d, h]

theorem KOK.of_refused {w w' : World} (h : KOK w) (r : C08L.Refused w w') : KOK w' := by
  intro x
  have hd := refused_dev r x
  have h1 := noWR_field Dev.kind (fun _ => rfl) hd
  have h2 := noWR_field Dev.resReq (fun _ => rfl) hd
  have h1' : (w'.dev x).kind = (w.dev x).kind := h1
  have h2' : (w'.dev x).resReq = (w.dev x).resReq := h2
  unfold reqNN
  rw [h1', h2']; exact h x

theorem canAcceptBasic_refused {w w' : World} (r : C08L.Refused w w') (z p : Nat) :
    w'.canAcceptBasic z p = w.canAcceptBasic z p := by
  have hd := refused_dev r z
  have e1 : (w'.dev z).kind = (w.dev z).kind := noWR_field Dev.kind (fun _ => rfl) hd
  have e2 : (w'.dev z).cap = (w.dev z).cap := noWR_field Dev.cap (fun _ => rfl) hd
  have e3 : (w'.dev z).level = (w.dev z).level := noWR_field Dev.level (fun _ => rfl) hd
  have e4 : (w'.dev z).blockInput = (w.dev z).blockInput := noWR_field Dev.blockInput (fun _ => rfl) hd
  have e5 : (w'.dev z).part = (w.dev z).part := noWR_field Dev.part (fun _ => rfl) hd
  have e6 : (w'.dev z).output = (w.dev z).output := noWR_field Dev.output (fun _ => rfl) hd
  have e7 : (w'.dev z).shutDown = (w.dev z).shutDown := noWR_field Dev.shutDown (fun _ => rfl) hd
  have e8 : w'.leafCount p = w.leafCount p := by unfold leafCount part; rw [r.1]
  unfold canAcceptBasic operational
  simp only [e1, e2, e3, e4, e5, e6, e7, e8]

theorem gatePred_parts {w w' : World} (h : w'.parts = w.parts) (pr : Pred) (p : Nat) :
    w'.gatePred pr p = w.gatePred pr p := by
  unfold gatePred partValue part; rw [h]

/-- What a refusal does besides `C08L.Refused`: it takes nothing from the pools, and it only SETS
`waitingRes` flags. -/
structure RefX (w w' : World) : Prop where
  pools : w'.rm.pools = w.rm.pools
  flags : ∀ z, (w.dev z).waitingRes = true → (w'.dev z).waitingRes = true

theorem RefX.refl (w : World) : RefX w w := ⟨rfl, fun _ h => h⟩

theorem RefX.trans {w w' w'' : World} (h : RefX w w') (h' : RefX w' w'') : RefX w w'' :=
  ⟨h'.pools.trans h.pools, fun z hz => h'.flags z (h.flags z hz)⟩

theorem noParts_devs_eq {w w' : World} (h : w'.noParts = w.noParts) : w'.devs = w.devs := by
  have := congrArg World.devs h; exact this

theorem noParts_rm_eq {w w' : World} (h : w'.noParts = w.noParts) : w'.rm = w.rm := by
  have := congrArg World.rm h; exact this

theorem RefX.of_noParts {w w' : World} (h : w'.noParts = w.noParts) : RefX w w' := by
  have hd : w'.devs = w.devs := noParts_devs_eq h
  have hr : w'.rm = w.rm := noParts_rm_eq h
  exact ⟨by rw [hr], fun z hz => by rw [dev_congr hd]; exact hz⟩

theorem RefX.setErr (w : World) (m : String) : RefX w (w.setErr m) :=
  ⟨by rw [setErr_rm], fun z hz => by rw [dev_setErr]; exact hz⟩

theorem RefX.modPart (w : World) (p : Nat) (g : PartRec → PartRec) : RefX w (w.modPart p g) :=
  ⟨rfl, fun _ h => h⟩

theorem procAcquire_refX (w : World) (x : Nat) (h : (w.procAcquire x).2 = false) :
    RefX w (w.procAcquire x).1 := by
  refine ⟨(procAcquire_false w x h).1, ?_⟩
  revert h
  unfold procAcquire
  dsimp only
  repeat' split
  all_goals first
    | (intro h; cases h; done)
    | (intro _ z hz; exact hz)
    | (intro _ z hz; rw [dev_setErr]; exact hz)
    | skip
  · intro _ z hz
    rw [dev_modDev]
    split
    · rfl
    · rw [dev_rmEffects]; exact hz

/-- The refusal relation of the machinery. -/
structure Ref (w w' : World) : Prop where
  ref : C08L.Refused w w'
  x : RefX w w'

theorem Ref.refl (w : World) : Ref w w := ⟨.refl w, .refl w⟩

theorem tryList_refX {g : World → Nat → Nat → World × Bool} {p : Nat}
    (hg : ∀ w y w', g w y p = (w', false) → RefX w w') :
    ∀ {l : List Nat} {w w' : World}, tryList g w l p = (w', false) → RefX w w' := by
  intro l
  induction l with
  | nil =>
    intro w w' h
    have : w = w' := by simpa [tryList] using h
    subst this; exact .refl w
  | cons y ys ih =>
    intro w w' h
    rcases hgy : g w y p with ⟨w1, b⟩
    cases b
    · rw [C08L.tryList_cons_false _ hgy] at h
      exact (hg w y w1 hgy).trans (ih h)
    · rw [C08L.tryList_cons_true _ hgy] at h
      simp at h

theorem give_refX (f : Nat) : ∀ (w : World) (x p : Nat) (w' : World),
    give f w x p = (w', false) → RefX w w' := by
  induction f with
  | zero =>
    intro w x p w' h
    rw [give.eq_1] at h
    have : w.setErr "fuel" = w' := by simpa using h
    subst this
    exact .setErr _ _
  | succ f ih =>
    intro w x p w' h
    have ihl : ∀ {w w' : World} {l : List Nat}, tryList (give f) w l p = (w', false) →
        RefX w w' := fun h => tryList_refX (fun w y w' h => ih w y p w' h) h
    rw [give.eq_2] at h
    split at h
    -- source, handler, buffer, batcher, sink
    iterate 5
      · split at h
        · simp at h
        · have : w = w' := by simpa using h
          subst this; exact .refl _
    -- processor
    · split at h
      · split at h
        · simp at h
        · next w1 hacq =>
          have : w1 = w' := by simpa using h
          subst this
          have h1 : (w.procAcquire x).1 = w1 := by rw [hacq]
          have h2 : (w.procAcquire x).2 = false := by rw [hacq]
          rw [← h1]
          exact procAcquire_refX w x h2
      · have : w = w' := by simpa using h
        subst this; exact .refl _
    -- gate
    · split at h
      · have : w = w' := by simpa using h
        subst this; exact .refl _
      · split at h
        · have : w = w' := by simpa using h
          subst this; exact .refl _
        · dsimp only at h
          split at h
          · simp at h
          · next w2 htl =>
            have : w2.dropHist p = w' := by simpa using h
            subst this
            exact ((RefX.of_noParts (addHist_noParts w p x)).trans (ihl htl)).trans
              (.of_noParts (dropHist_noParts w2 p))
    -- ginput
    · split at h
      · have : w = w' := by simpa using h
        subst this; exact .refl _
      · exact ihl h
    -- gpath
    · split at h
      · have : w = w' := by simpa using h
        subst this; exact .refl _
      · dsimp only at h
        split at h
        · simp at h
        · next w3 hgv =>
          have : (w3.modPart p (fun r => { r with stack := r.stack.dropLast })).dropHist p = w' :=
            (Prod.mk.inj h).1
          subst this
          have hr := ih _ _ _ _ hgv
          exact ((((RefX.modPart w p _).trans (.of_noParts (addHist_noParts _ p x))).trans hr).trans
            (.modPart w3 p _)).trans (.of_noParts (dropHist_noParts _ p))
    -- goutput
    · split at h
      · have : w.setErr "no-group-path" = w' := by simpa using h
        subst this
        exact .setErr _ _
      · next g hgl =>
        dsimp only at h
        split at h
        · simp at h
        · next w2 htl =>
          have : w2.modPart p (fun r => { r with stack := r.stack ++ [g] }) = w' :=
            (Prod.mk.inj h).1
          subst this
          exact ((RefX.modPart w p _).trans (ihl htl)).trans (.modPart w2 p _)

theorem give_ref (f : Nat) (w : World) (x p : Nat) (w' : World)
    (h : give f w x p = (w', false)) : Ref w w' :=
  ⟨C08L.give_refused f w x p w' h, give_refX f w x p w' h⟩

theorem tryList_ref {g : World → Nat → Nat → World × Bool} {p : Nat}
    (hg : ∀ w y w', g w y p = (w', false) → Ref w w')
    {w w' : World} {l : List Nat} (h : tryList g w l p = (w', false)) : Ref w w' :=
  ⟨C08L.tryList_refused (fun w y w' h => (hg w y w' h).ref) h,
   tryList_refX (fun w y w' h => (hg w y w' h).x) h⟩

theorem refused_groups {w w' : World} (r : C08L.Refused w w') : w'.groups = w.groups := by
  have := congrArg World.groups r.2
  exact this

theorem topoEq_refused {w w' : World} (r : C08L.Refused w w') : TopoEq w w' := by
  refine ⟨fun z => ?_, fun z => ?_, fun z => ?_, fun z => ?_, refused_groups r⟩
  · exact noWR_field Dev.kind (fun _ => rfl) (refused_dev r z)
  · exact noWR_field Dev.pred (fun _ => rfl) (refused_dev r z)
  · exact noWR_field Dev.down (fun _ => rfl) (refused_dev r z)
  · exact noWR_field Dev.group (fun _ => rfl) (refused_dev r z)

theorem procM_ref {w w' : World} (r : Ref w w') (z : Nat)
    (h : procM (w'.dev z) = true) : procM (w.dev z) = true := by
  have hd := refused_dev r.ref z
  have e1 : (w'.dev z).kind = (w.dev z).kind := noWR_field Dev.kind (fun _ => rfl) hd
  have e2 : (w'.dev z).resReq = (w.dev z).resReq := noWR_field Dev.resReq (fun _ => rfl) hd
  have e3 : (w'.dev z).reserved = (w.dev z).reserved := noWR_field Dev.reserved (fun _ => rfl) hd
  unfold procM at h ⊢
  rw [e1, e2, e3] at h
  cases hk : (w.dev z).kind <;> simp only [hk] at h ⊢
  cases hq : (w.dev z).resReq with
  | none => rfl
  | some req =>
    simp only [hq] at h ⊢
    cases hres : (w.dev z).reserved.isSome with
    | true => rfl
    | false =>
      rw [hres, Bool.false_or] at h
      cases hf : (w.dev z).waitingRes with
      | false => rfl
      | true =>
        rw [r.x.flags z hf] at h; cases h

theorem accM_ref {w w' : World} (r : Ref w w') (z p : Nat) (h : accM w' z p = true) :
    accM w z p = true := by
  unfold accM at h ⊢
  simp only [Bool.and_eq_true] at h ⊢
  exact ⟨by rw [← canAcceptBasic_refused r.ref]; exact h.1, procM_ref r z h.2⟩

/-- acceptance in the invariant's sense only shrinks along refusals -/
theorem wouldAcceptS_ref {w w' : World} (r : Ref w w') (N : List Nat) (f y p : Nat) (stk : List Nat)
    (h : wouldAcceptS f w' N [] y p stk = true) : wouldAcceptS f w N [] y p stk = true :=
  wouldAcceptS_mono (topoEq_refused r.ref) (fun pr => gatePred_parts r.ref.1 pr p)
    (fun z hz hc => ⟨hz, by
      rw [Bool.or_eq_true] at hc ⊢
      exact hc.imp id (accM_ref r z p)⟩) f y stk h

theorem wouldAcceptN_ref {w w' : World} (r : Ref w w') (N : List Nat) (f y p : Nat)
    (h : wouldAcceptN f w' N [] y p = true) : wouldAcceptN f w N [] y p = true := by
  unfold wouldAcceptN at h ⊢
  rw [part_congr r.ref.1] at h
  exact wouldAcceptS_ref r N f y p _ h

theorem procReal_ref {w w' : World} (r : Ref w w') (z : Nat) : procReal w' z = procReal w z := by
  have hd := refused_dev r.ref z
  have e2 : (w'.dev z).resReq = (w.dev z).resReq := noWR_field Dev.resReq (fun _ => rfl) hd
  have e3 : (w'.dev z).reserved = (w.dev z).reserved := noWR_field Dev.reserved (fun _ => rfl) hd
  unfold procReal
  rw [e2, e3]
  cases (w.dev z).resReq with
  | none => rfl
  | some req => simp only [C10.canFulfill_pools _ _ r.x.pools]

/-- same topology, same answers of the single devices ⇒ same real answer -/
theorem wouldAcceptT_congr {w w' : World} {p : Nat} (hk : TopoEq w w')
    (hg : ∀ pr, w'.gatePred pr p = w.gatePred pr p)
    (hc : ∀ z, w'.canAcceptBasic z p = w.canAcceptBasic z p)
    (hb : ∀ z, (w'.dev z).blockInput = (w.dev z).blockInput)
    (hr : ∀ z, procReal w' z = procReal w z) :
    ∀ f y stk, wouldAcceptT f w' y p stk = wouldAcceptT f w y p stk := by
  intro f
  induction f with
  | zero => intro y stk; rfl
  | succ f ih =>
    intro y stk
    unfold wouldAcceptT
    simp only [hk.kind, hk.pred, hk.down, hg, hc, hb, hr, hk.groupIn, ih]

/-- the real answer is not changed by a refusal -/
theorem wouldAcceptT_refused {w w' : World} (r : Ref w w') (f y p : Nat) (stk : List Nat) :
    wouldAcceptT f w' y p stk = wouldAcceptT f w y p stk :=
  wouldAcceptT_congr (topoEq_refused r.ref) (fun pr => gatePred_parts r.ref.1 pr p)
    (fun z => canAcceptBasic_refused r.ref z p)
    (fun z => noWR_field Dev.blockInput (fun _ => rfl) (refused_dev r.ref z))
    (procReal_ref r) f y stk

theorem wouldAccept_refused {w w' : World} (r : Ref w w') (f y p : Nat) :
    wouldAccept f w' y p = wouldAccept f w y p := by
  unfold wouldAccept
  rw [part_congr r.ref.1]
  exact wouldAcceptT_refused r f y p _

/-! ### `give` answers `wouldAccept` -/

/-- the answer of `procAcquire` -/
theorem procAcquire_answer {w : World} (hw : KOK w) (x : Nat) :
    (w.procAcquire x).2 = procReal w x := by
  unfold procReal
  cases hq : (w.dev x).resReq with
  | none => rw [procAcquire_noop w x (Or.inl hq)]
  | some req =>
    simp only []
    cases hres : (w.dev x).reserved with
    | some id => rw [procAcquire_noop w x (Or.inr (by rw [hres]; rfl))]; rfl
    | none =>
      have hnn : ∀ e ∈ req, 0 ≤ e.2 := (hw x).2 req (by rw [hq]; simp)
      have hany : req.any (fun e => e.2 < 0) = false := by
        rw [List.any_eq_false]; intro e he; have := hnn e he; simp; omega
      simp only [Option.isSome_none, Bool.false_or, hany, Bool.not_false, Bool.true_and]
      by_cases hf : C09.fits w.rm req
      · rw [procAcquire_fits w x req hq hres hnn hf]
        exact ((C09.canFulfill_filter_iff w.rm req).2 hf).symm
      · rw [procAcquire_not_fits w x req hq hres hnn hf]
        have : w.rm.canFulfill (req.filter (fun e => e.2 > 0)) = false := by
          cases hc : w.rm.canFulfill (req.filter (fun e => e.2 > 0)) with
          | false => rfl
          | true => exact absurd ((C09.canFulfill_filter_iff w.rm req).1 hc) hf
        rw [this]
        split <;> rfl

theorem any_perm {α} {l l' : List α} (h : l.Perm l') (q : α → Bool) : l.any q = l'.any q := by
  apply Bool.eq_iff_iff.mpr
  simp only [List.any_eq_true]
  constructor
  · rintro ⟨x, hx, hq⟩; exact ⟨x, h.mem_iff.mp hx, hq⟩
  · rintro ⟨x, hx, hq⟩; exact ⟨x, h.mem_iff.mpr hx, hq⟩

/-- the part exists, or no device is a group device (then its group-path stack is never read) -/
def PV (w : World) (p : Nat) : Prop := p < w.parts.length ∨ NoGrp w

theorem PV.of_refused {w w' : World} {p : Nat} (h : PV w p) (r : C08L.Refused w w') : PV w' p := by
  rcases h with h | h
  · left; rw [r.1]; exact h
  · right; intro x; rw [(topoEq_refused r).kind]; exact h x

theorem PV.of_devs_len {w w' : World} {p : Nat} (h : PV w p) (hd : w'.devs = w.devs)
    (hl : w'.parts.length = w.parts.length) : PV w' p := by
  rcases h with h | h
  · left; rw [hl]; exact h
  · right; intro x; rw [dev_congr hd]; exact h x

theorem tryList_answer {g : World → Nat → Nat → World × Bool} {f p : Nat}
    (hg : ∀ w y, KOK w → PV w p → (g w y p).2 = wouldAcceptT f w y p (w.part p).stack)
    (hr : ∀ w y w', g w y p = (w', false) → Ref w w') :
    ∀ (l : List Nat) (w : World), KOK w → PV w p →
      (tryList g w l p).2 = l.any (fun y => wouldAcceptT f w y p (w.part p).stack) := by
  intro l
  induction l with
  | nil => intro w _ _; rfl
  | cons y ys ih =>
    intro w hw hv
    rw [tryList]
    have h1 := hg w y hw hv
    rcases hgy : g w y p with ⟨w1, b⟩
    rw [hgy] at h1
    cases b
    · simp only [List.any_cons]
      have r := hr w y w1 hgy
      rw [ih w1 (hw.of_refused r.ref) (hv.of_refused r.ref), ← h1]
      simp only [Bool.false_or]
      rw [part_congr r.ref.1]
      exact List.any_congr rfl (fun z => wouldAcceptT_refused r f z p _)
    · simp only [List.any_cons, ← h1, Bool.true_or]

/-- a change of the parts table that touches neither the batch structure nor quality / value of any
part does not change the answers -/
theorem wouldAcceptT_parts {w w' : World} {p : Nat} (hn : w'.noParts = w.noParts)
    (hg : ∀ pr, w'.gatePred pr p = w.gatePred pr p) (hl : w'.leafCount p = w.leafCount p)
    (f y : Nat) (stk : List Nat) : wouldAcceptT f w' y p stk = wouldAcceptT f w y p stk := by
  have hd : w'.devs = w.devs := noParts_devs_eq hn
  have hdv : ∀ z, w'.dev z = w.dev z := fun z => dev_congr hd z
  have hgr : w'.groups = w.groups := by have := congrArg World.groups hn; exact this
  refine wouldAcceptT_congr (.of_devs hd hgr) hg (fun z => ?_) (fun z => by rw [hdv])
    (fun z => ?_) f y stk
  · unfold canAcceptBasic operational; simp only [hdv, hl]
  · unfold procReal; rw [hdv, noParts_rm_eq hn]

theorem wouldAcceptS_parts {w w' : World} {p : Nat} (hn : w'.noParts = w.noParts)
    (hg : ∀ pr, w'.gatePred pr p = w.gatePred pr p) (hl : w'.leafCount p = w.leafCount p)
    (f : Nat) (N A : List Nat) (y : Nat) (stk : List Nat) :
    wouldAcceptS f w' N A y p stk = wouldAcceptS f w N A y p stk := by
  have hd : w'.devs = w.devs := noParts_devs_eq hn
  have hdv : ∀ z, w'.dev z = w.dev z := fun z => dev_congr hd z
  have hgr : w'.groups = w.groups := by have := congrArg World.groups hn; exact this
  have hacc : ∀ z, accM w' z p = accM w z p := by
    intro z; unfold accM canAcceptBasic operational; simp only [hdv, hl]
  apply Bool.eq_iff_iff.mpr
  constructor
  · exact wouldAcceptS_mono (.of_devs hd hgr) hg (fun z hz h => ⟨hz, by rw [← hacc]; exact h⟩) f y stk
  · exact wouldAcceptS_mono (TopoEq.of_devs hd hgr).symm (fun pr => (hg pr).symm)
      (fun z hz h => ⟨hz, by rw [hacc]; exact h⟩) f y stk

/-- a `modPart` that changes the group-path stack (or the history) only -/
theorem modPart_noParts (w : World) (p : Nat) (g : PartRec → PartRec) :
    (w.modPart p g).noParts = w.noParts := rfl

theorem part_modPart_fields (w : World) (q : Nat) (g : PartRec → PartRec)
    (hg : ∀ r, (g r).quality = r.quality ∧ (g r).value = r.value ∧ (g r).kids = r.kids) (z : Nat) :
    ((w.modPart q g).part z).quality = (w.part z).quality ∧
      ((w.modPart q g).part z).value = (w.part z).value ∧
      ((w.modPart q g).part z).kids = (w.part z).kids := by
  rw [part_modPart]; split
  · next hc => rw [(hg _).1, (hg _).2.1, (hg _).2.2, hc.1]; exact ⟨rfl, rfl, rfl⟩
  · exact ⟨rfl, rfl, rfl⟩

theorem gatePred_modPart (w : World) (q : Nat) (g : PartRec → PartRec)
    (hg : ∀ r, (g r).quality = r.quality ∧ (g r).value = r.value ∧ (g r).kids = r.kids)
    (pr : Pred) (p : Nat) : (w.modPart q g).gatePred pr p = w.gatePred pr p := by
  have hall := part_modPart_fields w q g hg
  have hv : (w.modPart q g).partValue p = w.partValue p := by
    unfold partValue
    cases hk : (w.part p).kids with
    | none =>
      have : ((w.modPart q g).part p).kids = none := by rw [(hall p).2.2]; exact hk
      simp only [this, (hall p).2.1]
    | some l =>
      have : ((w.modPart q g).part p).kids = some l := by rw [(hall p).2.2]; exact hk
      simp only [this]
      congr 1
      exact List.map_congr_left (fun k _ => (hall k).2.1)
  unfold gatePred
  simp only [hv, (hall p).1]

theorem leafCount_modPart (w : World) (q : Nat) (g : PartRec → PartRec)
    (hg : ∀ r, (g r).kids = r.kids) (p : Nat) : (w.modPart q g).leafCount p = w.leafCount p := by
  have e : ((w.modPart q g).part p).kids = (w.part p).kids := by
    rw [part_modPart]; split
    · next hc => rw [hg, hc.1]
    · rfl
  unfold leafCount
  simp only [e]

/-- pushing / popping the group-path stack of a part changes nobody's answer -/
theorem wouldAcceptT_stackOp (w : World) (q : Nat) (g : List Nat → List Nat) (f y p : Nat)
    (stk : List Nat) :
    wouldAcceptT f (w.modPart q (fun r => { r with stack := g r.stack })) y p stk =
      wouldAcceptT f w y p stk :=
  wouldAcceptT_parts (modPart_noParts w q (fun r => { r with stack := g r.stack }))
    (fun pr => gatePred_modPart w q (fun r => { r with stack := g r.stack })
      (fun _ => ⟨rfl, rfl, rfl⟩) pr p)
    (leafCount_modPart w q (fun r => { r with stack := g r.stack }) (fun _ => rfl) p) f y stk

theorem wouldAcceptS_stackOp (w : World) (q : Nat) (g : List Nat → List Nat) (f : Nat)
    (N A : List Nat) (y p : Nat) (stk : List Nat) :
    wouldAcceptS f (w.modPart q (fun r => { r with stack := g r.stack })) N A y p stk =
      wouldAcceptS f w N A y p stk :=
  wouldAcceptS_parts (modPart_noParts w q (fun r => { r with stack := g r.stack }))
    (fun pr => gatePred_modPart w q (fun r => { r with stack := g r.stack })
      (fun _ => ⟨rfl, rfl, rfl⟩) pr p)
    (leafCount_modPart w q (fun r => { r with stack := g r.stack }) (fun _ => rfl) p) f N A y stk

theorem wouldAcceptT_addHist (w : World) (q x : Nat) (f y p : Nat) (stk : List Nat) :
    wouldAcceptT f (w.addHist q x) y p stk = wouldAcceptT f w y p stk :=
  wouldAcceptT_parts (addHist_noParts w q x) (fun pr => addHist_gatePred w q x pr p)
    (addHist_leafCount w q x p) f y stk

theorem groups_noParts {w w' : World} (h : w'.noParts = w.noParts) : w'.groups = w.groups := by
  have := congrArg World.groups h; exact this

theorem stack_push (w : World) {p : Nat} (hp : p < w.parts.length) (x : Nat) :
    ((w.modPart p (fun r => { r with stack := r.stack ++ [x] })).part p).stack =
      (w.part p).stack ++ [x] := by
  rw [part_modPart_same hp]

theorem stack_pop (w : World) {p : Nat} (hp : p < w.parts.length) :
    ((w.modPart p (fun r => { r with stack := r.stack.dropLast })).part p).stack =
      (w.part p).stack.dropLast := by
  rw [part_modPart_same hp]

theorem noGrp_kind {w : World} (h : NoGrp w) {x : Nat} {k : Kind} (hk : (w.dev x).kind = k) :
    k ≠ .gpath ∧ k ≠ .ginput ∧ k ≠ .goutput := by
  subst hk; exact h x

/-- **(a) The answer of `give` is `wouldAccept`**: it does not depend on the order in which the
downstream devices are tried, nor on anything but the acceptance-relevant state. -/
theorem give_answer_eq (f : Nat) : ∀ (w : World) (x p : Nat), KOK w → PV w p →
    (give f w x p).2 = wouldAcceptT f w x p (w.part p).stack := by
  induction f with
  | zero => intro w x p _ _; rfl
  | succ f ih =>
    intro w x p hw hv
    have hT : ∀ (w' : World) (l : List Nat), KOK w' → PV w' p →
        (tryList (give f) w' l p).2 = l.any (fun y => wouldAcceptT f w' y p (w'.part p).stack) :=
      fun w' l hw' hv' => tryList_answer (fun w y hk hvv => ih w y p hk hvv)
        (fun w y w' h => give_ref f w y p w' h) l w' hw' hv'
    rw [give, wouldAcceptT]
    dsimp only
    cases hkind : (w.dev x).kind <;> simp only [hkind]
    case processor =>
      have ha := procAcquire_answer hw x
      cases hc : w.canAcceptBasic x p
      · simp
      · simp only [if_true, Bool.true_and]
        rcases hpa : w.procAcquire x with ⟨w1, b⟩
        rw [hpa] at ha
        dsimp only at ha
        rw [← ha]
        cases b <;> rfl
    case gate =>
      cases hgp : w.gatePred (w.dev x).pred p
      · simp
      · cases hcb : w.canAcceptBasic x p
        · simp
        · have hw1 : KOK (w.addHist p x) := fun z => by rw [dev_addHist]; exact hw z
          have hv1 : PV (w.addHist p x) p := hv.of_devs_len (addHist_devs w p x) (addHist_parts_length w p x)
          have hans := hT (w.addHist p x) ((w.addHist p x).sortedDown x) hw1 hv1
          have hperm : ((w.addHist p x).sortedDown x).Perm (w.dev x).down := by
            have := C08.sortedDown_perm (w.addHist p x) x
            rwa [dev_addHist] at this
          rw [any_perm hperm, addHist_part_stack] at hans
          simp only [wouldAcceptT_addHist] at hans
          simp only [Bool.not_true, Bool.false_eq_true, if_false, Bool.true_and, ← hans]
          split <;> simp_all
    case ginput =>
      cases hcb : w.canAcceptBasic x p
      · simp
      · have hans := hT w (w.sortedDown x) hw hv
        rw [any_perm (C08.sortedDown_perm w x)] at hans
        simp only [Bool.not_true, Bool.false_eq_true, if_false, Bool.true_and, ← hans]
    case gpath =>
      cases hb : (w.dev x).blockInput
      · simp only [Bool.false_eq_true, if_false, Bool.not_false, Bool.true_and]
        have hp : p < w.parts.length := by
          rcases hv with hv | hv
          · exact hv
          · exact absurd hkind (hv x).1
        -- the world in which the group input is asked
        have hw2 : KOK ((w.modPart p (fun r => { r with stack := r.stack ++ [x] })).addHist p x) :=
          fun z => by rw [dev_addHist]; exact hw z
        have hv2 : PV ((w.modPart p (fun r => { r with stack := r.stack ++ [x] })).addHist p x) p :=
          Or.inl (by rw [addHist_parts_length, modPart_parts_length]; exact hp)
        have hgi : (((w.modPart p (fun r => { r with stack := r.stack ++ [x] })).addHist p x).groups.getD
            (w.dev x).group default).input = groupIn w x := by
          rw [groups_noParts (addHist_noParts _ p x)]; rfl
        rw [hgi]
        have hans := ih ((w.modPart p (fun r => { r with stack := r.stack ++ [x] })).addHist p x)
          (groupIn w x) p hw2 hv2
        rw [addHist_part_stack, stack_push w hp, wouldAcceptT_addHist,
          wouldAcceptT_stackOp w p (fun s => s ++ [x])] at hans
        rw [← hans]
        split <;> simp_all
      · simp
    case goutput =>
      cases hl : (w.part p).stack.getLast? with
      | none => rfl
      | some g =>
        simp only []
        have hp : p < w.parts.length := by
          rcases hv with hv | hv
          · exact hv
          · exact absurd hkind (hv x).2.2
        have hw1 : KOK (w.modPart p (fun r => { r with stack := r.stack.dropLast })) := hw
        have hv1 : PV (w.modPart p (fun r => { r with stack := r.stack.dropLast })) p :=
          Or.inl (by rw [modPart_parts_length]; exact hp)
        have hans := hT _ ((w.modPart p (fun r => { r with stack := r.stack.dropLast })).sortedDown g)
          hw1 hv1
        have hperm : ((w.modPart p (fun r => { r with stack := r.stack.dropLast })).sortedDown g).Perm
            (w.dev g).down := C08.sortedDown_perm _ g
        rw [any_perm hperm, stack_pop w hp] at hans
        simp only [wouldAcceptT_stackOp w p (fun s => s.dropLast)] at hans
        rw [← hans]
        split <;> simp_all
    all_goals (split <;> simp_all)

theorem givePart_answer_eq (w : World) (x p : Nat) (hw : KOK w) (hv : PV w p) :
    (w.givePart x p).2 = wouldAccept w.fuel w x p := give_answer_eq _ w x p hw hv

theorem tryList_givePart_answer (w : World) (l : List Nat) (p : Nat) (hw : KOK w) (hv : PV w p) :
    (tryList givePart w l p).2 = l.any (fun y => wouldAccept w.fuel w y p) := by
  have key : ∀ (l : List Nat) (w' : World), w'.devs.length = w.devs.length → KOK w' → PV w' p →
      (tryList givePart w' l p).2 = l.any (fun y => wouldAccept w.fuel w' y p) := by
    intro l
    induction l with
    | nil => intro w' _ _ _; rfl
    | cons y ys ih =>
      intro w' hl hw' hv'
      rw [tryList]
      have h1 := givePart_answer_eq w' y p hw' hv'
      have hf : w'.fuel = w.fuel := by unfold World.fuel; rw [hl]
      rw [hf] at h1
      rcases hgy : givePart w' y p with ⟨w1, b⟩
      rw [hgy] at h1
      cases b
      · simp only [List.any_cons]
        have r := give_ref _ w' y p w1 hgy
        have hl1 : w1.devs.length = w.devs.length := (C08L.refFrame_devs_length r.ref.2).trans hl
        rw [ih w1 hl1 (hw'.of_refused r.ref) (hv'.of_refused r.ref), ← h1]
        simp only [Bool.false_or]
        exact List.any_congr rfl (fun z => wouldAccept_refused r w.fuel z p)
      · simp only [List.any_cons, ← h1, Bool.true_or]
  exact key l w rfl hw hv

/-! ### after a refusal the refuser refuses in the invariant's sense -/

theorem wouldAcceptN_noParts {w w' : World} (h : w'.noParts = w.noParts)
    (hg : ∀ pr p, w'.gatePred pr p = w.gatePred pr p) (hl : ∀ p, w'.leafCount p = w.leafCount p)
    (hs : ∀ p, (w'.part p).stack = (w.part p).stack)
    (f : Nat) (N A : List Nat) (y p : Nat) : wouldAcceptN f w' N A y p = wouldAcceptN f w N A y p := by
  unfold wouldAcceptN
  rw [hs]
  exact wouldAcceptS_parts h (fun pr => hg pr p) (hl p) f N A y _

theorem wouldAcceptS_addHist (w : World) (q x : Nat) (f : Nat) (N A : List Nat) (y p : Nat)
    (stk : List Nat) : wouldAcceptS f (w.addHist q x) N A y p stk = wouldAcceptS f w N A y p stk :=
  wouldAcceptS_parts (addHist_noParts w q x) (fun pr => addHist_gatePred w q x pr p)
    (addHist_leafCount w q x p) f N A y stk

theorem wouldAcceptS_dropHist (w : World) (q : Nat) (f : Nat) (N A : List Nat) (y p : Nat)
    (stk : List Nat) : wouldAcceptS f (w.dropHist q) N A y p stk = wouldAcceptS f w N A y p stk :=
  wouldAcceptS_parts (dropHist_noParts w q) (fun pr => dropHist_gatePred w q pr p)
    (dropHist_leafCount w q p) f N A y stk

/-- a refused offer round: afterwards every device of the round refuses (in the invariant's
sense) -/
theorem tryList_refusedR {g : World → Nat → Nat → World × Bool} {f p : Nat} {stk : List Nat}
    (hg : ∀ w y w', KOK w → PV w p → (w.part p).stack = stk → g w y p = (w', false) →
      wouldAcceptS f w' [] [] y p stk = false)
    (hr : ∀ w y w', g w y p = (w', false) → Ref w w') :
    ∀ (l : List Nat) (w w' : World), KOK w → PV w p → (w.part p).stack = stk →
      tryList g w l p = (w', false) → ∀ y ∈ l, wouldAcceptS f w' [] [] y p stk = false := by
  intro l
  induction l with
  | nil => intro w w' _ _ _ _ y hy; cases hy
  | cons z zs ih =>
    intro w w' hw hv hs h y hy
    rcases hgz : g w z p with ⟨w1, b⟩
    cases b
    · rw [C08L.tryList_cons_false _ hgz] at h
      have r1 := hr w z w1 hgz
      rcases List.mem_cons.mp hy with rfl | hy
      · have h1 := hg w y w1 hw hv hs hgz
        have r2 : Ref w1 w' := tryList_ref hr h
        cases hh : wouldAcceptS f w' [] [] y p stk with
        | false => rfl
        | true => rw [wouldAcceptS_ref r2 [] f y p stk hh] at h1; cases h1
      · exact ih w1 w' (hw.of_refused r1.ref) (hv.of_refused r1.ref)
          (by rw [part_congr r1.ref.1]; exact hs) h y hy
    · rw [C08L.tryList_cons_true _ hgz] at h
      simp at h

theorem accM_false_of_cab {w : World} {x p : Nat} (h : w.canAcceptBasic x p = false) :
    accM w x p = false := by
  unfold accM; rw [h]; rfl

/-- **A refused `give` leaves the refuser refusing** (in the invariant's sense: a processor that
refused for want of resources is registered with the manager afterwards). -/
theorem give_refusedR (f : Nat) : ∀ (w : World) (x p : Nat) (w' : World), KOK w → PV w p →
    give f w x p = (w', false) → wouldAcceptS f w' [] [] x p (w.part p).stack = false := by
  induction f with
  | zero => intro w x p w' _ _ _; rfl
  | succ f ih =>
    intro w x p w' hw hv h
    have hT : ∀ (w0 w1 : World) (l : List Nat), KOK w0 → PV w0 p →
        tryList (give f) w0 l p = (w1, false) →
        ∀ y ∈ l, wouldAcceptS f w1 [] [] y p (w0.part p).stack = false :=
      fun w0 w1 l hk0 hv0 ht => tryList_refusedR (stk := (w0.part p).stack)
        (fun w y w' hk hvv hss hh => by rw [← hss]; exact ih w y p w' hk hvv hh)
        (fun w y w' hh => give_ref f w y p w' hh) l w0 w1 hk0 hv0 rfl ht
    unfold wouldAcceptS
    simp only [List.contains_nil, Bool.false_and, Bool.false_eq_true, if_false, Bool.false_or]
    rw [give] at h
    dsimp only at h
    cases hk : (w.dev x).kind <;> simp only [hk] at h
    case processor =>
      split at h
      · next hc =>
        rcases hpa : w.procAcquire x with ⟨w1, b⟩
        rw [hpa] at h
        cases b
        · have : w1 = w' := by simpa using h
          subst this
          have hk1 : (w1.dev x).kind = .processor := by
            have := procAcquire_dev_field Dev.kind (fun _ _ _ => rfl) w x x
            rw [hpa] at this; rw [this]; exact hk
          simp only [hk1, accM]
          have hpm : procM (w1.dev x) = false := by
            cases hq : (w.dev x).resReq with
            | none => rw [procAcquire_noop w x (Or.inl hq)] at hpa; cases hpa
            | some req =>
              cases hres : (w.dev x).reserved with
              | some id =>
                rw [procAcquire_noop w x (Or.inr (by rw [hres]; rfl))] at hpa; cases hpa
              | none =>
                have hnn : ∀ e ∈ req, 0 ≤ e.2 := (hw x).2 req (by rw [hq]; simp)
                have hx := valid_of_resReq hq
                by_cases hf : C09.fits w.rm req
                · rw [procAcquire_fits w x req hq hres hnn hf] at hpa; cases hpa
                · rw [procAcquire_not_fits w x req hq hres hnn hf] at hpa
                  split at hpa
                  · next hfl =>
                    have : w = w1 := by simpa using hpa
                    subst this
                    unfold procM; rw [hk, hq, hres, hfl]; rfl
                  · have : _ = w1 := (Prod.mk.inj hpa).1
                    subst this
                    rw [dev_modDev_same (by rw [rmEffects_devs]; exact hx), dev_rmEffects]
                    show procM { w.dev x with waitingRes := true } = false
                    unfold procM
                    simp only [hk, hq, hres]
                    rfl
          rw [hpm, Bool.and_false]
        · cases h
      · next hc =>
        have : w = w' := by simpa using h
        subst this
        have hc' : w.canAcceptBasic x p = false := by simpa using hc
        simp only [hk, accM_false_of_cab hc']
    case gate =>
      split at h
      · next hp =>
        have : w = w' := by simpa using h
        subst this
        have hp' : w.gatePred (w.dev x).pred p = false := by simpa using hp
        simp only [hk, hp', Bool.false_and]
      · split at h
        · next hc =>
          have : w = w' := by simpa using h
          subst this
          have hc' : w.canAcceptBasic x p = false := by simpa using hc
          simp only [hk, accM_false_of_cab hc', Bool.false_and, Bool.and_false]
        · rcases ht : tryList (give f) (w.addHist p x) ((w.addHist p x).sortedDown x) p with ⟨w1, b⟩
          rw [ht] at h
          cases b
          · have : w1.dropHist p = w' := by simpa using h
            subst this
            have hw1 : KOK (w.addHist p x) := fun z => by rw [dev_addHist]; exact hw z
            have hv1 : PV (w.addHist p x) p :=
              hv.of_devs_len (addHist_devs w p x) (addHist_parts_length w p x)
            have hall := hT _ _ _ hw1 hv1 ht
            rw [addHist_part_stack] at hall
            have hr : Ref (w.addHist p x) w1 := tryList_ref (fun w y w' hh => give_ref f w y p w' hh) ht
            have hte := topoEq_refused hr.ref
            have hdn : ((w1.dropHist p).dev x).down = (w.dev x).down := by
              rw [dev_dropHist, hte.down, dev_addHist]
            have hkk : ((w1.dropHist p).dev x).kind = .gate := by
              rw [dev_dropHist, hte.kind, dev_addHist]; exact hk
            simp only [hkk, hdn]
            have : (w.dev x).down.any
                (fun y => wouldAcceptS f (w1.dropHist p) [] [] y p (w.part p).stack) = false := by
              rw [List.any_eq_false]
              intro y hy
              rw [wouldAcceptS_dropHist]
              have hy' : y ∈ (w.addHist p x).sortedDown x := by
                rw [C08.sortedDown_mem, dev_addHist]; exact hy
              rw [hall y hy']; simp
            rw [this, Bool.and_false]
          · cases h
    case ginput =>
      split at h
      · next hc =>
        have : w = w' := by simpa using h
        subst this
        have hc' : w.canAcceptBasic x p = false := by simpa using hc
        simp only [hk, accM_false_of_cab hc', Bool.false_and]
      · have hall := hT _ _ _ hw hv h
        have hr : Ref w w' := tryList_ref (fun w y w' hh => give_ref f w y p w' hh) h
        have hte := topoEq_refused hr.ref
        simp only [hte.kind, hk, hte.down]
        have : (w.dev x).down.any (fun y => wouldAcceptS f w' [] [] y p (w.part p).stack) = false := by
          rw [List.any_eq_false]
          intro y hy
          rw [hall y ((C08.sortedDown_mem w x y).mpr hy)]; simp
        rw [this, Bool.and_false]
    case gpath =>
      split at h
      · next hb =>
        have : w = w' := by simpa using h
        subst this
        have : accM w x p = false := by
          rw [accM_ctrl (by rw [hk]; rfl), canAcceptBasic_ctrl (by rw [hk]; rfl), hb]; rfl
        simp only [hk, this, Bool.false_and]
      · have hp : p < w.parts.length := by
          rcases hv with hv | hv
          · exact hv
          · exact absurd hk (hv x).1
        have hgi : (((w.modPart p (fun r => { r with stack := r.stack ++ [x] })).addHist p x).groups.getD
            (w.dev x).group default).input = groupIn w x := by
          rw [groups_noParts (addHist_noParts _ p x)]; rfl
        rw [hgi] at h
        rcases hgv : give f ((w.modPart p (fun r => { r with stack := r.stack ++ [x] })).addHist p x)
            (groupIn w x) p with ⟨w3, b⟩
        rw [hgv] at h
        cases b
        · have hw' : (w3.modPart p (fun r => { r with stack := r.stack.dropLast })).dropHist p = w' :=
            (Prod.mk.inj h).1
          subst hw'
          have hw2 : KOK ((w.modPart p (fun r => { r with stack := r.stack ++ [x] })).addHist p x) :=
            fun z => by rw [dev_addHist]; exact hw z
          have hv2 : PV ((w.modPart p (fun r => { r with stack := r.stack ++ [x] })).addHist p x) p :=
            Or.inl (by rw [addHist_parts_length, modPart_parts_length]; exact hp)
          have h1 := ih _ _ _ _ hw2 hv2 hgv
          rw [addHist_part_stack, stack_push w hp] at h1
          have hr : Ref ((w.modPart p (fun r => { r with stack := r.stack ++ [x] })).addHist p x) w3 :=
            give_ref f _ _ p w3 hgv
          have hte := topoEq_refused hr.ref
          have hkk : (((w3.modPart p (fun r => { r with stack := r.stack.dropLast })).dropHist p).dev
              x).kind = .gpath := by
            rw [dev_dropHist, dev_modPart, hte.kind, dev_addHist, dev_modPart]; exact hk
          have hgi2 : groupIn ((w3.modPart p (fun r => { r with stack := r.stack.dropLast })).dropHist p) x
              = groupIn w x := by
            unfold groupIn
            rw [dev_dropHist, dev_modPart, hte.group, dev_addHist, dev_modPart,
              groups_noParts (dropHist_noParts _ p)]
            show (w3.groups.getD _ default).input = _
            rw [hte.groups, groups_noParts (addHist_noParts _ p x)]
            rfl
          simp only [hkk, hgi2]
          rw [wouldAcceptS_dropHist, wouldAcceptS_stackOp w3 p (fun s => s.dropLast), h1,
            Bool.and_false]
        · cases h
    case goutput =>
      cases hl : (w.part p).stack.getLast? with
      | none =>
        rw [hl] at h
        have : w.setErr "no-group-path" = w' := by simpa using h
        subst this
        simp only [dev_setErr, hk]
      | some g =>
        simp only [hl] at h ⊢
        have hp : p < w.parts.length := by
          rcases hv with hv | hv
          · exact hv
          · exact absurd hk (hv x).2.2
        rcases ht : tryList (give f) (w.modPart p (fun r => { r with stack := r.stack.dropLast }))
            ((w.modPart p (fun r => { r with stack := r.stack.dropLast })).sortedDown g) p with ⟨w2, b⟩
        rw [ht] at h
        cases b
        · have hw' : w2.modPart p (fun r => { r with stack := r.stack ++ [g] }) = w' :=
            (Prod.mk.inj h).1
          subst hw'
          have hw1 : KOK (w.modPart p (fun r => { r with stack := r.stack.dropLast })) := hw
          have hv1 : PV (w.modPart p (fun r => { r with stack := r.stack.dropLast })) p :=
            Or.inl (by rw [modPart_parts_length]; exact hp)
          have hall := hT _ _ _ hw1 hv1 ht
          rw [stack_pop w hp] at hall
          have hr : Ref (w.modPart p (fun r => { r with stack := r.stack.dropLast })) w2 :=
            tryList_ref (fun w y w' hh => give_ref f w y p w' hh) ht
          have hte := topoEq_refused hr.ref
          have hkk : ((w2.modPart p (fun r => { r with stack := r.stack ++ [g] })).dev x).kind =
              .goutput := by rw [dev_modPart, hte.kind, dev_modPart]; exact hk
          have hdn : ((w2.modPart p (fun r => { r with stack := r.stack ++ [g] })).dev g).down =
              (w.dev g).down := by rw [dev_modPart, hte.down, dev_modPart]
          simp only [hkk, hdn]
          have : (w.dev g).down.any (fun y => wouldAcceptS f
              (w2.modPart p (fun r => { r with stack := r.stack ++ [g] })) [] [] y p
              (w.part p).stack.dropLast) = false := by
            rw [List.any_eq_false]
            intro y hy
            rw [wouldAcceptS_stackOp w2 p (fun s => s ++ [g])]
            have hy' : y ∈ (w.modPart p (fun r => { r with stack := r.stack.dropLast })).sortedDown g := by
              rw [C08.sortedDown_mem, dev_modPart]; exact hy
            rw [hall y hy']; simp
          rw [this, Bool.and_false]
        · cases h
    all_goals
      (split at h
       · simp at h
       · next hc =>
         have : w = w' := by simpa using h
         subst this
         have hc' : w.canAcceptBasic x p = false := by simpa using hc
         simp only [hk, accM_false_of_cab hc'])

/-! ### controller chains -/

/-- one step of an offer through a controller, with the number of recursion levels the notification
dispatch spends on the way back -/
inductive CEdge (w : World) : Nat → Nat → Nat → Prop
  | gate {y z : Nat} : (w.dev y).kind = .gate → z ∈ (w.dev y).down → CEdge w y z 2
  | ginput {y z : Nat} : (w.dev y).kind = .ginput → z ∈ (w.dev y).down → CEdge w y z 2
  | gpath {y : Nat} : (w.dev y).kind = .gpath → CEdge w y (groupIn w y) 1
  | goutput {y z : Nat} (g : Nat) : (w.dev y).kind = .goutput → (w.dev g).kind = .gpath →
      groupOut w g = y → z ∈ (w.dev g).down → CEdge w y z 3

/-- `CChain w l k y x`: an offer to `y` is passed on through `l` controllers to `x`; the way back
costs the notification dispatch `k` recursion levels. -/
inductive CChain (w : World) : Nat → Nat → Nat → Nat → Prop
  | here (x : Nat) : CChain w 0 0 x x
  | step {l k c y z x : Nat} : CEdge w y z c → CChain w l k z x → CChain w (l + 1) (c + k) y x

theorem CEdge.isCtrl {w : World} {y z c : Nat} (h : CEdge w y z c) :
    isCtrl (w.dev y).kind = true ∧ c = ccost (w.dev y).kind := by
  cases h with
  | gate hk _ => rw [hk]; exact ⟨rfl, rfl⟩
  | ginput hk _ => rw [hk]; exact ⟨rfl, rfl⟩
  | gpath hk => rw [hk]; exact ⟨rfl, rfl⟩
  | goutput g hk _ _ _ => rw [hk]; exact ⟨rfl, rfl⟩

theorem kind_lt' {w : World} {x : Nat} (hk : (w.dev x).kind ≠ .handler) : x < w.devs.length := by
  apply Nat.lt_of_not_le
  intro hc
  rw [dev_of_length_le hc] at hk
  exact hk rfl

/-- the group paths that lead out through a group output are paths of its group -/
theorem mem_groupPaths {w : World} (hs : SC w) {g y : Nat} (hg : (w.dev g).kind = .gpath)
    (ho : groupOut w g = y) : g ∈ groupPaths w y := by
  have hgl : g < w.devs.length := kind_lt' (by rw [hg]; decide)
  obtain ⟨h2, _⟩ := hs.groupOK hgl
  obtain ⟨_, _, _, _, _, h6, h7⟩ := h2 hg
  unfold groupPaths at h7 ⊢
  rw [← ho, h6]
  exact h7

theorem CEdge.succ {w : World} (hs : SC w) {y z c : Nat} (h : CEdge w y z c) : z ∈ csucc w y := by
  cases h with
  | gate hk hz => unfold csucc; rw [hk]; exact hz
  | ginput hk hz => unfold csucc; rw [hk]; exact hz
  | gpath hk => unfold csucc; rw [hk]; exact List.mem_singleton.mpr rfl
  | goutput g hk hg ho hz =>
    unfold csucc; rw [hk]
    exact List.mem_flatMap.mpr ⟨g, mem_groupPaths hs hg ho, hz⟩

/-- the static bound on controller chains -/
theorem CChain.bound {w : World} (hs : SC w) {l k y x : Nat} (h : CChain w l k y x) :
    ∀ n b, costLe n w b y = true → l ≤ n ∧ k ≤ b := by
  induction h with
  | here x => intro n b _; exact ⟨Nat.zero_le _, Nat.zero_le _⟩
  | @step l k c y z x he _ ih =>
    intro n b hc
    obtain ⟨hctrl, hcost⟩ := he.isCtrl
    cases n with
    | zero => simp [costLe, hctrl] at hc
    | succ n =>
      simp only [costLe, hctrl, Bool.not_true, Bool.false_or, Bool.and_eq_true, decide_eq_true_eq,
        List.all_eq_true] at hc
      obtain ⟨h1, h2⟩ := ih n _ (hc.2 z (he.succ hs))
      rw [← hcost] at hc h2
      exact ⟨by omega, by omega⟩

theorem CChain.toCReach {w : World} (hs : SC w) {l k y x : Nat} (h : CChain w l k y x) :
    ∀ f, l ≤ f → cReach f w y x = true := by
  induction h with
  | here x => intro f _; cases f <;> simp [cReach]
  | @step l k c y z x he _ ih =>
    intro f hf
    cases f with
    | zero => omega
    | succ f =>
      simp only [cReach, he.isCtrl.1, Bool.true_and, Bool.or_eq_true, List.any_eq_true]
      exact Or.inr ⟨z, he.succ hs, ih f (by omega)⟩

/-- **Localisation**: if `y` accepts with the masks `N'`, `A'` but not with `N ⊆ N' ∪ {x}`,
`A ⊇ A' \ {x}`, then `x` is reached from `y` through controllers, and `x` itself is willing (with
the mask `A'`). -/
theorem wouldAcceptS_local {w : World} {N N' A A' : List Nat} {x p : Nat}
    (hN : ∀ z ∈ N, z ∈ N' ∨ z = x) (hA : ∀ z ∈ A', z ∈ A ∨ z = x) :
    ∀ f y stk, wouldAcceptS f w N' A' y p stk = true → wouldAcceptS f w N A y p stk = false →
      ∃ l k, CChain w l k y x ∧ (A'.contains x || accM w x p) = true := by
  intro f
  induction f with
  | zero => intro y stk h; cases h
  | succ f ih =>
    intro y stk h h'
    unfold wouldAcceptS at h h'
    by_cases hgo : (w.dev y).kind = .goutput
    · simp only [hgo, bne_self_eq_false, Bool.and_false, Bool.false_eq_true, if_false] at h h'
      cases hl : stk.getLast? with
      | none => simp [hl] at h
      | some g =>
        simp only [hl, Bool.and_eq_true, List.any_eq_true, beq_iff_eq] at h
        obtain ⟨⟨h1, h2⟩, z, hz, h3⟩ := h
        simp only [hl, h1, h2, beq_self_eq_true, Bool.and_self, Bool.true_and] at h'
        have h4 : wouldAcceptS f w N A z p stk.dropLast = false := by
          cases hh : wouldAcceptS f w N A z p stk.dropLast with
          | false => rfl
          | true =>
            have : (w.dev g).down.any (fun y => wouldAcceptS f w N A y p stk.dropLast) = true :=
              List.any_eq_true.mpr ⟨z, hz, hh⟩
            rw [this] at h'; cases h'
        obtain ⟨l, k, hc, hx⟩ := ih z _ h3 h4
        exact ⟨l + 1, 3 + k, .step (.goutput g hgo h1 h2 hz) hc, hx⟩
    · have hne : ((w.dev y).kind != Kind.goutput) = true := by simpa using hgo
      rw [hne, Bool.and_true] at h h'
      by_cases hy' : y ∈ N'
      · simp [hy'] at h
      · have e1 : N'.contains y = false := by simpa using hy'
        rw [e1] at h
        simp only [Bool.false_eq_true, if_false] at h
        -- the local answer of `y` with the mask `A'`
        have hloc : (A'.contains y || accM w y p) = true := by
          cases hkind : (w.dev y).kind <;> simp only [hkind] at h
          case gate => simp only [Bool.and_eq_true] at h; exact h.1.2
          case ginput => simp only [Bool.and_eq_true] at h; exact h.1
          case gpath => simp only [Bool.and_eq_true] at h; exact h.1
          case goutput => exact absurd hkind hgo
          all_goals first | exact h | cases h
        by_cases hy : y ∈ N
        · have : y = x := (hN y hy).resolve_left hy'
          subst this
          exact ⟨0, 0, .here _, hloc⟩
        · have e2 : N.contains y = false := by simpa using hy
          rw [e2] at h'
          simp only [Bool.false_eq_true, if_false] at h'
          have key : (A.contains y || accM w y p) = false → y = x := by
            intro ha'
            have ha := hloc
            rw [Bool.or_eq_false_iff] at ha'
            rw [ha'.2, Bool.or_false] at ha
            have hm : y ∈ A' := by simpa using ha
            rcases hA y hm with h1 | h1
            · have : A.contains y = true := by simpa using h1
              rw [this] at ha'; cases ha'.1
            · exact h1
          cases ha : (A.contains y || accM w y p) with
          | false =>
            have := key ha
            subst this
            exact ⟨0, 0, .here _, hloc⟩
          | true =>
            cases hkind : (w.dev y).kind <;> simp only [hkind, ha] at h h'
            case gate =>
              simp only [Bool.and_eq_true, List.any_eq_true] at h
              obtain ⟨⟨h1, _⟩, z, hz, h3⟩ := h
              rw [h1, Bool.true_and, Bool.true_and] at h'
              have h4 : wouldAcceptS f w N A z p stk = false := by
                cases hh : wouldAcceptS f w N A z p stk with
                | false => rfl
                | true =>
                  have : (w.dev y).down.any (fun y => wouldAcceptS f w N A y p stk) = true :=
                    List.any_eq_true.mpr ⟨z, hz, hh⟩
                  rw [this] at h'; cases h'
              obtain ⟨l, k, hc, hx⟩ := ih z _ h3 h4
              exact ⟨l + 1, 2 + k, .step (.gate hkind hz) hc, hx⟩
            case ginput =>
              simp only [Bool.and_eq_true, List.any_eq_true] at h
              obtain ⟨_, z, hz, h3⟩ := h
              rw [Bool.true_and] at h'
              have h4 : wouldAcceptS f w N A z p stk = false := by
                cases hh : wouldAcceptS f w N A z p stk with
                | false => rfl
                | true =>
                  have : (w.dev y).down.any (fun y => wouldAcceptS f w N A y p stk) = true :=
                    List.any_eq_true.mpr ⟨z, hz, hh⟩
                  rw [this] at h'; cases h'
              obtain ⟨l, k, hc, hx⟩ := ih z _ h3 h4
              exact ⟨l + 1, 2 + k, .step (.ginput hkind hz) hc, hx⟩
            case gpath =>
              simp only [Bool.and_eq_true] at h
              rw [Bool.true_and] at h'
              obtain ⟨l, k, hc, hx⟩ := ih _ _ h.2 h'
              exact ⟨l + 1, 1 + k, .step (.gpath hkind) hc, hx⟩
            case goutput => exact absurd hkind hgo
            all_goals first
              | cases h'
              | cases h

/-! ### the route of the notification back along a controller chain -/

/-- `x` hands a notification on to its upstream neighbours, or to the paths of its group -/
def NodeOK (w : World) (x : Nat) : Prop := forwardsUp w x = true ∨ (w.dev x).kind = .ginput

theorem nodeOK_ctrl {w : World} {y z c : Nat} (h : CEdge w y z c) : NodeOK w y := by
  unfold NodeOK forwardsUp
  cases h with
  | gate hk _ => left; rw [hk]
  | ginput hk _ => right; exact hk
  | gpath hk => left; rw [hk]
  | goutput g hk _ _ _ => left; rw [hk]

theorem forwards_of_up {w : World} (hs : SC w) {z u : Nat} (hz : z < w.devs.length)
    (h : NodeOK w z) (hu : u ∈ (w.dev z).up) : forwardsUp w z = true := by
  rcases h with h | h
  · exact h
  · have := (hs.groupOK hz).2 h
    rw [this] at hu; cases hu

/-- one edge back -/
theorem CEdge.back {w : World} (hs : SC w) {y z c d n : Nat} (he : CEdge w y z c)
    (hy : y < w.devs.length) (hz : NodeOK w z) (hr : C03.Reach w true n y d) :
    z < w.devs.length ∧ C03.Reach w true (n + c) z d := by
  cases he with
  | gate hk hzd =>
    obtain ⟨hzl, hyz⟩ := hs.down_sym hy hzd
    exact ⟨hzl, .up (forwards_of_up hs hzl hz hyz) hyz (.fwd (Or.inl hk) hr)⟩
  | ginput hk hzd =>
    obtain ⟨hzl, hyz⟩ := hs.down_sym hy hzd
    exact ⟨hzl, .up (forwards_of_up hs hzl hz hyz) hyz (.fwd (Or.inr (Or.inl hk)) hr)⟩
  | gpath hk =>
    obtain ⟨h1, h2, h3, _, _, _, h7⟩ := (hs.groupOK hy).1 hk
    refine ⟨h1, .paths h2 ?_ hr⟩
    unfold groupPaths at h7
    rw [h3]; exact h7
  | goutput g hk hg ho hzd =>
    have hgl : g < w.devs.length := kind_lt' (by rw [hg]; decide)
    obtain ⟨hzl, hgz⟩ := hs.down_sym hgl hzd
    refine ⟨hzl, ?_⟩
    have h1 : C03.Reach w false (n + 1) y d := .fwd (Or.inr (Or.inr hk)) hr
    have h2 : C03.Reach w false (n + 1 + 1) g d := .gpath hg (by
      show C03.Reach w false (n + 1) (groupOut w g) d
      rw [ho]; exact h1)
    exact .up (forwards_of_up hs hzl hz hgz) hgz h2

/-- **The route back**: a notification that `y` hands on arrives (within `n` levels) at `d`; then a
notification of `x` arrives at `d` within `n + k` levels. -/
theorem CChain.reach {w : World} (hs : SC w) {d : Nat} {l k y x : Nat} (h : CChain w l k y x) :
    ∀ n, y < w.devs.length → NodeOK w x → C03.Reach w true n y d → C03.Reach w true (n + k) x d := by
  induction h with
  | here x => intro n _ _ hr; exact hr
  | @step l k c y z x he hrest ih =>
    intro n hy hx hr
    have hz : NodeOK w z := by
      cases hrest with
      | here _ => exact hx
      | step he' _ => exact nodeOK_ctrl he'
    obtain ⟨hzl, hr'⟩ := he.back hs hy hz hr
    have := ih (n + c) hzl hx hr'
    rw [Nat.add_assoc] at this
    exact this

/-! ### a hand-over never touches a device it cannot reach through controllers -/

theorem same_dropHist (x : Nat) (w : World) (p : Nat) : SameD x w (w.dropHist p) :=
  ⟨by rw [dev_dropHist], by rw [dropHist_devs], by
    unfold World.now
    have : (w.dropHist p).noParts = w.noParts := dropHist_noParts w p
    have := congrArg (fun v : World => v.env.now) this
    exact this,
    fun z => by rw [dev_dropHist]⟩

theorem sameD_modPart (x : Nat) (w : World) (p : Nat) (g : PartRec → PartRec) :
    SameD x w (w.modPart p g) := ⟨rfl, rfl, rfl, fun _ => rfl⟩

theorem cReach_self (f : Nat) (w : World) (x : Nat) : cReach f w x x = true := by
  cases f <;> simp [cReach]

/-- static facts a refusal preserves: no source is anybody's downstream neighbour, the group records
are consistent (a group path is registered with the group of its group output) -/
structure HK (w : World) : Prop where
  src : ∀ z, ∀ y ∈ csucc w z, (w.dev y).kind ≠ .source
  src' : ∀ z, ∀ y ∈ (w.dev z).down, (w.dev y).kind ≠ .source
  reg : ∀ g, (w.dev g).kind = .gpath → g ∈ groupPaths w (groupOut w g)

theorem csucc_topo {w w' : World} (h : TopoEq w w') (z : Nat) : csucc w' z = csucc w z := by
  unfold csucc groupPaths
  rw [h.kind, h.down, h.groupIn, h.group, h.groups]
  cases (w.dev z).kind <;> simp only []
  congr 1
  funext g
  rw [h.down]

theorem HK.of_topo {w w' : World} (h : HK w) (t : TopoEq w w') : HK w' := by
  refine ⟨fun z y hy => ?_, fun z y hy => ?_, fun g hg => ?_⟩
  · rw [csucc_topo t] at hy; rw [t.kind]; exact h.src z y hy
  · rw [t.down] at hy; rw [t.kind]; exact h.src' z y hy
  · rw [t.kind] at hg
    have := h.reg g hg
    unfold groupPaths groupOut at this ⊢
    rw [t.group, t.group, t.groups]; exact this

theorem HK.of_refused {w w' : World} (h : HK w) (r : C08L.Refused w w') : HK w' :=
  h.of_topo (topoEq_refused r)

theorem cReach_topo {w w' : World} (t : TopoEq w w') :
    ∀ f y x, cReach f w' y x = cReach f w y x := by
  intro f
  induction f with
  | zero => intro y x; rfl
  | succ f ih => intro y x; simp only [cReach, t.kind, csucc_topo t, ih]

theorem cReach_refused {w w' : World} (r : C08L.Refused w w') (f y x : Nat) :
    cReach f w' y x = cReach f w y x := cReach_topo (topoEq_refused r) f y x

theorem SC.hk {w : World} (h : SC w) : HK w := by
  have hsrc : ∀ z, ∀ y ∈ (w.dev z).down, (w.dev y).kind ≠ .source := by
    intro z y hy hk
    by_cases hz : z < w.devs.length
    · have := (h.down_sym hz hy).2
      rw [h.source_up y hk] at this; cases this
    · rw [dev_of_length_le (Nat.le_of_not_lt hz)] at hy; cases hy
  refine ⟨fun z y hy hk => ?_, hsrc, fun g hg => mem_groupPaths h hg rfl⟩
  · unfold csucc at hy
    cases hkz : (w.dev z).kind <;> simp only [hkz] at hy
    case gate => exact hsrc z y hy hk
    case ginput => exact hsrc z y hy hk
    case gpath =>
      rw [List.mem_singleton] at hy
      have hzl : z < w.devs.length := kind_lt' (by rw [hkz]; decide)
      have := ((h.groupOK hzl).1 hkz).2.1
      rw [← hy, hk] at this; cases this
    case goutput =>
      obtain ⟨g, _, hyg⟩ := List.mem_flatMap.mp hy
      exact hsrc g y hyg hk
    all_goals cases hy

theorem stkOK_refused {w w' : World} (h : StkOK w) (r : C08L.Refused w w') : StkOK w' :=
  h.map (topoEq_refused r).kind (fun h2 q g hg => by rw [part_congr r.1] at hg; exact h2 q g hg)

theorem stkOK_modPart {w : World} (h : StkOK w) (p : Nat) (g : PartRec → PartRec)
    (hg : (∀ x ∈ (w.part p).stack, (w.dev x).kind = .gpath) →
      ∀ x ∈ (g (w.part p)).stack, (w.dev x).kind = .gpath) :
    StkOK (w.modPart p g) :=
  h.map (fun _ => rfl) (fun h2 q x hx => by
    rw [part_modPart] at hx
    split at hx
    · exact hg (h2 p) x hx
    · exact h2 q x hx)

theorem stkOK_addHist {w : World} (h : StkOK w) (p d : Nat) : StkOK (w.addHist p d) :=
  h.map (fun _ => by rw [dev_addHist]) (fun h2 q x hx => by
    rw [addHist_part_stack] at hx
    exact h2 q x hx)

theorem consS_topo {w w' : World} (t : TopoEq w w') :
    ∀ f x stk, consS f w' x stk = consS f w x stk := by
  intro f
  induction f with
  | zero => intro x stk; rfl
  | succ f ih =>
    intro x stk
    simp only [consS, t.kind, t.down, t.groupIn, t.groupOut, ih]

theorem consS_refused {w w' : World} (r : C08L.Refused w w') (f x : Nat) (stk : List Nat) :
    consS f w' x stk = consS f w x stk := consS_topo (topoEq_refused r) f x stk

theorem same_tryList_ctrl (x f p : Nat)
    (ih : ∀ (w : World) (y : Nat), HK w → StkOK w → p < w.parts.length → (w.dev y).kind ≠ .source →
      cReach f w y x = false → consS f w y (w.part p).stack = true → SameD x w (give f w y p).1) :
    ∀ (l : List Nat) (w : World), HK w → StkOK w → p < w.parts.length →
      (∀ y ∈ l, (w.dev y).kind ≠ .source ∧ cReach f w y x = false ∧
        consS f w y (w.part p).stack = true) →
      SameD x w (tryList (give f) w l p).1 := by
  intro l
  induction l with
  | nil => intro w _ _ _ _; exact .refl x w
  | cons y ys ihl =>
    intro w hw hs hp hl
    rw [tryList]
    have h1 := ih w y hw hs hp (hl y (List.mem_cons_self ..)).1 (hl y (List.mem_cons_self ..)).2.1
      (hl y (List.mem_cons_self ..)).2.2
    rcases hg : give f w y p with ⟨w1, b⟩
    rw [hg] at h1
    cases b
    · dsimp only
      have r := C08L.give_refused f w y p w1 hg
      refine h1.trans (ihl w1 (hw.of_refused r) (stkOK_refused hs r) (by rw [r.1]; exact hp)
        (fun z hz => ?_))
      have := hl z (List.mem_cons_of_mem _ hz)
      rw [cReach_refused r, h1.kind z, consS_refused r, part_congr r.1]
      exact this
    · exact h1

theorem same_give_ctrl (x : Nat) (f : Nat) : ∀ (w : World) (y p : Nat), HK w → StkOK w →
    p < w.parts.length → (w.dev y).kind ≠ .source → cReach f w y x = false →
    consS f w y (w.part p).stack = true → SameD x w (give f w y p).1 := by
  induction f with
  | zero => intro w y p _ _ _ _ _ _; rw [give]; exact .of_same (same_setErr x w _)
  | succ f ih =>
    intro w y p hw hst hp hsrc hr hcs
    simp only [cReach, Bool.or_eq_false_iff, beq_eq_false_iff_ne, ne_eq] at hr
    obtain ⟨hyx, hr2⟩ := hr
    have hsucc : isCtrl (w.dev y).kind = true → ∀ z ∈ csucc w y, cReach f w z x = false := by
      intro hc z hz
      rw [hc, Bool.true_and] at hr2
      cases hh : cReach f w z x with
      | false => rfl
      | true =>
        have : (csucc w y).any (fun z => cReach f w z x) = true := List.any_eq_true.mpr ⟨z, hz, hh⟩
        rw [this] at hr2; cases hr2
    have hT := same_tryList_ctrl x f p (fun w y => ih w y p)
    unfold consS at hcs
    cases hk : (w.dev y).kind
    case source => exact absurd hk hsrc
    case gate =>
      have hs1 := hsucc (by rw [hk]; rfl)
      have hcs1 : ∀ z ∈ (w.dev y).down, consS f w z (w.part p).stack = true := by
        simp only [hk] at hcs; exact List.all_eq_true.mp hcs
      have hcs : csucc w y = (w.dev y).down := by unfold csucc; rw [hk]
      rw [give]
      simp only [hk]
      split
      · exact .refl x w
      · split
        · exact .refl x w
        · have hte : TopoEq w (w.addHist p y) :=
            .of_devs (addHist_devs w p y) (groups_noParts (addHist_noParts w p y))
          have hl : ∀ z ∈ (w.addHist p y).sortedDown y,
              ((w.addHist p y).dev z).kind ≠ .source ∧ cReach f (w.addHist p y) z x = false ∧
              consS f (w.addHist p y) z ((w.addHist p y).part p).stack = true := by
            intro z hz
            have hz' : z ∈ (w.dev y).down := by
              have := (C08.sortedDown_mem (w.addHist p y) y z).mp hz
              rwa [dev_addHist] at this
            rw [dev_addHist, cReach_topo hte, consS_topo hte, addHist_part_stack]
            exact ⟨hw.src' y z hz', hs1 z (by rw [hcs]; exact hz'), hcs1 z hz'⟩
          have h1 := hT _ (w.addHist p y) (hw.of_topo hte) (stkOK_addHist hst p y)
            (by rw [addHist_parts_length]; exact hp) hl
          have h0 : SameD x w (w.addHist p y) := .of_same (same_addHist x w p y)
          generalize tryList (give f) (w.addHist p y) ((w.addHist p y).sortedDown y) p = r at h1
          obtain ⟨w1, b⟩ := r
          cases b
          · exact (h0.trans h1).trans (same_dropHist x w1 p)
          · exact h0.trans h1
    case ginput =>
      have hs1 := hsucc (by rw [hk]; rfl)
      have hcs1 : ∀ z ∈ (w.dev y).down, consS f w z (w.part p).stack = true := by
        simp only [hk] at hcs; exact List.all_eq_true.mp hcs
      have hcs : csucc w y = (w.dev y).down := by unfold csucc; rw [hk]
      rw [give]
      simp only [hk]
      split
      · exact .refl x w
      · refine hT _ w hw hst hp (fun z hz => ?_)
        have hz' := (C08.sortedDown_mem w y z).mp hz
        exact ⟨hw.src' y z hz', hs1 z (by rw [hcs]; exact hz'), hcs1 z hz'⟩
    case gpath =>
      have hs1 := hsucc (by rw [hk]; rfl)
      have hcs1 : consS f w (groupIn w y) ((w.part p).stack ++ [y]) = true := by
        simp only [hk] at hcs; exact hcs
      have hcs : csucc w y = [groupIn w y] := by unfold csucc; rw [hk]
      rw [give]
      simp only [hk]
      split
      · exact .refl x w
      · have hte : TopoEq w ((w.modPart p (fun r => { r with stack := r.stack ++ [y] })).addHist p y) :=
          .of_devs (by rw [addHist_devs]; rfl) (by rw [groups_noParts (addHist_noParts _ p y)]; rfl)
        have hst2 : StkOK ((w.modPart p (fun r => { r with stack := r.stack ++ [y] })).addHist p y) := by
          apply stkOK_addHist
          apply stkOK_modPart hst
          intro hr z hz
          rcases List.mem_append.mp hz with hz | hz
          · exact hr z hz
          · rw [List.mem_singleton] at hz; rw [hz]; exact hk
        have hgi : (((w.modPart p (fun r => { r with stack := r.stack ++ [y] })).addHist p y).groups.getD
            (w.dev y).group default).input = groupIn w y := by
          rw [groups_noParts (addHist_noParts _ p y)]; rfl
        rw [hgi]
        have hstk2 : (((w.modPart p (fun r => { r with stack := r.stack ++ [y] })).addHist p y).part p).stack =
            (w.part p).stack ++ [y] := by
          rw [addHist_part_stack, part_modPart_same hp]
        have h1 := ih _ (groupIn w y) p (hw.of_topo hte) hst2
          (by rw [addHist_parts_length]; simpa using hp)
          (by rw [hte.kind]; exact hw.src y _ (by rw [hcs]; exact List.mem_singleton.mpr rfl))
          (by rw [cReach_topo hte]; exact hs1 _ (by rw [hcs]; exact List.mem_singleton.mpr rfl))
          (by rw [consS_topo hte, hstk2]; exact hcs1)
        have h0 : SameD x w ((w.modPart p (fun r => { r with stack := r.stack ++ [y] })).addHist p y) :=
          (sameD_modPart x w p _).trans (.of_same (same_addHist x _ p y))
        generalize give f ((w.modPart p (fun r => { r with stack := r.stack ++ [y] })).addHist p y)
          (groupIn w y) p = r at h1
        obtain ⟨w1, b⟩ := r
        cases b
        · exact ((h0.trans h1).trans (sameD_modPart x w1 p _)).trans (same_dropHist x _ p)
        · exact h0.trans h1
    case goutput =>
      have hs1 := hsucc (by rw [hk]; rfl)
      rw [give]
      simp only [hk]
      cases hl : (w.part p).stack.getLast? with
      | none => exact .of_same (same_setErr x w _)
      | some g =>
        simp only []
        simp only [hk, hl, Bool.and_eq_true, beq_iff_eq, List.all_eq_true] at hcs
        obtain ⟨⟨hg, hgo⟩, hcs1⟩ := hcs
        have hgp : g ∈ groupPaths w y := by rw [← hgo]; exact hw.reg g hg
        have hte : TopoEq w (w.modPart p (fun r => { r with stack := r.stack.dropLast })) :=
          .of_devs rfl rfl
        have hst1 : StkOK (w.modPart p (fun r => { r with stack := r.stack.dropLast })) := by
          apply stkOK_modPart hst
          intro hr z hz
          exact hr z (List.dropLast_subset _ hz)
        have hstk1 : ((w.modPart p (fun r => { r with stack := r.stack.dropLast })).part p).stack =
            (w.part p).stack.dropLast := by
          rw [part_modPart_same hp]
        have hlist : ∀ z ∈ (w.modPart p (fun r => { r with stack := r.stack.dropLast })).sortedDown g,
            ((w.modPart p (fun r => { r with stack := r.stack.dropLast })).dev z).kind ≠ .source ∧
            cReach f (w.modPart p (fun r => { r with stack := r.stack.dropLast })) z x = false ∧
            consS f (w.modPart p (fun r => { r with stack := r.stack.dropLast })) z
              ((w.modPart p (fun r => { r with stack := r.stack.dropLast })).part p).stack = true := by
          intro z hz
          have hz' : z ∈ (w.dev g).down := by
            have := (C08.sortedDown_mem _ g z).mp hz
            rwa [dev_modPart] at this
          rw [dev_modPart, cReach_topo hte, consS_topo hte, hstk1]
          refine ⟨hw.src' g z hz', hs1 z ?_, hcs1 z hz'⟩
          unfold csucc; rw [hk]
          exact List.mem_flatMap.mpr ⟨g, hgp, hz'⟩
        have h1 := hT _ _ (hw.of_topo hte) hst1 (by simpa using hp) hlist
        have h0 : SameD x w (w.modPart p (fun r => { r with stack := r.stack.dropLast })) :=
          sameD_modPart x w p _
        generalize tryList (give f) (w.modPart p (fun r => { r with stack := r.stack.dropLast }))
          ((w.modPart p (fun r => { r with stack := r.stack.dropLast })).sortedDown g) p = r at h1
        obtain ⟨w1, b⟩ := r
        cases b
        · exact (h0.trans h1).trans (sameD_modPart x w1 p (fun r => { r with stack := r.stack ++ [g] }))
        · exact h0.trans h1
    all_goals
      (have hpk : plainKind (w.dev y).kind ∨ (w.dev y).kind = .batcher := by
         unfold plainKind; rw [hk]; simp
       exact sameD_give f w p (fun h => hyx h) hpk)

end C03W
end SimProc
