/-
C15D / C16D — machinery: nothing but `simulateInit` changes the flag `started` (constructor calls
with arbitrary payloads included).  Built on the registration key `RK` of `Proofs/C20W*.lean`.
-/
import SimProc.Proofs.C20WWorld

namespace SimProc
namespace C15D
open World FloorCoreL C20W

theorem started_initAsset (w : World) (a : AssetRef) : (w.initAsset a).started = w.started := by
  have := congrArg RKey.started (RK_initAsset w a)
  rw [RKey.init_started] at this
  exact this

theorem started_addDev (w : World) (d : Dev) : (w.addDev d).started = w.started := by
  have h : (regDev w d).started = w.started := congrArg RKey.started (RK_regDev w d)
  rw [addDev_eq_regDev]
  split
  · rw [started_initAsset, h]
  · exact h

theorem started_addAsset (w : World) (spec : AssetSpec) : (w.addAsset spec).started = w.started := by
  cases spec with
  | dev d => exact started_addDev w d
  | group gid dvs ins outs => exact congrArg RKey.started (RK_addGroup w gid dvs ins outs)
  | maint cap v => exact congrArg RKey.started (RK_addMaint w cap v)
  | sched tt cyc => exact congrArg RKey.started (RK_addSched w tt cyc)
  | sensor sw =>
    unfold addAsset
    dsimp only
    split
    · rw [started_initAsset]
    · rfl
  | cms => rfl

theorem started_applyOp (w : World) (op : Op) : (w.applyOp op).1.started = w.started := by
  by_cases h : ∃ s, op = .create s
  · obtain ⟨s, rfl⟩ := h
    exact started_addAsset w s
  · exact (applyOp_assets w op (fun s e => h ⟨s, e⟩)).2

theorem started_applyOps (ops : List Op) (w : World) : (w.applyOps ops).started = w.started := by
  induction ops generalizing w with
  | nil => rfl
  | cons op ops ih =>
    unfold applyOps
    rw [List.foldl_cons]
    exact (ih _).trans (started_applyOp w op)

theorem started_runScript (w : World) (k : Nat) : (w.runScript k).started = w.started :=
  started_applyOps _ w

theorem started_scanWaiting (n : Nat) (w : World) (i : Nat) :
    (scanWaiting scanOps n w i).started = w.started := by
  induction n generalizing w i with
  | zero => rfl
  | succ n ih =>
    rw [scanWaiting]
    split
    · rfl
    · split
      · rename_i req cb _ _
        rw [ih]
        show (scanOps.call w cb req).started = w.started
        cases cb with
        | script k => exact started_runScript _ k
        | proc d => exact (Same_procResourceCb w d).started
      · exact ih _ _

theorem started_hookStart (w : World) (tgt : Nat) (tag : Int) : (w.hookStart tgt tag).started = w.started := by
  unfold hookStart
  dsimp only
  split
  · exact (Same_shutdownDev _ _ _ _).started
  · split
    · exact started_runScript _ _
    · rfl

theorem started_hookEnd (w : World) (tgt : Nat) (tag : Int) : (w.hookEnd tgt tag).started = w.started := by
  unfold hookEnd
  dsimp only
  split
  · exact (Same_restoreDev _ _).started
  · split
    · exact started_runScript _ _
    · rfl

theorem started_schedLib (w : World) (t a : Int) (act : Action) (p : Int) :
    (w.schedLib t a act p).started = w.started := congrArg RKey.started (RK_schedLib w t a act p)

theorem started_setErr (w : World) (m : String) : (w.setErr m).started = w.started := by
  unfold setErr; split <;> rfl

theorem started_startWork (w : World) (m seq : Nat) : (w.startWork m seq).started = w.started := by
  unfold startWork
  split
  · exact started_setErr _ _
  · dsimp only
    rw [started_schedLib, started_hookStart]
    rfl

theorem started_finishWork (w : World) (m seq : Nat) : (w.finishWork m seq).started = w.started := by
  unfold finishWork
  split
  · exact started_setErr _ _
  · dsimp only
    rw [(Same_startOrders _ _ _).started]
    show (w.hookEnd _ _).started = w.started
    exact started_hookEnd _ _ _

theorem started_exec (w : World) (a : Action) : (w.exec a).started = w.started := by
  cases a with
  | terminate => rfl
  | script k => exact started_runScript w k
  | finishCycle d => exact (Same_finishCycle w d).started
  | passPart d => exact (Same_passPart w d).started
  | fail d => exact (Same_failDev w d).started
  | releaseIfIdle d => exact (Same_releaseIfIdle w d).started
  | rmCheck => exact started_scanWaiting _ _ _
  | startWork m o => exact started_startWork w m o
  | finishWork m o => exact started_finishWork w m o
  | schedUpdate s => exact (Same_schedUpdate w s true).started
  | periodicSense s => exact (Same_periodicSense w s).started
  | unknown n => exact started_setErr _ _

theorem started_runBegin (w : World) (d : Int) : (w.runBegin d).1.started = w.started :=
  (Same_runBegin w d).started

theorem started_step {w w' : World} {e : Event} (h : w.step = some (e, w')) : w'.started = w.started := by
  unfold World.step at h
  split at h
  · cases h
  · simp only [Option.some.injEq, Prod.mk.injEq] at h
    obtain ⟨_, rfl⟩ := h
    split
    · exact started_exec _ _
    · rfl

theorem started_runLoop (n : Nat) (w : World) : (runLoop n w).started = w.started := by
  induction n generalizing w with
  | zero => exact started_setErr _ _
  | succ n ih =>
    unfold runLoop
    split
    · split
      · rfl
      · rename_i e w' hst
        exact (ih w').trans (started_step hst)
    · rfl

theorem started_simulateInit (w : World) : w.simulateInit.started = true := by
  unfold simulateInit
  split
  · assumption
  · rfl

end C15D
end SimProc
