/-
C09W — `R w (f w)` for every function of `Model/Floor.lean`: each keeps the pool invariant of the
resource manager and the static clause `ReqWF` (the conditional relation `R` of `C09WBase`).
-/
import SimProc.Proofs.C09WBase

namespace SimProc
namespace C09W
open World FloorCoreL

/-! ### notifications -/

theorem R_setWaiting (w : World) (x : Nat) (a b : Bool) : R w (w.setWaiting x a b) := by
  unfold setWaiting
  dsimp only
  r_auto

macro_rules | `(tactic| r_step) => `(tactic| with_reducible apply R.trans (h2 := R_setWaiting _ _ _ _))

theorem R_schedulePass (w : World) (x : Nat) (o : Int) : R w (w.schedulePass x o) := by
  unfold schedulePass
  dsimp only
  r_auto

macro_rules | `(tactic| r_step) => `(tactic| with_reducible apply R.trans (h2 := R_schedulePass _ _ _))

theorem R_notifyUp_spaceAvail (n : Nat) :
    ∀ w x, R w (notifyUp n w x) ∧ R w (spaceAvail n w x) := by
  induction n with
  | zero =>
    intro w x
    constructor
    · rw [notifyUp]; exact R.of_KR (KR_setErr _ _)
    · rw [spaceAvail]; exact R.of_KR (KR_setErr _ _)
  | succ n ih =>
    intro w x
    have hN : ∀ w x, R w (notifyUp n w x) := fun w x => (ih w x).1
    have hS : ∀ w x, R w (spaceAvail n w x) := fun w x => (ih w x).2
    constructor
    · rw [notifyUp]
      dsimp only
      repeat' first
        | with_reducible exact R.refl _
        | with_reducible apply R.trans (h2 := R.foldl _ _ _ hS)
        | with_reducible apply R.trans (h2 := R.foldl _ _ _ hN)
        | with_reducible apply R.trans (h2 := R_setWaiting _ _ _ _)
        | split
    · rw [spaceAvail]
      try dsimp only
      repeat' first
        | with_reducible exact R.refl _
        | exact hN _ _
        | exact hS _ _
        | exact R_schedulePass _ _ _
        | split

theorem R_notifyUp (n : Nat) (w : World) (x : Nat) : R w (notifyUp n w x) :=
  (R_notifyUp_spaceAvail n w x).1
theorem R_spaceAvail (n : Nat) (w : World) (x : Nat) : R w (spaceAvail n w x) :=
  (R_notifyUp_spaceAvail n w x).2
theorem R_notify (w : World) (x : Nat) : R w (w.notify x) := R_notifyUp _ _ _
theorem R_spaceAvailable (w : World) (x : Nat) : R w (w.spaceAvailable x) := R_spaceAvail _ _ _

macro_rules | `(tactic| r_step) => `(tactic| with_reducible apply R.trans (h2 := R_notify _ _))
macro_rules | `(tactic| r_step) => `(tactic| with_reducible apply R.trans (h2 := R_spaceAvailable _ _))

/-! ### resources of a processor -/

theorem R_releaseReserved (w : World) (x : Nat) : R w (w.releaseReserved x) := by
  unfold releaseReserved
  split
  · exact R.refl _
  · rename_i id _
    have h : C09.Inv w.rm → C09.Inv (w.rm.release id none).1 :=
      fun hi => C09.inv_release hi id none (fun _ h => by cases h)
    rcases hr : w.rm.release id none with ⟨rm, res, recs, chk⟩
    rw [hr] at h
    dsimp only at h ⊢
    r_step
    exact R_rmStep w rm recs chk h

theorem R_procAcquire (w : World) (x : Nat) : R w (w.procAcquire x).1 := by
  refine R.with_Q fun hq => ?_
  unfold procAcquire
  dsimp only
  split
  · exact R.refl _
  · rename_i req hreq
    have hk : C09.NodupKeys req := hq.dev.dev hreq
    split
    · exact R.refl _
    · have h : C09.Inv w.rm → C09.Inv (w.rm.reserve req).1 := fun hi => C09.inv_reserve hi req hk
      split
      · rename_i rm r id recs heq
        rw [heq] at h
        dsimp only at h ⊢
        r_step
        exact R_rmStep w rm recs false h
      · dsimp only
        r_auto
      · split
        · exact R.refl _
        · rcases hr : w.rm.register req (.proc x) with ⟨rm, chk⟩
          dsimp only
          r_step
          refine R_rmStep w rm [] chk (fun hi => ?_)
          have : rm = (w.rm.register req (.proc x)).1 := by rw [hr]
          rw [this]
          exact inv_congr hi rfl rfl

macro_rules | `(tactic| r_step) => `(tactic| with_reducible apply R.trans (h2 := R_releaseReserved _ _))

/-! ### parts, callbacks -/

theorem R_addHist (w : World) (p d : Nat) : R w (w.addHist p d) := by
  unfold addHist
  dsimp only
  r_auto

theorem R_dropHist (w : World) (p : Nat) : R w (w.dropHist p) := by
  unfold dropHist
  dsimp only
  r_auto

theorem R_applyPartCb (w : World) (x p : Nat) (c : PartCb) : R w (w.applyPartCb x p c) := by
  unfold applyPartCb
  dsimp only
  r_auto

theorem R_senseOutput (w : World) (s p : Nat) : R w (w.senseOutput s p) := by
  unfold senseOutput
  dsimp only
  r_auto

theorem R_finishCycleHandler (w : World) (x : Nat) : R w (w.finishCycleHandler x) := by
  unfold finishCycleHandler
  dsimp only
  r_auto

macro_rules | `(tactic| r_step) => `(tactic| with_reducible apply R.trans (h2 := R_addHist _ _ _))
macro_rules | `(tactic| r_step) => `(tactic| with_reducible apply R.trans (h2 := R_dropHist _ _))
macro_rules | `(tactic| r_step) => `(tactic| with_reducible apply R.trans (h2 := R_applyPartCb _ _ _ _))
macro_rules | `(tactic| r_step) => `(tactic| with_reducible apply R.trans (h2 := R_senseOutput _ _ _))
macro_rules | `(tactic| r_step) => `(tactic| with_reducible apply R.trans (h2 := R_finishCycleHandler _ _))

theorem KR_genPart_fold (d : Dev) (l : List Nat) (acc : World × List Nat) :
    KR (l.foldl (fun (acc : World × List Nat) _ =>
      let (w', k) := acc.1.newPart { quality := d.genQuality, value := d.genValue }
      (w', acc.2 ++ [k])) acc).1 = KR acc.1 := by
  induction l generalizing acc with
  | nil => rfl
  | cons a l ih => rw [List.foldl_cons, ih]; rfl

theorem KR_genPart (w : World) (x : Nat) : KR (w.genPart x).1 = KR w := by
  unfold genPart
  dsimp only
  split
  · rfl
  · exact KR_genPart_fold _ _ _

theorem R_genPart (w : World) (x : Nat) : R w (w.genPart x).1 := R.of_KR (KR_genPart w x)

macro_rules | `(tactic| r_step) => `(tactic| with_reducible apply R.trans (h2 := R_genPart _ _))

theorem R_batcherLoop (n : Nat) (w : World) (x : Nat) : R w (batcherLoop n w x) := by
  induction n generalizing w with
  | zero => exact R.refl _
  | succ n ih =>
    rw [batcherLoop]
    split
    · split
      rename_i w1 t heq
      refine R.trans ?_ (ih _)
      have h1 : R w (w1, t).1 := by
        rw [← heq]
        split <;> dsimp only <;> r_auto
      refine R.trans h1 ?_
      split
      · r_auto
      · split
        rename_i w2 b heq2
        have h2 : R w1 (w2, b).1 := by
          rw [← heq2]
          split
          · exact R.refl _
          · dsimp only
            r_step
            exact R.of_KR (KR_newPart _ _)
        refine R.trans h2 ?_
        dsimp only
        r_auto
    · exact R.refl _

macro_rules | `(tactic| r_step) => `(tactic| with_reducible apply R.trans (h2 := R_batcherLoop _ _ _))

/-! ### finishing a cycle -/

theorem R_finishCycle (w : World) (x : Nat) : R w (w.finishCycle x) := by
  unfold finishCycle
  dsimp only
  split
  · -- source
    r_step
    split
    · r_step
      r_step
      have := R_genPart w x
      revert this
      generalize w.genPart x = q
      intro this
      exact this
    · exact R.refl _
  · r_auto
  · -- processor
    split
    · r_auto
    · r_auto
  · r_auto

macro_rules | `(tactic| r_step) => `(tactic| with_reducible apply R.trans (h2 := R_finishCycle _ _))

theorem R_scheduleFinish (w : World) (x : Nat) : R w (w.scheduleFinish x) := by
  unfold scheduleFinish
  dsimp only
  r_auto

macro_rules | `(tactic| r_step) => `(tactic| with_reducible apply R.trans (h2 := R_scheduleFinish _ _))

theorem R_tryMove (w : World) (x : Nat) : R w (w.tryMove x) := by
  unfold tryMove
  dsimp only
  r_auto

macro_rules | `(tactic| r_step) => `(tactic| with_reducible apply R.trans (h2 := R_tryMove _ _))

theorem R_onReceived (w : World) (x p : Nat) : R w (w.onReceived x p) := by
  unfold onReceived
  dsimp only
  r_auto

macro_rules | `(tactic| r_step) => `(tactic| with_reducible apply R.trans (h2 := R_onReceived _ _ _))

theorem R_acceptPart (w : World) (x p : Nat) : R w (w.acceptPart x p) := by
  unfold acceptPart
  dsimp only
  r_auto

/-! ### handing parts over -/

theorem R_tryList (g : World → Nat → Nat → World × Bool)
    (hg : ∀ w y p, R w (g w y p).1) (w : World) (l : List Nat) (p : Nat) :
    R w (tryList g w l p).1 := by
  induction l generalizing w with
  | nil => exact R.refl w
  | cons y ys ih =>
    rw [tryList]
    have h := hg w y p
    split
    · rename_i heq; rw [heq] at h; exact h
    · rename_i heq; rw [heq] at h; exact h.trans (ih _)

theorem R_give (n : Nat) : ∀ (w : World) (x p : Nat), R w (give n w x p).1 := by
  induction n with
  | zero => intro w x p; exact R.of_KR (KR_setErr _ _)
  | succ n ih =>
    intro w x p
    have hT : ∀ w l p, R w (tryList (give n) w l p).1 := R_tryList _ ih
    rw [give]
    dsimp only
    repeat' first
      | r_step
      | with_reducible apply R.trans (h2 := R_acceptPart _ _ _)
      | exact hT _ _ _
      | exact ih _ _ _
      | r_heq (hT _ _ _)
      | r_heq (ih _ _ _)
      | r_heq (R_procAcquire _ _)
      | split

theorem R_givePart (w : World) (x p : Nat) : R w (w.givePart x p).1 := R_give _ _ _ _

theorem R_tryList_givePart (w : World) (l : List Nat) (p : Nat) :
    R w (tryList givePart w l p).1 := R_tryList _ R_givePart _ _ _

theorem R_passHandler (w : World) (x : Nat) : R w (w.passHandler x) := by
  unfold passHandler
  dsimp only
  repeat' first
    | r_step
    | r_heq (R_tryList_givePart _ _ _)
    | split

theorem R_bufferLoop (n : Nat) (w : World) (x : Nat) : R w (bufferLoop n w x) := by
  induction n generalizing w with
  | zero => exact R.refl _
  | succ n ih =>
    rw [bufferLoop]
    dsimp only
    repeat' first
      | r_step
      | with_reducible apply R.trans (h2 := ih _)
      | r_heq (R_tryList_givePart _ _ _)
      | split

macro_rules | `(tactic| r_step) => `(tactic| with_reducible apply R.trans (h2 := R_passHandler _ _))
macro_rules | `(tactic| r_step) => `(tactic| with_reducible apply R.trans (h2 := R_bufferLoop _ _ _))

theorem R_passPart (w : World) (x : Nat) : R w (w.passPart x) := by
  unfold passPart
  dsimp only
  r_auto

/-! ### processors: failure, shutdown, restore -/

theorem R_shutdownDev (w : World) (x : Nat) (f : Bool) (lost : Option Nat) :
    R w (w.shutdownDev x f lost) := by
  unfold shutdownDev
  dsimp only
  r_auto

theorem R_restoreDev (w : World) (x : Nat) : R w (w.restoreDev x) := by
  unfold restoreDev
  dsimp only
  r_auto

macro_rules | `(tactic| r_step) => `(tactic| with_reducible apply R.trans (h2 := R_shutdownDev _ _ _ _))
macro_rules | `(tactic| r_step) => `(tactic| with_reducible apply R.trans (h2 := R_restoreDev _ _))

theorem R_failDev (w : World) (x : Nat) : R w (w.failDev x) := by
  unfold failDev
  dsimp only
  r_auto

theorem R_releaseIfIdle (w : World) (x : Nat) : R w (w.releaseIfIdle x) := by
  unfold releaseIfIdle
  r_auto

/-! ### scripted operations on devices -/

theorem R_setBlock (w : World) (x : Nat) (b : Bool) : R w (w.setBlock x b) := by
  unfold setBlock
  dsimp only
  r_auto

theorem R_adjustParts (w : World) (x : Nat) (v : Int) : R w (w.adjustParts x v) := by
  unfold adjustParts
  dsimp only
  r_auto

theorem R_rewire (w : World) (x : Nat) (ups : List Nat) : R w (w.rewire x ups) := by
  unfold rewire
  dsimp only
  r_auto

theorem R_initDev (w : World) (x : Nat) : R w (w.initDev x) := by
  unfold initDev
  dsimp only
  r_auto

macro_rules | `(tactic| r_step) => `(tactic| with_reducible apply R.trans (h2 := R_passPart _ _))
macro_rules | `(tactic| r_step) => `(tactic| with_reducible apply R.trans (h2 := R_failDev _ _))
macro_rules | `(tactic| r_step) => `(tactic| with_reducible apply R.trans (h2 := R_releaseIfIdle _ _))
macro_rules | `(tactic| r_step) => `(tactic| with_reducible apply R.trans (h2 := R_setBlock _ _ _))
macro_rules | `(tactic| r_step) => `(tactic| with_reducible apply R.trans (h2 := R_adjustParts _ _ _))
macro_rules | `(tactic| r_step) => `(tactic| with_reducible apply R.trans (h2 := R_rewire _ _ _))
macro_rules | `(tactic| r_step) => `(tactic| with_reducible apply R.trans (h2 := R_initDev _ _))

end C09W
end SimProc
