/-
C03Z, part 3: the typed-stacks invariant `TInv cl w` of a world, and its preservation by the
functions of the factory floor (`finishCycle`, `scheduleFinish`, `tryMove`, the hand-over,
`passHandler`, `bufferLoop`, `passPart`, `failDev`) — the analogue of Proofs/C08WFloor.lean.
-/
import SimProc.Proofs.C03ZTop

namespace SimProc
namespace C03Z
open World C02V C08L C08W C03W C02V.SVBatchAux FloorCoreL

/-- **The typed-stacks invariant**: the group-path stack of every part that a device (not a sink)
holds is typed for the context of that device; the stacks of the parts inside a held batch are typed
for the context below the stack of the batch; batches under construction have the empty stack. -/
def TInv (cl : List (List Nat)) (w : World) : Prop :=
  TV (topo w) (cx cl) (sv w) (skOf w)

/-- every batcher stands at nesting depth ≤ 1 (all device indices) -/
def BatS (cl : List (List Nat)) (w : World) : Prop :=
  ∀ x, (w.dev x).kind = .batcher → (cx cl x).length ≤ 1

theorem BatS.of_tv {cl : List (List Nat)} {w w' : World} (h : BatS cl w) (e : tv w' = tv w) :
    BatS cl w' :=
  fun x hk => h x (by rw [← kind_of_tv e]; exact hk)

theorem BatS.of_st {cl : List (List Nat)} {w w' : World} (h : BatS cl w) (e : st w' = st w) :
    BatS cl w' :=
  fun x hk => h x (by rw [← kind_of_st e]; exact hk)

variable {cl : List (List Nat)}

/-! ### frames -/

theorem TInv.of_frame {w w' : World} (h : TInv cl w) (h1 : sv w' = sv w) (h2 : topo w' = topo w)
    (h3 : w'.parts = w.parts) : TInv cl w' := by
  unfold TInv at *
  rw [h1, h2]
  have e2 : skOf w' = skOf w := by funext q; unfold skOf; rw [part_congr h3]
  rw [e2]; exact h

theorem TInv.of_frame_st {w w' : World} (h : TInv cl w) (h1 : sv w' = sv w) (h2 : st w' = st w)
    (h3 : w'.parts = w.parts) : TInv cl w' :=
  h.of_frame h1 (topo_of_st h2) h3

theorem TInv.of_rf {w w' : World} (h : TInv cl w) (r : RF w w') : TInv cl w' :=
  h.of_frame r.sv (topo_of_tv r.tv) r.parts

theorem TypT.of_topo {t t' : Topo} {c : Nat → List Nat} (h : TypT t c) (e : t' = t) : TypT t' c := by
  rw [e]; exact h

/-! ### the functions local to one device -/

/-- Moves of device `z` that leave the old stacks alone and create parts with the empty stack
preserve the invariant. -/
theorem TInv.local {z : Nat} {src : Prop} {w w' : World} (hI : InvW w) (h : TInv cl w)
    (hD : BatS cl w)
    (hs : Steps z (sv w) (sv w')) (htl : (w.dev z).kind ≠ .batcher → TLK z (sv w) (sv w'))
    (ht : st w' = st w) (hn : HN z src w w') : TInv cl w' := by
  unfold TInv
  rw [topo_of_st ht]
  have hkz : ∀ d, (sv w).devs[z]? = some d → d.kind = (w.dev z).kind := by
    intro d hd
    have hzl : z < w.devs.length := by
      have := (List.getElem?_eq_some_iff.1 hd).1
      simpa [sv] using this
    rw [sv_get w z hzl] at hd
    cases hd; rfl
  refine tv_steps hs (fun hnb => htl ?_) hI ?_ (fun d hd hk => hD z (by rw [← hkz d hd]; exact hk)) ?_
  · by_cases hzl : z < w.devs.length
    · have := hnb _ (sv_get w z hzl)
      exact this
    · rw [dev_of_ge w z (Nat.le_of_not_lt hzl)]; decide
  · refine TV.congr hI h ?_
    intro q hq
    rw [sv_kids_length] at hq
    exact (hn.hs.2 q hq).2
  · intro q hq1 hq2
    rw [sv_kids_length] at hq1 hq2
    exact (hn.nw q hq1 hq2).1

theorem tinv_finishCycle (w : World) (x : Nat) (hI : InvW w) (h : TInv cl w) (hD : BatS cl w) :
    TInv cl (w.finishCycle x) :=
  h.local hI hD (steps_finishCycle w x) (fun _ => tlk_finishCycle w x) (st_finishCycle w x)
    (HN.finishCycle w x)

theorem tinv_scheduleFinish (w : World) (x : Nat) (hI : InvW w) (h : TInv cl w) (hD : BatS cl w) :
    TInv cl (w.scheduleFinish x) :=
  h.local hI hD (steps_scheduleFinish w x) (fun _ => tlk_scheduleFinish w x) (st_scheduleFinish w x)
    (HN.scheduleFinish w x)

theorem tinv_tryMove (w : World) (x : Nat) (hI : InvW w) (h : TInv cl w)
    (hD : BatS cl w) : TInv cl (w.tryMove x) :=
  h.local hI hD (steps_tryMove w x (part_valid hI x)) (fun hk => tlk_tryMove w x hk)
    (st_tryMove w x) (HN.tryMove w x)

/-! ### the hand-over -/

theorem inprog_ne_of_perm {d s : SDev} {p : Nat} (hnd : d.held.Nodup)
    (hperm : d.held.Perm (p :: s.held)) (hin : ∀ b, s.inprog = some b → d.inprog = some b)
    (hs : s.inprog = d.inprog) : d.inprog ≠ some p := by
  intro h
  have h1 : s.inprog = some p := by rw [hs]; exact h
  have h2 : p ∈ s.held := mem_held_inprog h1
  have := (hperm.nodup_iff.1 hnd)
  exact (List.nodup_cons.1 this).1 h2

/-- One successful `givePart`, seen from the giver `x` whose slots without `p` are `s`. -/
theorem tinv_give (w w0 w1 : World) (x y p : Nat) (s : SDev) (hI : InvW w) (hR : TInv cl w)
    (hT : TypT (topo w) (cx cl)) (hD : BatS cl w)
    (hx : x < w.devs.length) (hk : (w.dev x).kind ≠ .sink) (hsk : s.kind = (w.dev x).kind)
    (hperm : (sdev (w.dev x)).held.Perm (p :: s.held))
    (hin : ∀ b, s.inprog = some b → (w.dev x).inprog = some b)
    (hpi : (w.dev x).inprog ≠ some p)
    (hq0 : Quiet w w0) (hp0 : w0.parts = w.parts) (hy : y ∈ (w.dev x).down)
    (hreach : ∀ z, Reach (st w) y z → z < w.devs.length)
    (hg : givePart w0 y p = (w1, true)) :
    ((w.dev x).part = none ∧ (w.dev x).output = none ∧
      ((w.dev x).kind = .buffer →
        sv w1 = (sv w).setDev x { sdev (w.dev x) with buf := (sdev (w.dev x)).buf ++ [p] } ∧
        ∀ m : SV, m.kids = (sv w).kids →
          (∀ (z' : Nat) (d : SDev) (q : Nat), m.devs[z']? = some d → q ∈ d.held →
            (q = p ∧ z' = x) ∨ (q ≠ p ∧ ∃ d0 : SDev, (sv w).devs[z']? = some d0 ∧ q ∈ d0.held)) →
          (∀ (z' : Nat) (d : SDev), m.devs[z']? = some d → d.kind ≠ .sink →
            ∃ d0 : SDev, (sv w).devs[z']? = some d0 ∧ d0.kind ≠ .sink) →
          (∀ (z' : Nat) (d : SDev) (b : Nat), m.devs[z']? = some d → d.inprog = some b →
            ∃ d0 : SDev, (sv w).devs[z']? = some d0 ∧ d0.inprog = some b) →
          TV (topo w) (cx cl) m (skOf w1))) ∨
    (Inv (mask (sv w1) x s) ∧ TV (topo w) (cx cl) (mask (sv w1) x s) (skOf w1) ∧
      sdev (w1.dev x) = sdev (w.dev x) ∧ w1.devs.length = w.devs.length) := by
  have hpx : p ∈ (sdev (w.dev x)).held := hperm.symm.subset (List.mem_cons_self ..)
  have hp : p < w.parts.length := held_valid hI hx hpx
  obtain ⟨z, c, s', wa, hC, hzk, hca, hw1, hq1, hb, _⟩ :=
    give_exact w0.fuel w0 y p w1 (by rw [hp0]; exact hp) hg
  rw [hq0.topo, part_congr hp0] at hC
  have hzl : z < w.devs.length := hreach z hC.reach_last
  have hqa : Quiet w wa := hq0.trans hq1
  have hba : Bumped w.parts wa.parts p c s' := bumped_congr hb hp0.symm rfl
  have hzk' : isHandlerLike (wa.dev z).kind = true := by rw [hq1.kind]; exact hzk
  have hslots := canAccept_slots hzk' hca
  have hzp : (sdev (w.dev z)).part = none := by
    have := part_of_sv hqa.sv z; rw [hslots.1] at this; exact this.symm
  have hzo : (sdev (w.dev z)).output = none := by
    have := output_of_sv hqa.sv z; rw [hslots.2] at this; exact this.symm
  have hxl : x < wa.devs.length := by rw [devs_len_of_sv hqa.sv]; exact hx
  have hzla : z < wa.devs.length := by rw [devs_len_of_sv hqa.sv]; exact hzl
  have hpa : p < wa.parts.length := by rw [parts_len_of_sv hqa.sv]; exact hp
  -- the world in which `onReceived` starts
  have hpb : (C02V.acceptPre wa z p).parts = (wa.addHist p z).parts := by
    rw [acceptPre_eq]; exact C08L.acceptPre_parts wa z p
  have hbb : Bumped w.parts (C02V.acceptPre wa z p).parts p (c ++ [z]) s' := by
    have h2 := bumped_addHist wa p z
    have hst : (wa.part p).stack = s' := by
      have := (bumped_part hba p hp).2; simpa using this
    rw [hst] at h2
    exact bumped_congr (hba.trans h2) rfl hpb
  have hlenb : (C02V.acceptPre wa z p).parts.length = w.parts.length := by
    have := hbb.length; exact this
  -- the receiver's own moves
  have hsteps : Steps z (accept (sv w) z p (sdev (w.dev z))) (sv w1) := by
    have := steps_acceptPart wa z p hzla hpa
    rw [hqa.sv, sdev_of_sv hqa.sv, ← hw1] at this
    exact this
  have hstb : st (C02V.acceptPre wa z p) = st w := by
    unfold C02V.acceptPre
    have : st wa = st w := hqa.st
    rw [← this]
    frame
  have hHN : HN z ((w.dev z).kind = .source) (C02V.acceptPre wa z p) w1 := by
    have := HN.onReceived (C02V.acceptPre wa z p) z p
    rw [← C02V.acceptPart_eq, ← hw1] at this
    exact this.weaken (fun h => (kind_of_st hstb z).symm.trans h)
  -- stacks
  have fS : ∀ q, q < (sv w).kids.length → q ≠ p →
      skOf (C02V.acceptPre wa z p) q = skOf w q := by
    intro q hq hqp
    rw [sv_kids_length] at hq
    have := (bumped_part hbb q hq).2
    unfold skOf
    rw [this, if_neg hqp]
  have fS1 : ∀ q, q < (sv w).kids.length → q ≠ p → skOf w1 q = skOf w q := by
    intro q hq hqp
    have hq' := hq
    rw [sv_kids_length] at hq'
    have := hHN.hs.2 q (by rw [hlenb]; exact hq')
    have f := fS q hq hqp
    unfold skOf at *
    rw [this.2]; exact f
  have fPb : skOf (C02V.acceptPre wa z p) p = s' := by
    have := (bumped_part hbb p hp).2
    unfold skOf
    rw [this, if_pos rfl]
  have fP1 : skOf w1 p = s' := by
    have := hHN.hs.2 p (by rw [hlenb]; exact hp)
    unfold skOf at *
    rw [this.2]; exact fPb
  have hxs' : (sdev (w.dev x)).kind ≠ .sink := hk
  have hyt : y ∈ (topo w).down x := hy
  have hpi' : (sdev (w.dev x)).inprog ≠ some p := hpi
  have hC' : GChain (topo w) y (skOf w p) (c ++ [z]) s' := hC
  by_cases hne : x = z
  · subst hne
    left
    refine ⟨hzp, hzo, ?_⟩
    intro hkb
    have hsv1 : sv w1 = (sv w).setDev x { sdev (w.dev x) with buf := (sdev (w.dev x)).buf ++ [p] } := by
      have := sv_acceptPart_buffer wa x p hxl (by rw [hqa.kind]; exact hkb) hslots.1 hslots.2
      rw [hqa.sv, sdev_of_sv hqa.sv, ← hw1] at this
      exact this
    refine ⟨hsv1, ?_⟩
    intro m hk0 hs0 hk1 hp1
    exact tv_bump hI hT hR (sv_get w x hx) hxs' hpx hpi' hyt hC' fP1 fS1 hk0 hs0 hk1 hp1
  · right
    have hzg := sv_get w z hzl
    have hxg := sv_get w x hx
    have hInv1 : Inv (mask (accept (sv w) z p (sdev (w.dev z))) x s) :=
      inv_transfer hI hxg hzg hne hzp hxs' hsk hperm hin
    have hsm := hsteps.mask hne s
    have hnds : (p :: s.held).Nodup := hperm.nodup_iff.1 (held_nodup hI.1 (List.mem_of_getElem? hxg))
    have hzl' : z < (sv w).devs.length := (List.getElem?_eq_some_iff.1 hzg).1
    have hxl' : x < ((sv w).devs.set z { sdev (w.dev z) with part := some p }).length := by
      rw [List.length_set]; exact (List.getElem?_eq_some_iff.1 hxg).1
    -- the devices of the view right after the part has been taken over
    have hdevs : ∀ (z' : Nat) (d : SDev),
        (mask (accept (sv w) z p (sdev (w.dev z))) x s).devs[z']? = some d →
        (z' = x ∧ d = s) ∨ (z' ≠ x ∧ z' = z ∧ d = { sdev (w.dev z) with part := some p }) ∨
        (z' ≠ x ∧ z' ≠ z ∧ (sv w).devs[z']? = some d) := by
      intro z' d h0
      simp only [mask, accept, SV.setDev] at h0
      by_cases hxz' : x = z'
      · subst hxz'
        rw [List.getElem?_set_self hxl'] at h0
        cases h0
        exact Or.inl ⟨rfl, rfl⟩
      · rw [List.getElem?_set_ne hxz'] at h0
        by_cases hzz' : z = z'
        · subst hzz'
          rw [List.getElem?_set_self hzl'] at h0
          cases h0
          exact Or.inr (Or.inl ⟨fun e => hxz' e.symm, rfl, rfl⟩)
        · rw [List.getElem?_set_ne hzz'] at h0
          exact Or.inr (Or.inr ⟨fun e => hxz' e.symm, fun e => hzz' e.symm, h0⟩)
    -- the invariant right after the part has been taken over
    have hRb : TV (topo w) (cx cl) (mask (accept (sv w) z p (sdev (w.dev z))) x s)
        (skOf (C02V.acceptPre wa z p)) := by
      refine tv_bump hI hT hR hxg hxs' hpx hpi' hyt hC' fPb fS rfl ?_ ?_ ?_
      · intro z' d q h0 hq
        rcases hdevs z' d h0 with ⟨rfl, rfl⟩ | ⟨hx', rfl, rfl⟩ | ⟨hx', hz', h0'⟩
        · right
          refine ⟨?_, _, hxg, hperm.symm.subset (List.mem_cons_of_mem _ hq)⟩
          rintro rfl
          exact (List.nodup_cons.1 hnds).1 hq
        · have hh : ({ sdev (w.dev z') with part := some p } : SDev).held = p :: (sdev (w.dev z')).held := by
            simp [SDev.held, hzp]
          rw [hh] at hq
          rcases List.mem_cons.1 hq with hqp | hq2
          · exact Or.inl ⟨hqp, rfl⟩
          · right
            refine ⟨?_, _, hzg, hq2⟩
            intro hqp
            rw [hqp] at hq2
            exact hne (held_unique hI.1 hxg hzg hpx hq2)
        · right
          refine ⟨?_, _, h0', hq⟩
          rintro rfl
          exact hx' (held_unique hI.1 hxg h0' hpx hq).symm
      · intro z' d h0 hks
        rcases hdevs z' d h0 with ⟨rfl, rfl⟩ | ⟨hx', rfl, rfl⟩ | ⟨hx', hz', h0'⟩
        · exact ⟨_, hxg, by rw [← show d.kind = (sdev (w.dev z')).kind from hsk]; exact hks⟩
        · exact ⟨_, hzg, hks⟩
        · exact ⟨_, h0', hks⟩
      · intro z' d b h0 hb'
        rcases hdevs z' d h0 with ⟨rfl, rfl⟩ | ⟨hx', rfl, rfl⟩ | ⟨hx', hz', h0'⟩
        · exact ⟨_, hxg, hin b hb'⟩
        · exact ⟨_, hzg, hb'⟩
        · exact ⟨_, h0', hb'⟩
    have hRb1 : TV (topo w) (cx cl) (mask (accept (sv w) z p (sdev (w.dev z))) x s)
        (skOf w1) := by
      refine TV.congr hInv1 hRb ?_
      intro q hq
      have hq' : q < (C02V.acceptPre wa z p).parts.length := by
        rw [hlenb, ← sv_kids_length]; exact hq
      exact (hHN.hs.2 q hq').2
    have hR1 : TV (topo w) (cx cl) (mask (sv w1) x s) (skOf w1) := by
      have hzm : (mask (accept (sv w) z p (sdev (w.dev z))) x s).devs[z]? =
          some { sdev (w.dev z) with part := some p } := by
        simp only [mask, accept, SV.setDev]
        rw [List.getElem?_set_ne hne, List.getElem?_set_self hzl']
      refine tv_steps hsm ?_ hInv1 hRb1 ?_ ?_
      · intro hn
        have hkz : (w.dev z).kind ≠ .batcher := hn _ hzm
        have := tlk_acceptPart wa z p (by rw [hqa.kind]; exact hkz)
        rw [hqa.sv, sdev_of_sv hqa.sv, ← hw1] at this
        exact this.mask hne s
      · intro d hd hkd
        rw [hzm] at hd; cases hd
        exact hD z hkd
      · intro q hq1 hq2
        have hq1' : (C02V.acceptPre wa z p).parts.length ≤ q := by
          rw [hlenb, ← sv_kids_length]; exact hq1
        have hq2' : q < w1.parts.length := by
          rw [← sv_kids_length]; exact hq2
        exact (hHN.nw q hq1' hq2').1
    have h3 : (sv w1).devs[x]? = some (sdev (w.dev x)) := by
      rw [hsteps.devs_ne hne]
      simp only [accept]
      rw [List.getElem?_set_ne (Ne.symm hne)]
      exact hxg
    have h4 : w1.devs.length = w.devs.length := by
      have := hsteps.length
      simpa [sv, accept] using this
    refine ⟨inv_steps hInv1 hsm, hR1, ?_, h4⟩
    have := sv_get w1 x (by rw [h4]; exact hx)
    rw [h3] at this
    exact (Option.some.inj this).symm

theorem TInv.of_view {w1 w' : World} {a : SV} {t : Topo}
    (h : TV t (cx cl) a (skOf w1)) (h1 : sv w' = a) (h2 : topo w' = t)
    (h3 : w'.parts = w1.parts) : TInv cl w' := by
  unfold TInv
  have e2 : skOf w' = skOf w1 := by funext q; unfold skOf; rw [part_congr h3]
  rw [h1, h2, e2]; exact h

/-- A successful offer round, seen from the giver. -/
theorem tinv_handover (w : World) (x p : Nat) (l : List Nat) (s : SDev) (hI : InvW w) (hR : TInv cl w)
    (hT : TypT (topo w) (cx cl)) (hD : BatS cl w)
    (hx : x < w.devs.length) (hk : (w.dev x).kind ≠ .sink) (hsk : s.kind = (w.dev x).kind)
    (hperm : (sdev (w.dev x)).held.Perm (p :: s.held))
    (hin : ∀ b, s.inprog = some b → (w.dev x).inprog = some b)
    (hpi : (w.dev x).inprog ≠ some p)
    (hl : ∀ y ∈ l, y ∈ (w.dev x).down ∧ ∀ z, Reach (st w) y z → z < w.devs.length)
    (w1 : World) (hb : tryList givePart w l p = (w1, true)) :
    ((w.dev x).part = none ∧ (w.dev x).output = none ∧
      ((w.dev x).kind = .buffer →
        sv w1 = (sv w).setDev x { sdev (w.dev x) with buf := (sdev (w.dev x)).buf ++ [p] } ∧
        ∀ m : SV, m.kids = (sv w).kids →
          (∀ (z' : Nat) (d : SDev) (q : Nat), m.devs[z']? = some d → q ∈ d.held →
            (q = p ∧ z' = x) ∨ (q ≠ p ∧ ∃ d0 : SDev, (sv w).devs[z']? = some d0 ∧ q ∈ d0.held)) →
          (∀ (z' : Nat) (d : SDev), m.devs[z']? = some d → d.kind ≠ .sink →
            ∃ d0 : SDev, (sv w).devs[z']? = some d0 ∧ d0.kind ≠ .sink) →
          (∀ (z' : Nat) (d : SDev) (b : Nat), m.devs[z']? = some d → d.inprog = some b →
            ∃ d0 : SDev, (sv w).devs[z']? = some d0 ∧ d0.inprog = some b) →
          TV (topo w) (cx cl) m (skOf w1))) ∨
    (Inv (mask (sv w1) x s) ∧ TV (topo w) (cx cl) (mask (sv w1) x s) (skOf w1) ∧
      sdev (w1.dev x) = sdev (w.dev x) ∧ w1.devs.length = w.devs.length) := by
  obtain ⟨l1, y, l2, wm, hl', h1, h2⟩ := tryList_true hb
  obtain ⟨hq, hparts, _⟩ := prefix_quiet' h1
  have hy := hl y (by rw [hl']; simp)
  exact tinv_give w wm w1 x y p s hI hR hT hD hx hk hsk hperm hin hpi hq hparts hy.1 hy.2 h2

theorem nodup_out_inprog {d : SDev} {p : Nat} (hnd : d.held.Nodup) (ho : d.output = some p) :
    d.inprog ≠ some p := by
  intro hi
  simp only [SDev.held, ho, hi, Option.toList_some] at hnd
  have := hnd
  simp [List.nodup_append] at this

theorem nodup_buf_inprog {d : SDev} {p : Nat} (hnd : d.held.Nodup) (ho : p ∈ d.buf) :
    d.inprog ≠ some p := by
  intro hi
  simp only [SDev.held, hi, Option.toList_some] at hnd
  have := hnd
  simp only [List.nodup_append, List.mem_append, List.mem_singleton] at this
  exact this.2.2 p (Or.inr ho) p rfl rfl

theorem tinv_passHandler (w : World) (x : Nat) (hI : InvW w) (hR : TInv cl w)
    (hT : TypT (topo w) (cx cl)) (hD : BatS cl w)
    (hk : (w.dev x).kind ≠ .sink) (hg : GiveOK w x) : TInv cl (w.passHandler x) := by
  unfold World.passHandler
  simp only []
  split
  · exact hR
  · split
    · exact hR
    · rename_i p hp
      have hx : x < w.devs.length := lt_of_output hp
      rcases hb : tryList givePart w (w.sortedDown x) p with ⟨w1, b⟩
      cases b with
      | false =>
        simp only []
        obtain ⟨hq, hparts, _⟩ := prefix_quiet' hb
        refine hR.of_frame_st ?_ ?_ ?_
        · refine Eq.trans (sv_modDev_same _ _ _ ?_) hq.sv; intro _; rfl
        · refine Eq.trans (st_modDev_same _ _ _ ?_) hq.st; intro _; rfl
        · rw [modDev_parts]; exact hparts
      | true =>
        simp only []
        have hnd := held_nodup hI.1 (List.mem_of_getElem? (sv_get w x hx))
        have key := tinv_handover w x p (w.sortedDown x) { sdev (w.dev x) with output := none } hI hR
          hT hD hx hk rfl
          (by
            simp only [SDev.held, sdev, hp, Option.toList_some, Option.toList_none, List.append_nil,
              List.append_assoc, List.singleton_append]
            exact List.perm_middle)
          (fun b h => h)
          (nodup_out_inprog (d := sdev (w.dev x)) hnd (by simp [sdev, hp]))
          (fun y hy => ⟨(mem_sortedDown ..).1 hy, fun z hr => hg y ((mem_sortedDown ..).1 hy) z hr⟩)
          w1 hb
        have key := key.resolve_left (by rintro ⟨_, h, _⟩; rw [hp] at h; cases h)
        refine TInv.of_view key.2.1 ?_ ?_ ?_
        · rw [sv_notify]
          unfold World.modDev
          rw [sv_setDev]
          have e : sdev { (w1.dev x) with output := none } = { sdev (w.dev x) with output := none } := by
            rw [← key.2.2.1]; rfl
          rw [e]; rfl
        · have : st w1 = st w := by
            have := st_tryGive w (w.sortedDown x) p; rw [hb] at this; exact this
          apply topo_of_st
          rw [st_notify]
          refine Eq.trans (st_modDev_same _ _ _ ?_) this; intro _; rfl
        · rw [notify_parts, modDev_parts]

theorem tinv_bufferLoop (f : Nat) : ∀ (w : World) (x : Nat), InvW w → TInv cl w →
    TypT (topo w) (cx cl) → BatS cl w →
    (w.dev x).kind = .buffer → GiveOK w x → TInv cl (bufferLoop f w x) := by
  induction f with
  | zero => intro w x _ h _ _ _ _; exact h
  | succ f ih =>
    intro w x hI hR hT hD hk hg
    unfold bufferLoop
    simp only []
    split
    · exact hR
    · rename_i t p rest hbuf
      have hx : x < w.devs.length := lt_of_buf (by rw [hbuf]; simp)
      have hbs : (sdev (w.dev x)).buf = p :: rest.map (·.2) := by simp [sdev, hbuf]
      split
      · exact hR
      · rcases hb : tryList givePart w (w.sortedDown x) p with ⟨w1, b⟩
        cases b with
        | false =>
          simp only []
          obtain ⟨hq, hparts, _⟩ := prefix_quiet' hb
          exact hR.of_frame_st hq.sv hq.st hparts
        | true =>
          simp only []
          have hb2 : (tryList givePart w (w.sortedDown x) p).2 = true := by rw [hb]
          have hw1 : (tryList givePart w (w.sortedDown x) p).1 = w1 := by rw [hb]
          have hxg := sv_get w x hx
          have hnd := held_nodup hI.1 (List.mem_of_getElem? hxg)
          -- the conservation side, as in `inv_bufferLoop`
          have keyI := handover w x p (w.sortedDown x) { sdev (w.dev x) with buf := rest.map (·.2) } hI hx
            (by rw [hk]; decide) rfl
            (by simp only [SDev.held, sdev, hbuf, List.map_cons]; exact perm_buf ..)
            (fun b h => h)
            (fun y hy z hr => hg y ((mem_sortedDown ..).1 hy) z hr)
            hb2
          rw [hw1] at keyI
          have keyR := tinv_handover w x p (w.sortedDown x) { sdev (w.dev x) with buf := rest.map (·.2) }
            hI hR hT hD hx (by rw [hk]; decide) rfl
            (by simp only [SDev.held, sdev, hbuf, List.map_cons]; exact perm_buf ..)
            (fun b h => h)
            (nodup_buf_inprog (d := sdev (w.dev x)) hnd (by rw [hbs]; exact List.mem_cons_self ..))
            (fun y hy => ⟨(mem_sortedDown ..).1 hy, fun z hr => hg y ((mem_sortedDown ..).1 hy) z hr⟩)
            w1 hb
          have hst : st w1 = st w := by
            have := st_tryGive w (w.sortedDown x) p; rw [hb] at this; exact this
          -- the state after removing the head of the buffer
          have hfin : (InvW (w1.modDev x (fun d => { d with level := d.level - w.leafCount p, buf := d.buf.drop 1 })) ∧
              (w1.modDev x (fun d => { d with level := d.level - w.leafCount p, buf := d.buf.drop 1 })).devs.length =
                w.devs.length) ∧
              TInv cl (w1.modDev x (fun d => { d with level := d.level - w.leafCount p, buf := d.buf.drop 1 })) := by
            have hsvf : sv (w1.modDev x (fun d => { d with level := d.level - w.leafCount p, buf := d.buf.drop 1 })) =
                (sv w1).setDev x { sdev (w1.dev x) with buf := (sdev (w1.dev x)).buf.drop 1 } := by
              unfold World.modDev; rw [sv_setDev, sdev_dropBuf]
            have htopo : topo (w1.modDev x (fun d => { d with level := d.level - w.leafCount p, buf := d.buf.drop 1 })) =
                topo w := by
              apply topo_of_st; rw [st_setBuf]; exact hst
            have hparts : (w1.modDev x (fun d => { d with level := d.level - w.leafCount p, buf := d.buf.drop 1 })).parts =
                w1.parts := modDev_parts ..
            rcases keyI with ⟨hpn, hon, hself⟩ | ⟨hinv, hsd, hlen⟩
            · -- the buffer handed the part to itself: its content is rotated
              have hsv := hself hk
              have hlen : w1.devs.length = w.devs.length := by
                have := congrArg (fun a => a.devs.length) hsv
                simpa [sv, SV.setDev] using this
              have hd : sdev (w1.dev x) = { sdev (w.dev x) with buf := (sdev (w.dev x)).buf ++ [p] } := by
                have := congrArg (fun a => a.dev x) hsv
                simp only [sv_dev] at this
                rw [this]
                simp [SV.setDev, SV.dev, sv, hx]
              have hsvf' : sv (w1.modDev x (fun d => { d with level := d.level - w.leafCount p, buf := d.buf.drop 1 })) =
                  { devs := (sv w).devs.set x { sdev (w.dev x) with buf := ((sdev (w.dev x)).buf ++ [p]).drop 1 },
                    kids := (sv w).kids, gen := (sv w).gen, del := (sv w).del, lost := (sv w).lost } := by
                rw [hsvf, hsv, hd]
                simp only [SV.setDev, List.set_set]
              have hperm : (sdev (w.dev x)).held.Perm
                  ([] ++ (SDev.held { sdev (w.dev x) with buf := ((sdev (w.dev x)).buf ++ [p]).drop 1 })) := by
                simp only [SDev.held, hbs, List.nil_append, List.cons_append, List.drop_succ_cons, List.drop_zero]
                exact ((List.perm_append_singleton p _).symm.append_left _).append_right _
              refine ⟨⟨?_, by show (List.set _ _ _).length = _; rw [List.length_set]; exact hlen⟩, ?_⟩
              · unfold InvW; rw [hsvf']
                exact ⟨consV_rearr hI.1 _ _ [] hxg rfl hperm (Or.inr (by simp)),
                  extraV_rearr hI.2 _ _ [] hxg rfl hperm (fun b h => h)⟩
              · have keyR := keyR.resolve_right (by
                  rintro ⟨_, _, hsd, _⟩
                  have h1 := congrArg SDev.buf hsd
                  have h2 := congrArg SDev.buf hd
                  rw [h2] at h1
                  have := congrArg List.length h1
                  simp at this)
                obtain ⟨_, hall⟩ := keyR.2.2 hk
                have hxl' : x < (sv w).devs.length := (List.getElem?_eq_some_iff.1 hxg).1
                have hdevs : ∀ (z' : Nat) (d : SDev),
                    ((sv w).devs.set x { sdev (w.dev x) with buf := ((sdev (w.dev x)).buf ++ [p]).drop 1 })[z']? = some d →
                    (z' = x ∧ d = { sdev (w.dev x) with buf := ((sdev (w.dev x)).buf ++ [p]).drop 1 }) ∨
                    (z' ≠ x ∧ (sv w).devs[z']? = some d) := by
                  intro z' d h0
                  by_cases hxz : x = z'
                  · subst hxz
                    rw [List.getElem?_set_self hxl'] at h0
                    cases h0
                    exact Or.inl ⟨rfl, rfl⟩
                  · rw [List.getElem?_set_ne hxz] at h0
                    exact Or.inr ⟨fun e => hxz e.symm, h0⟩
                refine TInv.of_view (w1 := w1) (hall
                  { devs := (sv w).devs.set x { sdev (w.dev x) with buf := ((sdev (w.dev x)).buf ++ [p]).drop 1 },
                    kids := (sv w).kids, gen := (sv w).gen, del := (sv w).del, lost := (sv w).lost }
                  rfl ?_ ?_ ?_) hsvf' htopo hparts
                · intro z' d q h0 hq
                  simp only at h0
                  rcases hdevs z' d h0 with ⟨rfl, rfl⟩ | ⟨hxz, h0'⟩
                  · have hq' := hperm.symm.subset (by simpa using hq)
                    by_cases hqp : q = p
                    · exact Or.inl ⟨hqp, rfl⟩
                    · exact Or.inr ⟨hqp, _, hxg, hq'⟩
                  · right
                    refine ⟨?_, _, h0', hq⟩
                    intro hqp
                    rw [hqp] at hq
                    exact hxz (held_unique hI.1 hxg h0' (by simp [SDev.held, hbs]) hq).symm
                · intro z' d h0 hks
                  simp only at h0
                  rcases hdevs z' d h0 with ⟨rfl, rfl⟩ | ⟨hxz, h0'⟩
                  · exact ⟨_, hxg, hks⟩
                  · exact ⟨_, h0', hks⟩
                · intro z' d b h0 hb'
                  simp only at h0
                  rcases hdevs z' d h0 with ⟨rfl, rfl⟩ | ⟨hxz, h0'⟩
                  · exact ⟨_, hxg, hb'⟩
                  · exact ⟨_, h0', hb'⟩
            · have hsvf' : sv (w1.modDev x (fun d => { d with level := d.level - w.leafCount p, buf := d.buf.drop 1 })) =
                  mask (sv w1) x { sdev (w.dev x) with buf := rest.map (·.2) } := by
                rw [hsvf, hsd, hbs]; rfl
              refine ⟨⟨?_, by show (List.set _ _ _).length = _; rw [List.length_set]; exact hlen⟩, ?_⟩
              · unfold InvW; rw [hsvf']; exact hinv
              · have keyR := keyR.resolve_left (by
                  rintro ⟨_, _, hself⟩
                  have hsv := (hself hk).1
                  have hd : sdev (w1.dev x) = { sdev (w.dev x) with buf := (sdev (w.dev x)).buf ++ [p] } := by
                    have := congrArg (fun a => a.dev x) hsv
                    simp only [sv_dev] at this
                    rw [this]
                    simp [SV.setDev, SV.dev, sv, hx]
                  have h1 := congrArg SDev.buf hsd
                  have h2 := congrArg SDev.buf hd
                  rw [h2] at h1
                  have := congrArg List.length h1
                  simp at this)
                exact TInv.of_view keyR.2.1 hsvf' htopo hparts
          have hstf : st ((w1.modDev x (fun d => { d with level := d.level - w.leafCount p, buf := d.buf.drop 1 })).addRec
              (.level x (w1.modDev x (fun d => { d with level := d.level - w.leafCount p, buf := d.buf.drop 1 })).now
                ((w1.modDev x (fun d => { d with level := d.level - w.leafCount p, buf := d.buf.drop 1 })).dev x).level)) =
              st w := by
            rw [st_addRec, st_setBuf, hst]
          apply ih
          · exact hfin.1.1.of_sv (sv_addRec ..)
          · exact hfin.2.of_frame_st (sv_addRec ..) (st_addRec ..) rfl
          · exact hT.of_topo (topo_of_st hstf)
          · exact hD.of_st hstf
          · rw [kind_of_st hstf]; exact hk
          · exact hg.of_st hstf hfin.1.2

/-! ### `passPart`, `failDev` -/

theorem tinv_passPart_source (w : World) (x : Nat) (hI : InvW w) (hR : TInv cl w)
    (hT : TypT (topo w) (cx cl)) (hD : BatS cl w) (hg : GiveOK w x)
    (hk : (w.dev x).kind = .source) : TInv cl (w.passPart x) := by
  have i1 := inv_passHandler w x hI (by rw [hk]; decide) hg
  have h1 := tinv_passHandler w x hI hR hT hD (by rw [hk]; decide) hg
  unfold World.passPart
  simp only [hk]
  repeat' split
  all_goals first
    | exact hR
    | exact h1
    | (refine tinv_scheduleFinish _ x ?_ ?_ ?_
       · refine i1.of_sv ?_
         rw [sv_addRec, sv_modDev_same]
         intro _; rfl
       · refine h1.of_frame ?_ ?_ ?_
         · rw [sv_addRec, sv_modDev_same]
           intro _; rfl
         · apply topo_of_tv
           rw [tv_of_st (st_addRec ..)]
           unfold World.modDev
           rw [tdevE_setDev]
           rfl
         · rfl
       · refine hD.of_tv ?_
         refine Eq.trans ?_ (tv_of_st (st_passHandler w x))
         rw [tv_of_st (st_addRec ..)]
         unfold World.modDev
         rw [tdevE_setDev]
         rfl)

theorem tinv_passPart_buffer (w : World) (x : Nat) (hI : InvW w) (hR : TInv cl w)
    (hT : TypT (topo w) (cx cl)) (hD : BatS cl w) (hg : GiveOK w x)
    (hk : (w.dev x).kind = .buffer) : TInv cl (w.passPart x) := by
  unfold World.passPart
  simp only [hk]
  have h1 := tinv_bufferLoop ((w.dev x).buf.length + 1) w x hI hR hT hD hk hg
  refine h1.of_frame_st ?_ ?_ ?_
  · rw [sv_notify]
    split
    · rfl
    · split
      · rw [sv_schedulePass]
      · rw [sv_setDev_same]; rfl
  · rw [st_notify]
    split
    · rfl
    · split
      · rw [st_schedulePass]
      · rw [st_setDev_same]; rfl
  · rw [notify_parts]
    split
    · rfl
    · split
      · rw [schedulePass_parts]
      · rfl

theorem tinv_passPart_batcher (w : World) (x : Nat) (hI : InvW w) (hR : TInv cl w)
    (hT : TypT (topo w) (cx cl)) (hD : BatS cl w) (hg : GiveOK w x)
    (hk : (w.dev x).kind = .batcher) : TInv cl (w.passPart x) := by
  unfold World.passPart
  simp only [hk]
  have i1 := inv_passHandler w x hI (by rw [hk]; decide) hg
  have h1 := tinv_passHandler w x hI hR hT hD (by rw [hk]; decide) hg
  split
  · exact tinv_tryMove _ x i1 h1 (hD.of_st (st_passHandler w x))
  · exact h1

theorem tinv_passPart (w : World) (x : Nat) (hI : InvW w) (hR : TInv cl w)
    (hT : TypT (topo w) (cx cl)) (hD : BatS cl w) (hg : GiveOK w x) :
    TInv cl (w.passPart x) := by
  cases hk : (w.dev x).kind
  case source => exact tinv_passPart_source w x hI hR hT hD hg hk
  case buffer => exact tinv_passPart_buffer w x hI hR hT hD hg hk
  case batcher => exact tinv_passPart_batcher w x hI hR hT hD hg hk
  case sink => unfold World.passPart; simp only [hk]; exact hR
  all_goals
    unfold World.passPart
    simp only [hk]
    exact tinv_passHandler w x hI hR hT hD (by rw [hk]; decide) hg

theorem tinv_failDev (w : World) (x : Nat) (hR : TInv cl w) : TInv cl (w.failDev x) := by
  unfold TInv at hR ⊢
  have ht : topo (w.failDev x) = topo w := topo_of_st (st_failDev w x)
  have hparts : (w.failDev x).parts = w.parts := by
    unfold World.failDev
    simp only []
    rw [show ∀ (w : World) (x : Nat) (f : Bool) (l : Option Nat), (w.shutdownDev x f l).parts = w.parts from
      fun w x f l => by unfold World.shutdownDev; dsimp only; repeat' split
                        all_goals simp [foldl_preserve World.parts _ _ _ (fun w k => addRes_parts w _)]]
    rw [addRec_parts, releaseReserved_parts, modDev_parts]
    split <;> rfl
  have e2 : skOf (w.failDev x) = skOf w := by funext q; unfold skOf; rw [part_congr hparts]
  rw [ht, e2]
  -- the slot view: the input slot of `x` is emptied
  have hsv : sv (w.failDev x) = { sv w with
      devs := (sv w).devs.set x { sdev (w.dev x) with part := none },
      lost := (sv (w.failDev x)).lost } := by
    unfold World.failDev
    simp only []
    rw [sv_shutdownDev, sv_addRec, sv_releaseReserved]
    unfold World.modDev
    rw [sv_setDev]
    split <;> rfl
  rw [hsv]
  refine hR.sub rfl ?_
  intro z d h0
  simp only at h0
  by_cases hxz : x = z
  · subst hxz
    by_cases hxl : x < (sv w).devs.length
    · rw [List.getElem?_set_self hxl] at h0
      cases h0
      have hx' : x < w.devs.length := by simpa [sv] using hxl
      exact ⟨_, sv_get w x hx', rfl, fun q hq => held_part_none _ q hq, fun b hb => hb⟩
    · rw [List.getElem?_eq_none (by rw [List.length_set]; exact Nat.le_of_not_lt hxl)] at h0
      cases h0
  · rw [List.getElem?_set_ne hxz] at h0
    exact ⟨d, h0, rfl, fun q hq => hq, fun b hb => hb⟩

end C03Z
end SimProc
