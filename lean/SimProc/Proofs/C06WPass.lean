/-
C06W (closed-world timer invariant), part 5: the hand-over of a part: `give`, `tryList`,
`passHandler`, `bufferLoop`, `passPart`.
-/
import SimProc.Proofs.C06WFloor
import SimProc.Proofs.FloorPass
namespace SimProc
namespace C06W
open World FloorCoreL
open C02V (Reach st GiveOK)

theorem Good.refl {w : World} (h : FI w) : Good w w := ⟨h, Keep.refl w⟩

theorem Good.fr {w w' w'' : World} (h : Good w w') (f : Fr None_ w' w'') : Good w w'' :=
  h.trans (f.good h.1)

/-- The state part of `_can_accept_part` of a timing device: empty slots, operational. -/
theorem canAccept_T {w : World} {x p : Nat} (hT : isT (w.dev x).kind = true)
    (h : w.canAcceptBasic x p = true) :
    (w.dev x).part = none ∧ (w.dev x).output = none ∧ w.operational x = true := by
  unfold World.canAcceptBasic at h
  cases hk : (w.dev x).kind <;> simp_all [isT, Option.isNone_iff_eq_none]

theorem reach_self {w : World} {y : Nat} (hl : isHandlerLike (w.dev y).kind = true) :
    Reach (st w) y y := Reach.self y (by rw [C02V.st_kind]; exact hl)

theorem good_tryList (g : World → Nat → Nat → World × Bool)
    (hg : ∀ w y p, FI w → (∀ z, Reach (st w) y z → z < w.devs.length) → Good w (g w y p).1)
    (hst : ∀ w y p, st (g w y p).1 = st w) (l : List Nat) :
    ∀ (w : World) (p : Nat), FI w → (∀ y ∈ l, ∀ z, Reach (st w) y z → z < w.devs.length) →
      Good w (tryList g w l p).1 := by
  induction l with
  | nil => intro w p h _; exact Good.refl h
  | cons y ys ih =>
    intro w p h hr
    unfold tryList
    have h1 := hg w y p h (hr y (List.mem_cons_self ..))
    have h2 := hst w y p
    cases hgy : g w y p with
    | mk w' b =>
      rw [hgy] at h1 h2
      cases b with
      | true => exact h1
      | false =>
        simp only [] at h1 h2 ⊢
        refine h1.trans (ih w' p h1.1 ?_)
        intro y' hy' z hz
        rw [h2] at hz
        rw [h1.2.len]
        exact hr y' (List.mem_cons_of_mem _ hy') z hz

theorem good_give (f : Nat) : ∀ (w : World) (y p : Nat), FI w →
    (∀ z, Reach (st w) y z → z < w.devs.length) → Good w (give f w y p).1 := by
  induction f with
  | zero => intro w y p h _; exact (fr_setErr (X := None_) w "fuel" (by decide)).good h
  | succ f ih =>
    intro w y p h hr
    have hl := good_tryList (give f) ih (C02V.st_give f)
    unfold give
    simp only []
    split
    iterate 5
      rename_i hk
      split
      · rename_i hc
        have hlk : isHandlerLike (w.dev y).kind = true := by rw [hk]; rfl
        dsimp only
        exact good_acceptPart h p (hr y (reach_self hlk)) hlk (fun hT => canAccept_T hT hc)
      · exact Good.refl h
    · -- processor
      rename_i hk
      have hlk : isHandlerLike (w.dev y).kind = true := by rw [hk]; rfl
      have hT : isT (w.dev y).kind = true := by rw [hk]; rfl
      split
      · rename_i hc
        obtain ⟨hp, ho, hop⟩ := canAccept_T hT hc
        have fa := fr_procAcquire (X := None_) w y
        split
        · rename_i w1 hw1
          rw [hw1] at fa
          have e := fa.tdm_eq y
          have hT1 : isT (w1.dev y).kind = true := by rw [fa.kind]; exact hT
          dsimp only at fa ⊢
          refine (fa.good h).trans (good_acceptPart (fa.good h).1 p (fa.len ▸ hr y (reach_self hlk))
            (by rw [fa.kind]; exact hlk) (fun _ => ⟨?_, ?_, ?_⟩))
          · rw [← tdm_part hT1, e, tdm_part hT]; exact hp
          · rw [← tdm_output hT1, e, tdm_output hT]; exact ho
          · rw [operational_eq, e, ← operational_eq]; exact hop
        · rename_i w1 hw1
          rw [hw1] at fa
          dsimp only at fa ⊢
          exact fa.good h
      · exact Good.refl h
    · -- gate
      rename_i hk
      split
      · exact Good.refl h
      · split
        · exact Good.refl h
        · have f1 := fr_addHist (X := None_) w p y
          have hs1 : st (w.addHist p y) = st w := C02V.st_addHist ..
          have := hl ((w.addHist p y).sortedDown y) (w.addHist p y) p (f1.good h).1 (by
            intro z hz u hu
            rw [hs1] at hu
            rw [f1.len]
            refine hr u (Reach.gate y z u (Or.inl ?_) ?_ hu)
            · rw [C02V.st_kind]; exact hk
            · rw [C02V.st_down]
              have := (C02V.mem_sortedDown ..).1 hz
              have e : ((w.addHist p y).dev y).down = (w.dev y).down := by rw [dev_addHist]
              rw [← e]; exact this)
          split
          · rename_i w2 hw2; rw [hw2] at this
            exact (f1.good h).trans this
          · rename_i w2 hw2; rw [hw2] at this
            exact ((f1.good h).trans this).fr (fr_dropHist _ _)
    · -- ginput
      rename_i hk
      split
      · exact Good.refl h
      · refine hl (w.sortedDown y) w p h ?_
        intro z hz u hu
        refine hr u (Reach.gate y z u (Or.inr ?_) ?_ hu)
        · rw [C02V.st_kind]; exact hk
        · rw [C02V.st_down]; exact (C02V.mem_sortedDown ..).1 hz
    · -- gpath
      rename_i hk
      split
      · exact Good.refl h
      · have f1 : Fr None_ w ((w.modPart p (fun r => { r with stack := r.stack ++ [y] })).addHist p y) :=
          (fr_modPart _ _ _).trans (fr_addHist _ _ _)
        have hs1 : st ((w.modPart p (fun r => { r with stack := r.stack ++ [y] })).addHist p y) = st w := by
          rw [C02V.st_addHist]; rfl
        have := ih ((w.modPart p (fun r => { r with stack := r.stack ++ [y] })).addHist p y)
          ((((w.modPart p (fun r => { r with stack := r.stack ++ [y] })).addHist p y).groups.getD
            (w.dev y).group default).input) p (f1.good h).1 (by
            intro u hu
            rw [hs1] at hu
            rw [f1.len]
            refine hr u (Reach.gpath y u ?_ ?_)
            · rw [C02V.st_kind]; exact hk
            · rw [C02V.st_gin, C02V.st_group]
              have e : ((w.modPart p (fun r => { r with stack := r.stack ++ [y] })).addHist p y).groups =
                  w.groups := by
                have := congrArg World.groups (addHist_noParts (w.modPart p (fun r => { r with stack := r.stack ++ [y] })) p y)
                exact this
              rw [e] at hu
              exact hu)
        split
        · rename_i w2 hw2
          rw [hw2] at this
          exact (f1.good h).trans this
        · rename_i w2 hw2
          rw [hw2] at this
          exact (((f1.good h).trans this).fr (fr_modPart _ _ _)).fr (fr_dropHist _ _)
    · -- goutput
      rename_i hk
      split
      · exact (fr_setErr (X := None_) w "no-group-path" (by decide)).good h
      · rename_i g hg
        have f1 : Fr None_ w (w.modPart p (fun r => { r with stack := r.stack.dropLast })) :=
          fr_modPart _ _ _
        have := hl ((w.modPart p (fun r => { r with stack := r.stack.dropLast })).sortedDown g)
          (w.modPart p (fun r => { r with stack := r.stack.dropLast })) p (f1.good h).1 (by
            intro z hz u hu
            refine hr u (Reach.goutput y g z u ?_ ?_ hu)
            · rw [C02V.st_kind]; exact hk
            · rw [C02V.st_down]
              exact (C02V.mem_sortedDown (w.modPart p (fun r => { r with stack := r.stack.dropLast })) g z).1 hz)
        split
        · rename_i w2 hw2; rw [hw2] at this
          exact (f1.good h).trans this
        · rename_i w2 hw2; rw [hw2] at this
          dsimp only at this ⊢
          exact ((f1.good h).trans this).fr (fr_modPart _ _ _)

theorem good_tryGive (w : World) (l : List Nat) (p : Nat) (h : FI w)
    (hr : ∀ y ∈ l, ∀ z, Reach (st w) y z → z < w.devs.length) : Good w (tryList givePart w l p).1 :=
  good_tryList givePart (fun w y p h hr => good_give w.fuel w y p h hr) C02V.st_givePart l w p h hr

/-- Emptying the output slot of a device. -/
theorem loc_clearOutput {w : World} (h : FI w) (x : Nat) :
    Loc w (w.modDev x (fun d => { d with output := none })) x := by
  refine ⟨(fr_at x _).toL (fun _ h => h), fun hk => ?_, fun _ => Or.inl rfl⟩
  have ht := h.timer x hk
  show TimerAt w.env x _
  by_cases hx : x < w.devs.length
  · rw [dev_modDev_same hx]
    have e : tdm ({ w.dev x with output := none } : Dev) = { tdm (w.dev x) with output := none } := by
      simp [tdm]
    rw [e]
    exact ⟨ht.asset, ht.idle, fun p hp => ⟨rfl, (ht.busy p hp).2⟩, ht.up⟩
  · rw [modDev_out_of_range (Nat.le_of_not_lt hx)]; exact ht

theorem good_passHandler (w : World) (x : Nat) (h : FI w) (hg : GiveOK w x) :
    Good w (w.passHandler x) := by
  unfold World.passHandler
  simp only []
  split
  · exact Good.refl h
  · split
    · exact Good.refl h
    · rename_i p _
      have h1 := good_tryGive w (w.sortedDown x) p h
        (fun y hy z hz => hg y ((C02V.mem_sortedDown ..).1 hy) z hz)
      split
      · rename_i w1 hw1
        rw [hw1] at h1
        exact (h1.trans ((loc_clearOutput h1.1 x).good h1.1)).fr (fr_notify _ _)
      · rename_i w1 hw1
        rw [hw1] at h1
        exact h1.fr (fr_modDev_same _ _ _ rfl)

theorem good_bufferLoop (f : Nat) : ∀ (w : World) (x : Nat), FI w → GiveOK w x →
    Good w (bufferLoop f w x) := by
  induction f with
  | zero => intro w x h _; exact Good.refl h
  | succ f ih =>
    intro w x h hg
    have key : ∀ w1 w2 : World, Good w w1 → Fr None_ w1 w2 → st w2 = st w →
        Good w (bufferLoop f w2 x) := by
      intro w1 w2 g1 f2 hs
      have h2 := g1.fr f2
      exact h2.trans (ih _ x h2.1 (hg.of_st hs h2.2.len))
    unfold bufferLoop
    simp only []
    split
    · exact Good.refl h
    · rename_i t p rest _
      split
      · exact Good.refl h
      · have h1 := good_tryGive w (w.sortedDown x) p h
          (fun y hy z hz => hg y ((C02V.mem_sortedDown ..).1 hy) z hz)
        have hst : st (tryList givePart w (w.sortedDown x) p).1 = st w := C02V.st_tryGive ..
        split
        · rename_i w1 hw1
          rw [hw1] at h1 hst
          dsimp only at h1 hst
          refine key _ _ h1 ?_ (by rw [C02V.st_addRec, C02V.st_setBuf, hst])
          refine Fr.trans ?_ (fr_addRec _ _)
          exact fr_modDev_same _ _ _ rfl
        · rename_i w1 hw1
          rw [hw1] at h1
          exact h1

theorem good_passPart (w : World) (x : Nat) (h : FI w) (hg : GiveOK w x) : Good w (w.passPart x) := by
  have hph := good_passHandler w x h hg
  cases hk : (w.dev x).kind
  case source =>
    unfold World.passPart
    simp only [hk]
    repeat' split
    all_goals first
      | exact Good.refl h
      | exact hph
      | (refine ((hph.fr (fr_modDev_same _ _ _ rfl)).fr (fr_addRec _ _)).fr
          (fr_scheduleFinish_source _ x ?_)
         rw [dev_addRec, Fr.kind (fr_modDev_same (X := None_) _ _ _ rfl), hph.2.ka x |>.1]
         exact hk)
  case buffer =>
    unfold World.passPart
    simp only [hk]
    have h1 := good_bufferLoop ((w.dev x).buf.length + 1) w x h hg
    refine Good.fr ?_ (fr_notify _ _)
    split
    · exact h1
    · split
      · exact h1.fr (fr_schedulePass _ _ _)
      · exact h1.fr (fr_setDev_same _ _ _ rfl)
  case batcher =>
    unfold World.passPart
    simp only [hk]
    split
    · exact hph.fr (fr_tryMove_batcher _ x (by rw [(hph.2.ka x).1]; exact hk))
    · exact hph
  case sink =>
    unfold World.passPart
    simp only [hk]
    exact Good.refl h
  all_goals
    unfold World.passPart
    simp only [hk]
    exact hph

end C06W
end SimProc
