/-
C20W — machinery, part 4: initialisation does not read the wiring.

A *registration transformer* `Tr` changes the wiring of the devices (`up` / `down`), may append
devices, maintainers, schedulers, sensors, cms slots and registration entries, changes the groups
and the `started` flag — exactly what the registration half of a constructor call does.  Theorem
`initAsset_app`: initialising an (old, valid) asset commutes with every registration
transformer.  This is what makes "construct, then start" and "start, then construct" agree.
-/
import SimProc.Proofs.C20WWorld

namespace SimProc
namespace C20W
open World FloorCoreL

/-! ### wiring of a device -/

/-- `d` with the wiring of `src`. -/
def rewir (src d : Dev) : Dev := { d with up := src.up, down := src.down }

@[simp] theorem rewir_rewir (a b d : Dev) : rewir a (rewir b d) = rewir a d := rfl
@[simp] theorem rewir_self (d : Dev) : rewir d d = d := rfl
@[simp] theorem rewir_up (a d : Dev) : (rewir a d).up = a.up := rfl
@[simp] theorem rewir_down (a d : Dev) : (rewir a d).down = a.down := rfl

/-- A function on device lists that only changes wiring (and may append devices), as far as the
first `n` devices are concerned. -/
structure WireF (n : Nat) (F : List Dev → List Dev) : Prop where
  len : ∀ l, n ≤ l.length → n ≤ (F l).length
  get : ∀ l x, x < n → n ≤ l.length →
    (F l).getD x default = rewir ((F l).getD x default) (l.getD x default)
  set : ∀ l x e, x < n → n ≤ l.length → e.up = (l.getD x default).up → e.down = (l.getD x default).down →
    F (l.set x e) = (F l).set x (rewir ((F l).getD x default) e)

theorem WireF.id (n : Nat) : WireF n id :=
  ⟨fun _ h => h, fun _ _ _ _ => rfl, fun l x e hx hn h1 h2 => by
    show l.set x e = l.set x (rewir (l.getD x default) e)
    congr 1
    cases e; simp_all [rewir]⟩

theorem WireF.comp {n : Nat} {F1 F2 : List Dev → List Dev} (h1 : WireF n F1) (h2 : WireF n F2) :
    WireF n (F2 ∘ F1) := by
  refine ⟨fun l h => h2.len _ (h1.len l h), ?_, ?_⟩
  · intro l x hx hn
    show (F2 (F1 l)).getD x default = rewir ((F2 (F1 l)).getD x default) (l.getD x default)
    rw [h2.get (F1 l) x hx (h1.len l hn), h1.get l x hx hn]
    rfl
  · intro l x e hx hn he1 he2
    show F2 (F1 (l.set x e)) = (F2 (F1 l)).set x (rewir ((F2 (F1 l)).getD x default) e)
    rw [h1.set l x e hx hn he1 he2,
      h2.set (F1 l) x (rewir ((F1 l).getD x default) e) hx (h1.len l hn) rfl rfl]
    rfl

/-! ### registration transformers -/

structure Tr where
  F : List Dev → List Dev := id
  G : List Group → List Group := id
  ta : List AssetRef := []
  ts : Bool → Bool := id
  tm : List MaintW := []
  tc : List SchedW := []
  tn : List SensorW := []
  tk : List (List Nat) := []

def Tr.app (T : Tr) (w : World) : World :=
  { w with devs := T.F w.devs, groups := T.G w.groups, assets := w.assets ++ T.ta,
           started := T.ts w.started, maints := w.maints ++ T.tm, scheds := w.scheds ++ T.tc,
           sensors := w.sensors ++ T.tn, cmsSensors := w.cmsSensors ++ T.tk }

/-- Composition. -/
def Tr.comp (T2 T1 : Tr) : Tr :=
  { F := T2.F ∘ T1.F, G := T2.G ∘ T1.G, ta := T1.ta ++ T2.ta, ts := T2.ts ∘ T1.ts,
    tm := T1.tm ++ T2.tm, tc := T1.tc ++ T2.tc, tn := T1.tn ++ T2.tn, tk := T1.tk ++ T2.tk }

theorem Tr.app_comp (T2 T1 : Tr) (w : World) : (T2.comp T1).app w = T2.app (T1.app w) := by
  simp [Tr.app, Tr.comp]

/-- A device update that neither reads nor writes the wiring. -/
def Blind (f : Dev → Dev) : Prop := ∀ a b, f (rewir a b) = rewir a (f b)

theorem Blind.up {f : Dev → Dev} (h : Blind f) (d : Dev) : (f d).up = d.up := by
  have := congrArg Dev.up (h d d); simpa using this
theorem Blind.down {f : Dev → Dev} (h : Blind f) (d : Dev) : (f d).down = d.down := by
  have := congrArg Dev.down (h d d); simpa using this

section nat
variable (T : Tr) (n : Nat) (hF : WireF n T.F)
include hF

theorem app_dev (w : World) (x : Nat) (hx : x < n) (hn : n ≤ w.devs.length) :
    (T.app w).dev x = rewir ((T.app w).dev x) (w.dev x) := hF.get w.devs x hx hn

theorem app_setDev (w : World) (x : Nat) (e : Dev) (hx : x < n) (hn : n ≤ w.devs.length)
    (h1 : e.up = (w.dev x).up) (h2 : e.down = (w.dev x).down) :
    T.app (w.setDev x e) = (T.app w).setDev x (rewir ((T.app w).dev x) e) := by
  unfold Tr.app setDev World.dev
  simp only
  rw [hF.set w.devs x e hx hn h1 h2]

theorem app_modDev (w : World) (x : Nat) (f : Dev → Dev) (hf : Blind f) (hx : x < n)
    (hn : n ≤ w.devs.length) : (T.app w).modDev x f = T.app (w.modDev x f) := by
  unfold modDev
  rw [app_setDev T n hF w x _ hx hn (hf.up _) (hf.down _), app_dev T n hF w x hx hn, hf]
  rfl

end nat

/-! ### the primitives that do not touch devices -/

section prim
variable (T : Tr) (w : World)

@[simp] theorem app_now : (T.app w).now = w.now := rfl
@[simp] theorem app_part (p : Nat) : (T.app w).part p = w.part p := rfl
@[simp] theorem app_devs_length_F : (T.app w).devs = T.F w.devs := rfl

theorem app_setErr (m : String) : (T.app w).setErr m = T.app (w.setErr m) := by
  unfold setErr
  show (match w.error with | some _ => T.app w | none => _) = _
  cases w.error <;> rfl

theorem app_addRec (r : Rec) : (T.app w).addRec r = T.app (w.addRec r) := rfl
theorem app_addRes (r : Res) : (T.app w).addRes r = T.app (w.addRes r) := rfl
theorem app_modPart (p : Nat) (f : PartRec → PartRec) : (T.app w).modPart p f = T.app (w.modPart p f) := rfl
theorem app_newPart (r : PartRec) : (T.app w).newPart r = (T.app (w.newPart r).1, (w.newPart r).2) := rfl

theorem app_sched (t a : Int) (act : Action) (p : Int) :
    (T.app w).sched t a act p = (T.app (w.sched t a act p).1, (w.sched t a act p).2) := by
  have h1 : (T.app w).seed = w.seed := rfl
  have h2 : (T.app w).wmod = w.wmod := rfl
  have h3 : (T.app w).env = w.env := rfl
  unfold World.sched
  simp only [h1, h2, h3, Env.apply]
  cases w.env.schedule t a act.toNat p (weightOf w.seed w.wmod t a act.toNat p) <;> rfl

theorem app_schedLib (t a : Int) (act : Action) (p : Int) :
    (T.app w).schedLib t a act p = T.app (w.schedLib t a act p) := by
  unfold schedLib
  rw [app_sched]
  generalize w.sched t a act p = q
  obtain ⟨w', r⟩ := q
  cases r <;> simp only [app_setErr]

theorem app_foldl {α} (g : World → α → World) (l : List α)
    (h : ∀ w a, g (T.app w) a = T.app (g w a)) : l.foldl g (T.app w) = T.app (l.foldl g w) := by
  induction l generalizing w with
  | nil => rfl
  | cons a l ih => rw [List.foldl_cons, h, ih, List.foldl_cons]

theorem app_rmEffects (recs : List ResRec) (chk : Bool) :
    (T.app w).rmEffects recs chk = T.app (w.rmEffects recs chk) := by
  unfold rmEffects
  dsimp only
  rw [app_foldl T w _ recs (fun _ _ => rfl)]
  split
  · rw [app_schedLib]; rfl
  · rfl

end prim

/-! ### the device part of initialisation -/

/-- `setWaiting` as a device update. -/
def swF (now : Int) (a b : Bool) (d : Dev) : Dev :=
  if !a then { d with since := none }
  else if d.since.isSome && !b then d
  else if d.inited then { d with since := some now } else d

theorem setWaiting_eq (w : World) (x : Nat) (a b : Bool) :
    w.setWaiting x a b = w.modDev x (swF w.now a b) := by
  unfold setWaiting modDev swF
  dsimp only
  repeat' split
  all_goals first | rfl | exact (setDev_dev_self w x).symm

theorem swF_blind (now : Int) (a b : Bool) : Blind (swF now a b) := by
  intro s d
  unfold swF
  show (if (!a) = true then _ else if (d.since.isSome && !b) = true then _ else if d.inited = true then _ else _) = _
  repeat' split
  all_goals rfl

theorem schedulePass_eq (w : World) (x : Nat) (o : Int) : w.schedulePass x o =
    match (w.dev x).kind with
    | .sink => w
    | _ => (w.modDev x (fun d => { d with waitingDS := false })).schedLib
        (if w.now + o < 0 then 0 else w.now + o) (w.dev x).aid (.passPart x) pPassPart := rfl

open C02V in
theorem genPart_devs (w : World) (x : Nat) : (w.genPart x).1.devs = w.devs := by
  cases hb : ((w.dev x).genBatch == 0)
  · rw [genPart_batch w x hb]
  · rw [genPart_leaf w x hb]

theorem finishCycle_source (w : World) (x : Nat) (hk : (w.dev x).kind = .source) :
    w.finishCycle x =
      (if (w.dev x).output.isNone then
        ((w.genPart x).1.modDev x (fun d => { d with output := some (w.genPart x).2 })).addHist
          (w.genPart x).2 x
       else w).schedulePass x 0 := by
  unfold finishCycle
  simp only [hk]

/-- The effective cycle time used by `_schedule_finish_cycle`. -/
def effCycle (w : World) (x : Nat) : Int :=
  if w.cycleTime x + (w.dev x).offset < 0 then 0 else w.cycleTime x + (w.dev x).offset

theorem scheduleFinish_eq (w : World) (x : Nat) : w.scheduleFinish x =
    if effCycle w x ≤ 0 then (w.modDev x (fun d => { d with offset := 0 })).finishCycle x
    else (w.modDev x (fun d => { d with offset := 0 })).schedLib (w.now + effCycle w x)
      (w.dev x).aid (.finishCycle x) pFinish := rfl

section devs
variable (T : Tr) (n : Nat) (hF : WireF n T.F)
include hF

theorem app_field {α} (g : Dev → α) (hg : ∀ a b, g (rewir a b) = g b) (w : World) (x : Nat)
    (hx : x < n) (hn : n ≤ w.devs.length) : g ((T.app w).dev x) = g (w.dev x) := by
  rw [app_dev T n hF w x hx hn, hg]

theorem app_devs_len (w : World) (hn : n ≤ w.devs.length) : n ≤ (T.app w).devs.length :=
  hF.len _ hn

theorem app_setWaiting (w : World) (x : Nat) (a b : Bool) (hx : x < n) (hn : n ≤ w.devs.length) :
    (T.app w).setWaiting x a b = T.app (w.setWaiting x a b) := by
  rw [setWaiting_eq, setWaiting_eq, app_now]
  exact app_modDev T n hF w x _ (swF_blind _ _ _) hx hn

theorem app_kind (w : World) (x : Nat) (hx : x < n) (hn : n ≤ w.devs.length) :
    ((T.app w).dev x).kind = (w.dev x).kind :=
  app_field T n hF (fun d => d.kind) (fun _ _ => rfl) w x hx hn
theorem app_aid (w : World) (x : Nat) (hx : x < n) (hn : n ≤ w.devs.length) :
    ((T.app w).dev x).aid = (w.dev x).aid :=
  app_field T n hF (fun d => d.aid) (fun _ _ => rfl) w x hx hn

theorem app_schedulePass (w : World) (x : Nat) (o : Int) (hx : x < n) (hn : n ≤ w.devs.length) :
    (T.app w).schedulePass x o = T.app (w.schedulePass x o) := by
  rw [schedulePass_eq, schedulePass_eq, app_kind T n hF w x hx hn, app_aid T n hF w x hx hn, app_now]
  split
  · rfl
  · rw [app_modDev T n hF w x _ (fun _ _ => rfl) hx hn, app_schedLib]

open C02V in
theorem app_genPart (w : World) (x : Nat) (hx : x < n) (hn : n ≤ w.devs.length) :
    (T.app w).genPart x = (T.app (w.genPart x).1, (w.genPart x).2) := by
  have h1 : ((T.app w).dev x).genBatch = (w.dev x).genBatch :=
    app_field T n hF (fun d => d.genBatch) (fun _ _ => rfl) w x hx hn
  have h2 : ((T.app w).dev x).genQuality = (w.dev x).genQuality :=
    app_field T n hF (fun d => d.genQuality) (fun _ _ => rfl) w x hx hn
  have h3 : ((T.app w).dev x).genValue = (w.dev x).genValue :=
    app_field T n hF (fun d => d.genValue) (fun _ _ => rfl) w x hx hn
  cases hb : ((w.dev x).genBatch == 0)
  · rw [genPart_batch w x hb, genPart_batch (T.app w) x (by rw [h1]; exact hb), h1, h2, h3]
    rfl
  · rw [genPart_leaf w x hb, genPart_leaf (T.app w) x (by rw [h1]; exact hb), h2, h3]
    rfl

omit hF in
theorem app_addHist (w : World) (p d : Nat) : (T.app w).addHist p d = T.app (w.addHist p d) := by
  unfold addHist
  simp only [app_modPart, app_part]
  split
  · exact app_foldl T _ _ _ (fun _ _ => rfl)
  · rfl

theorem app_finishCycle_source (w : World) (x : Nat) (hk : (w.dev x).kind = .source)
    (hx : x < n) (hn : n ≤ w.devs.length) :
    (T.app w).finishCycle x = T.app (w.finishCycle x) := by
  have ho : ((T.app w).dev x).output = (w.dev x).output :=
    app_field T n hF (fun d => d.output) (fun _ _ => rfl) w x hx hn
  rw [finishCycle_source w x hk,
    finishCycle_source (T.app w) x (by rw [app_kind T n hF w x hx hn]; exact hk), ho]
  split
  · have hn' : n ≤ (w.genPart x).1.devs.length := by rw [genPart_devs]; exact hn
    rw [app_genPart T n hF w x hx hn]
    simp only
    rw [app_modDev T n hF _ x _ (fun _ _ => rfl) hx hn', app_addHist,
      app_schedulePass T n hF _ x 0 hx (by simpa using hn')]
  · exact app_schedulePass T n hF w x 0 hx hn

theorem app_cycleTime (w : World) (x : Nat) (hx : x < n) (hn : n ≤ w.devs.length) :
    (T.app w).cycleTime x = w.cycleTime x := by
  unfold cycleTime
  rw [app_kind T n hF w x hx hn, app_field T n hF (fun d => d.cycle) (fun _ _ => rfl) w x hx hn]

theorem app_scheduleFinish_source (w : World) (x : Nat) (hk : (w.dev x).kind = .source)
    (hx : x < n) (hn : n ≤ w.devs.length) :
    (T.app w).scheduleFinish x = T.app (w.scheduleFinish x) := by
  have ho : ((T.app w).dev x).offset = (w.dev x).offset :=
    app_field T n hF (fun d => d.offset) (fun _ _ => rfl) w x hx hn
  have hk' : ((w.modDev x (fun d => { d with offset := 0 })).dev x).kind = .source := by
    rw [modDev_dev_field Dev.kind w x _ rfl x]; exact hk
  have hc : effCycle (T.app w) x = effCycle w x := by
    unfold effCycle; rw [app_cycleTime T n hF w x hx hn, ho]
  rw [scheduleFinish_eq, scheduleFinish_eq, hc,
    app_aid T n hF w x hx hn, app_now, app_modDev T n hF w x _ (fun _ _ => rfl) hx hn]
  split
  · exact app_finishCycle_source T n hF _ x hk' hx (by simpa using hn)
  · rw [app_schedLib]

open C02V in
theorem app_initDev (w : World) (x : Nat) (hx : x < n) (hn : n ≤ w.devs.length) :
    (T.app w).initDev x = T.app (w.initDev x) := by
  have hf : Blind (fun d : Dev => { d with inited := true, val := d.val.reset }) := fun _ _ => rfl
  have e1 : initFlag (T.app w) x = T.app (initFlag w x) := app_modDev T n hF w x _ hf hx hn
  have hn1 : n ≤ (initFlag w x).devs.length := by simpa [initFlag] using hn
  have hn2 : n ≤ ((initFlag w x).setWaiting x true true).devs.length := by simpa using hn1
  rw [initDev_eq, initDev_eq, e1, app_kind T n hF _ x hx hn1]
  split
  · rfl
  · rfl
  · rfl
  · rfl
  · rw [app_setWaiting T n hF _ x true true hx hn1, app_now,
      app_modDev T n hF _ x _ (fun _ _ => rfl) hx hn2]
  · rename_i hk
    rw [app_setWaiting T n hF _ x true true hx hn1]
    refine app_scheduleFinish_source T n hF _ x ?_ hx hn2
    rw [setWaiting_eq, modDev_dev_field Dev.kind _ x _ ?_ x]
    · exact hk
    · have := (swF_blind (initFlag w x).now true true)
      generalize (initFlag w x).dev x = d
      unfold swF
      simp only [Bool.not_true, Bool.false_eq_true, if_false]
      repeat' split
      all_goals rfl
  · rw [app_setWaiting T n hF _ x true true hx hn1]

end devs

/-! ### the other assets -/

theorem getD_append_lt {α} (l t : List α) (i : Nat) (d : α) (h : i < l.length) :
    (l ++ t).getD i d = l.getD i d := getD_append_left l t i d h

theorem set_append_lt {α} (l t : List α) (i : Nat) (a : α) (h : i < l.length) :
    (l ++ t).set i a = l.set i a ++ t := by
  rw [List.set_append_left _ _ h]

/-- The first step of `_update_state`: the scheduler moves on. -/
def schedSet (w : World) (s : Nat) (b : Bool) : World :=
  let sw := w.scheds.getD s default
  { w with scheds := w.scheds.set s { sw with s := (sw.s.update b).1 } }

theorem schedUpdate_eq (w : World) (s : Nat) (b : Bool) : w.schedUpdate s b =
    match ((w.scheds.getD s default).s.update b).2 with
    | none => schedSet w s b
    | some (st, objs, dur) =>
      ((objs.foldl (fun w (o, ovr) => w.addRes (.act s o w.now st ovr))
        ((schedSet w s b).addRec (.schedUpdate s w.now st))).schedLib (w.now + dur)
          (w.scheds.getD s default).aid (.schedUpdate s) pOtherHigh) := by
  have hnow : ∀ (st : Int) (l : List (Nat × Option Nat)) (w0 : World),
      (l.foldl (fun w (x : Nat × Option Nat) => w.addRes (.act s x.1 w.now st x.2)) w0).now = w0.now := by
    intro st l
    induction l with
    | nil => intro _; rfl
    | cons a l ih => intro w0; rw [List.foldl_cons, ih]; rfl
  unfold schedUpdate schedSet
  simp only []
  rcases hq : (w.scheds.getD s default).s.update b with ⟨s', r⟩
  cases r with
  | none => rfl
  | some v =>
    obtain ⟨st, objs, dur⟩ := v
    simp only
    congr 1
    exact congrArg (· + dur) (hnow st _ _)

theorem app_schedSet (T : Tr) (w : World) (s : Nat) (b : Bool) (hs : s < w.scheds.length) :
    schedSet (T.app w) s b = T.app (schedSet w s b) := by
  have h1 : (T.app w).scheds.getD s default = w.scheds.getD s default := getD_append_lt _ _ _ _ hs
  unfold schedSet
  simp only [h1]
  show ({ T.app w with scheds := (w.scheds ++ T.tc).set s _ } : World) = _
  rw [set_append_lt _ _ _ _ hs]; rfl

theorem app_schedUpdate (T : Tr) (w : World) (s : Nat) (b : Bool) (hs : s < w.scheds.length) :
    (T.app w).schedUpdate s b = T.app (w.schedUpdate s b) := by
  have h1 : (T.app w).scheds.getD s default = w.scheds.getD s default := getD_append_lt _ _ _ _ hs
  rw [schedUpdate_eq, schedUpdate_eq, h1, app_schedSet T w s b hs, app_now]
  split
  · rfl
  · rw [app_addRec, app_foldl T _ _ _ (fun _ _ => rfl), app_schedLib]

/-- The reference can be initialised the same way before and after a registration that keeps the
first `n` devices (`free`: the registration does not touch the device list at all, so the
attachment of an output-part sensor does not matter). -/
def ValidRef (free : Bool) (n : Nat) (w : World) : AssetRef → Prop
  | .dev d => d < n
  | .maint m => m < w.maints.length
  | .sched s => s < w.scheds.length
  | .sensor s => s < w.sensors.length ∧ (free = true ∨
      ((w.sensors.getD s default).s.kind = .output → (w.sensors.getD s default).proc < n))
  | .cms _ => True

theorem app_modDev_id (T : Tr) (hT : T.F = id) (w : World) (x : Nat) (f : Dev → Dev) :
    (T.app w).modDev x f = T.app (w.modDev x f) := by
  unfold modDev setDev World.dev Tr.app
  simp [hT]

theorem initAsset_sensor_eq (w : World) (s : Nat) : w.initAsset (.sensor s) =
    match (w.sensors.getD s default).s.kind with
    | .periodic => (initSensorFlag w s).schedLib (w.now + (w.sensors.getD s default).s.interval)
        (w.sensors.getD s default).aid (.periodicSense s) pSensor
    | .output =>
      if !(w.sensors.getD s default).registered then
        (initSensorFlag w s).modDev (w.sensors.getD s default).proc
          (fun d => { d with finSensors := d.finSensors ++ [s] })
      else initSensorFlag w s := rfl

theorem app_initSensorFlag (T : Tr) (w : World) (s : Nat) (hs : s < w.sensors.length) :
    initSensorFlag (T.app w) s = T.app (initSensorFlag w s) := by
  have h1 : (T.app w).sensors.getD s default = w.sensors.getD s default := getD_append_lt _ _ _ _ hs
  unfold initSensorFlag
  simp only [h1]
  show ({ T.app w with sensors := (w.sensors ++ T.tn).set s _ } : World) = _
  rw [set_append_lt _ _ _ _ hs]; rfl

theorem app_initAsset (T : Tr) (n : Nat) (hF : WireF n T.F) (free : Bool) (hfree : free = true → T.F = id)
    (w : World) (a : AssetRef) (hn : n ≤ w.devs.length) (ha : ValidRef free n w a) :
    (T.app w).initAsset a = T.app (w.initAsset a) := by
  cases a with
  | dev d => exact app_initDev T n hF w d ha hn
  | maint m =>
    have hm : m < w.maints.length := ha
    have h1 : (T.app w).maints.getD m default = w.maints.getD m default := getD_append_lt _ _ _ _ hm
    unfold initAsset
    simp only [h1]
    show ({ T.app w with maints := (w.maints ++ T.tm).set m _ } : World) = _
    rw [set_append_lt _ _ _ _ hm]; rfl
  | sched s => exact app_schedUpdate T w s false ha
  | sensor s =>
    obtain ⟨hs, hp⟩ := ha
    have h1 : (T.app w).sensors.getD s default = w.sensors.getD s default := getD_append_lt _ _ _ _ hs
    rw [initAsset_sensor_eq, initAsset_sensor_eq, h1, app_initSensorFlag T w s hs, app_now]
    split
    · rw [app_schedLib]
    · rename_i hk
      split
      · rcases hp with hf | hp
        · exact app_modDev_id T (hfree hf) _ _ _
        · exact app_modDev T n hF _ _ _ (fun _ _ => rfl) (hp hk) hn
      · rfl
  | cms c => rfl

end C20W
end SimProc
