/-
C03W, stage B — `SameD x w w'`: going from `w` to `w'` changed nothing a device `x` sees of itself:
the non-flow fields of device `x`, the number of devices, the clock, the kinds of all devices.
(`C05.Same` without the batch structure of the parts, which a batcher changes.)  A hand-over to a
machine, sink, buffer or BATCHER other than `x` is such a step.
-/
import SimProc.Proofs.C05Lemmas
import SimProc.Props.C17

namespace SimProc
namespace C03W
open World FloorCoreL

structure SameD (x : Nat) (w w' : World) : Prop where
  dev : (w'.dev x).core = (w.dev x).core
  len : w'.devs.length = w.devs.length
  now : w'.now = w.now
  kind : ∀ z, (w'.dev z).kind = (w.dev z).kind

theorem SameD.refl (x : Nat) (w : World) : SameD x w w := ⟨rfl, rfl, rfl, fun _ => rfl⟩

theorem SameD.trans {x : Nat} {w w' w'' : World} (h : SameD x w w') (h' : SameD x w' w'') :
    SameD x w w'' :=
  ⟨h'.dev.trans h.dev, h'.len.trans h.len, h'.now.trans h.now,
    fun z => (h'.kind z).trans (h.kind z)⟩

theorem SameD.of_same {x : Nat} {w w' : World} (h : Same x w w') : SameD x w w' :=
  ⟨h.dev, h.len, h.now, h.kind⟩

theorem SameD.of_core {x : Nat} {w w' : World} (hc : w'.core = w.core) (hn : w'.now = w.now) :
    SameD x w w' := .of_same (.of_core hc hn)

theorem sameD_modDev {x y : Nat} (w : World) (f : Dev → Dev) (hy : y ≠ x)
    (hk : (f (w.dev y)).kind = (w.dev y).kind) : SameD x w (w.modDev y f) :=
  .of_same (same_modDev w f hy hk)

theorem sameD_setDev {x y : Nat} (w : World) (d : Dev) (hy : y ≠ x)
    (hk : d.kind = (w.dev y).kind) : SameD x w (w.setDev y d) :=
  .of_same (same_setDev w d hy hk)

theorem sameD_foldl {α} {x : Nat} (g : World → α → World) (l : List α) (w : World)
    (h : ∀ w a, SameD x w (g w a)) : SameD x w (l.foldl g w) := by
  induction l generalizing w with
  | nil => exact .refl x w
  | cons a l ih => exact (h w a).trans (ih (g w a))

theorem sameD_batcherLoop {x y : Nat} (n : Nat) (w : World) (hy : y ≠ x) :
    SameD x w (batcherLoop n w y) := by
  obtain ⟨hl, hr⟩ := C17.batcherLoop_rest n w y
  refine ⟨by rw [C17.batcherLoop_dev_other n w (Ne.symm hy)], hl, ?_, fun z => ?_⟩
  · have : (batcherLoop n w y).noDevsParts.env = w.noDevsParts.env := by rw [hr]
    exact congrArg Env.now this
  · by_cases hz : z = y
    · subst hz
      obtain ⟨a, b, c, he⟩ := C17.batcherLoop_dev_self n w z
      rw [he]
    · rw [C17.batcherLoop_dev_other n w hz]

theorem sameD_tryMove_batcher {x y : Nat} (w : World) (hy : y ≠ x)
    (hk : (w.dev y).kind = .batcher) : SameD x w (w.tryMove y) := by
  unfold World.tryMove
  simp only [hk]
  repeat' split
  all_goals first
    | exact .refl x w
    | exact sameD_setDev w _ hy hk.symm
    | exact (sameD_batcherLoop _ w hy).trans (.of_same (same_schedulePass x _ y 0))
    | exact sameD_batcherLoop _ w hy

theorem sameD_onReceived_batcher {x y : Nat} (w : World) (p : Nat) (hy : y ≠ x)
    (hk : (w.dev y).kind = .batcher) : SameD x w (w.onReceived y p) := by
  unfold World.onReceived
  simp only [hk]
  have h1 : SameD x w (w.addRec (.received y w.now p (w.part p).quality (w.partValue p))) :=
    .of_same (same_addRec x w _)
  have hk1 : ((w.addRec (.received y w.now p (w.part p).quality (w.partValue p))).dev y).kind =
      .batcher := hk
  generalize w.addRec (.received y w.now p (w.part p).quality (w.partValue p)) = w1 at h1 hk1
  have h2 : SameD x w1 ((w1.dev y).recvCbs.foldl (fun w c => w.applyPartCb y p c) w1) :=
    sameD_foldl _ _ _ (fun w c => .of_same (same_applyPartCb w p c hy))
  have hk2 : (((w1.dev y).recvCbs.foldl (fun w c => w.applyPartCb y p c) w1).dev y).kind =
      .batcher := by rw [h2.kind]; exact hk1
  generalize (w1.dev y).recvCbs.foldl (fun w c => w.applyPartCb y p c) w1 = w2 at h2 hk2
  split
  · exact (h1.trans h2).trans (sameD_tryMove_batcher w2 hy hk2)
  · exact h1.trans h2

theorem sameD_acceptPart_batcher {x y : Nat} (w : World) (p : Nat) (hy : y ≠ x)
    (hk : (w.dev y).kind = .batcher) : SameD x w (w.acceptPart y p) := by
  unfold World.acceptPart
  have hns : ((w.dev y).kind == Kind.sink) = false := by rw [hk]; rfl
  simp only [hns, Bool.false_eq_true, if_false]
  have h1 : SameD x w (w.modDev y (fun d => { d with part := some p })) := sameD_modDev w _ hy rfl
  have h2 : SameD x w ((w.modDev y (fun d => { d with part := some p })).addHist p y) :=
    h1.trans (.of_same (same_addHist x _ p y))
  have h3 : SameD x w (((w.modDev y (fun d => { d with part := some p })).addHist p y).setWaiting y
      false false) := h2.trans (.of_same (same_setWaiting x _ y false false))
  exact h3.trans (sameD_onReceived_batcher _ p hy (by rw [h3.kind]; exact hk))

/-- `give_part` to a machine, sink, buffer or batcher other than `x`. -/
theorem sameD_give {x y : Nat} (f : Nat) (w : World) (p : Nat) (hy : y ≠ x)
    (hk : plainKind (w.dev y).kind ∨ (w.dev y).kind = .batcher) :
    SameD x w (give (f + 1) w y p).1 := by
  rcases hk with hk | hk
  · exact .of_same (same_give f w p hy hk)
  · rw [give]
    simp only [hk]
    split
    · exact sameD_acceptPart_batcher w p hy hk
    · exact .refl x w

end C03W
end SimProc
