/-
Events: `exec`, `step`, `runLoop`, `simulateInit`.
-/
import SimProc.Proofs.WorldPres
import SimProc.Proofs.FloorPass
namespace SimProc
namespace C02V
open World

/-! ### scripts never change -/

theorem scr_applyOps (ops : List Op) : ∀ (w : World), (w.applyOps ops).scripts = w.scripts := by
  induction ops with
  | nil => intro w; rfl
  | cons op ops ih =>
    intro w
    unfold World.applyOps
    simp only [List.foldl_cons]
    have := ih ((w.applyOp op).1.addRes (w.applyOp op).2)
    unfold World.applyOps at this
    rw [this, scr_addRes, scr_applyOp]

theorem scr_runScript (w : World) (k : Nat) : (w.runScript k).scripts = w.scripts := scr_applyOps _ w

theorem scr_scan (n : Nat) : ∀ (w : World) (i : Nat), (scanWaiting scanOps n w i).scripts = w.scripts := by
  induction n with
  | zero => intro w i; rfl
  | succ n ih =>
    intro w i
    unfold scanWaiting
    split
    · rfl
    · split
      · rw [ih]
        rename_i req cb _ _
        cases cb with
        | script k => exact scr_runScript _ k
        | proc d => exact scr_procResourceCb w d
      · exact ih _ _

theorem scr_rmCheck (w : World) : w.rmCheck.scripts = w.scripts := scr_scan _ _ _

theorem scr_hookStart (w : World) (tgt : Nat) (tag : Int) : (w.hookStart tgt tag).scripts = w.scripts := by
  unfold World.hookStart
  simp only []
  split
  · rw [scr_shutdownDev]; rfl
  · split
    · rw [scr_runScript]; rfl
    · rfl

theorem scr_hookEnd (w : World) (tgt : Nat) (tag : Int) : (w.hookEnd tgt tag).scripts = w.scripts := by
  unfold World.hookEnd
  simp only []
  split
  · rw [scr_restoreDev]; rfl
  · split
    · rw [scr_runScript]; rfl
    · rfl

theorem scr_startWork (w : World) (m seq : Nat) : (w.startWork m seq).scripts = w.scripts := by
  unfold World.startWork
  split
  · exact scr_setErr ..
  · simp only []; rw [scr_schedLib, scr_hookStart]; rfl

theorem scr_finishWork (w : World) (m seq : Nat) : (w.finishWork m seq).scripts = w.scripts := by
  unfold World.finishWork
  split
  · exact scr_setErr ..
  · simp only []; rw [scr_startOrders]; show (World.hookEnd _ _ _).scripts = _; exact scr_hookEnd ..

theorem scr_exec (w : World) (a : Action) : (w.exec a).scripts = w.scripts := by
  cases a with
  | terminate => rfl
  | script k => exact scr_runScript w k
  | finishCycle d => exact scr_finishCycle w d
  | passPart d => exact scr_passPart w d
  | fail d => exact scr_failDev w d
  | releaseIfIdle d => exact scr_releaseIfIdle w d
  | rmCheck => exact scr_rmCheck w
  | startWork m o => exact scr_startWork w m o
  | finishWork m o => exact scr_finishWork w m o
  | schedUpdate s => exact scr_schedUpdate w s true
  | periodicSense s => exact scr_periodicSense w s
  | unknown n => exact scr_setErr ..

/-! ### the actions of events -/

/-- What an action needs for conservation: no failure of a sink; every device the giver's
hand-over can reach exists. -/
def ActOK (w : World) : Action → Prop
  | .fail d => (w.dev d).kind ≠ .sink
  | .passPart x => GiveOK w x
  | _ => True

theorem good_exec (w : World) (a : Action) (h : Good Inv w) (ha : ActOK w a) : Good Inv (w.exec a) := by
  refine ⟨?_, scriptsOK_of_eq (scr_exec w a) h.2⟩
  cases a with
  | terminate => exact h.1
  | script k => exact (good_runScript closed_inv w k h).1
  | finishCycle d => exact inv_steps h.1 (steps_finishCycle w d)
  | passPart d => exact inv_passPart w d h.1 ha
  | fail d => exact inv_failDev w d h.1 ha
  | releaseIfIdle d => show Inv (sv (w.releaseIfIdle d)); rw [sv_releaseIfIdle]; exact h.1
  | rmCheck => exact (good_rmCheck closed_inv w h).1
  | startWork m o => exact (good_startWork closed_inv w m o h).1
  | finishWork m o => exact (good_finishWork closed_inv w m o h).1
  | schedUpdate s => show Inv (sv (w.schedUpdate s true)); rw [sv_schedUpdate]; exact h.1
  | periodicSense s => show Inv (sv (w.periodicSense s)); rw [sv_periodicSense]; exact h.1
  | unknown n => show Inv (sv (w.setErr _)); rw [sv_setErr]; exact h.1

/-! ### `step`, `runLoop` -/

theorem good_step (w w' : World) (e : Event) (h : Good Inv w) (hst : w.step = some (e, w'))
    (ha : ∀ env', w.env.step = some (e, env') → e.live = true →
      ActOK { w with env := env' } (Action.ofNat e.act)) : Good Inv w' := by
  unfold World.step at hst
  split at hst
  · cases hst
  · rename_i e' env' henv
    simp only [Option.some.injEq, Prod.mk.injEq] at hst
    obtain ⟨rfl, rfl⟩ := hst
    have h1 : Good Inv ({ w with env := env' } : World) := h.of_frame rfl rfl
    split
    · rename_i hl; exact good_exec _ _ h1 (ha env' henv hl)
    · exact h1

/-- A run in which every executed action is admissible. -/
def SafeRun : Nat → World → Prop
  | 0, _ => True
  | f + 1, w =>
    w.env.running = true →
      ∀ e w', w.step = some (e, w') →
        (∀ env', w.env.step = some (e, env') → e.live = true →
          ActOK { w with env := env' } (Action.ofNat e.act)) ∧ SafeRun f w'

theorem good_runLoop (n : Nat) : ∀ (w : World), Good Inv w → SafeRun n w → Good Inv (runLoop n w) := by
  induction n with
  | zero => intro w h _; exact h.of_frame (sv_setErr ..) (scr_setErr ..)
  | succ n ih =>
    intro w h hs
    unfold runLoop
    split
    · rename_i hr
      split
      · exact h
      · rename_i e w' hst
        have := hs hr e w' hst
        exact ih w' (good_step w w' e h hst this.1) this.2
    · exact h

/-! ### `simulateInit` -/

theorem pres_simulateInit {P : SV → Prop} (hP : Closed P) (w : World) (h : P (sv w)) : P (sv w.simulateInit) := by
  unfold World.simulateInit
  split
  · exact h
  · simp only []
    show P (sv (List.foldl _ _ _))
    apply foldl_inv (fun w' => P (sv w'))
    · rw [sv_rmEffects]; exact h
    · intro b a hb; exact pres_initAsset hP b a hb

end C02V
end SimProc
