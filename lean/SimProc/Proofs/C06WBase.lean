/-
C06W (closed-world timer invariant), part 1: the finish events of a device in the event queue
(`finE`, `finP`), the remaining work `rem`, and what the environment operations do to them.
-/
import SimProc.Props.C07
import SimProc.Model.World
namespace SimProc
namespace C06W
open World

/-! ### list helpers -/

theorem filter_insort_neg (p : Event → Bool) (e : Event) (l : List Event) (h : p e = false) :
    (insort e l).filter p = l.filter p := by
  induction l with
  | nil => simp [insort, h]
  | cons a l ih =>
    unfold insort
    split
    · simp [List.filter_cons, h]
    · simp only [List.filter_cons, ih]

theorem filter_insort_perm (p : Event → Bool) (e : Event) (l : List Event) (h : p e = true) :
    ((insort e l).filter p).Perm (e :: l.filter p) := by
  have := (insort_perm e l).filter p
  simpa [List.filter_cons, h] using this

theorem filter_insort_pos_nil (p : Event → Bool) (e : Event) (l : List Event) (h : p e = true)
    (hl : l.filter p = []) : (insort e l).filter p = [e] := by
  have := filter_insort_perm p e l h
  rw [hl] at this
  exact List.perm_singleton.mp this

theorem filter_insortAll_neg (p : Event → Bool) (q l : List Event) (h : ∀ e ∈ l, p e = false) :
    (insortAll q l).filter p = q.filter p := by
  unfold insortAll
  induction l generalizing q with
  | nil => rfl
  | cons a l ih =>
    simp only [List.foldl_cons]
    rw [ih _ (fun e he => h e (List.mem_cons_of_mem _ he)),
      filter_insort_neg p a q (h a (List.mem_cons_self ..))]

theorem filter_insortAll_perm (p : Event → Bool) (q l : List Event) :
    ((insortAll q l).filter p).Perm (l.filter p ++ q.filter p) := by
  have := (insortAll_perm q l).filter p
  simpa using this

theorem length_le_one_cases {α : Type} (l : List α) (h : l.length = 1) : ∃ a, l = [a] := by
  match l, h with
  | [a], _ => exact ⟨a, rfl⟩

/-! ### action codes -/

/-- action code of the finish event of device `x` -/
def finAct (x : Nat) : Nat := (Action.finishCycle x).toNat

theorem finAct_eq (x : Nat) : finAct x = 2 + 16 * x := rfl

theorem finAct_inj {x y : Nat} (h : finAct x = finAct y) : x = y := by
  simp only [finAct_eq] at h; omega

theorem ofNat_finish {n d : Nat} (h : Action.ofNat n = .finishCycle d) : n = finAct d := by
  have hlt : n % 16 < 16 := Nat.mod_lt _ (by decide)
  unfold Action.ofNat at h
  simp only [] at h
  split at h
  all_goals first
    | (split at h <;> cases h)
    | (rename_i hm
       injection h with h
       rw [finAct_eq]; omega)
    | cases h

theorem ofNat_finAct (d : Nat) : Action.ofNat (finAct d) = .finishCycle d := by
  have h1 : (2 + 16 * d) % 16 = 2 := by omega
  have h2 : (2 + 16 * d) / 16 = d := by omega
  simp [Action.ofNat, finAct_eq, h1, h2]

theorem toNat_ne_finAct (a : Action) (x : Nat) (h : a ≠ .finishCycle x) : a.toNat ≠ finAct x := by
  intro e
  apply h
  cases a <;> simp only [Action.toNat, finAct_eq] at e <;> first | omega | (congr 1; omega)

/-! ### the finish events of a device -/

/-- `e` is a live finish event of device `x` -/
def isFin (x : Nat) (e : Event) : Bool := e.live && e.act == finAct x

/-- the live pending finish events of device `x` -/
def finE (s : Env) (x : Nat) : List Event := s.events.filter (isFin x)
/-- the live paused finish events of device `x` -/
def finP (s : Env) (x : Nat) : List Event := s.paused.filter (isFin x)

/-- The timers of device `x`: uid and remaining work of each of its live finish events (remaining
work of a pending event: due time minus clock; of a paused event: due time minus pause time). -/
def rem (s : Env) (x : Nat) : List (Nat × Int) :=
  (finE s x).map (fun e => (e.uid, e.time - s.now)) ++
  (finP s x).map (fun e => (e.uid, e.time - e.pausedAt.getD s.now))

theorem isFin_iff (x : Nat) (e : Event) : isFin x e = true ↔ e.cancelled = false ∧ e.act = finAct x := by
  simp [isFin, Event.live]

theorem mem_finE {s : Env} {x : Nat} {e : Event} :
    e ∈ finE s x ↔ e ∈ s.events ∧ e.cancelled = false ∧ e.act = finAct x := by
  simp [finE, List.mem_filter, isFin_iff]

theorem mem_finP {s : Env} {x : Nat} {e : Event} :
    e ∈ finP s x ↔ e ∈ s.paused ∧ e.cancelled = false ∧ e.act = finAct x := by
  simp [finP, List.mem_filter, isFin_iff]

/-! ### `schedule` -/

theorem fin_schedule_ne {s s' : Env} {t a : Int} {act : Nat} {p : Int} {k : Nat}
    (h : s.schedule t a act p k = some s') (x : Nat) (hne : act ≠ finAct x) :
    finE s' x = finE s x ∧ finP s' x = finP s x := by
  obtain ⟨_, rfl⟩ := Env.schedule_some.mp h
  refine ⟨?_, rfl⟩
  unfold finE
  apply filter_insort_neg
  simp [isFin, Env.newEvent, hne]

theorem fin_schedule_eq {s s' : Env} {t a : Int} {x : Nat} {p : Int} {k : Nat}
    (h : s.schedule t a (finAct x) p k = some s') (hnil : finE s x = []) :
    finE s' x = [s.newEvent t a (finAct x) p k] ∧ finP s' x = finP s x := by
  obtain ⟨_, rfl⟩ := Env.schedule_some.mp h
  refine ⟨?_, rfl⟩
  unfold finE
  apply filter_insort_pos_nil
  · simp [isFin, Env.newEvent, Event.live]
  · exact hnil

/-! ### `pause` -/

theorem finE_pause (s : Env) (a : Int) (x : Nat) :
    finE (s.pause a) x = (finE s x).filter (fun e => !(e.asset == a)) := by
  simp only [finE, Env.pause, List.filter_filter]
  congr 1; funext e; exact Bool.and_comm _ _

theorem finP_pause (s : Env) (a : Int) (x : Nat) :
    finP (s.pause a) x = finP s x ++
      ((finE s x).filter (fun e => e.asset == a)).map (fun e => { e with pausedAt := some s.now }) := by
  simp only [finP, finE, Env.pause, List.filter_append, List.filter_map, List.filter_filter]
  congr 2
  apply List.filter_congr
  intro e _
  simp [isFin, Event.live, Function.comp, Bool.and_comm]

/-! ### `cancel` -/

theorem filter_map_cancelIf (a : Int) (x : Nat) (l : List Event) :
    (l.map (Event.cancelIf a)).filter (isFin x) =
      (l.filter (isFin x)).filter (fun e => !(e.asset == a)) := by
  induction l with
  | nil => rfl
  | cons e l ih =>
    simp only [List.map_cons, List.filter_cons, ih]
    by_cases ha : e.asset == a
    · have h1 : isFin x (Event.cancelIf a e) = false := by
        simp [isFin, Event.cancelIf, ha, Event.live]
      simp only [h1, Bool.false_eq_true, if_false]
      split
      · simp [ha]
      · rfl
    · have h1 : Event.cancelIf a e = e := by simp [Event.cancelIf, ha]
      rw [h1]
      split
      · simp [ha]
      · rfl

theorem finE_cancel (s : Env) (a : Int) (x : Nat) :
    finE (s.cancel a) x = (finE s x).filter (fun e => !(e.asset == a)) :=
  filter_map_cancelIf a x s.events

theorem finP_cancel (s : Env) (a : Int) (x : Nat) :
    finP (s.cancel a) x = (finP s x).filter (fun e => !(e.asset == a)) :=
  filter_map_cancelIf a x s.paused

/-! ### `unpause` -/

theorem finP_unpause (ar : Arith) (s : Env) (a : Int) (x : Nat) :
    finP (s.unpause ar a) x = (finP s x).filter (fun e => !(e.asset == a)) := by
  simp only [finP, Env.unpause, List.filter_filter]
  congr 1; funext e; exact Bool.and_comm _ _

/-- the events `unpause a` puts back, with their new times -/
def resumedFin (ar : Arith) (s : Env) (a : Int) (x : Nat) : List Event :=
  ((finP s x).filter (fun e => e.asset == a)).map
    (fun e => { e with time := shiftTime ar s.now e.time (e.pausedAt.getD s.now) })

theorem unpause_events (ar : Arith) (s : Env) (a : Int) :
    (s.unpause ar a).events = insortAll s.events ((s.paused.filter (fun e => e.asset == a)).map
      (fun e => { e with time := shiftTime ar s.now e.time (e.pausedAt.getD s.now) })) := by
  simp only [Env.unpause]
  exact foldl_insort_map _ _ _

theorem finE_unpause_perm (ar : Arith) (s : Env) (a : Int) (x : Nat) :
    (finE (s.unpause ar a) x).Perm (resumedFin ar s a x ++ finE s x) := by
  unfold finE
  rw [unpause_events]
  refine (filter_insortAll_perm _ _ _).trans ?_
  apply List.Perm.append_right
  apply List.Perm.of_eq
  simp only [resumedFin, finP, List.filter_map, List.filter_filter]
  congr 1
  apply List.filter_congr
  intro e _
  simp [isFin, Event.live, Function.comp, Bool.and_comm]

theorem finE_unpause_none (ar : Arith) (s : Env) (a : Int) (x : Nat)
    (h : ∀ e ∈ finP s x, e.asset ≠ a) : finE (s.unpause ar a) x = finE s x := by
  unfold finE
  rw [unpause_events]
  apply filter_insortAll_neg
  intro e he
  obtain ⟨e0, he0, rfl⟩ := List.mem_map.mp he
  obtain ⟨hp, ha⟩ := List.mem_filter.mp he0
  cases hf : isFin x e0 with
  | false => simpa [isFin, Event.live] using hf
  | true => exact absurd (by simpa using ha) (h e0 (List.mem_filter.mpr ⟨hp, hf⟩))

/-! ### operations on another asset, operations on the device's own asset -/

theorem filter_ne_self {l : List Event} {a : Int} (h : ∀ e ∈ l, e.asset ≠ a) :
    l.filter (fun e => !(e.asset == a)) = l :=
  filter_eq_self_of_forall _ _ (fun e he => by simpa using h e he)

theorem filter_ne_nil {l : List Event} {a : Int} (h : ∀ e ∈ l, e.asset = a) :
    l.filter (fun e => !(e.asset == a)) = [] :=
  filter_eq_nil_of_forall _ _ (fun e he => by simpa using h e he)

theorem filter_eq_self' {l : List Event} {a : Int} (h : ∀ e ∈ l, e.asset = a) :
    l.filter (fun e => e.asset == a) = l :=
  filter_eq_self_of_forall _ _ (fun e he => by simpa using h e he)

theorem filter_eq_nil' {l : List Event} {a : Int} (h : ∀ e ∈ l, e.asset ≠ a) :
    l.filter (fun e => e.asset == a) = [] :=
  filter_eq_nil_of_forall _ _ (fun e he => by simpa using h e he)

theorem fin_pause_other {s : Env} {a : Int} {y : Nat} (h : ∀ e ∈ finE s y ++ finP s y, e.asset ≠ a) :
    finE (s.pause a) y = finE s y ∧ finP (s.pause a) y = finP s y := by
  have h1 : ∀ e ∈ finE s y, e.asset ≠ a := fun e he => h e (List.mem_append.mpr (Or.inl he))
  rw [finE_pause, finP_pause, filter_ne_self h1, filter_eq_nil' h1]
  simp

theorem fin_cancel_other {s : Env} {a : Int} {y : Nat} (h : ∀ e ∈ finE s y ++ finP s y, e.asset ≠ a) :
    finE (s.cancel a) y = finE s y ∧ finP (s.cancel a) y = finP s y := by
  have h1 : ∀ e ∈ finE s y, e.asset ≠ a := fun e he => h e (List.mem_append.mpr (Or.inl he))
  have h2 : ∀ e ∈ finP s y, e.asset ≠ a := fun e he => h e (List.mem_append.mpr (Or.inr he))
  rw [finE_cancel, finP_cancel, filter_ne_self h1, filter_ne_self h2]
  exact ⟨rfl, rfl⟩

theorem fin_unpause_other (ar : Arith) {s : Env} {a : Int} {y : Nat}
    (h : ∀ e ∈ finE s y ++ finP s y, e.asset ≠ a) :
    finE (s.unpause ar a) y = finE s y ∧ finP (s.unpause ar a) y = finP s y := by
  have h2 : ∀ e ∈ finP s y, e.asset ≠ a := fun e he => h e (List.mem_append.mpr (Or.inr he))
  rw [finP_unpause, filter_ne_self h2]
  exact ⟨finE_unpause_none ar s a y h2, rfl⟩

theorem fin_pause_self {s : Env} {a : Int} {x : Nat} (h : ∀ e ∈ finE s x, e.asset = a) :
    finE (s.pause a) x = [] ∧
    finP (s.pause a) x = finP s x ++ (finE s x).map (fun e => { e with pausedAt := some s.now }) := by
  rw [finE_pause, finP_pause, filter_ne_nil h, filter_eq_self' h]
  exact ⟨rfl, rfl⟩

theorem fin_cancel_self {s : Env} {a : Int} {x : Nat} (h : ∀ e ∈ finE s x ++ finP s x, e.asset = a) :
    finE (s.cancel a) x = [] ∧ finP (s.cancel a) x = [] := by
  have h1 : ∀ e ∈ finE s x, e.asset = a := fun e he => h e (List.mem_append.mpr (Or.inl he))
  have h2 : ∀ e ∈ finP s x, e.asset = a := fun e he => h e (List.mem_append.mpr (Or.inr he))
  rw [finE_cancel, finP_cancel, filter_ne_nil h1, filter_ne_nil h2]
  exact ⟨rfl, rfl⟩

theorem fin_unpause_self (ar : Arith) {s : Env} {a : Int} {x : Nat} (h : ∀ e ∈ finP s x, e.asset = a) :
    finP (s.unpause ar a) x = [] ∧
    (finE (s.unpause ar a) x).Perm
      ((finP s x).map (fun e => { e with time := shiftTime ar s.now e.time (e.pausedAt.getD s.now) }) ++
        finE s x) := by
  rw [finP_unpause, filter_ne_nil h]
  refine ⟨rfl, ?_⟩
  have := finE_unpause_perm ar s a x
  unfold resumedFin at this
  rw [filter_eq_self' h] at this
  exact this

/-! ### `step` (pop) -/

theorem fin_step {s s' : Env} {e : Event} (h : s.step = some (e, s')) (x : Nat) :
    finE s x = (if isFin x e then e :: finE s' x else finE s' x) ∧ finP s' x = finP s x ∧
    s'.now = e.time ∧ s'.nextUid = s.nextUid := by
  obtain ⟨es, he, rfl⟩ := Env.step_some.mp h
  refine ⟨?_, rfl, rfl, rfl⟩
  simp only [finE, he, List.filter_cons]

/-! ### the environment invariants (queue invariant of C01, pause bookkeeping of C07) -/

def EI (s : Env) : Prop := C01.Inv s ∧ C07.PInv s

theorem EI.apply {s : Env} (h : EI s) (op : EnvOp) : EI (s.apply Arith.exact op).1 :=
  ⟨C01.inv_apply Arith.exact op h.1, C07.pinv_apply s op h.1 h.2⟩

theorem EI.step {s s' : Env} {e : Event} (h : EI s) (hs : s.step = some (e, s')) : EI s' := by
  have := h.apply .step
  rw [apply_step_some _ hs] at this
  exact this

theorem EI.init : EI {} := ⟨C01.inv_init, C07.pinv_init⟩

end C06W
end SimProc
