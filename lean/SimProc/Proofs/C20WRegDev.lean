/-
C20W — machinery, part 6: the registration half of a device constructor call (`regDev`) in closed
form, as a registration transformer: append the device, set its `up` list, append it to the `down`
list of every named upstream device (once).  Holds whenever no upstream device has to be woken:
not initialised yet, or a handler-like device that is not waiting for space downstream.
-/
import SimProc.Proofs.C20WCommute

namespace SimProc
namespace C20W
open World FloorCoreL RKey

/-! ### the three list operations -/

/-- `u` gets `x` as a downstream neighbour (once). -/
def linkL (x : Nat) (l : List Dev) (u : Nat) : List Dev :=
  if (l.getD u default).down.contains x then l
  else l.set u { l.getD u default with down := (l.getD u default).down ++ [x] }

/-- Device `i` gets the upstream list `ups`. -/
def setUpL (i : Nat) (ups : List Nat) (l : List Dev) : List Dev :=
  l.set i { l.getD i default with up := ups }

theorem rewir_of_eq (a e : Dev) (h1 : e.up = a.up) (h2 : e.down = a.down) : rewir a e = e := by
  cases e; simp_all [rewir]

theorem getD_set' {α} (l : List α) (i j : Nat) (a d : α) :
    (l.set i a).getD j d = if i = j ∧ i < l.length then a else l.getD j d := by
  by_cases hij : i = j
  · subst hij
    by_cases hlt : i < l.length
    · simp [hlt]
    · simp [hlt, set_of_length_le _ _ _ (Nat.le_of_not_lt hlt)]
  · simp [hij]

theorem wireF_append (n : Nat) (t : List Dev) : WireF n (fun l => l ++ t) := by
  refine ⟨fun l h => by simp; omega, ?_, ?_⟩
  · intro l x hx hn
    show (l ++ t).getD x default = rewir ((l ++ t).getD x default) (l.getD x default)
    rw [getD_append_left _ _ _ _ (by omega)]; rfl
  · intro l x e hx hn h1 h2
    show l.set x e ++ t = (l ++ t).set x (rewir ((l ++ t).getD x default) e)
    rw [getD_append_left _ _ _ _ (by omega), rewir_of_eq _ _ h1 h2, List.set_append_left _ _ (by omega)]

theorem wireF_setUp (n i : Nat) (ups : List Nat) (hi : n ≤ i) : WireF n (setUpL i ups) := by
  refine ⟨fun l h => by simp [setUpL]; omega, ?_, ?_⟩
  · intro l x hx hn
    have hne : i ≠ x := by omega
    unfold setUpL
    rw [getD_set_ne _ _ _ _ _ hne]; rfl
  · intro l x e hx hn h1 h2
    have hne : i ≠ x := by omega
    have hne' : x ≠ i := by omega
    unfold setUpL
    rw [getD_set_ne _ _ _ _ _ hne', getD_set_ne _ _ _ _ _ hne, rewir_of_eq _ _ h1 h2,
      List.set_comm _ _ hne']

theorem wireF_link (n c u : Nat) : WireF n (fun l => linkL c l u) := by
  refine ⟨fun l h => by simp only [linkL]; split; exact h; simpa using h, ?_, ?_⟩
  · intro l x hx hn
    show (linkL c l u).getD x default = rewir ((linkL c l u).getD x default) (l.getD x default)
    unfold linkL
    split
    · rfl
    · rw [getD_set']
      split
      · rename_i h; rw [← h.1]; rfl
      · rfl
  · intro l x e hx hn h1 h2
    have hxl : x < l.length := by omega
    show linkL c (l.set x e) u = (linkL c l u).set x (rewir ((linkL c l u).getD x default) e)
    by_cases hux : u = x
    · subst hux
      unfold linkL
      rw [getD_set_same _ _ _ _ hxl, h2]
      split
      · rw [rewir_of_eq _ _ h1 h2]
      · rw [getD_set_same _ _ _ _ hxl, List.set_set, List.set_set]
        congr 1
        cases e; simp_all [rewir]
    · have hux' : x ≠ u := fun h => hux h.symm
      unfold linkL
      rw [getD_set_ne _ _ _ _ _ hux']
      split
      · rw [rewir_of_eq _ _ h1 h2]
      · rw [getD_set_ne _ _ _ _ _ hux, rewir_of_eq _ _ h1 h2, List.set_comm _ _ hux']

theorem wireF_links (n c : Nat) (ups : List Nat) : WireF n (fun l => ups.foldl (linkL c) l) := by
  induction ups with
  | nil => exact WireF.id n
  | cons u ups ih =>
    have := WireF.comp (wireF_link n c u) ih
    exact this

/-- The device list after the registration of device `d` as number `i` with asset id `aid`. -/
def regF (i : Nat) (aid : Int) (d : Dev) (l : List Dev) : List Dev :=
  d.up.foldl (linkL i) (setUpL i d.up (l ++ [{ d with aid := aid, up := [] }]))

theorem wireF_regF (n i : Nat) (aid : Int) (d : Dev) (hi : n ≤ i) : WireF n (regF i aid d) := by
  have h1 := wireF_append n [{ d with aid := aid, up := [] }]
  have h2 := wireF_setUp n i d.up hi
  have h3 := wireF_links n i d.up
  exact WireF.comp (WireF.comp h1 h2) h3

theorem linkL_length (c : Nat) (l : List Dev) (u : Nat) : (linkL c l u).length = l.length := by
  unfold linkL; split <;> simp

theorem links_length (c : Nat) (ups : List Nat) (l : List Dev) :
    (ups.foldl (linkL c) l).length = l.length := by
  induction ups generalizing l with
  | nil => rfl
  | cons u ups ih => rw [List.foldl_cons, ih, linkL_length]

theorem regF_length (i : Nat) (aid : Int) (d : Dev) (l : List Dev) :
    (regF i aid d l).length = l.length + 1 := by
  unfold regF setUpL
  rw [links_length]; simp

/-- The group registration of a group path. -/
def regG (i : Nat) (d : Dev) (gs : List Group) : List Group :=
  if d.kind == .gpath then
    gs.set d.group { gs.getD d.group default with paths := (gs.getD d.group default).paths ++ [i] }
  else gs

/-- The registration transformer of a device constructor call. -/
def regT (i : Nat) (aid : Int) (d : Dev) : Tr :=
  { F := regF i aid d, G := regG i d, ta := [AssetRef.dev i] }

/-! ### when no upstream device has to be woken -/

/-- `is_operational()` as a function of the device record. -/
def opD (d : Dev) : Bool :=
  match d.kind with
  | .processor => !d.shutDown
  | _ => true

/-- Connecting a new downstream neighbour to this device wakes nothing: the device is not
initialised yet, or it is a part handler (not a flow controller) that is not waiting for space
downstream. -/
def QuietD (d : Dev) : Prop :=
  d.inited = false ∨ (isHandlerLike d.kind = true ∧ (opD d && d.waitingDS) = false)

instance (d : Dev) : Decidable (QuietD d) := by unfold QuietD; infer_instance

/-- The wiring step without the wake-up. -/
def linkW (x : Nat) (w : World) (u : Nat) : World :=
  if (w.dev u).down.contains x then w
  else w.modDev u (fun du => { du with down := du.down ++ [x] })

theorem linkW_eq (x : Nat) (w : World) (u : Nat) : linkW x w u = { w with devs := linkL x w.devs u } := by
  unfold linkW linkL World.dev
  split <;> rfl

theorem operational_eq (w : World) (u : Nat) : w.operational u = opD (w.dev u) := rfl

theorem spaceAvailable_quiet (w : World) (u : Nat) (hk : isHandlerLike (w.dev u).kind = true)
    (hq : (w.operational u && (w.dev u).waitingDS) = false) : w.spaceAvailable u = w := by
  unfold spaceAvailable
  have hf : w.fuel = (2 * w.devs.length + 2) + 1 := rfl
  rw [hf, spaceAvail]
  cases hkk : (w.dev u).kind <;> rw [hkk] at hk <;> first
    | (exact absurd hk (by decide))
    | (simp only [hq, Bool.false_eq_true, if_false])

theorem rewireStep_quiet (x : Nat) (w : World) (u : Nat) (h : QuietD (w.dev u)) :
    C03.rewireStep x w u = linkW x w u := by
  unfold C03.rewireStep linkW
  split
  · rfl
  · dsimp only
    by_cases hu : u < w.devs.length
    · have hdev : (w.modDev u (fun du => { du with down := du.down ++ [x] })).dev u =
          { w.dev u with down := (w.dev u).down ++ [x] } := dev_modDev_same hu
      rcases h with h | ⟨hk, hq⟩
      · rw [if_neg (by rw [hdev]; simp [h])]
      · split
        · refine spaceAvailable_quiet _ u (by rw [hdev]; exact hk) ?_
          rw [operational_eq, hdev]
          exact hq
        · rfl
    · rw [modDev_out_of_range (Nat.le_of_not_lt hu)]
      have hd : w.dev u = default := dev_of_length_le (Nat.le_of_not_lt hu)
      rw [if_neg (by rw [hd]; decide)]

theorem linkW_dev_quiet (x : Nat) (w : World) (v u : Nat) :
    QuietD ((linkW x w v).dev u) ↔ QuietD (w.dev u) := by
  unfold linkW
  split
  · exact Iff.rfl
  · rw [dev_modDev]
    split
    · rename_i h; rw [h.1]; exact Iff.rfl
    · exact Iff.rfl

theorem fold_rewireStep_quiet (x : Nat) (ups : List Nat) :
    ∀ w : World, (∀ u ∈ ups, QuietD (w.dev u)) →
      ups.foldl (C03.rewireStep x) w = ups.foldl (linkW x) w := by
  induction ups with
  | nil => intro w _; rfl
  | cons a ups ih =>
    intro w h
    rw [List.foldl_cons, List.foldl_cons, rewireStep_quiet x w a (h a List.mem_cons_self)]
    exact ih _ (fun u hu => (linkW_dev_quiet x w a u).2 (h u (List.mem_cons_of_mem _ hu)))

theorem fold_linkW_eq (x : Nat) (ups : List Nat) (w : World) :
    ups.foldl (linkW x) w = { w with devs := ups.foldl (linkL x) w.devs } := by
  induction ups generalizing w with
  | nil => rfl
  | cons a ups ih => rw [List.foldl_cons, List.foldl_cons, ih, linkW_eq]

open C02V in
/-- **Registration in closed form.** -/
theorem regDev_eq (w : World) (d : Dev) (hd : d.inited = false)
    (hq : ∀ u ∈ d.up, u < w.devs.length → QuietD (w.dev u)) :
    regDev w d = (regT w.devs.length ((w.assets.length : Int) + 1) d).app w := by
  have hnew : (addDev1 w d).dev w.devs.length = { d with aid := (w.assets.length : Int) + 1, up := [] } := by
    unfold addDev1 World.dev
    exact getD_append_singleton _ _ _
  have hpre : C03.rewirePre (addDev1 w d) w.devs.length d.up =
      (addDev1 w d).modDev w.devs.length (fun x => { x with up := d.up }) := by
    unfold C03.rewirePre
    simp only [hnew, hd, Bool.and_false, Bool.false_eq_true, if_false, List.foldl_nil]
  have hlen : (addDev1 w d).devs.length = w.devs.length + 1 := by simp [addDev1]
  have hq2 : ∀ u ∈ d.up, QuietD (((addDev1 w d).modDev w.devs.length
      (fun x => { x with up := d.up })).dev u) := by
    intro u hu
    rw [dev_modDev]
    split
    · rw [hnew]; exact Or.inl hd
    · rename_i hne
      by_cases hlt : u < w.devs.length
      · have : (addDev1 w d).dev u = w.dev u := by
          unfold addDev1 World.dev
          exact getD_append_left _ _ _ _ hlt
        rw [this]; exact hq u hu hlt
      · have hgt : (addDev1 w d).devs.length ≤ u := by
          rw [hlen]
          have : ¬ (w.devs.length = u ∧ w.devs.length < (addDev1 w d).devs.length) := hne
          rw [hlen] at this
          omega
        rw [dev_of_length_le hgt]; exact Or.inl rfl
  unfold regDev
  rw [C03.rewire_eq, hpre, fold_rewireStep_quiet _ _ _ hq2, fold_linkW_eq]
  unfold regPath regT Tr.app regF regG setUpL addDev1 modDev setDev World.dev
  simp only [List.append_nil, id]
  split <;> rfl

/-! ### what `simulateInit` keeps -/

theorem simulateInit_facts (w : World) (hst : w.started = false) :
    w.simulateInit.started = true ∧ w.simulateInit.devs.length = w.devs.length ∧
    w.simulateInit.maints.length = w.maints.length ∧ w.simulateInit.scheds.length = w.scheds.length ∧
    w.simulateInit.sensors.length = w.sensors.length ∧ w.simulateInit.assets = w.assets ∧
    sstat w.simulateInit = sstat w := by
  have hsame := Same_rmStart w
  obtain ⟨y1, y2, y3, y4⟩ := sweepW_lengths (rmStart w).assets (rmStart w)
  obtain ⟨y5, _⟩ := sweepW_assets (rmStart w).assets (rmStart w)
  rw [simulateInit_eq w hst]
  refine ⟨rfl, y1.trans hsame.devs_length, y2.trans hsame.maints_length, y3.trans hsame.scheds_length,
    ?_, y5.trans hsame.assets, y4.trans (rmStart_sstat w)⟩
  exact (sstat_length y4).trans hsame.sensors_length

/-! ### the hypotheses in terms of the registration invariant -/

/-- Every output-part sensor is attached to an existing device. -/
def SensorsWired (w : World) : Prop :=
  ∀ s, s < w.sensors.length → (w.sensors.getD s default).s.kind = .output →
    (w.sensors.getD s default).proc < w.devs.length

instance (w : World) : Decidable (SensorsWired w) := by unfold SensorsWired; infer_instance

theorem validRefs_of_reg (w : World) (hr : Reg w) (hs : SensorsWired w) :
    ∀ a ∈ w.assets, ValidRef false w.devs.length w a := by
  intro a ha
  have hv := hr.valid a ha
  cases a with
  | dev d => have : d < w.devs.length := by simpa [valid, RK] using hv
             exact this
  | maint m => have : m < w.maints.length := by simpa [valid, RK] using hv
               exact this
  | sched s => have : s < w.scheds.length := by simpa [valid, RK] using hv
               exact this
  | sensor s =>
    have : s < w.sensors.length := by simpa [valid, RK] using hv
    exact ⟨this, Or.inr (hs s this)⟩
  | cms c => trivial

/-- For a registration that does not touch the device list nothing is asked of the sensors. -/
theorem validRefs_of_reg_free (w : World) (hr : Reg w) :
    ∀ a ∈ w.assets, ValidRef true w.devs.length w a := by
  intro a ha
  have hv := hr.valid a ha
  cases a with
  | dev d => have : d < w.devs.length := by simpa [valid, RK] using hv
             exact this
  | maint m => have : m < w.maints.length := by simpa [valid, RK] using hv
               exact this
  | sched s => have : s < w.scheds.length := by simpa [valid, RK] using hv
               exact this
  | sensor s =>
    have : s < w.sensors.length := by simpa [valid, RK] using hv
    exact ⟨this, Or.inl rfl⟩
  | cms c => trivial

theorem noInit_of_reg (w : World) (hr : Reg w) (hst : w.started = false) (u : Nat)
    (hu : u < w.devs.length) : (w.dev u).inited = false := by
  have hm : AssetRef.dev u ∈ (RK w).assets := hr.complete (.dev u) (by simp [valid, RK, hu]) rfl
  have := hr.flag (.dev u) hm (w.dev u).inited (by
    simp [flagOf, RK, World.dev, dk, List.getD_eq_getElem?_getD, hu])
  rw [this]; exact hst

/-! ### construct-then-start = start-then-construct -/

/-- **Devices**, core: whenever the registration on the started world has the closed form. -/
theorem commute_dev_core (w : World) (d : Dev) (hst : w.started = false) (hr : Reg w) (hs : SensorsWired w)
    (hd : d.inited = false)
    (hreg : regDev w.simulateInit d =
      (regT w.simulateInit.devs.length ((w.simulateInit.assets.length : Int) + 1) d).app w.simulateInit) :
    w.simulateInit.addAsset (.dev d) = (w.addAsset (.dev d)).simulateInit := by
  obtain ⟨f1, f2, f3, f4, f5, f6, f7⟩ := simulateInit_facts w hst
  have h0 : w.addDev d = (regT w.devs.length ((w.assets.length : Int) + 1) d).app w := by
    have hs0 : (regDev w d).started = false := by
      have := congrArg RKey.started (RK_regDev w d); exact this.trans hst
    rw [addDev_eq_regDev, hs0]
    simp only [Bool.false_eq_true, if_false]
    exact regDev_eq w d hd (fun u _ hu => Or.inl (noInit_of_reg w hr hst u hu))
  have h1 : w.simulateInit.addDev d =
      ((regT w.devs.length ((w.assets.length : Int) + 1) d).app w.simulateInit).initAsset
        (.dev w.devs.length) := by
    have hs1 : (regDev w.simulateInit d).started = true := by
      have := congrArg RKey.started (RK_regDev w.simulateInit d); exact this.trans f1
    rw [addDev_eq_regDev, hs1]
    simp only [if_true]
    rw [hreg, f2, f6]
  show w.simulateInit.addDev d = (w.addDev d).simulateInit
  rw [h0, h1]
  refine (commute_generic w _ (.dev w.devs.length) hst (wireF_regF _ _ _ _ (Nat.le_refl _)) false
    (fun h => by cases h) rfl rfl (validRefs_of_reg w hr hs) ?_).symm
  intro Y y1 _ _ _
  show w.devs.length < (regF _ _ _ Y.devs).length
  rw [regF_length, y1]; exact Nat.lt_succ_self _

/-- **Devices.** -/
theorem commute_dev (w : World) (d : Dev) (hst : w.started = false) (hr : Reg w) (hs : SensorsWired w)
    (hd : d.inited = false)
    (hq : ∀ u ∈ d.up, u < w.devs.length → QuietD (w.simulateInit.dev u)) :
    w.simulateInit.addAsset (.dev d) = (w.addAsset (.dev d)).simulateInit := by
  have f2 := (simulateInit_facts w hst).2.1
  exact commute_dev_core w d hst hr hs hd
    (regDev_eq w.simulateInit d hd (fun u hu hlt => hq u hu (by rw [← f2]; exact hlt)))

/-- **Maintainers.** -/
theorem commute_maint (w : World) (cap : Option Int) (v : Int) (hst : w.started = false) (hr : Reg w) :
    w.simulateInit.addAsset (.maint cap v) = (w.addAsset (.maint cap v)).simulateInit := by
  obtain ⟨f1, f2, f3, f4, f5, f6, f7⟩ := simulateInit_facts w hst
  let T : Tr := { tm := [({ m := { cap := cap, val := { init := v, value := v } },
                            aid := (w.assets.length : Int) + 1 } : MaintW)],
                  ta := [AssetRef.maint w.maints.length] }
  have h0 : w.addAsset (.maint cap v) = T.app w := by
    simp [addAsset, hst, Tr.app, T]
  have h1 : w.simulateInit.addAsset (.maint cap v) = (T.app w.simulateInit).initAsset (.maint w.maints.length) := by
    simp [addAsset, f1, f3, f6, Tr.app, T]
  rw [h0, h1]
  refine (commute_generic w T (.maint w.maints.length) hst (WireF.id _) true (fun _ => rfl) rfl rfl
    (validRefs_of_reg_free w hr) ?_).symm
  intro Y _ y2 _ _
  show w.maints.length < (Y.maints ++ _).length
  simp [y2, T]

/-- **Action schedulers.** -/
theorem commute_sched (w : World) (tt : List (Int × Int)) (cyc : Bool) (hst : w.started = false)
    (hr : Reg w) :
    w.simulateInit.addAsset (.sched tt cyc) = (w.addAsset (.sched tt cyc)).simulateInit := by
  obtain ⟨f1, f2, f3, f4, f5, f6, f7⟩ := simulateInit_facts w hst
  let T : Tr := { tc := [({ s := { tt := tt, cyc := cyc }, aid := (w.assets.length : Int) + 1 } : SchedW)],
                  ta := [AssetRef.sched w.scheds.length] }
  have h0 : w.addAsset (.sched tt cyc) = T.app w := by
    simp [addAsset, hst, Tr.app, T]
  have h1 : w.simulateInit.addAsset (.sched tt cyc) = (T.app w.simulateInit).initAsset (.sched w.scheds.length) := by
    simp [addAsset, f1, f4, f6, Tr.app, T]
  rw [h0, h1]
  refine (commute_generic w T (.sched w.scheds.length) hst (WireF.id _) true (fun _ => rfl) rfl rfl
    (validRefs_of_reg_free w hr) ?_).symm
  intro Y _ _ y3 _
  show w.scheds.length < (Y.scheds ++ _).length
  simp [y3, T]

/-- **Sensors.** -/
theorem commute_sensor (w : World) (sw : SensorW) (hst : w.started = false) (hr : Reg w) :
    w.simulateInit.addAsset (.sensor sw) = (w.addAsset (.sensor sw)).simulateInit := by
  obtain ⟨f1, f2, f3, f4, f5, f6, f7⟩ := simulateInit_facts w hst
  let T : Tr := { tn := [{ sw with aid := (w.assets.length : Int) + 1 }],
                  ta := [AssetRef.sensor w.sensors.length] }
  have h0 : w.addAsset (.sensor sw) = T.app w := by
    simp [addAsset, hst, Tr.app, T]
  have h1 : w.simulateInit.addAsset (.sensor sw) = (T.app w.simulateInit).initAsset (.sensor w.sensors.length) := by
    simp [addAsset, f1, f5, f6, Tr.app, T]
  rw [h0, h1]
  refine (commute_generic w T (.sensor w.sensors.length) hst (WireF.id _) true (fun _ => rfl) rfl rfl
    (validRefs_of_reg_free w hr) ?_).symm
  intro Y y1 _ _ y4
  have hl := sstat_length y4
  refine ⟨?_, Or.inl rfl⟩
  show w.sensors.length < (Y.sensors ++ _).length
  simp [hl, T]

/-- **Cms.** -/
theorem commute_cms (w : World) (hst : w.started = false) (hr : Reg w) :
    w.simulateInit.addAsset .cms = (w.addAsset .cms).simulateInit := by
  obtain ⟨f1, f2, f3, f4, f5, f6, f7⟩ := simulateInit_facts w hst
  have f8 : w.simulateInit.cmsSensors.length = w.cmsSensors.length := by
    have := congrArg RKey.ncms (RK_simulateInit w hst)
    simpa [RK] using this
  let T : Tr := { tk := [[]], ta := [AssetRef.cms w.cmsSensors.length] }
  have h0 : w.addAsset .cms = T.app w := by
    simp [addAsset, Tr.app, T]
  have h1 : w.simulateInit.addAsset .cms = (T.app w.simulateInit).initAsset (.cms w.cmsSensors.length) := by
    show w.simulateInit.addAsset .cms = T.app w.simulateInit
    simp [addAsset, f8, Tr.app, T]
  rw [h0, h1]
  exact (commute_generic w T (.cms w.cmsSensors.length) hst (WireF.id _) true (fun _ => rfl) rfl rfl
    (validRefs_of_reg_free w hr) (fun _ _ _ _ _ => trivial)).symm

end C20W
end SimProc
