/-
Hand-over of a part (`passHandler`, `bufferLoop`), `passPart`, `failDev`: the strengthened
invariant is preserved.
-/
import SimProc.Proofs.FloorGive
namespace SimProc
namespace C02V
open World

def InvW (w : World) : Prop := Inv (sv w)

theorem InvW.of_sv {w w' : World} (h : InvW w) (e : sv w' = sv w) : InvW w' := by
  unfold InvW; rw [e]; exact h

theorem InvW.steps {w w' : World} {x : Nat} (h : InvW w) (s : Steps x (sv w) (sv w')) : InvW w' :=
  inv_steps h s

/-- Topology hypothesis for the giver `x`: every device the hand-over can reach exists. -/
def GiveOK (w : World) (x : Nat) : Prop :=
  ∀ y ∈ (w.dev x).down, ∀ z, Reach (st w) y z → z < w.devs.length

theorem held_valid {w : World} (h : InvW w) {x p : Nat} (hx : x < w.devs.length)
    (hp : p ∈ (sdev (w.dev x)).held) : p < w.parts.length := by
  have := h.1.heldValid (sdev (w.dev x)) (List.mem_of_getElem? (sv_get w x hx)) p hp
  simpa [sv] using this

/-- The hand-over: after a successful `tryList givePart`, either the giver itself took the part (only
possible if its own slots are empty), or taking the part out of the giver's slots restores the
invariant. -/
theorem handover (w : World) (x p : Nat) (l : List Nat) (s : SDev) (hI : InvW w)
    (hx : x < w.devs.length) (hk : (w.dev x).kind ≠ .sink) (hsk : s.kind = (w.dev x).kind)
    (hperm : (sdev (w.dev x)).held.Perm (p :: s.held))
    (hin : ∀ b, s.inprog = some b → (w.dev x).inprog = some b)
    (hl : ∀ y ∈ l, ∀ z, Reach (st w) y z → z < w.devs.length)
    (hb : (tryList givePart w l p).2 = true) :
    ((w.dev x).part = none ∧ (w.dev x).output = none ∧
      ((w.dev x).kind = .buffer → sv (tryList givePart w l p).1 =
        (sv w).setDev x { sdev (w.dev x) with buf := (sdev (w.dev x)).buf ++ [p] })) ∨
    (Inv (mask (sv (tryList givePart w l p).1) x s) ∧
      sdev ((tryList givePart w l p).1.dev x) = sdev (w.dev x) ∧
      (tryList givePart w l p).1.devs.length = w.devs.length) := by
  have hp : p < w.parts.length := held_valid hI hx (hperm.mem_iff.mpr (List.mem_cons_self ..))
  obtain ⟨y, hy, z, hr, hz⟩ := (tryGive_spec w l p hp).2 hb
  have hzl := hl y hy z hr
  obtain ⟨hz1, hz2, hz3, hz4⟩ := hz _ (sv_get w z hzl)
  by_cases hne : x = z
  · subst hne
    exact Or.inl ⟨hz1, hz2, hz4⟩
  · right
    have h1 := inv_transfer hI (sv_get w x hx) (sv_get w z hzl) hne hz1 hk hsk hperm hin
    have h2 := inv_steps h1 (hz3.mask hne s)
    have h3 : (sv (tryList givePart w l p).1).devs[x]? = some (sdev (w.dev x)) := by
      rw [hz3.devs_ne hne]
      simp only [accept]
      rw [List.getElem?_set_ne (Ne.symm hne)]
      exact sv_get w x hx
    have h4 : (tryList givePart w l p).1.devs.length = w.devs.length := by
      have := hz3.length
      simpa [sv, accept] using this
    refine ⟨h2, ?_, h4⟩
    have := sv_get (tryList givePart w l p).1 x (by rw [h4]; exact hx)
    rw [h3] at this
    exact (Option.some.inj this).symm

theorem inv_passHandler (w : World) (x : Nat) (hI : InvW w) (hk : (w.dev x).kind ≠ .sink)
    (hg : GiveOK w x) : InvW (w.passHandler x) := by
  unfold World.passHandler
  simp only []
  split
  · exact hI
  · split
    · exact hI
    · rename_i p hp
      have hx : x < w.devs.length := lt_of_output hp
      cases hb : (tryList givePart w (w.sortedDown x) p).2 with
      | false =>
        have hs := (tryGive_spec w (w.sortedDown x) p (held_valid hI hx (by simp [SDev.held, sdev, hp]))).1 hb
        have : tryList givePart w (w.sortedDown x) p = ((tryList givePart w (w.sortedDown x) p).1, false) := by
          rw [← hb]
        rw [this]
        simp only []
        refine hI.of_sv ?_
        rw [sv_modDev_same]
        · exact hs
        · intro _; rfl
      | true =>
        have key := handover w x p (w.sortedDown x) { sdev (w.dev x) with output := none } hI hx hk rfl
          (by
            simp only [SDev.held, sdev, hp, Option.toList_some, Option.toList_none, List.append_nil,
              List.append_assoc, List.singleton_append]
            exact List.perm_middle)
          (fun b h => h)
          (by
            intro y hy z hr
            exact hg y ((mem_sortedDown ..).1 hy) z hr)
          hb
        have key : _ := key.resolve_left (by rintro ⟨_, h, _⟩; rw [hp] at h; cases h)
        have : tryList givePart w (w.sortedDown x) p = ((tryList givePart w (w.sortedDown x) p).1, true) := by
          rw [← hb]
        rw [this]
        simp only []
        unfold InvW
        rw [sv_notify]
        unfold World.modDev
        rw [sv_setDev]
        have e : sdev { ((tryList givePart w (w.sortedDown x) p).1.dev x) with output := none } =
            { sdev (w.dev x) with output := none } := by
          rw [← key.2.1]; rfl
        rw [e]
        exact key.1


theorem tdev_of_st {w w' : World} (h : st w' = st w) (x : Nat) : tdev (w'.dev x) = tdev (w.dev x) := by
  rw [← st_get, ← st_get, h]

theorem GiveOK.of_st {w w' : World} {x : Nat} (h : GiveOK w x) (e : st w' = st w)
    (el : w'.devs.length = w.devs.length) : GiveOK w' x := by
  have ht := tdev_of_st e x
  have hd : (w'.dev x).down = (w.dev x).down := congrArg TDev.down ht
  unfold GiveOK
  rw [hd, e, el]
  exact h

theorem perm_buf (p : Nat) (A B C D : List Nat) : (A ++ B ++ (p :: C) ++ D).Perm (p :: (A ++ B ++ C ++ D)) := by
  have := List.perm_middle (a := p) (l₁ := A ++ B) (l₂ := C ++ D)
  simpa [List.append_assoc] using this

theorem st_setBuf (w : World) (x n : Nat) :
    st (w.modDev x (fun d => { d with level := d.level - n, buf := d.buf.drop 1 })) = st w :=
  st_modDev_same _ _ _ (fun _ => rfl)

theorem sdev_dropBuf (d : Dev) (n : Nat) :
    sdev { d with level := d.level - n, buf := d.buf.drop 1 } = { sdev d with buf := (sdev d).buf.drop 1 } := by
  simp [sdev, List.map_drop]

theorem inv_bufferLoop (f : Nat) : ∀ (w : World) (x : Nat), InvW w → (w.dev x).kind = .buffer →
    GiveOK w x → InvW (bufferLoop f w x) := by
  induction f with
  | zero => intro w x h _ _; exact h
  | succ f ih =>
    intro w x hI hk hg
    unfold bufferLoop
    simp only []
    split
    · exact hI
    · rename_i t p rest hbuf
      have hx : x < w.devs.length := lt_of_buf (by rw [hbuf]; simp)
      have hbs : (sdev (w.dev x)).buf = p :: rest.map (·.2) := by simp [sdev, hbuf]
      split
      · exact hI
      · cases hb : (tryList givePart w (w.sortedDown x) p).2 with
        | false =>
          have hs := (tryGive_spec w (w.sortedDown x) p
            (held_valid hI hx (by simp [SDev.held, sdev, hbuf]))).1 hb
          have : tryList givePart w (w.sortedDown x) p = ((tryList givePart w (w.sortedDown x) p).1, false) := by
            rw [← hb]
          rw [this]
          exact hI.of_sv hs
        | true =>
          have key := handover w x p (w.sortedDown x) { sdev (w.dev x) with buf := rest.map (·.2) } hI hx
            (by rw [hk]; decide) rfl
            (by
              simp only [SDev.held, sdev, hbuf, List.map_cons]
              exact perm_buf ..)
            (fun b h => h)
            (fun y hy z hr => hg y ((mem_sortedDown ..).1 hy) z hr)
            hb
          have : tryList givePart w (w.sortedDown x) p = ((tryList givePart w (w.sortedDown x) p).1, true) := by
            rw [← hb]
          rw [this]
          simp only []
          have hst : st (tryList givePart w (w.sortedDown x) p).1 = st w := st_tryGive ..
          -- the state after removing the head of the buffer
          have hfin : InvW ((tryList givePart w (w.sortedDown x) p).1.modDev x
              (fun d => { d with level := d.level - w.leafCount p, buf := d.buf.drop 1 })) ∧
              ((tryList givePart w (w.sortedDown x) p).1.modDev x
              (fun d => { d with level := d.level - w.leafCount p, buf := d.buf.drop 1 })).devs.length =
                w.devs.length := by
            unfold InvW World.modDev
            rw [sv_setDev, sdev_dropBuf]
            rcases key with ⟨hpn, hon, hself⟩ | ⟨hinv, hsd, hlen⟩
            · -- the buffer handed the part to itself: its content is rotated
              have hsv := hself hk
              have hlen : (tryList givePart w (w.sortedDown x) p).1.devs.length = w.devs.length := by
                have := congrArg (fun a => a.devs.length) hsv
                simpa [sv, SV.setDev] using this
              have hd : sdev ((tryList givePart w (w.sortedDown x) p).1.dev x) =
                  { sdev (w.dev x) with buf := (sdev (w.dev x)).buf ++ [p] } := by
                have := congrArg (fun a => a.dev x) hsv
                simp only [sv_dev] at this
                rw [this]
                simp [SV.setDev, SV.dev, sv, hx]
              refine ⟨?_, by show (List.set _ _ _).length = _; rw [List.length_set]; exact hlen⟩
              rw [hsv, hd]
              simp only [SV.setDev, List.set_set]
              have hperm : (sdev (w.dev x)).held.Perm
                  ([] ++ (SDev.held { sdev (w.dev x) with buf := ((sdev (w.dev x)).buf ++ [p]).drop 1 })) := by
                simp only [SDev.held, hbs, List.nil_append, List.cons_append, List.drop_succ_cons, List.drop_zero]
                exact ((List.perm_append_singleton p _).symm.append_left _).append_right _
              exact ⟨consV_rearr hI.1 _ _ [] (sv_get w x hx) rfl hperm (Or.inr (by simp)),
                extraV_rearr hI.2 _ _ [] (sv_get w x hx) rfl hperm (fun b h => h)⟩
            · refine ⟨?_, by show (List.set _ _ _).length = _; rw [List.length_set]; exact hlen⟩
              rw [hsd, hbs]
              exact hinv
          apply ih
          · exact hfin.1.of_sv (sv_addRec ..)
          · have : st (((tryList givePart w (w.sortedDown x) p).1.modDev x
                (fun d => { d with level := d.level - w.leafCount p, buf := d.buf.drop 1 })).addRec
                (.level x ((tryList givePart w (w.sortedDown x) p).1.modDev x
                (fun d => { d with level := d.level - w.leafCount p, buf := d.buf.drop 1 })).now
                (((tryList givePart w (w.sortedDown x) p).1.modDev x
                (fun d => { d with level := d.level - w.leafCount p, buf := d.buf.drop 1 })).dev x).level)) = st w := by
              rw [st_addRec, st_setBuf, hst]
            rw [kind_of_st this]; exact hk
          · apply hg.of_st
            · rw [st_addRec, st_setBuf, hst]
            · exact hfin.2

theorem part_valid {w : World} (h : InvW w) (x : Nat) : ∀ p, (w.dev x).part = some p → p < w.parts.length := by
  intro p hp
  exact held_valid h (lt_of_part hp) (by simp [SDev.held, sdev, hp])

theorem inv_passPart_source (w : World) (x : Nat) (hI : InvW w) (hg : GiveOK w x)
    (hk : (w.dev x).kind = .source) : InvW (w.passPart x) := by
  have h1 := inv_passHandler w x hI (by rw [hk]; decide) hg
  unfold World.passPart
  simp only [hk]
  repeat' split
  all_goals first
    | exact hI
    | exact h1
    | (refine InvW.steps (x := x) ?_ (steps_scheduleFinish _ x)
       refine h1.of_sv ?_
       rw [sv_addRec, sv_modDev_same]
       intro _; rfl)

theorem inv_passPart_buffer (w : World) (x : Nat) (hI : InvW w) (hg : GiveOK w x)
    (hk : (w.dev x).kind = .buffer) : InvW (w.passPart x) := by
  unfold World.passPart
  simp only [hk]
  have h1 := inv_bufferLoop ((w.dev x).buf.length + 1) w x hI hk hg
  refine h1.of_sv ?_
  rw [sv_notify]
  split
  · rfl
  · split
    · rw [sv_schedulePass]
    · rw [sv_setDev_same]; rfl

theorem inv_passPart_batcher (w : World) (x : Nat) (hI : InvW w) (hg : GiveOK w x)
    (hk : (w.dev x).kind = .batcher) : InvW (w.passPart x) := by
  unfold World.passPart
  simp only [hk]
  have h1 := inv_passHandler w x hI (by rw [hk]; decide) hg
  split
  · exact InvW.steps h1 (steps_tryMove _ x (part_valid h1 x))
  · exact h1

theorem inv_passPart (w : World) (x : Nat) (hI : InvW w) (hg : GiveOK w x) : InvW (w.passPart x) := by
  cases hk : (w.dev x).kind
  case source => exact inv_passPart_source w x hI hg hk
  case buffer => exact inv_passPart_buffer w x hI hg hk
  case batcher => exact inv_passPart_batcher w x hI hg hk
  case sink => unfold World.passPart; simp only [hk]; exact hI
  all_goals
    unfold World.passPart
    simp only [hk]
    exact inv_passHandler w x hI (by rw [hk]; decide) hg

/-! ### failure -/

theorem inv_failDev (w : World) (x : Nat) (hI : InvW w) (hk : (w.dev x).kind ≠ .sink) : InvW (w.failDev x) := by
  unfold World.failDev
  simp only []
  unfold InvW
  rw [sv_shutdownDev, sv_addRec, sv_releaseReserved]
  cases hp : (w.dev x).part with
  | none =>
    simp only []
    unfold World.modDev
    rw [sv_setDev_same]
    · exact hI
    · show sdev { (w.dev x) with part := none } = sdev (w.dev x)
      simp only [sdev, hp]
  | some p =>
    simp only []
    have hx : x < w.devs.length := lt_of_part hp
    have := inv_lose hI (sv_get w x hx) hk hp
    unfold World.modDev
    rw [sv_setDev]
    rw [← leaves_eq]
    exact this

end C02V
end SimProc
