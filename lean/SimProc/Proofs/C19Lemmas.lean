/-
Helper lemmas for C19 (sensor windows): list facts about "keep the last `c` entries" and the
one-step behaviour of `Sensor.collect` on a rectangular data table.
-/
import SimProc.Model.Sensor

namespace SimProc
namespace C19L

/-- Dropping all but the last `c` entries, after appending one entry. -/
theorem drop_snoc (c : Nat) (l : List α) (x : α) :
    (l ++ [x]).drop ((l ++ [x]).length - c) =
      if (l.drop (l.length - c)).length + 1 > c then (l.drop (l.length - c) ++ [x]).drop 1
      else l.drop (l.length - c) ++ [x] := by
  simp only [List.length_append, List.length_cons, List.length_nil, List.length_drop]
  split
  · next h =>
    have h1 : l.length + 1 - c = (l.length - c) + 1 := by omega
    have h2 : l.length - c ≤ l.length := by omega
    rw [h1, ← List.drop_drop, List.drop_append_of_le_length h2]
  · next h =>
    have h1 : l.length + 1 - c = 0 := by omega
    have h2 : l.length - c = 0 := by omega
    simp [h1, h2]

/-- zipping a table given by columns `f j` with a row of values. -/
theorem zip_snoc (n : Nat) (f : Nat → List Int) (vals : List Int) (hv : vals.length = n) :
    (((List.range n).map f).zip vals).map (fun (l, v) => l ++ [v]) =
      (List.range n).map (fun j => f j ++ [vals.getD j 0]) := by
  apply List.ext_getElem
  · simp [hv]
  · intro i h1 h2
    simp at h1 h2
    simp [List.getD_eq_getElem?_getD, List.getElem?_eq_getElem (show i < vals.length by omega)]

/-- One `collect` on a rectangular table whose columns all have length `L`. -/
theorem collect_data (s : Sensor) (n L : Nat) (f : Nat → List Int) (vals : List Int)
    (hd : s.data = (List.range n).map f) (hL : ∀ j, (f j).length = L) (hv : vals.length = n) :
    (s.collect vals).data =
      (List.range n).map (fun j =>
        if s.overCap (L + 1) then (f j ++ [vals.getD j 0]).drop 1 else f j ++ [vals.getD j 0]) := by
  simp only [Sensor.collect, hd, zip_snoc n f vals hv]
  cases n with
  | zero => simp
  | succ n =>
    have : ((List.map (fun j => f j ++ [vals.getD j 0]) (List.range (n + 1))).headD []).length = L + 1 := by
      simp [List.range_succ_eq_map, hL]
    rw [this]
    split <;> simp

end C19L
end SimProc
